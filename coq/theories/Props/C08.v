(* C08 — Queuing sink: every accepted metric reaches the wrapped sink once, in order.

   Pinned statements about Cadence.Model.Queue (small-step machine of queuing.rs).  [step true]
   is the repaired code (stop marker sent once, by the last handle; a full queue hands it to a
   helper thread), [step false] the pinned tree.  A history is ANY event list accepted by
   [run] from the initial state — all interleavings of any number of producers, clones, drops,
   the sampler, the helper and the background thread, for every capacity ([None] = unbounded,
   [Some 0] = rendezvous), with or without an error handler, and every outcome (accept, fail,
   panic) of every call of the wrapped sink.  The k-th accepted metric has identity k.

   Vocabulary (Cadence.Proofs.QueueInv / QueueLive):
     inflight w      the metric the worker holds ([m] for WHas (Some m) / WCounted m, else [])
     somes chan      the metrics in the channel, oldest first;  nones chan  the markers in it
     pending_ids s   inflight (q_wk s) ++ somes (q_chan s)
     worker_side ev  ev is EIncSubmitted, EWStep, EWDequeue, EPillSend or EWFinish _
     mu s            termination measure;  mu s < fuel_of s  always (c08_fuel)
     stuck true s    no background event is enabled in s
     answers ids outs  pairs each id with the scripted outcome (script exhausted = SOk)
     extends l l'    exists t, l' = l ++ t *)
Require Import Cadence.Base.Prelude.
Require Import Cadence.Model.Queue.
Require Import Cadence.Proofs.QueueInv.
Require Import Cadence.Proofs.QueueLive.
Require Import Cadence.Proofs.QueueV0.

(* the key invariant, at every moment of every history: what was delivered, then what the
   worker holds, then what is queued, is exactly 0,1,2,... up to the number accepted — nothing
   lost, nothing duplicated, global FIFO (hence every producer's own order) *)
Theorem c08_committed : forall cap handler evs s rs,
  run true (init_q cap handler) evs = Some (s, rs) ->
  map fst (q_delivered s) ++ inflight (q_wk s) ++ somes (q_chan s) = seq 0 (q_accepted s).
Proof. intros cap handler evs s rs R. exact (I_commit s (inv_reach _ _ _ _ _ R)). Qed.

(* the calls of the wrapped sink are a duplicate-free prefix of the acceptance order (the i-th
   call is for identity i); at most one metric is being processed at any time; no identity is
   at two places *)
Theorem c08_prefix : forall cap handler evs s rs,
  run true (init_q cap handler) evs = Some (s, rs) ->
  map fst (q_delivered s) = seq 0 (length (q_delivered s)) /\
  length (q_delivered s) <= q_accepted s /\
  NoDup (map fst (q_delivered s)) /\
  length (inflight (q_wk s)) <= 1 /\
  NoDup (map fst (q_delivered s) ++ inflight (q_wk s) ++ somes (q_chan s)).
Proof. exact reach_prefix. Qed.

(* while any handle is alive the worker has not exited and no stop marker exists anywhere
   (channel, helper thread, worker): dropping a clone never stops the shared worker *)
Theorem c08_alive : forall cap handler evs s rs,
  run true (init_q cap handler) evs = Some (s, rs) -> q_handles s <> 0 ->
  q_wk s <> WExited /\ q_wk s <> WHas None /\ nones (q_chan s) = 0 /\ q_pill_pending s = false.
Proof. exact reach_alive. Qed.

(* eventually: from every reachable state, for every outcome script [outs], letting the
   background side run ([quiesce], any fuel above [mu s]) is a continuation of the history by
   background events only; it ends with nothing left to do, every accepted identity delivered
   exactly once, in order, with exactly the scripted outcomes; handles and the acceptance
   count are untouched; the worker waits for more, or (no handle left) has exited *)
Theorem c08_eventually : forall cap handler evs s rs outs fuel,
  run true (init_q cap handler) evs = Some (s, rs) -> mu s < fuel ->
  let s' := quiesce true fuel s outs in
  (exists wevs wrs, Forall worker_side wevs /\ run true s wevs = Some (s', wrs) /\
                    run true (init_q cap handler) (evs ++ wevs) = Some (s', rs ++ wrs)) /\
  stuck true s' /\
  q_delivered s' = q_delivered s ++ answers (pending_ids s) outs /\
  map fst (q_delivered s') = seq 0 (q_accepted s) /\
  q_accepted s' = q_accepted s /\ q_handles s' = q_handles s /\
  q_chan s' = [] /\ q_pending_inc s' = 0 /\ q_pill_pending s' = false /\
  q_submitted s' = q_accepted s /\ q_drained s' = q_accepted s /\
  (q_handles s <> 0 -> q_wk s' = WRecv) /\
  (q_handles s = 0 -> q_wk s' = WExited /\ sink_released s' = true).
Proof. exact eventually. Qed.

(* the model's own [fuel_of] is always enough fuel *)
Theorem c08_fuel : forall s, mu s < fuel_of s.
Proof. exact mu_fuel_of. Qed.

Theorem c08_eventually_fuel_of : forall cap handler evs s rs outs,
  run true (init_q cap handler) evs = Some (s, rs) ->
  let s' := quiesce true (fuel_of s) s outs in
  (exists wevs wrs, Forall worker_side wevs /\ run true s wevs = Some (s', wrs)) /\
  map fst (q_delivered s') = seq 0 (q_accepted s) /\
  q_delivered s' = q_delivered s ++ answers (pending_ids s) outs /\
  (q_handles s = 0 -> q_wk s' = WExited /\ sink_released s' = true).
Proof. exact eventually_fuel_of. Qed.

(* any further events (either semantics) only extend the delivery log and never decrease the
   acceptance count; an accepted identity is always delivered, in the worker's hands or queued *)
Theorem c08_monotone : forall fixed s evs' s' rs',
  run fixed s evs' = Some (s', rs') ->
  extends (q_delivered s) (q_delivered s') /\ q_accepted s <= q_accepted s'.
Proof.
  intros fixed s evs' s' rs' R. destruct (run_mono _ _ _ _ _ R). auto.
Qed.

Theorem c08_never_lost : forall cap handler evs s rs i,
  run true (init_q cap handler) evs = Some (s, rs) -> i < q_accepted s ->
  In i (map fst (q_delivered s) ++ inflight (q_wk s) ++ somes (q_chan s)).
Proof. exact reach_not_lost. Qed.

(* ROk results are exactly the acceptances: identities 0 .. count_ok rs - 1 exist *)
Theorem c08_accepted_are_oks : forall cap handler evs s rs,
  run true (init_q cap handler) evs = Some (s, rs) ->
  q_accepted s = count_ok rs /\ length rs = length evs.
Proof.
  intros cap handler evs s rs R. destruct (run_accepted _ _ _ _ _ R) as [A B]. cbn in A. auto.
Qed.

(* the macro-step view used by the correspondence harness ([acts]: one scripted action, then
   the internal steps that need no decision of the environment) only visits reachable states of
   the small-step machine, so every theorem of this file applies to what the harness observes;
   after each action no internal step is left enabled *)
Theorem c08_harness_view : forall cap handler l,
  let s := fst (acts true (init_q cap handler) l) in
  (exists evs rs, run true (init_q cap handler) evs = Some (s, rs)) /\
  map fst (q_delivered s) ++ inflight (q_wk s) ++ somes (q_chan s) = seq 0 (q_accepted s).
Proof.
  intros cap handler l s. destruct (acts_reach cap handler l) as (evs & rs & R & HI).
  split; [exists evs, rs; exact R | exact (I_commit _ HI)].
Qed.

Theorem c08_settled : forall fixed s, internal_step fixed (settle fixed (fuel_of s) s) = None.
Proof. intros fixed s. apply settle_done. apply mu_fuel_of. Qed.

(* the pinned tree violates C08 (defect D2), for every capacity except rendezvous and every
   handler setting: a clone is dropped, the shared worker takes its marker and exits; the emit
   on the surviving handle returns Ok (identity 0) and is never delivered — under ANY
   continuation of the history, and in particular after [quiesce] with any fuel and script *)
Theorem c08_refuted_v0 : forall cap handler, cap <> Some 0 ->
  exists s, run false (init_q cap handler) [EClone; EDropH; EWDequeue; EWStep; ETrySend]
              = Some (s, [RNone; RNone; RNone; RNone; ROk]) /\
    q_handles s = 1 /\ q_accepted s = 1 /\ q_delivered s = [] /\
    (forall evs' s' rs', run false s evs' = Some (s', rs') -> q_delivered s' = [] /\ q_wk s' = WExited) /\
    (forall fuel outs, q_delivered (quiesce false fuel s outs) = []).
Proof. exact c08_refuted. Qed.

(* the same defect when the emit comes before the worker has seen the marker *)
Example c08_refuted_v0_early :
  match run false (init_q None false) [EClone; EDropH; ETrySend] with
  | Some (s, rs) =>
    let s' := quiesce false (fuel_of s) s [] in
    (rs, q_handles s', q_accepted s', q_chan s', q_wk s', q_delivered s', internal_step false s')
    = ([RNone; RNone; ROk], 1, 1, [Some 0], WExited, [], None)
  | None => False
  end.
Proof. vm_compute. reflexivity. Qed.

(* capacity 0: the defect shows differently — the worker exits on the clone's marker and every
   later emit on the surviving handle is refused for ever (nobody waits in recv any more) *)
Example c08_refuted_v0_cap0 :
  match run false (init_q (Some 0) false) [EClone; EDropH; EWStep; ETrySend; ETrySend] with
  | Some (s, rs) => (rs, q_handles s, q_wk s, room s) =
                    ([RNone; RNone; RNone; RFull; RFull], 1, WExited, false)
  | None => False
  end.
Proof. vm_compute. reflexivity. Qed.

(* ... which the repaired semantics delivers *)
Example c08_repaired_same_history :
  match run true (init_q None false) [EClone; EDropH; ETrySend] with
  | Some (s, rs) =>
    let s' := quiesce true (fuel_of s) s [] in
    (rs, q_handles s', q_chan s', q_wk s', q_delivered s') = ([RNone; RNone; ROk], 1, [], WRecv, [(0, SOk)])
  | None => False
  end.
Proof. vm_compute. reflexivity. Qed.

(* non-vacuity: capacity 2, two handles, a refused emit, an error, the last drop while the
   queue is full (helper thread pending), then a panic, an accept and an error *)
Example c08_witness :
  match run true (init_q (Some 2) true)
            [ETrySend; EClone; ETrySend; EWDequeue; EWStep; ETrySend; ETrySend; EDropH;
             EIncSubmitted; EWFinish (SErr 7); EWDequeue; ETrySend; EDropH] with
  | Some (s, rs) =>
    let s' := quiesce true (fuel_of s) s [SPanic; SOk; SErr 3] in
    (rs, q_chan s, q_handles s, q_pill_pending s, q_wk s, q_accepted s, q_delivered s) =
    ([ROk; RNone; ROk; RNone; RNone; ROk; RFull; RNone; RNone; RNone; RNone; ROk; RNone],
     [Some 2; Some 3], 0, true, WHas (Some 1), 4, [(0, SErr 7)]) /\
    (q_chan s', q_wk s', q_delivered s', sink_released s') =
    ([], WExited, [(0, SErr 7); (1, SPanic); (2, SOk); (3, SErr 3)], true)
  | None => False
  end.
Proof. vm_compute. split; reflexivity. Qed.

(* ==== added after the audit of 2026-10-02 (selftest/audit/REPORT-2026-10-02.md) ==== *)
Require Import Cadence.Proofs.AuditQ.

(* [stuck true s] (used by c08_eventually and below) means exactly: NO background event -
   bookkeeping increment, worker step, dequeue, helper send, completion with any outcome - is
   enabled in s.  And a state is stuck or some background event is enabled, so a background
   schedule that does not end in a stuck state can be prolonged: maximal = ends stuck. *)
Theorem c08_stuck_iff : forall fixed s,
  stuck fixed s <-> forall ev, worker_side ev -> step fixed s ev = None.
Proof. exact stuck_iff. Qed.

Theorem c08_stuck_or_progress : forall fixed s,
  stuck fixed s \/ exists ev s', worker_side ev /\ step fixed s ev = Some (s', RNone).
Proof. exact stuck_or_progress. Qed.

(* liveness for EVERY background schedule, not only the [quiesce] scheduler: in every reachable
   state every enabled background event strictly decreases the measure [mu] (so no infinite
   background schedule exists), and when no background event is enabled everything accepted has
   been delivered once, in order, the counters agree, and the worker waits (a handle is alive)
   or has exited with the wrapped sink released (no handle left) *)
Theorem c08_any_background_schedule : forall cap handler evs s rs,
  run true (init_q cap handler) evs = Some (s, rs) ->
  (forall ev s' r, worker_side ev -> step true s ev = Some (s', r) -> mu s' < mu s) /\
  (stuck true s ->
     pending_ids s = [] /\ map fst (q_delivered s) = seq 0 (q_accepted s) /\
     q_submitted s = q_accepted s /\ q_drained s = q_accepted s /\ queued_now s = 0 /\
     q_chan s = [] /\ q_pending_inc s = 0 /\ q_pill_pending s = false /\
     (q_handles s <> 0 -> q_wk s = WRecv) /\
     (q_handles s = 0 -> q_wk s = WExited /\ sink_released s = true)).
Proof. exact any_background_schedule. Qed.

(* the corollary: ANY sequence [wevs] of background events from a reachable state s - any order
   of the threads, any outcomes of the wrapped sink ([finish_outs wevs] = the outcomes its
   completions carry, in order) - is at most [mu s] (< fuel_of s) events long, continues the
   history, leaves handles and the acceptance count alone, only extends the delivery log, by
   exactly those outcomes; it can be prolonged unless it ends stuck; and if it ends stuck then
   exactly the metrics pending in s were delivered, each once, in order, with exactly those
   outcomes: everything accepted is delivered in acceptance order *)
Theorem c08_every_background_schedule : forall cap handler evs s rs wevs s' wrs,
  run true (init_q cap handler) evs = Some (s, rs) ->
  Forall worker_side wevs -> run true s wevs = Some (s', wrs) ->
  length wevs + mu s' <= mu s /\ length wevs < fuel_of s /\
  run true (init_q cap handler) (evs ++ wevs) = Some (s', rs ++ wrs) /\
  q_accepted s' = q_accepted s /\ q_handles s' = q_handles s /\
  extends (q_delivered s) (q_delivered s') /\
  map snd (q_delivered s') = map snd (q_delivered s) ++ finish_outs wevs /\
  (stuck true s' \/ exists ev s'', worker_side ev /\ step true s' ev = Some (s'', RNone)) /\
  (stuck true s' ->
     length (finish_outs wevs) = length (pending_ids s) /\
     q_delivered s' = q_delivered s ++ combine (pending_ids s) (finish_outs wevs) /\
     map fst (q_delivered s') = seq 0 (q_accepted s) /\
     q_submitted s' = q_accepted s /\ q_drained s' = q_accepted s /\ queued_now s' = 0 /\
     q_chan s' = [] /\ q_pending_inc s' = 0 /\ q_pill_pending s' = false /\
     (q_handles s <> 0 -> q_wk s' = WRecv) /\
     (q_handles s = 0 -> q_wk s' = WExited /\ sink_released s' = true)).
Proof. exact every_background_schedule. Qed.

(* the scheduling order of the background threads is unobservable: two maximal background
   schedules with the same outcomes end with the same log, counters, channel and worker state *)
Theorem c08_background_schedules_agree : forall cap handler evs s rs wevs1 s1 wrs1 wevs2 s2 wrs2,
  run true (init_q cap handler) evs = Some (s, rs) ->
  Forall worker_side wevs1 -> run true s wevs1 = Some (s1, wrs1) -> stuck true s1 ->
  Forall worker_side wevs2 -> run true s wevs2 = Some (s2, wrs2) -> stuck true s2 ->
  finish_outs wevs1 = finish_outs wevs2 ->
  q_delivered s1 = q_delivered s2 /\ q_submitted s1 = q_submitted s2 /\
  q_drained s1 = q_drained s2 /\ q_wk s1 = q_wk s2 /\ q_chan s1 = q_chan s2 /\
  q_handles s1 = q_handles s2 /\ q_accepted s1 = q_accepted s2.
Proof. exact background_schedules_agree. Qed.

(* non-vacuity: from the state of [c08_witness] two different maximal schedules, neither in the
   order [quiesce] uses, with the same outcomes: same final state *)
Example c08_every_background_schedule_witness :
  match run true (init_q (Some 2) true)
            [ETrySend; EClone; ETrySend; EWDequeue; EWStep; ETrySend; ETrySend; EDropH;
             EIncSubmitted; EWFinish (SErr 7); EWDequeue; ETrySend; EDropH] with
  | Some (s, _) =>
    let w1 := [EWStep; EWFinish SPanic; EWDequeue; EPillSend; EIncSubmitted; EWStep; EIncSubmitted;
               EWFinish SOk; EWDequeue; EWStep; EWFinish (SErr 3); EIncSubmitted; EWDequeue; EWStep] in
    let w2 := [EIncSubmitted; EWStep; EIncSubmitted; EIncSubmitted; EWFinish SPanic; EWDequeue;
               EWStep; EWFinish SOk; EPillSend; EWDequeue; EWStep; EWFinish (SErr 3); EWDequeue; EWStep] in
    match run true s w1, run true s w2 with
    | Some (s1, _), Some (s2, _) =>
      (mu s, pending_ids s, internal_step true s1, internal_step true s2, q_wk s1, q_wk s2) =
      (20, [1; 2; 3], None, None, WExited, WExited) /\
      q_delivered s1 = [(0, SErr 7); (1, SPanic); (2, SOk); (3, SErr 3)] /\
      q_delivered s2 = q_delivered s1 /\ finish_outs w1 = finish_outs w2 /\
      s1 = s2
    | _, _ => False
    end
  | None => False
  end.
Proof. exact every_background_schedule_witness. Qed.

(* the OBSERVATIONS of the harness-level view (what the correspondence harness compares), not
   only its states: an action other than ASample is its small-step event ([event_of]) followed
   by [settle]; its observation is that event's result and never a sample; when the event is
   not enabled the answer is RNone / no sample and the state is unchanged *)
Theorem c08_act_spec : forall fixed s a ev, event_of a = Some ev ->
  match step fixed s ev with
  | Some (s1, r) => act fixed s a = (settle fixed (fuel_of s1) s1, {| ob_result := r; ob_sample := None |})
  | None => act fixed s a = (s, {| ob_result := RNone; ob_sample := None |})
  end.
Proof. exact act_spec. Qed.

(* a script: one observation per action; the ROk observations are exactly the acceptances;
   samples appear exactly at the ASample positions; only an emit answers anything but RNone *)
Theorem c08_acts_obs : forall fixed l s,
  length (snd (acts fixed s l)) = length l /\
  q_accepted (fst (acts fixed s l)) = q_accepted s + count_ok (map ob_result (snd (acts fixed s l))) /\
  Forall2 (fun a o => (a = ASample <-> ob_sample o <> None) /\
                      (ob_result o <> RNone -> a = AEmit)) l (snd (acts fixed s l)).
Proof. exact acts_obs. Qed.

(* Note after the second read-only review of these pins (selftest/audit/REVIEW-2-2026-10-02.md): c08_act_spec / c15_sample_obs unfold Queue.act (they pin the harness's view); c08_stuck_or_progress is the decidability of 'stuck' (its information is that worker-side steps answer RNone). *)
