(* model: hostile *)
(* include: wireparse *)
(* model side of harness bin `hostile` (formats: harness/src/hostile.rs): which calls hand a line to the sink and
   which are rejected as invalid input; wrapped statistics; the writer's results *)

let rec n_of_decimal_string s = n_of_dec s

let run_h t =
  match t with
  | _ :: _sink :: prefix :: dtags :: dcid :: n :: rest ->
    let cfg = { c_prefix = unhex0 prefix; c_tags = parse_dtags dtags;
                c_container = (if dcid = "~" then None else Some (unhex0 dcid)) } in
    let n = int_of_string n in
    let rec go i rest acc zacc =
      if i = n then (List.rev acc, List.rev zacc) else
      match rest with
      | _form :: kind :: arg :: key :: ops :: rest' ->
        let c = { k_kind = parse_kind kind; k_key = unhex0 key; k_arg = parse_arg arg; k_ops = parse_ops ops } in
        let r = match client_line cfg c with
          | None -> "notype" | Some (Inl _) -> "einv" | Some (Inr _) -> "sent" in
        (* the size hint of builder.rs, computed with checked arithmetic ("overflow" = the code would panic) *)
        let z = match call_hint cfg c with
          | None -> "-" | Some None -> "overflow" | Some (Some h) -> dec_of_n h in
        go (i + 1) rest' (r :: acc) (z :: zacc)
      | _ -> failwith "short H case" in
    let (rs, zs) = go 0 rest [] [] in
    String.concat "," rs ^ "|Z:" ^ String.concat "," zs
  | _ -> failwith "bad H case"

let dec_of_big n = dec_of_n n

let run_case line =
  let t = tokens line in
  match t with
  | "H" :: _ -> run_h t
  | ["HS"; ups] ->
    let res = ref [] in
    let st = List.fold_left (fun st u ->
      match String.split_on_char '/' u with
      | [r; len] ->
        let len = n_of_dec len in
        if r.[0] = 'k' then begin
          res := "ok" :: !res;
          update st { at_len = len; at_res = Some (n_of_dec (String.sub r 1 (String.length r - 1))) } end
        else begin
          res := "eio" :: !res;
          update st { at_len = len; at_res = None } end
      | _ -> failwith ("bad update " ^ u)) stats0 (split_on ',' ups) in
    Printf.sprintf "%s|S:%s.%s.%s.%s" (String.concat "," (List.rev !res))
      (dec_of_big st.bytes_sent) (dec_of_big st.packets_sent) (dec_of_big st.bytes_dropped) (dec_of_big st.packets_dropped)
  | ["HQ"; _; _] -> "ok:le|F:true"
  | ["HW"; cap; ending; ops] ->
    let ops = List.map (fun o ->
      if o = "F" then Flush else Emit (unhex (String.sub o 1 (String.length o - 1)))) (split_on ',' ops) in
    let (rs, _) = run (nat_of_int (int_of_string cap)) (unhex ending) [] ops in
    let rec cut = function [] -> [] | OPanic :: _ -> ["panic"] | OOk _ :: r -> "ok" :: cut r | _ :: r -> "eio" :: cut r in
    let l = cut rs in
    if List.mem "panic" l then "panic" else String.concat "," l
  | _ -> failwith ("bad hostile case: " ^ line)

(* the H cases as Gallina equations (kernel cross-check of the extracted client model and size hint) *)
let coq_header =
  "Require Import Cadence.Base.Prelude Cadence.Model.Convert Cadence.Model.Wire Cadence.Model.Client Cadence.Model.Hint.\n"

let coq_case line =
  if String.length line > 1200 then None else
  match tokens line with
  | "H" :: _sink :: prefix :: dtags :: dcid :: n :: rest ->
    let cfg = { c_prefix = unhex0 prefix; c_tags = parse_dtags dtags;
                c_container = (if dcid = "~" then None else Some (unhex0 dcid)) } in
    let rec calls k rest acc =
      if k = 0 then List.rev acc else
      match rest with
      | _form :: kind :: arg :: key :: ops :: rest' ->
        calls (k - 1) rest' ({ k_kind = parse_kind kind; k_key = unhex0 key; k_arg = parse_arg arg; k_ops = parse_ops ops } :: acc)
      | _ -> failwith "short H case" in
    let cs = calls (int_of_string n) rest [] in
    let g_call c = "{| k_kind := " ^ g_kind c.k_kind ^ "; k_key := " ^ g_str c.k_key ^
                   "; k_arg := " ^ g_arg c.k_arg ^ "; k_ops := " ^ g_lst "bop" g_bop c.k_ops ^ " |}" in
    let g_cfg = Printf.sprintf "{| c_prefix := %s; c_tags := %s; c_container := %s |}"
        (g_str cfg.c_prefix) (g_lst "tag" g_tag cfg.c_tags) (g_option g_str cfg.c_container) in
    let g_line = function
      | None -> "None"
      | Some (Inl e) -> "(Some (inl " ^ g_merr e ^ "))"
      | Some (Inr l) -> "(Some (inr " ^ g_str l ^ "))" in
    let g_hint = function
      | None -> "None" | Some None -> "(Some None)" | Some (Some h) -> "(Some (Some " ^ g_N h ^ "))" in
    Some (Printf.sprintf "map (fun c => (client_line %s c, call_hint %s c)) %s = %s" g_cfg g_cfg (g_lst "call" g_call cs)
            (g_lst "(option (merror + list N) * option (option N))"
               (fun c -> g_pair (g_line (client_line cfg c)) (g_hint (call_hint cfg c))) cs))
  | _ -> None
