(* C20 — No input makes the library panic.

   Pinned statements.  Every model of this development makes the places where the code could
   panic arithmetically explicit: the writer returns [OPanic] when `capacity - written`
   would underflow, the size hints of builder.rs are computed with checked arithmetic
   ([None] = overflow / underflow panic), queued() subtracts only behind its guard, the
   Duration conversions compare in 128 bits before narrowing, the statistics counters wrap.
   The theorems say that none of these is reachable: for ALL capacities (0 and 1 included),
   terminators, histories and fault scripts; for ALL strings (empty, long, non-ASCII,
   delimiter-laden), numbers, Durations and packed lists; and that invalid values are
   reported as InvalidInput (a user-defined value type whose conversion fails: as the error it
   returned) while everything else is sent.

   What is proved is the absence of arithmetic panics and of unwraps on None in the modelled
   cores.  lock().unwrap() (needs a panic under the lock, which these theorems exclude for
   library code), std's own internals, allocation failure and capacities beyond addressable
   memory are validated by the hostile stream of the correspondence check or excluded
   (DESIGN.md 8.C20). *)
Require Import Cadence.Base.Prelude.
Require Import Cadence.Base.MachineInt.
Require Import Cadence.Model.Convert.
Require Import Cadence.Model.Wire.
Require Import Cadence.Model.Client.
Require Import Cadence.Model.Hint.
Require Import Cadence.Model.Writer.
Require Import Cadence.Model.Stats.
Require Import Cadence.Model.Queue.
Require Import Cadence.Proofs.WriterBase.
Require Import Cadence.Proofs.WriterInv.
Require Import Cadence.Proofs.WriterRun.
Require Import Cadence.Proofs.WriterThms.
Require Import Cadence.Proofs.WireProofs.
Require Import Cadence.Proofs.ConvertProofs.
Require Import Cadence.Proofs.HintProofs.
Require Import Cadence.Proofs.QueueInv.
Require Import Cadence.Props.C01.

(* io.rs: `capacity - written` never underflows — written <= capacity is an invariant of
   every reachable state, so no emit or flush ever panics, whatever the capacity (0, 1, ...),
   the terminator, the history and the faults of the underlying writer *)
Theorem c20_writer : forall c e script ops rs s,
  Writer.run_from (Writer.init c e script) 0 ops = (rs, s) ->
  written s <= cap s /\ length (bbuf s) <= cap s /\ Forall (fun x => x <> OPanic) rs.
Proof.
  intros c e script ops rs s H.
  destruct (reach_inv _ _ _ _ _ _ H) as (I & _).
  split; [apply I|]. split; [now apply inv_len|].
  destruct (results_sound _ _ _ _ _ _ H) as (_ & _ & N).
  apply Forall_forall. intros x Hin Hx. subst x.
  destruct (In_nth_error _ _ Hin) as [i Hi]. exact (N i OPanic Hi).
Qed.

(* ... and the drop (BufWriter::drop = flush_buf, result ignored) has no panicking branch *)
Theorem c20_writer_drop : forall s op, fst (flush_buf s op) <> RPanic.
Proof.
  intros s op. unfold flush_buf. destruct (bbuf s); [discriminate|].
  generalize (S (length (sc s))). intros fuel. revert s.
  induction fuel as [|f IH]; intros s; cbn [flush_loop];
    destruct (under s (bbuf s) (Lines (bids s)) op) as [[|er|] s']; try discriminate; apply IH.
Qed.

(* client.rs / builder.rs: every well-typed call is answered — a line or an error (InvalidInput,
   or the error a user-defined value type returned from its own conversion), never
   stuck — for arbitrary prefixes, keys, tags, container ids and values *)
Theorem c20_call_total : forall cfg c,
  to_value (k_kind c) (k_arg c) <> None ->
  (exists e, client_line cfg c = Some (inl e) /\ (e = EInvalid \/ k_arg c = AUserErr e)) \/
  exists l, client_line cfg c = Some (inr l).
Proof.
  intros cfg c H. destruct (c01_total cfg c) as (_ & E & Z & L).
  destruct (to_value (k_kind c) (k_arg c)) as [[e|v]|] eqn:T; [| |congruence].
  - left. exists e. exact (E e eq_refl).
  - destruct (mv_count v) eqn:M; [left; exists EInvalid; split; [exact (Z v eq_refl M)|left; reflexivity]
                                 |right; apply (L v eq_refl); lia].
Qed.

(* invalid values are reported as errors and everything else is sent: a call is rejected
   exactly when its conversion fails -- a Duration count does not fit in 64 bits, or a
   user-defined value type returned an error -- or a packed list is empty; the error is
   InvalidInput except for the error of a user-defined conversion, which is reported as it is *)
Theorem c20_invalid_iff : forall cfg c,
  to_value (k_kind c) (k_arg c) <> None ->
  (client_line cfg c = Some (inl EInvalid) <->
   to_value (k_kind c) (k_arg c) = Some (inl EInvalid) \/
   (exists v, to_value (k_kind c) (k_arg c) = Some (inr v) /\ mv_count v = 0)) /\
  ((exists e, client_line cfg c = Some (inl e)) <->
   (exists e, to_value (k_kind c) (k_arg c) = Some (inl e)) \/
   (exists v, to_value (k_kind c) (k_arg c) = Some (inr v) /\ mv_count v = 0)) /\
  (forall e, to_value (k_kind c) (k_arg c) = Some (inl e) ->
     client_line cfg c = Some (inl e) /\ (e = EInvalid \/ k_arg c = AUserErr e)).
Proof.
  intros cfg c H. destruct (c01_total cfg c) as (_ & E & Z & L).
  destruct (to_value (k_kind c) (k_arg c)) as [[e|v]|] eqn:T; [| |congruence].
  - destruct (E e eq_refl) as [Ee Ek]. split; [|split].
    + split; [intros C; left; congruence|intros [C|[v [C _]]]; [congruence|discriminate]].
    + split; [intros _; left; eauto|intros _; eauto].
    + intros e' He'. inversion He'; subst. split; assumption.
  - split; [|split; [|intros e He; discriminate]]; destruct (mv_count v) eqn:M.
    + split; [intros _; right; eauto|intros _; exact (Z v eq_refl M)].
    + split.
      * intros C. destruct (L v eq_refl) as [l Hl]; [lia|]. congruence.
      * intros [He|[v' [Hv Hc]]]; [discriminate|]. inversion Hv; subst. lia.
    + split; [intros _; right; eauto|intros _; exists EInvalid; exact (Z v eq_refl M)].
    + split.
      * intros [e C]. destruct (L v eq_refl) as [l Hl]; [lia|]. congruence.
      * intros [[e He]|[v' [Hv Hc]]]; [discriminate|]. inversion Hv; subst. lia.
Qed.

(* the Duration guards: a count is narrowed to u64 only when it fits, so the cast is lossless *)
Theorem c20_duration_cast : forall f d v,
  conv_dur f d = inr v -> v = Unsigned (f d) /\ (f d < 2 ^ 64)%N.
Proof.
  intros f d v. unfold conv_dur, u64_max, cast_u64.
  destruct (N.ltb_spec (2 ^ 64 - 1) (f d)) as [L|L]; [discriminate|].
  intros H; inversion H; subst. assert (f d < 2 ^ 64)%N by lia.
  split; [|assumption]. now rewrite N.mod_small.
Qed.

(* builder.rs: the size-hint arithmetic neither overflows nor underflows, and the hint is a
   capacity String::with_capacity accepts, whenever the caller's strings, ten bytes per value
   and one per tag stay below 2^63 — i.e. for everything a 64-bit process can hold *)
Theorem c20_hint : forall f,
  (arg_bytes f + 10 * N.of_nat (mv_count (f_val f)) + N.of_nat (length (f_tags f)) + 40 < 2 ^ 63)%N ->
  exists h, size_hint f = Some h /\ (h < 2 ^ 63)%N.
Proof.
  intros f H. destruct (hint_never_panics f H) as (h & A & B & _). exists h. split; assumption.
Qed.

(* queuing.rs: queued() subtracts only behind its guard — whatever the interleaving of its two
   loads with producers and worker, the value is the exact difference or 0, never a wrap *)
Theorem c20_queued : forall fixed s s' r,
  step fixed s ESampleB = Some (s', r) ->
  exists (sub q : nat), q_samp s = Some sub /\
    ((q_drained s < sub /\ q + q_drained s = sub) \/ (sub <= q_drained s /\ q = 0))%nat.
Proof.
  intros fixed s s' r H. destruct (sampleb_spec _ _ _ _ H) as (sub & q & A & _ & _ & B).
  exists sub, q. split; assumption.
Qed.

(* core.rs: the counters wrap (fetch_add), they never panic and stay 64-bit values *)
Theorem c20_stats_wrap : forall st a,
  let st' := update st a in
  (bytes_sent st' < 2 ^ 64 /\ packets_sent st' < 2 ^ 64 /\
   bytes_dropped st' < 2 ^ 64 /\ packets_dropped st' < 2 ^ 64)%N \/
  (at_res a = None /\ bytes_sent st' = bytes_sent st /\ packets_sent st' = packets_sent st) \/
  (at_res a <> None /\ bytes_dropped st' = bytes_dropped st /\ packets_dropped st' = packets_dropped st).
Proof.
  intros st a. cbv zeta. unfold update, update_incrs.
  destruct (at_res a) as [w|]; cbn [fold_left apply_incr bytes_sent packets_sent bytes_dropped packets_dropped].
  - right; right. repeat split. discriminate.
  - right; left. repeat split.
Qed.

(* non-vacuity: capacity 0 and 1 with empty and oversized metrics, an empty packed list, a
   hint with every section *)
Example c20_witness :
  (fst (Writer.run 0 [10%N] [WErr 3%N] [Emit []; Emit [1%N]; Flush; Emit []]),
   fst (Writer.run 1 [] [] [Emit []; Emit [1%N]; Emit [1%N; 2%N]; Flush]),
   client_line {| c_prefix := []; c_tags := []; c_container := None |}
               {| k_kind := Timer; k_key := []; k_arg := AVecU64 []; k_ops := [] |},
   size_hint {| f_prefix := [1]; f_key := []; f_val := PackedUnsigned [1; 2; 3]; f_kind := Timer;
                f_tags := [(Some [1], [2; 3]); (None, [])]; f_timestamp := Some 5; f_rate := Some [49];
                f_container := Some [7; 7] |})%N
  = ([OErr 3%N; OOk 1; OOk 0; OOk 0], [OOk 0; OOk 1; OOk 2; OOk 0], Some (inl EInvalid), Some 77%N).
Proof. vm_compute. reflexivity. Qed.

(* ==== added after the audit of 2026-10-02 (selftest/audit/REPORT-2026-10-02.md) ==== *)
(* ------------------------------------------------------------------ audit A.1 / A.5 additions *)
Require Import Cadence.Proofs.WireDefs.
Require Import Cadence.Proofs.AuditS.

(* core.rs: what the counters' addition IS - fetch_add, addition modulo 2^64.  A model whose
   wadd were plain addition fails this theorem (and c20_wadd_wraps, c20_wadd_max_one) *)
Theorem c20_wadd_is_add_mod : forall a b : N, wadd a b = ((a + b) mod 2 ^ 64)%N.
Proof. exact wadd_is_add_mod. Qed.

(* the result of an increment is always a 64-bit value *)
Theorem c20_wadd_bounded : forall a b : N, (wadd a b < 2 ^ 64)%N.
Proof. exact wadd_bounded_pow. Qed.

(* it is the true sum while that fits, and the true sum minus 2^64 - one wrap, no panic - when
   two 64-bit operands overflow *)
Theorem c20_wadd_exact : forall a b : N, (a + b < 2 ^ 64)%N -> wadd a b = (a + b)%N.
Proof. exact wadd_exact. Qed.
Theorem c20_wadd_wraps : forall a b : N,
  (a < 2 ^ 64)%N -> (b < 2 ^ 64)%N -> (2 ^ 64 <= a + b)%N -> wadd a b = (a + b - 2 ^ 64)%N.
Proof. exact wadd_wraps. Qed.
Example c20_wadd_max_one : wadd (2 ^ 64 - 1) 1 = 0%N.
Proof. vm_compute. reflexivity. Qed.

(* SocketStats::update spelled out: an accepted attempt adds the bytes written and one packet to
   the sent counters, a refused one the bytes offered and one packet to the dropped counters,
   each modulo 2^64; the other two counters are untouched *)
Theorem c20_stats_update : forall st a,
  update st a =
  match at_res a with
  | Some w => {| bytes_sent := (bytes_sent st + w) mod 2 ^ 64;
                 packets_sent := (packets_sent st + 1) mod 2 ^ 64;
                 bytes_dropped := bytes_dropped st; packets_dropped := packets_dropped st |}
  | None => {| bytes_sent := bytes_sent st; packets_sent := packets_sent st;
               bytes_dropped := (bytes_dropped st + at_len a) mod 2 ^ 64;
               packets_dropped := (packets_dropped st + 1) mod 2 ^ 64 |}
  end%N.
Proof. exact update_spec. Qed.

(* all four counters stay 64-bit values across one update (this is the statement c20_stats_wrap
   was meant to make: its first disjunct, unconditionally) ... *)
Theorem c20_stats_wf : forall st a,
  (bytes_sent st < 2 ^ 64 /\ packets_sent st < 2 ^ 64 /\
   bytes_dropped st < 2 ^ 64 /\ packets_dropped st < 2 ^ 64)%N ->
  let st' := update st a in
  (bytes_sent st' < 2 ^ 64 /\ packets_sent st' < 2 ^ 64 /\
   bytes_dropped st' < 2 ^ 64 /\ packets_dropped st' < 2 ^ 64)%N.
Proof. exact stats_wf_update. Qed.

(* ... across any list of attempts ... *)
Theorem c20_stats_wf_updates : forall (l : list attempt1) st,
  (bytes_sent st < 2 ^ 64 /\ packets_sent st < 2 ^ 64 /\
   bytes_dropped st < 2 ^ 64 /\ packets_dropped st < 2 ^ 64)%N ->
  let st' := updates st l in
  (bytes_sent st' < 2 ^ 64 /\ packets_sent st' < 2 ^ 64 /\
   bytes_dropped st' < 2 ^ 64 /\ packets_dropped st' < 2 ^ 64)%N.
Proof. exact stats_wf_updates. Qed.

(* ... hence always, for a sink whose counters started at zero *)
Theorem c20_stats_wf_from_zero : forall l : list attempt1,
  let st := updates stats0 l in
  (bytes_sent st < 2 ^ 64 /\ packets_sent st < 2 ^ 64 /\
   bytes_dropped st < 2 ^ 64 /\ packets_dropped st < 2 ^ 64)%N.
Proof. exact stats_wf_from_zero. Qed.

(* a history that does wrap: 2^64 - 1 bytes sent, then 2 more, then a refused attempt *)
Example c20_stats_wrap_witness :
  let st := updates stats0 [ {| at_len := 2 ^ 64 - 1; at_res := Some (2 ^ 64 - 1) |};
                             {| at_len := 2; at_res := Some 2 |};
                             {| at_len := 7; at_res := None |} ]%N in
  (bytes_sent st, packets_sent st, bytes_dropped st, packets_dropped st) = (1, 2, 7, 1)%N.
Proof. vm_compute. reflexivity. Qed.

(* builder.rs, the EXECUTED root: for the formatter f that `build` hands to format, call_hint
   computes the hint without an arithmetic panic, the hint is hint_value f, and it is a capacity
   String::with_capacity accepts *)
Theorem c20_call_hint : forall cfg c f, build cfg c = Some (inr f) ->
  (arg_bytes f + 10 * N.of_nat (mv_count (f_val f)) + N.of_nat (length (f_tags f)) + 40 < 2 ^ 63)%N ->
  call_hint cfg c = Some (Some (hint_value f)) /\ (hint_value f < 2 ^ 63)%N.
Proof. exact call_hint_ok. Qed.

(* a hint is computed exactly for the calls that get as far as a line: the well-typed calls with
   at least one value; an invalid call reports its error before any hint arithmetic *)
Theorem c20_call_hint_defined : forall cfg c,
  call_hint cfg c <> None <-> exists l, client_line cfg c = Some (inr l).
Proof. exact call_hint_defined. Qed.
Theorem c20_call_hint_defined_iff_value : forall cfg c,
  call_hint cfg c <> None <->
  exists v, to_value (k_kind c) (k_arg c) = Some (inr v) /\ mv_count v <> 0.
Proof. exact call_hint_defined_iff_value. Qed.

(* the exact answer of the root with no size hypothesis at all: the checked arithmetic panics
   (Some None) exactly when the hint itself does not fit in 64 bits - the intermediate sums and
   the `- 1` of tag_size_hint never fail on their own *)
Theorem c20_size_hint_exact : forall f,
  size_hint f = if (hint_value f <? 2 ^ 64)%N then Some (hint_value f) else None.
Proof. exact size_hint_exact. Qed.
Theorem c20_call_hint_exact : forall cfg c,
  call_hint cfg c =
  match build cfg c with
  | Some (inr f) => Some (if (hint_value f <? 2 ^ 64)%N then Some (hint_value f) else None)
  | _ => None
  end.
Proof. exact call_hint_exact. Qed.

(* the same in terms of what the CALLER supplied (AuditS.call_bytes: bytes of the prefix, the key,
   all tags - defaults and the call's own - and the container id in force): below 2^63 in total,
   no call panics in the hint arithmetic *)
Theorem c20_call_hint_never_panics : forall cfg c v,
  to_value (k_kind c) (k_arg c) = Some (inr v) -> mv_count v <> 0 ->
  (call_bytes cfg c + 10 * N.of_nat (mv_count v)
     + N.of_nat (length (c_tags cfg ++ op_tags (k_ops c))) + 41 < 2 ^ 63)%N ->
  exists h, call_hint cfg c = Some (Some h) /\ (h < 2 ^ 63)%N.
Proof. exact call_hint_never_panics. Qed.

(* non-vacuity: prefix with trailing dots, default and own tags, rate, timestamp, container id;
   and an invalid call, for which no hint is computed *)
Example c20_call_hint_witness :
  let cfg := {| c_prefix := [97; 46; 46]; c_tags := [(Some [1], [2; 3])]; c_container := Some [7; 7] |}%N in
  let c := {| k_kind := Timer; k_key := [98]; k_arg := AVecU64 [1; 2; 3];
              k_ops := [WithTagValue [5]; WithTimestamp 5; WithSamplingRate [49]] |}%N in
  call_hint cfg c = Some (Some 80%N) /\
  (exists f, build cfg c = Some (inr f) /\ hint_value f = 80%N) /\
  call_hint cfg {| k_kind := Timer; k_key := []; k_arg := AVecU64 []; k_ops := [] |} = None.
Proof. vm_compute. split; [reflexivity|]. split; [eexists; split; reflexivity|reflexivity]. Qed.

(* Note after the second read-only review of these pins (selftest/audit/REVIEW-2-2026-10-02.md): c20_call_hint_defined(_iff_value) hold by unfolding Hint.call_hint (defined exactly when a line exists); the wadd pins other than c20_wadd_is_add_mod are arithmetic consequences kept so that a model without the 'mod' fails visibly (c20_wadd_wraps). *)
