(* parsing / printing helpers shared by the glue of the bins that speak the `wire` case format
   (run_wire.ml, run_mac.ml, run_hostile.ml); included after conv.ml by the build *)

let unhex0 s = if s = "_" then [] else unhex s
let hex0 l = if l = [] then "_" else hex l

let n_of_dec s = match parse_N (str_of_bytes s) with Some n -> n | None -> failwith ("bad N " ^ s)
let z_of_dec s = match parse_Z (str_of_bytes s) with Some z -> z | None -> failwith ("bad Z " ^ s)
let dec_of_n n = let b = Buffer.create 8 in List.iter (fun c -> Buffer.add_char b (Char.chr (int_of_n c))) (render_N n); Buffer.contents b

let split2 c s =
  match String.index_opt s c with
  | Some i -> (String.sub s 0 i, String.sub s (i + 1) (String.length s - i - 1))
  | None -> failwith ("expected '" ^ String.make 1 c ^ "' in " ^ s)

let lst s f = if s = "-" then [] else List.map f (String.split_on_char ';' s)

let parse_dur s = let (a, b) = split2 '.' s in { secs = n_of_dec a; nanos = n_of_dec b }

let parse_kind = function
  | "c" -> Counter | "ms" -> Timer | "g" -> Gauge | "m" -> Meter | "h" -> Histogram
  | "d" -> Distribution | "s" -> SetK | k -> failwith ("bad kind " ^ k)

let parse_arg s =
  if s = "incr" then incr_arg else if s = "decr" then decr_arg else
  let (ty, v) = split2 ':' s in
  match ty with
  | "i64" -> AI64 (z_of_dec v) | "i32" -> AI32 (z_of_dec v)
  | "u64" -> AU64 (n_of_dec v) | "u32" -> AU32 (n_of_dec v)
  | "f64" -> AF64 (unhex0 v)
  | "dur" -> ADur (parse_dur v)
  | "vu64" -> AVecU64 (lst v n_of_dec)
  | "vf64" -> AVecF64 (lst v unhex0)
  | "vdur" -> AVecDur (lst v parse_dur)
  | "usererr" ->
    (* a user-defined value type whose conversion fails: einv | eio:<kind index>.<payload id> *)
    if v = "einv" then AUserErr EInvalid else
    let (_, kid) = split2 ':' v in
    let (k, id) = split2 '.' kid in
    AUserErr (EIo (n_of_int (int_of_string k), n_of_int (int_of_string id)))
  | "user" ->
    let (var, w) = split2 ':' v in
    AUser (match var with
      | "s" -> Signed (z_of_dec w) | "ps" -> PackedSigned (lst w z_of_dec)
      | "u" -> Unsigned (n_of_dec w) | "pu" -> PackedUnsigned (lst w n_of_dec)
      | "f" -> Float (unhex0 w) | "pf" -> PackedFloat (lst w unhex0)
      | _ -> failwith "bad user variant")
  | _ -> failwith ("bad arg " ^ s)

let parse_ops s =
  List.map (fun t ->
    let r = String.sub t 1 (String.length t - 1) in
    match t.[0] with
    | 't' -> let (k, v) = split2 ':' r in WithTag (unhex0 k, unhex0 v)
    | 'v' -> WithTagValue (unhex0 r)
    | 'c' -> WithContainerId (unhex0 r)
    | 'T' -> WithTimestamp (n_of_dec r)
    | 'r' -> WithSamplingRate (unhex0 r)
    | _ -> failwith ("bad op " ^ t)) (split_on ',' s)

let parse_dtags s =
  List.map (fun t ->
    let r = String.sub t 1 (String.length t - 1) in
    if t.[0] = 'k' then let (k, v) = split2 ':' r in (Some (unhex0 k), unhex0 v)
    else (None, unhex0 r)) (split_on ',' s)

let parse_script s =
  List.map (fun t ->
    if t = "a" then Accept
    else if t.[0] = 'a' then Accept   (* a<n>: accepted, the sink answers Ok(n) - the count is not the client's business *)
    else let (k, id) = split2 '.' (String.sub t 1 (String.length t - 1)) in
      Refuse (n_of_int (int_of_string k), n_of_int (int_of_string id))) (split_on ',' s)

let parse_form = function "T" -> TrySend | "P" -> Plain | "Q" -> Quiet | f -> failwith ("bad form " ^ f)

let show_err = function
  | EInvalid -> "einv"
  | EIo (k, id) -> Printf.sprintf "eio:%d.%d" (int_of_n k) (int_of_n id)

let show_outcome o =
  let ret = match o.o_ret with
    | ROkMetric l -> "ok:" ^ hex0 l | RError e -> show_err e | RUnit -> "unit" in
  let em = if o.o_emitted = [] then "~" else String.concat "+" (List.map hex0 o.o_emitted) in
  let hd = if o.o_handled = [] then "~" else String.concat "+" (List.map show_err o.o_handled) in
  ret ^ "," ^ em ^ "," ^ hd

(* ---- Gallina printers of the client model's values (kernel cross-checks) ---- *)
let dec_of_z z = let b = Buffer.create 8 in List.iter (fun c -> Buffer.add_char b (Char.chr (int_of_n c))) (render_Z z); Buffer.contents b
let g_N n = "(" ^ dec_of_n n ^ ")%N"
let g_Z z = "(" ^ dec_of_z z ^ ")%Z"
let g_lst ty f l = if l = [] then "(@nil " ^ ty ^ ")" else g_list f l
let g_dur d = "{| secs := " ^ g_N d.secs ^ "; nanos := " ^ g_N d.nanos ^ " |}"
let g_mvalue = function
  | Signed z -> "(Signed " ^ g_Z z ^ ")" | PackedSigned l -> "(PackedSigned " ^ g_lst "Z" g_Z l ^ ")"
  | Unsigned n -> "(Unsigned " ^ g_N n ^ ")" | PackedUnsigned l -> "(PackedUnsigned " ^ g_lst "N" g_N l ^ ")"
  | Float t -> "(Float " ^ g_str t ^ ")" | PackedFloat l -> "(PackedFloat " ^ g_lst "(list N)" g_str l ^ ")"
let g_merr = function EInvalid -> "EInvalid" | EIo (k, id) -> "(EIo " ^ g_N k ^ " " ^ g_N id ^ ")"
let g_arg = function
  | AUserErr e -> "(AUserErr " ^ g_merr e ^ ")"
  | AI64 z -> "(AI64 " ^ g_Z z ^ ")" | AI32 z -> "(AI32 " ^ g_Z z ^ ")"
  | AU64 n -> "(AU64 " ^ g_N n ^ ")" | AU32 n -> "(AU32 " ^ g_N n ^ ")"
  | AF64 t -> "(AF64 " ^ g_str t ^ ")" | ADur d -> "(ADur " ^ g_dur d ^ ")"
  | AVecU64 l -> "(AVecU64 " ^ g_lst "N" g_N l ^ ")" | AVecF64 l -> "(AVecF64 " ^ g_lst "(list N)" g_str l ^ ")"
  | AVecDur l -> "(AVecDur " ^ g_lst "duration" g_dur l ^ ")" | AUser v -> "(AUser " ^ g_mvalue v ^ ")"
let g_kind = function
  | Counter -> "Counter" | Timer -> "Timer" | Gauge -> "Gauge" | Meter -> "Meter"
  | Histogram -> "Histogram" | Distribution -> "Distribution" | SetK -> "SetK"
let g_bop = function
  | WithTag (k, v) -> "(WithTag " ^ g_str k ^ " " ^ g_str v ^ ")" | WithTagValue v -> "(WithTagValue " ^ g_str v ^ ")"
  | WithContainerId c -> "(WithContainerId " ^ g_str c ^ ")" | WithTimestamp t -> "(WithTimestamp " ^ g_N t ^ ")"
  | WithSamplingRate r -> "(WithSamplingRate " ^ g_str r ^ ")"
let g_tag (k, v) = "(" ^ g_option g_str k ^ ", " ^ g_str v ^ ")"
let g_form = function TrySend -> "TrySend" | Plain -> "Plain" | Quiet -> "Quiet"
let g_so = function Accept -> "Accept" | Refuse (k, id) -> "(Refuse " ^ g_N k ^ " " ^ g_N id ^ ")"
let g_ret = function ROkMetric l -> "(ROkMetric " ^ g_str l ^ ")" | RError e -> "(RError " ^ g_merr e ^ ")" | RUnit -> "RUnit"

