#!/bin/bash
# Confirm a delivered seed and run the checks against it, both on scratch worktrees.
# usage: process_seed.sh <id> <crate: cadence|cadence-macros> <check ids...>
# expects /tmp/mut/<id>-out/{patch.diff,<one demo>.rs}; logs to /tmp/seedlogs/<id>.{confirm,try}
id=$1; crate=$2; shift 2
out=/tmp/mut/$id-out
demo=$(cd $out && ls *.rs | head -1)
stem=${demo%.rs}
mkdir -p /tmp/seedlogs
/verif/selftest/confirm_seed.sh $id $out $demo $crate/tests/$demo -p $crate --test $stem > /tmp/seedlogs/$id.confirm 2>&1
/verif/selftest/try_seed_alt.sh /tmp/seedwt_$id $out/patch.diff "$@" > /tmp/seedlogs/$id.try 2>&1
git -C /repo worktree remove --force /tmp/seedwt_$id 2>/dev/null
rm -rf /verif/build/alt/$(python3 -c "import hashlib;print(hashlib.sha256(b'/tmp/seedwt_$id').hexdigest()[:10])")
echo "== $id"; cat /tmp/seedlogs/$id.confirm /tmp/seedlogs/$id.try
