(* The four counters of SocketStats add up: sequentially, modulo 2^64 (fetch_add wraps),
   exactly when the true totals fit, and independently of the interleaving of the
   increments of concurrent emitters. *)
Require Import Cadence.Base.Prelude.
Require Import Cadence.Model.Stats.
From Coq Require Import Permutation.

Lemma W64_pos : (W64 <> 0)%N.
Proof. unfold W64. intros H. apply (N.pow_nonzero 2 64) in H; [exact H|discriminate]. Qed.

Lemma wadd_swap a b c : wadd (wadd a b) c = wadd (wadd a c) b.
Proof.
  unfold wadd. rewrite !N.add_mod_idemp_l by apply W64_pos. f_equal. lia.
Qed.

Lemma apply_incr_comm s a b : apply_incr (apply_incr s a) b = apply_incr (apply_incr s b) a.
Proof.
  destruct a, b; cbn [apply_incr bytes_sent packets_sent bytes_dropped packets_dropped]; f_equal; apply wadd_swap.
Qed.

Lemma fold_incr_perm l l' : Permutation l l' -> forall s, fold_left apply_incr l s = fold_left apply_incr l' s.
Proof.
  induction 1 as [|x l l' P IH|x y l|l l' l'' P1 IH1 P2 IH2]; intros s; cbn.
  - reflexivity.
  - apply IH.
  - now rewrite apply_incr_comm.
  - now rewrite IH1, IH2.
Qed.

(* ------------------------------------------------------------------ totals *)
Fixpoint sum_bs (l : list incr) : N :=
  match l with [] => 0 | i :: r => (match i with IBytesSent n => n | _ => 0 end + sum_bs r) end%N.
Fixpoint cnt_ps (l : list incr) : N :=
  match l with [] => 0 | i :: r => (match i with IPacketsSent => 1 | _ => 0 end + cnt_ps r) end%N.
Fixpoint sum_bd (l : list incr) : N :=
  match l with [] => 0 | i :: r => (match i with IBytesDropped n => n | _ => 0 end + sum_bd r) end%N.
Fixpoint cnt_pd (l : list incr) : N :=
  match l with [] => 0 | i :: r => (match i with IPacketsDropped => 1 | _ => 0 end + cnt_pd r) end%N.

Definition wf (s : stats) : Prop :=
  (bytes_sent s < W64 /\ packets_sent s < W64 /\ bytes_dropped s < W64 /\ packets_dropped s < W64)%N.

Lemma wf0 : wf stats0.
Proof. unfold wf, stats0; cbn [bytes_sent packets_sent bytes_dropped packets_dropped]. repeat split; apply N.ltb_lt; reflexivity. Qed.

Lemma fold_incr_totals l : forall s, wf s ->
  let s' := fold_left apply_incr l s in
  bytes_sent s' = ((bytes_sent s + sum_bs l) mod W64)%N /\
  packets_sent s' = ((packets_sent s + cnt_ps l) mod W64)%N /\
  bytes_dropped s' = ((bytes_dropped s + sum_bd l) mod W64)%N /\
  packets_dropped s' = ((packets_dropped s + cnt_pd l) mod W64)%N /\ wf s'.
Proof.
  induction l as [|i l IH]; intros s (A & B & C & D); cbn [fold_left sum_bs cnt_ps sum_bd cnt_pd].
  - rewrite !N.add_0_r, !N.mod_small by assumption. repeat split; auto.
  - assert (Hw : wf (apply_incr s i)).
    { destruct i; unfold wf, wadd; cbn [apply_incr bytes_sent packets_sent bytes_dropped packets_dropped];
        repeat split; auto; apply N.mod_lt, W64_pos. }
    destruct (IH _ Hw) as (E1 & E2 & E3 & E4 & E5).
    split; [|split; [|split; [|split; [|exact E5]]]]; [rewrite E1|rewrite E2|rewrite E3|rewrite E4];
      destruct i; cbn [apply_incr bytes_sent packets_sent bytes_dropped packets_dropped]; unfold wadd;
      rewrite ?N.add_mod_idemp_l by apply W64_pos; f_equal; lia.
Qed.

(* ------------------------------------------------------------------ attempts *)
Fixpoint sent_bytes (l : list attempt1) : N :=
  match l with [] => 0 | a :: r => (match at_res a with Some w => w | None => 0 end + sent_bytes r) end%N.
Fixpoint sent_count (l : list attempt1) : N :=
  match l with [] => 0 | a :: r => (match at_res a with Some _ => 1 | None => 0 end + sent_count r) end%N.
Fixpoint dropped_bytes (l : list attempt1) : N :=
  match l with [] => 0 | a :: r => (match at_res a with Some _ => 0 | None => at_len a end + dropped_bytes r) end%N.
Fixpoint dropped_count (l : list attempt1) : N :=
  match l with [] => 0 | a :: r => (match at_res a with Some _ => 0 | None => 1 end + dropped_count r) end%N.

Definition all_incrs (l : list attempt1) : list incr := flat_map update_incrs l.

Lemma updates_as_incrs l : forall s, updates s l = fold_left apply_incr (all_incrs l) s.
Proof.
  induction l as [|a l IH]; intros s; cbn; [reflexivity|].
  unfold all_incrs in *. cbn. rewrite fold_left_app. apply IH.
Qed.

Lemma step_totals a r :
  sum_bs (update_incrs a ++ r) = (match at_res a with Some w => w | None => 0 end + sum_bs r)%N /\
  cnt_ps (update_incrs a ++ r) = (match at_res a with Some _ => 1 | None => 0 end + cnt_ps r)%N /\
  sum_bd (update_incrs a ++ r) = (match at_res a with Some _ => 0 | None => at_len a end + sum_bd r)%N /\
  cnt_pd (update_incrs a ++ r) = (match at_res a with Some _ => 0 | None => 1 end + cnt_pd r)%N.
Proof. unfold update_incrs. destruct (at_res a); cbn [app sum_bs cnt_ps sum_bd cnt_pd]; repeat split; lia. Qed.

Lemma incrs_totals l :
  sum_bs (all_incrs l) = sent_bytes l /\ cnt_ps (all_incrs l) = sent_count l /\
  sum_bd (all_incrs l) = dropped_bytes l /\ cnt_pd (all_incrs l) = dropped_count l.
Proof.
  induction l as [|a l (A & B & C & D)]; [cbn; auto|].
  unfold all_incrs in *. cbn [flat_map sent_bytes sent_count dropped_bytes dropped_count].
  destruct (step_totals a (flat_map update_incrs l)) as (E1 & E2 & E3 & E4).
  rewrite E1, E2, E3, E4, A, B, C, D. auto.
Qed.

Theorem updates_totals l :
  let s := updates stats0 l in
  bytes_sent s = (sent_bytes l mod W64)%N /\ packets_sent s = (sent_count l mod W64)%N /\
  bytes_dropped s = (dropped_bytes l mod W64)%N /\ packets_dropped s = (dropped_count l mod W64)%N.
Proof.
  cbn. rewrite updates_as_incrs.
  destruct (fold_incr_totals (all_incrs l) stats0 wf0) as (A & B & C & D & _).
  destruct (incrs_totals l) as (E1 & E2 & E3 & E4).
  rewrite A, B, C, D, E1, E2, E3, E4. cbn [stats0 bytes_sent packets_sent bytes_dropped packets_dropped].
  rewrite !N.add_0_l. auto.
Qed.

Lemma counts_add l : (sent_count l + dropped_count l = N.of_nat (length l))%N.
Proof.
  induction l as [|a l IH]; cbn [sent_count dropped_count length]; [reflexivity|].
  destruct (at_res a); lia.
Qed.

(* any interleaving of the increments of concurrent updates gives the same totals *)
Theorem concurrent_totals l incs :
  Permutation incs (all_incrs l) -> fold_left apply_incr incs stats0 = updates stats0 l.
Proof. intros P. rewrite updates_as_incrs. apply fold_incr_perm, P. Qed.

(* ------------------------------------------------------------------ unbuffered sinks *)
Definition attempt_of (m : str) (o : os_outcome) : attempt1 :=
  let len := N.of_nat (length m) in
  {| at_len := len; at_res := match o with OsOk => Some len | OsErr _ => None end |}.

Fixpoint outcomes_for {A} (ms : list A) (os : list os_outcome) : list os_outcome :=
  match ms with
  | [] => []
  | _ :: r => match os with [] => OsOk :: outcomes_for r [] | o :: t => o :: outcomes_for r t end
  end.

Lemma sock_emit_spec dest st m o :
  sock_emit dest st m o =
  ({| sd_dest := dest; sd_payload := m |},
   match o with OsOk => inl (N.of_nat (length m)) | OsErr k => inr k end,
   update st (attempt_of m o)).
Proof. destruct o; reflexivity. Qed.

Theorem sock_emits_spec dest ms : forall st os,
  let os' := outcomes_for ms os in
  sock_emits dest st ms os =
  (map (fun mo => ({| sd_dest := dest; sd_payload := fst mo |},
                   match snd mo with OsOk => inl (N.of_nat (length (fst mo))) | OsErr k => inr k end))
       (combine ms os'),
   updates st (map (fun mo => attempt_of (fst mo) (snd mo)) (combine ms os'))).
Proof.
  induction ms as [|m ms IH]; intros st os; cbn [sock_emits outcomes_for]; [reflexivity|].
  destruct os as [|o t].
  - rewrite sock_emit_spec. specialize (IH (update st (attempt_of m OsOk)) []). cbn zeta in IH. rewrite IH. reflexivity.
  - rewrite sock_emit_spec. specialize (IH (update st (attempt_of m o)) t). cbn zeta in IH. rewrite IH. reflexivity.
Qed.
