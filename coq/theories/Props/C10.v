(* C10 — Queuing sink isolates callers from the wrapped sink.

   Pinned statements about Cadence.Model.Queue ([step true] = the repaired code; statements
   with [fixed] hold for both semantics).  ETrySend is the caller's whole interaction with the
   queue: one non-blocking channel operation.  The wrapped sink runs only inside the worker's
   WCounted state and completes only by EWFinish.  Vocabulary as in Props/C08.v;
   [is_recv w] = the worker waits in recv(); [is_finish ev] = ev is EWFinish _. *)
Require Import Cadence.Base.Prelude.
Require Import Cadence.Model.Queue.
Require Import Cadence.Proofs.QueueInv.
Require Import Cadence.Proofs.QueueLive.

(* the result of emit is a function of (capacity, channel length, worker waits in recv) only:
   any two states agreeing on these — whatever their delivery logs, panic counts, handler logs,
   counters, whatever the wrapped sink did or is doing — give the same result *)
Theorem c10_result : forall fixed s1 s2 s1' s2' r1 r2,
  q_cap s1 = q_cap s2 -> length (q_chan s1) = length (q_chan s2) ->
  is_recv (q_wk s1) = is_recv (q_wk s2) ->
  step fixed s1 ETrySend = Some (s1', r1) -> step fixed s2 ETrySend = Some (s2', r2) -> r1 = r2.
Proof. exact trysend_result. Qed.

(* ... namely Ok iff there is room, an error otherwise; it is never anything else, and the call
   itself does not touch the delivery log, the handler log or the panic count; a refused emit
   changes nothing at all *)
Theorem c10_result_room : forall fixed s s' r,
  step fixed s ETrySend = Some (s', r) ->
  (r = ROk <-> room s = true) /\ (r = RFull <-> room s = false) /\ r <> RNone /\
  q_delivered s' = q_delivered s /\ q_handled s' = q_handled s /\ q_panics s' = q_panics s.
Proof. exact trysend_iff_room. Qed.

Theorem c10_room : forall s,
  room s = match q_cap s with
           | None => true
           | Some 0 => is_recv (q_wk s) && (length (q_chan s) =? 0)
           | Some (S c) => length (q_chan s) <? S c
           end.
Proof. exact room_spec. Qed.

Theorem c10_refused_unchanged : forall fixed s s',
  step fixed s ETrySend = Some (s', RFull) -> s' = s.
Proof.
  intros fixed s s' H. apply step_result in H. destruct H as (_ & _ & E). exact E.
Qed.

(* a bounded queue never holds more than its capacity (capacity 0: the channel stays empty) *)
Theorem c10_bound : forall cap handler evs s rs c,
  run true (init_q cap handler) evs = Some (s, rs) -> cap = Some c ->
  q_cap s = Some c /\ length (q_chan s) <= c.
Proof. exact reach_bound. Qed.

(* ... and below capacity an emit is accepted: for capacity c >= 1 the result is Ok exactly
   while fewer than c entries are queued, whatever the worker and the wrapped sink are doing *)
Theorem c10_bounded_exact : forall fixed s s' r c,
  q_cap s = Some (S c) -> step fixed s ETrySend = Some (s', r) ->
  (r = ROk <-> length (q_chan s) < S c) /\ (r = RFull <-> S c <= length (q_chan s)).
Proof.
  intros fixed s s' r c Ec H. destruct (trysend_iff_room _ _ _ _ H) as (A & B & _).
  rewrite room_spec, Ec in A, B. rewrite Nat.ltb_lt in A. rewrite Nat.ltb_ge in B. auto.
Qed.

(* an unbounded queue accepts every metric *)
Theorem c10_unbounded : forall fixed s, q_cap s = None -> q_handles s <> 0 ->
  exists s', step fixed s ETrySend = Some (s', ROk).
Proof.
  intros fixed s Ec Hh. destruct (trysend_spec fixed s Hh) as [s' E].
  unfold room in E. rewrite Ec in E. exists s'. exact E.
Qed.

(* emit never waits: ETrySend is enabled in EVERY state with a live handle — in particular in
   every state with q_wk s = WCounted m, i.e. while the wrapped sink is processing m and may
   never return — and it is one step *)
Theorem c10_enabled : forall fixed s, q_handles s <> 0 ->
  exists s', step fixed s ETrySend = Some (s', if room s then ROk else RFull).
Proof. exact trysend_spec. Qed.

(* callers never run the wrapped sink: every event other than the worker's EWFinish leaves the
   delivery log, the handler log and the panic count unchanged.  Errors and panics of the
   wrapped sink therefore surface only in the worker's own step (c16_before_next, c11_count),
   never in an emit result (c10_result_room: results are ROk / RFull by room alone) *)
Theorem c10_actor : forall fixed s ev s' r,
  step fixed s ev = Some (s', r) -> ~ is_finish ev ->
  q_delivered s' = q_delivered s /\ q_handled s' = q_handled s /\ q_panics s' = q_panics s.
Proof. exact step_actor. Qed.

(* non-vacuity: capacities 1, 2 (the distinction the test suite cannot make), 0 and unbounded
   with the wrapped sink blocked for ever on metric 0; the results do not depend on what the
   wrapped sink answered before *)
Example c10_witness :
  let res cap evs := match run true (init_q cap false) evs with Some (_, rs) => Some rs | None => None end in
  res (Some 1) [ETrySend; EWDequeue; EWStep; ETrySend; ETrySend; ETrySend]
    = Some [ROk; RNone; RNone; ROk; RFull; RFull] /\
  res (Some 2) [ETrySend; EWDequeue; EWStep; ETrySend; ETrySend; ETrySend]
    = Some [ROk; RNone; RNone; ROk; ROk; RFull] /\
  res (Some 0) [ETrySend; EWStep; ETrySend; ETrySend]
    = Some [ROk; RNone; RFull; RFull] /\
  res None [ETrySend; EWDequeue; EWStep; ETrySend; ETrySend; ETrySend]
    = Some [ROk; RNone; RNone; ROk; ROk; ROk] /\
  res (Some 1) [ETrySend; EWDequeue; EWStep; EWFinish SPanic; ETrySend; EWDequeue; EWStep;
                EWFinish (SErr 1); ETrySend; ETrySend]
    = Some [ROk; RNone; RNone; RNone; ROk; RNone; RNone; RNone; ROk; RFull].
Proof. vm_compute. repeat split; reflexivity. Qed.
