(* Audit items A.4, A.21, A.8, A.20 (worker Q): the queuing sink under EVERY background schedule,
   the observations of the harness-level view [act]/[acts], and the stack queue -> buffered
   writer for an arbitrary fault script of the writer over its whole life (final drop included).
   New definitions of this file: [finish_outs], [event_of], [act_enabled], [no_obs]. *)
Require Import Cadence.Base.Prelude.
Require Import Cadence.Model.Writer.
Require Import Cadence.Proofs.WriterBase.
Require Import Cadence.Proofs.WriterInv.
Require Import Cadence.Proofs.WriterRun.
Require Import Cadence.Proofs.WriterThms.
Require Import Cadence.Model.Queue.
Require Import Cadence.Proofs.QueueInv.
Require Import Cadence.Proofs.QueueLive.
Require Import Cadence.Proofs.StackProofs.

(* ================================================================== A.4: every background schedule *)

(* [stuck] (the definition used by the liveness theorems) says exactly: NO background event is enabled *)
Lemma stuck_iff fixed s :
  stuck fixed s <-> forall ev, worker_side ev -> Queue.step fixed s ev = None.
Proof.
  split.
  - intros [Hi Hf] ev W. apply internal_none in Hi. destruct Hi as (E1 & E2 & E3 & E4).
    destruct ev; try (exfalso; exact W); auto.
  - intro H. split.
    + unfold internal_step.
      rewrite (H EIncSubmitted I), (H EWStep I), (H EWDequeue I), (H EPillSend I). reflexivity.
    + intro o. exact (H (EWFinish o) I).
Qed.

(* a state is stuck, or some background event is enabled (so a schedule that is not stuck can
   always be prolonged: "maximal" = "ends in a stuck state") *)
Lemma stuck_or_progress fixed s :
  stuck fixed s \/ exists ev s', worker_side ev /\ Queue.step fixed s ev = Some (s', RNone).
Proof.
  destruct (internal_step fixed s) as [s1|] eqn:Ei.
  - right. apply internal_step_cases in Ei. destruct Ei as (ev & W & _ & E). exists ev, s1. auto.
  - destruct (Queue.step fixed s (EWFinish SOk)) as [[s1 r1]|] eqn:E.
    + right. exists (EWFinish SOk), s1. split; [exact I|].
      destruct (step_worker_side _ _ _ _ _ E I) as (_ & _ & ->). exact E.
    + left. split; [exact Ei | exact (finish_none_all _ _ _ E)].
Qed.

(* the outcomes carried by the completions of the wrapped sink in a schedule, in order *)
Definition finish_outs (evs : list event) : list soutcome :=
  flat_map (fun ev => match ev with EWFinish o => [o] | _ => [] end) evs.

(* ANY run (either semantics, any events): the outcomes logged are those of the completions *)
Lemma run_outcomes fixed evs : forall s s' rs, Queue.run fixed s evs = Some (s', rs) ->
  map snd (q_delivered s') = map snd (q_delivered s) ++ finish_outs evs.
Proof.
  induction evs as [|ev evs IH]; intros s s' rs H; cbn [Queue.run] in H.
  - injection H as <- _. cbn. rewrite app_nil_r. reflexivity.
  - destruct (Queue.step fixed s ev) as [[s1 x]|] eqn:E; [|discriminate].
    destruct (Queue.run fixed s1 evs) as [[s2 xs]|] eqn:E2; [|discriminate].
    injection H as <- _. rewrite (IH _ _ _ E2). unfold finish_outs. cbn [flat_map].
    fold (finish_outs evs).
    destruct ev; try (destruct (step_actor _ _ _ _ _ E (fun F => F)) as (-> & _); reflexivity).
    apply step_finish_spec in E. destruct E as (id & _ & _ & _ & -> & _).
    rewrite map_app, <- app_assoc. reflexivity.
Qed.

(* every schedule of background events is at most [mu s] long (either semantics, any state) *)
Lemma worker_run_mu fixed wevs : forall s s' wrs,
  Forall worker_side wevs -> Queue.run fixed s wevs = Some (s', wrs) ->
  length wevs + mu s' <= mu s.
Proof.
  induction wevs as [|ev evs IH]; intros s s' wrs W H; cbn [Queue.run] in H.
  - injection H as <- _. cbn. lia.
  - destruct (Queue.step fixed s ev) as [[s1 x]|] eqn:E; [|discriminate].
    destruct (Queue.run fixed s1 evs) as [[s2 xs]|] eqn:E2; [|discriminate].
    injection H as <- _. inversion W as [|? ? W1 W2]; subst.
    pose proof (mu_step _ _ _ _ _ W1 E). pose proof (IH _ _ _ W2 E2). cbn [length]. lia.
Qed.

Lemma combine_fst_snd {A B} (l : list (A * B)) : combine (map fst l) (map snd l) = l.
Proof. induction l as [|[a b] l IH]; cbn; [reflexivity | rewrite IH; reflexivity]. Qed.

(* what holds in a stuck state of the repaired machine *)
Definition all_done (s : qstate) : Prop :=
  pending_ids s = [] /\ map fst (q_delivered s) = seq 0 (q_accepted s) /\
  q_submitted s = q_accepted s /\ q_drained s = q_accepted s /\ queued_now s = 0 /\
  q_chan s = [] /\ q_pending_inc s = 0 /\ q_pill_pending s = false /\
  (q_handles s <> 0 -> q_wk s = WRecv) /\
  (q_handles s = 0 -> q_wk s = WExited /\ sink_released s = true).

Lemma stuck_all_done s : Inv s -> stuck true s -> all_done s.
Proof.
  intros HI St. destruct (stuck_all_delivered s HI St) as (A & B & C & D & E).
  destruct (stuck_inv s HI St) as (Ech & Epi & Epp & Hw).
  unfold all_done. do 8 (split; [assumption|]). split.
  - intro Hh. destruct Hw as [[_ Ew]|[Eh _]]; [exact Ew | congruence].
  - intro Hh. unfold sink_released. destruct Hw as [[Eh _]|[Eh Ew]]; [congruence|].
    rewrite Eh, Ew. auto.
Qed.

(* A.4, as suggested (strengthened by the remaining facts about a stuck state): in every
   reachable state EVERY enabled background event strictly decreases [mu], and if NO background
   event is enabled then everything accepted has been delivered, once, in order *)
Theorem any_background_schedule cap handler evs s rs :
  Queue.run true (init_q cap handler) evs = Some (s, rs) ->
  (forall ev s' r, worker_side ev -> Queue.step true s ev = Some (s', r) -> mu s' < mu s) /\
  (stuck true s ->
     pending_ids s = [] /\ map fst (q_delivered s) = seq 0 (q_accepted s) /\
     q_submitted s = q_accepted s /\ q_drained s = q_accepted s /\ queued_now s = 0 /\
     q_chan s = [] /\ q_pending_inc s = 0 /\ q_pill_pending s = false /\
     (q_handles s <> 0 -> q_wk s = WRecv) /\
     (q_handles s = 0 -> q_wk s = WExited /\ sink_released s = true)).
Proof.
  intro R. split.
  - intros ev s' r W E. exact (mu_step _ _ _ _ _ W E).
  - intro St. exact (stuck_all_done s (inv_reach _ _ _ _ _ R) St).
Qed.

(* the corollary: take ANY schedule [wevs] of background events from a reachable state [s]
   (any order of bookkeeping, worker, helper and completions, any outcomes).  It is at most
   [mu s] (< fuel_of s) events long; it is a continuation of the history; it touches neither
   the handles nor the acceptance count; it only extends the delivery log, by exactly the
   outcomes its completions carry; it can be prolonged unless it ends in a stuck state; and if
   it ends in a stuck state (it is maximal) then exactly the metrics that were pending in [s]
   have been delivered, each once, in their order, with exactly the outcomes the schedule's
   completions carried, so that everything accepted is delivered in order; the worker waits for
   more (a handle is alive) or has exited with the wrapped sink released (no handle is left) *)
Theorem every_background_schedule cap handler evs s rs wevs s' wrs :
  Queue.run true (init_q cap handler) evs = Some (s, rs) ->
  Forall worker_side wevs -> Queue.run true s wevs = Some (s', wrs) ->
  length wevs + mu s' <= mu s /\ length wevs < fuel_of s /\
  Queue.run true (init_q cap handler) (evs ++ wevs) = Some (s', rs ++ wrs) /\
  q_accepted s' = q_accepted s /\ q_handles s' = q_handles s /\
  extends (q_delivered s) (q_delivered s') /\
  map snd (q_delivered s') = map snd (q_delivered s) ++ finish_outs wevs /\
  (stuck true s' \/ exists ev s'', worker_side ev /\ Queue.step true s' ev = Some (s'', RNone)) /\
  (stuck true s' ->
     length (finish_outs wevs) = length (pending_ids s) /\
     q_delivered s' = q_delivered s ++ combine (pending_ids s) (finish_outs wevs) /\
     map fst (q_delivered s') = seq 0 (q_accepted s) /\
     q_submitted s' = q_accepted s /\ q_drained s' = q_accepted s /\ queued_now s' = 0 /\
     q_chan s' = [] /\ q_pending_inc s' = 0 /\ q_pill_pending s' = false /\
     (q_handles s <> 0 -> q_wk s' = WRecv) /\
     (q_handles s = 0 -> q_wk s' = WExited /\ sink_released s' = true)).
Proof.
  intros R W R2.
  pose proof (worker_run_mu _ _ _ _ _ W R2) as Hmu.
  pose proof (mu_fuel_of s) as Hf.
  pose proof (inv_reach _ _ _ _ _ R) as HI.
  pose proof (inv_run _ _ _ _ HI R2) as HI'.
  destruct (run_worker_side _ _ _ _ _ W R2) as (Eh & Ea & _).
  pose proof (M_delivered _ _ (run_mono _ _ _ _ _ R2)) as Ext.
  pose proof (run_outcomes _ _ _ _ _ R2) as Eo.
  split; [exact Hmu|]. split; [lia|]. split; [eapply run_app; eassumption|].
  split; [exact Ea|]. split; [exact Eh|]. split; [exact Ext|]. split; [exact Eo|].
  split; [apply stuck_or_progress|].
  intro St. destruct (stuck_all_done s' HI' St) as (_ & Ed & Es & Edr & Eq & Ech & Epi & Epp & Hl & Hx).
  destruct Ext as [t Et].
  assert (Ef : map fst t = pending_ids s).
  { pose proof (I_commit s HI) as Hc. rewrite <- Ea, <- Ed, Et, map_app in Hc.
    unfold pending_ids. apply app_inv_head in Hc. symmetry. exact Hc. }
  assert (Esn : map snd t = finish_outs wevs).
  { rewrite Et, map_app in Eo. apply app_inv_head in Eo. exact Eo. }
  split; [rewrite <- Ef, <- Esn, !map_length; reflexivity|].
  split; [rewrite <- Ef, <- Esn, combine_fst_snd; exact Et|].
  rewrite Ea in Ed, Es, Edr. rewrite Eh in Hl, Hx. auto 12.
Qed.

(* two maximal background schedules from the same reachable state whose completions carry the
   same outcomes end with the same delivery log, counters, channel and worker state: the order
   in which the background threads are scheduled is unobservable *)
Corollary background_schedules_agree cap handler evs s rs wevs1 s1 wrs1 wevs2 s2 wrs2 :
  Queue.run true (init_q cap handler) evs = Some (s, rs) ->
  Forall worker_side wevs1 -> Queue.run true s wevs1 = Some (s1, wrs1) -> stuck true s1 ->
  Forall worker_side wevs2 -> Queue.run true s wevs2 = Some (s2, wrs2) -> stuck true s2 ->
  finish_outs wevs1 = finish_outs wevs2 ->
  q_delivered s1 = q_delivered s2 /\ q_submitted s1 = q_submitted s2 /\
  q_drained s1 = q_drained s2 /\ q_wk s1 = q_wk s2 /\ q_chan s1 = q_chan s2 /\
  q_handles s1 = q_handles s2 /\ q_accepted s1 = q_accepted s2.
Proof.
  intros R W1 R1 St1 W2 R2 St2 Eo.
  destruct (every_background_schedule _ _ _ _ _ _ _ _ R W1 R1)
    as (_ & _ & _ & Ea1 & Eh1 & _ & _ & _ & H1).
  destruct (every_background_schedule _ _ _ _ _ _ _ _ R W2 R2)
    as (_ & _ & _ & Ea2 & Eh2 & _ & _ & _ & H2).
  destruct (H1 St1) as (_ & D1 & _ & S1 & Dr1 & _ & C1 & _ & _ & L1 & X1).
  destruct (H2 St2) as (_ & D2 & _ & S2 & Dr2 & _ & C2 & _ & _ & L2 & X2).
  split; [rewrite D1, D2, Eo; reflexivity|]. split; [congruence|]. split; [congruence|].
  split; [|split; [congruence | split; congruence]].
  destruct (Nat.eq_dec (q_handles s) 0) as [Z|NZ].
  - destruct (X1 Z) as [-> _]. destruct (X2 Z) as [-> _]. reflexivity.
  - rewrite (L1 NZ), (L2 NZ). reflexivity.
Qed.

(* non-vacuity: the state of Props/C08 [c08_witness] (capacity 2, no handle left, helper thread
   pending, worker holding metric 1), two different maximal background schedules with the same
   outcomes, neither of them the order [quiesce] uses (quiesce does the bookkeeping first) *)
Example every_background_schedule_witness :
  match Queue.run true (init_q (Some 2) true)
            [ETrySend; EClone; ETrySend; EWDequeue; EWStep; ETrySend; ETrySend; EDropH;
             EIncSubmitted; EWFinish (SErr 7); EWDequeue; ETrySend; EDropH] with
  | Some (s, _) =>
    let w1 := [EWStep; EWFinish SPanic; EWDequeue; EPillSend; EIncSubmitted; EWStep; EIncSubmitted;
               EWFinish SOk; EWDequeue; EWStep; EWFinish (SErr 3); EIncSubmitted; EWDequeue; EWStep] in
    let w2 := [EIncSubmitted; EWStep; EIncSubmitted; EIncSubmitted; EWFinish SPanic; EWDequeue;
               EWStep; EWFinish SOk; EPillSend; EWDequeue; EWStep; EWFinish (SErr 3); EWDequeue; EWStep] in
    match Queue.run true s w1, Queue.run true s w2 with
    | Some (s1, _), Some (s2, _) =>
      (mu s, pending_ids s, internal_step true s1, internal_step true s2, q_wk s1, q_wk s2) =
      (20, [1; 2; 3], None, None, WExited, WExited) /\
      q_delivered s1 = [(0, SErr 7); (1, SPanic); (2, SOk); (3, SErr 3)] /\
      q_delivered s2 = q_delivered s1 /\ finish_outs w1 = finish_outs w2 /\
      s1 = s2
    | _, _ => False
    end
  | None => False
  end.
Proof. vm_compute. repeat split; reflexivity. Qed.

(* ================================================================== A.21: what [act] / [acts] observe *)
Definition no_obs : obs := {| ob_result := RNone; ob_sample := None |}.

(* the small-step event a harness action stands for (ASample is a read of the settled state) *)
Definition event_of (a : action) : option event :=
  match a with
  | AEmit => Some ETrySend | AClone => Some EClone | ADrop => Some EDropH
  | ARelease o => Some (EWFinish o) | ASample => None
  end.

(* when an action is enabled: a live handle for emit / clone / drop; the wrapped sink is
   processing a metric for a release; always for a sample *)
Definition act_enabled (s : qstate) (a : action) : bool :=
  match a with
  | AEmit | AClone | ADrop => negb (q_handles s =? 0)
  | ARelease _ => match q_wk s with WCounted _ => true | _ => false end
  | ASample => true
  end.

Lemma settle_idle fixed fuel s : internal_step fixed s = None -> settle fixed fuel s = s.
Proof. intro H. destruct fuel; cbn [settle]; [reflexivity | rewrite H; reflexivity]. Qed.

Lemma run_quiet fixed evs : forall s s' rs,
  Forall (fun ev => ~ is_finish ev) evs -> Queue.run fixed s evs = Some (s', rs) ->
  q_delivered s' = q_delivered s /\ q_handled s' = q_handled s /\ q_panics s' = q_panics s.
Proof.
  induction evs as [|ev evs IH]; intros s s' rs N H; cbn [Queue.run] in H.
  - injection H as <- _. auto.
  - destruct (Queue.step fixed s ev) as [[s1 x]|] eqn:E; [|discriminate].
    destruct (Queue.run fixed s1 evs) as [[s2 xs]|] eqn:E2; [|discriminate].
    injection H as <- _. inversion N as [|? ? N1 N2]; subst.
    destruct (step_actor _ _ _ _ _ E N1) as (A & B & C).
    destruct (IH _ _ _ N2 E2) as (A2 & B2 & C2). repeat split; congruence.
Qed.

(* [settle] (the internal steps after an action) touches neither handles, acceptance count,
   delivery log, handler log nor the panic counter *)
Lemma settle_keeps fixed fuel s :
  q_handles (settle fixed fuel s) = q_handles s /\ q_accepted (settle fixed fuel s) = q_accepted s /\
  q_delivered (settle fixed fuel s) = q_delivered s /\ q_handled (settle fixed fuel s) = q_handled s /\
  q_panics (settle fixed fuel s) = q_panics s.
Proof.
  destruct (settle_run fixed fuel s) as (evs & rs & W & N & R).
  destruct (run_worker_side _ _ _ _ _ W R) as (A & B & _).
  destruct (run_quiet _ _ _ _ _ N R) as (C & D & E). auto.
Qed.

(* the complete description of one harness action: it is the small-step event [event_of a]
   followed by [settle]; its result is the event's result; it never carries a sample; when the
   event is not enabled it answers RNone / no sample and leaves the state unchanged *)
Theorem act_spec fixed s a ev : event_of a = Some ev ->
  match Queue.step fixed s ev with
  | Some (s1, r) => act fixed s a = (settle fixed (fuel_of s1) s1, {| ob_result := r; ob_sample := None |})
  | None => act fixed s a = (s, no_obs)
  end.
Proof.
  intro Hev. destruct a; cbn [event_of] in Hev; try discriminate; injection Hev as <-;
    cbn [act]; destruct (Queue.step fixed s _) as [[s1 r]|] eqn:E; try reflexivity;
    apply step_result in E; destruct r; try reflexivity;
    destruct E as (E & _); discriminate.
Qed.

(* ASample: the state is untouched and the observation is exactly the four numbers of the
   worker statistics, [queued] being the guarded difference *)
Theorem act_sample fixed s :
  act fixed s ASample =
  (s, {| ob_result := RNone;
         ob_sample := Some (q_submitted s, q_drained s, queued_now s, q_panics s) |}).
Proof. reflexivity. Qed.

Theorem sample_obs fixed s :
  ob_sample (snd (act fixed s ASample)) = Some (q_submitted s, q_drained s, queued_now s, q_panics s) /\
  ob_result (snd (act fixed s ASample)) = RNone /\ fst (act fixed s ASample) = s.
Proof. repeat split; reflexivity. Qed.

(* enabledness of the event is [act_enabled] *)
Lemma act_enabled_step fixed s a ev : event_of a = Some ev ->
  act_enabled s a = true <-> Queue.step fixed s ev <> None.
Proof.
  intro Hev. destruct a; cbn [event_of] in Hev; try discriminate; injection Hev as <-;
    cbn [act_enabled Queue.step].
  - destruct (q_handles s); cbn; [split; [discriminate | congruence]|].
    destruct (room s); split; auto; discriminate.
  - destruct (q_handles s); cbn; split; auto; try discriminate; congruence.
  - destruct (q_handles s); cbn; split; auto; try discriminate; congruence.
  - destruct (q_wk s); split; auto; try discriminate; congruence.
Qed.

(* a disabled action answers RNone, no sample, and leaves the state unchanged *)
Theorem act_disabled fixed s a : act_enabled s a = false -> act fixed s a = (s, no_obs).
Proof.
  intro H. destruct (event_of a) as [ev|] eqn:Hev.
  - pose proof (act_spec fixed s a ev Hev) as Sp.
    destruct (Queue.step fixed s ev) as [[s1 r]|] eqn:E; [|exact Sp].
    assert (T : act_enabled s a = true) by (apply (act_enabled_step fixed s a ev Hev); congruence).
    congruence.
  - destruct a; try discriminate.
Qed.

(* an enabled action other than a sample does perform its event *)
Theorem act_enabled_spec fixed s a ev : event_of a = Some ev -> act_enabled s a = true ->
  exists s1 r, Queue.step fixed s ev = Some (s1, r) /\
    act fixed s a = (settle fixed (fuel_of s1) s1, {| ob_result := r; ob_sample := None |}).
Proof.
  intros Hev En. pose proof (act_spec fixed s a ev Hev) as Sp.
  apply (act_enabled_step fixed s a ev Hev) in En.
  destruct (Queue.step fixed s ev) as [[s1 r]|]; [|congruence]. exists s1, r. auto.
Qed.

(* AEmit on a live handle: Ok exactly when there is room, Full otherwise; never a sample; the
   acceptance count moves by one exactly on Ok; a refused emit in a settled state changes nothing *)
Theorem act_emit fixed s : q_handles s <> 0 ->
  ob_result (snd (act fixed s AEmit)) = (if room s then ROk else RFull) /\
  ob_sample (snd (act fixed s AEmit)) = None /\
  q_accepted (fst (act fixed s AEmit)) = q_accepted s + (if room s then 1 else 0) /\
  q_handles (fst (act fixed s AEmit)) = q_handles s /\
  q_delivered (fst (act fixed s AEmit)) = q_delivered s /\
  (room s = false -> internal_step fixed s = None -> fst (act fixed s AEmit) = s).
Proof.
  intro Hh. destruct (trysend_spec fixed s Hh) as [s1 E].
  pose proof (act_spec fixed s AEmit ETrySend eq_refl) as Sp. rewrite E in Sp. rewrite Sp.
  cbn [fst snd ob_result ob_sample].
  destruct (settle_keeps fixed (fuel_of s1) s1) as (Kh & Ka & Kd & _).
  pose proof (step_result _ _ _ _ _ E) as Sr.
  assert (Hd : q_delivered s1 = q_delivered s /\ q_handles s1 = q_handles s).
  { destruct (step_actor _ _ _ _ _ E (fun F => F)) as (D & _). split; [exact D|].
    cbn [Queue.step] in E. destruct (q_handles s) eqn:Eh; [congruence|].
    destruct (room s); injection E as <-; [|auto].
    unfold put. destruct (q_cap s) as [[|c]|]; prj; auto. }
  destruct Hd as [Hd Hh1].
  split; [reflexivity|]. split; [reflexivity|].
  destruct (room s) eqn:Er.
  - destruct Sr as (_ & _ & Sa). repeat split; try congruence; try lia.
  - destruct Sr as (_ & _ & ->). repeat split; try congruence; try lia.
    intros _ Hi. apply settle_idle. exact Hi.
Qed.

(* a script of actions: one observation per action; the ROk observations are exactly the
   acceptances; samples occur exactly at the ASample positions *)
Lemma act_accepted fixed s a :
  q_accepted (fst (act fixed s a)) = q_accepted s + count_ok [ob_result (snd (act fixed s a))].
Proof.
  destruct (event_of a) as [ev|] eqn:Hev.
  - pose proof (act_spec fixed s a ev Hev) as Sp.
    destruct (Queue.step fixed s ev) as [[s1 r]|] eqn:E; rewrite Sp; cbn [fst snd ob_result no_obs].
    + destruct (settle_keeps fixed (fuel_of s1) s1) as (_ & -> & _).
      exact (step_accepted _ _ _ _ _ E).
    + cbn. lia.
  - destruct a; try discriminate. cbn. lia.
Qed.

Theorem acts_obs fixed l : forall s,
  length (snd (acts fixed s l)) = length l /\
  q_accepted (fst (acts fixed s l)) = q_accepted s + count_ok (map ob_result (snd (acts fixed s l))) /\
  Forall2 (fun a o => (a = ASample <-> ob_sample o <> None) /\
                      (ob_result o <> RNone -> a = AEmit)) l (snd (acts fixed s l)).
Proof.
  induction l as [|a l IH]; intro s; cbn [acts].
  - cbn. repeat split; [lia | constructor].
  - pose proof (act_accepted fixed s a) as Ha.
    assert (Hs : (a = ASample <-> ob_sample (snd (act fixed s a)) <> None) /\
                 (ob_result (snd (act fixed s a)) <> RNone -> a = AEmit)).
    { destruct (event_of a) as [ev|] eqn:Hev.
      - pose proof (act_spec fixed s a ev Hev) as Sp.
        destruct (Queue.step fixed s ev) as [[s1 r]|] eqn:E; rewrite Sp; cbn [snd ob_sample ob_result no_obs].
        + split; [split; [intros ->; discriminate | congruence]|].
          intro Hr. apply step_result in E. destruct r; try congruence;
            destruct E as (-> & _); destruct a; cbn in Hev; congruence.
        + split; [split; [intros ->; discriminate | congruence] | congruence].
      - destruct a; try discriminate. cbn. split; [split; [discriminate | reflexivity] | congruence]. }
    destruct (act fixed s a) as [s1 o] eqn:Ea. cbn [fst snd] in Ha, Hs.
    destruct (IH s1) as (L & A & F). destruct (acts fixed s1 l) as [s2 os] eqn:El.
    cbn [fst snd] in *. cbn [length map]. rewrite count_ok_cons.
    split; [lia|]. split; [lia|]. constructor; assumption.
Qed.

(* the states the harness visits are settled: no internal step is enabled after any script *)
Lemma acts_settled fixed l : forall s, internal_step fixed s = None ->
  internal_step fixed (fst (acts fixed s l)) = None.
Proof.
  induction l as [|a l IH]; intros s Hs; cbn [acts]; [exact Hs|].
  assert (H1 : internal_step fixed (fst (act fixed s a)) = None).
  { destruct (event_of a) as [ev|] eqn:Hev.
    - pose proof (act_spec fixed s a ev Hev) as Sp.
      destruct (Queue.step fixed s ev) as [[s1 r]|] eqn:E; rewrite Sp; cbn [fst]; [|exact Hs].
      apply settle_done, mu_fuel_of.
    - destruct a; try discriminate. exact Hs. }
  destruct (act fixed s a) as [s1 o]. cbn [fst] in H1.
  specialize (IH s1 H1). destruct (acts fixed s1 l) as [s2 os]. exact IH.
Qed.

(* what a sample taken by the harness (after any script from the initial state, repaired
   semantics) shows: submitted = the number accepted so far (no increment is outstanding);
   drained = completed calls plus the one in progress; queued() = exactly the number of metrics
   waiting in the channel; panics = the panics among the completed calls *)
Theorem harness_sample cap handler l :
  let s := fst (acts true (init_q cap handler) l) in
  internal_step true s = None /\
  ob_sample (snd (act true s ASample)) =
    Some (q_accepted s, length (q_delivered s) + counted (q_wk s),
          length (somes (q_chan s)), npanics (q_delivered s)).
Proof.
  intros s.
  assert (Hs : internal_step true s = None) by (apply acts_settled; reflexivity).
  split; [exact Hs|].
  destruct (acts_reach cap handler l) as (evs & rs & _ & HI). fold s in HI.
  cbn [act snd ob_sample].
  apply internal_none in Hs. destruct Hs as (E1 & E2 & _ & _). cbn [Queue.step] in E1, E2.
  destruct HI as [Hc _ _ _ _ Hsub Hd Hp _ _ _].
  assert (Epi : q_pending_inc s = 0) by (destruct (q_pending_inc s); [reflexivity | discriminate]).
  assert (Ein : length (inflight (q_wk s)) = counted (q_wk s)).
  { destruct (q_wk s) as [|[x|]|m|]; try discriminate; reflexivity. }
  apply (f_equal (@length nat)) in Hc. rewrite !app_length, map_length, seq_length in Hc.
  assert (Esub : q_submitted s = q_accepted s) by lia.
  rewrite Esub, Hd, Hp. do 2 f_equal. f_equal.
  destruct (length (q_delivered s) + counted (q_wk s) <? q_accepted s) eqn:El.
  - lia.
  - apply Nat.ltb_ge in El. lia.
Qed.

Example harness_obs_witness :
  let '(s, os) := acts true (init_q (Some 1) true)
                    [AEmit; AEmit; AEmit; ARelease SOk; ASample; ARelease SPanic; ARelease SOk;
                     ASample; ADrop; AEmit; AClone; ADrop; ARelease SOk; ASample] in
  (map ob_result os, map ob_sample os, q_wk s, q_handles s) =
  ([ROk; ROk; RFull; RNone; RNone; RNone; RNone; RNone; RNone; RNone; RNone; RNone; RNone; RNone],
   [None; None; None; None; Some (2, 2, 0, 0); None; None; Some (2, 2, 0, 1);
    None; None; None; None; None; Some (2, 2, 0, 1)],
   WExited, 0).
Proof. vm_compute. reflexivity. Qed.

(* ================================================================== A.8: the stack, any fault script, whole life *)
Lemma nth_error_seq0 n j : j < n -> nth_error (seq 0 n) j = Some j.
Proof.
  intro H. rewrite (nth_error_nth' _ 0) by (rewrite seq_length; lia).
  rewrite seq_nth by lia. reflexivity.
Qed.

Lemma res_ok_seq (pay : nat -> str) l : forall xs,
  Forall2 res_ok (map (fun i => Emit (pay i)) l) xs ->
  Forall2 (fun i x => match x with OOk k => k = length (pay i) | OPanic => False | _ => True end) l xs.
Proof.
  induction l as [|i l IH]; intros xs F; inversion F as [|o x ops' xs' Hx Hr]; subst; constructor; auto.
Qed.

(* the metrics acknowledged by the buffered sink when driven with metrics 0..n-1: exactly those
   whose emit answered Ok, each with its own text *)
Lemma acked_seq (pay : nat -> str) n xs i m : length xs = n ->
  (In (i, m) (acked 0 (map (fun i => Emit (pay i)) (seq 0 n)) xs) <->
   i < n /\ m = pay i /\ exists k, nth_error xs i = Some (OOk k)).
Proof.
  intro L.
  rewrite (acked_iff _ 0 xs (i, m)) by (rewrite map_length, seq_length; exact L).
  cbn [fst snd]. split.
  - intros (j & k & -> & Ho & Hx). cbn [Nat.add].
    assert (Hj : j < n).
    { assert (N : nth_error (map (fun i => Emit (pay i)) (seq 0 n)) j <> None) by congruence.
      apply nth_error_Some in N. rewrite map_length, seq_length in N. exact N. }
    rewrite nth_error_map, (nth_error_seq0 _ _ Hj) in Ho. cbn in Ho. injection Ho as <-.
    split; [exact Hj|]. split; [reflexivity|]. exists k. exact Hx.
  - intros (Hi & -> & k & Hx). exists i, k. split; [reflexivity|]. split; [|exact Hx].
    rewrite nth_error_map, (nth_error_seq0 _ _ Hi). reflexivity.
Qed.

(* C09 with a BUFFERED wrapped sink whose socket follows an ARBITRARY fault script: once the
   worker has exited, the buffered sink has been driven with exactly the accepted metrics
   0 .. n-1 in acceptance order and then dropped ([Writer.run] = construction, the emits, the
   final drop, which flushes).  Then: one result per metric; an Ok result carries the byte
   length; no result is a panic; an error result is an error the socket returned during that very
   emit; every datagram is framed as C05 says; the metrics whose emit returned Ok and that fit a
   datagram have been written, each once, in whole lines, in acceptance order - except those still
   in the buffer after the drop, and the buffer is empty after the drop unless the socket refused
   the drop's own flush with an error (the log then ends with that failed attempt, made by the
   drop); every acknowledged oversized metric was written exactly once on its own.  If moreover
   the outcomes the worker saw are the writer's results, the error handler got exactly the
   writer's error results, each once, in order *)
Theorem stack_faults_life cap handler evs s rs c e script pay xs w :
  Queue.run true (init_q cap handler) evs = Some (s, rs) -> q_wk s = WExited ->
  Writer.run c e script (delivered_ops pay (q_delivered s)) = (xs, w) ->
  map fst (q_delivered s) = seq 0 (q_accepted s) /\
  delivered_ops pay (q_delivered s) = map (fun i => Emit (pay i)) (seq 0 (q_accepted s)) /\
  Forall2 (fun i x => match x with OOk k => k = length (pay i) | OPanic => False | _ => True end)
          (seq 0 (q_accepted s)) xs /\
  (forall i m, In (i, m) (acked 0 (delivered_ops pay (q_delivered s)) xs) <->
               i < q_accepted s /\ m = pay i /\ exists k, nth_error xs i = Some (OOk k)) /\
  (forall i er, nth_error xs i = Some (OErr er) ->
     exists a, In a (lg w) /\ a_op a = i /\ a_out a = WErr er) /\
  (forall i, nth_error xs i = Some OIntr ->
     exists a, In a (lg w) /\ a_op a = i /\ a_out a = WIntr) /\
  Forall (frame_ok c e) (lg w) /\
  filter (nzb e) (sentL (lg w) ++ bids w) =
    filter (nzb e) (fit_ids c e (acked 0 (delivered_ops pay (q_delivered s)) xs)) /\
  sentA (lg w) = big_ids c e (acked 0 (delivered_ops pay (q_delivered s)) xs) /\
  (bids w = [] \/ exists pre a er, lg w = pre ++ [a] /\ a_op a = q_accepted s /\ a_out a = WErr er) /\
  (map snd (q_delivered s) = map sout_of xs ->
   q_handled s = if handler then werrs (seq 0 (q_accepted s)) xs else []).
Proof.
  intros R Ex W. destruct (reach_exited _ _ _ _ _ R Ex) as (_ & _ & _ & D).
  pose proof (delivered_ops_seq pay _ _ D) as Eops.
  destruct (ledger_run _ _ _ _ _ _ W) as [L A].
  split; [exact D|]. split; [exact Eops|].
  unfold Writer.run in W.
  destruct (run_from (init c e script) 0 (delivered_ops pay (q_delivered s))) as [xs0 s1] eqn:R0.
  injection W as <- <-.
  destruct (results_sound _ _ _ _ _ _ R0) as (Len & Res & Err).
  destruct (reach_inv _ _ _ _ _ _ R0) as (I1 & C1 & E1 & atts & P).
  destruct P as [_ _ Lg _ Fr _ _ _ _ _ _]. cbn in Lg, Fr.
  unfold mlw_drop in L, A |- *.
  destruct (flush_buf s1 (length (delivered_ops pay (q_delivered s)))) as [r s2] eqn:F.
  cbn [snd] in *. apply flushbuf_spec in F; [|exact I1].
  destruct F as (_ & _ & datts & [X Xop] & DFr & _ & _ & _ & _ & M).
  rewrite C1, E1 in DFr.
  assert (Ln : length (delivered_ops pay (q_delivered s)) = q_accepted s).
  { rewrite Eops, map_length, seq_length. reflexivity. }
  rewrite Ln in Len.
  split; [apply res_ok_seq; rewrite <- Eops; exact Res|].
  split; [intros i m; rewrite Eops; apply acked_seq; exact Len|].
  split.
  { intros i er Hn. destruct (Err i _ Hn) as (a & Ia & Oa & Ua). exists a.
    split; [rewrite X; apply in_or_app; left; exact Ia | auto]. }
  split.
  { intros i Hn. destruct (Err i _ Hn) as (a & Ia & Oa & Ua). exists a.
    split; [rewrite X; apply in_or_app; left; exact Ia | auto]. }
  split; [rewrite X, Lg; apply Forall_app; split; assumption|].
  split; [exact L|]. split; [exact A|]. split.
  - destruct r as [u|x| |]; try contradiction.
    + left. exact (proj2 M).
    + right. destruct M as ((pre & a & Ed & Oa) & _). exists (lg s1 ++ pre), a, x.
      split; [rewrite X, Ed, app_assoc; reflexivity|]. split; [|exact Oa].
      rewrite Forall_forall in Xop. rewrite <- Ln. apply Xop. rewrite Ed. apply in_or_app. right. left. reflexivity.
  - intro H. rewrite (reach_handled _ _ _ _ _ R). destruct handler; [|reflexivity].
    rewrite <- D. apply errs_of_results, H.
Qed.

(* the same at ANY moment of any history (the worker need not have exited, the writer is not
   dropped), for any handler setting: [stack_faults] of StackProofs.v without [handler = true] *)
Theorem stack_faults_any cap handler evs s rs c e script pay xs w :
  Queue.run true (init_q cap handler) evs = Some (s, rs) ->
  Writer.run_from (init c e script) 0 (delivered_ops pay (q_delivered s)) = (xs, w) ->
  map snd (q_delivered s) = map sout_of xs ->
  q_handled s = (if handler then werrs (map fst (q_delivered s)) xs else []) /\
  map fst (q_delivered s) = seq 0 (length (q_delivered s)) /\
  (forall i, nth_error xs i <> Some OPanic) /\
  (forall i, nth_error (map snd (q_delivered s)) i <> Some SPanic) /\
  q_panics s = 0.
Proof.
  intros R W H.
  destruct (results_sound _ _ _ _ _ _ W) as (_ & _ & Err).
  assert (NP : forall i, nth_error xs i <> Some OPanic).
  { intros i Hn. exact (Err i _ Hn). }
  split.
  { rewrite (reach_handled _ _ _ _ _ R). destruct handler; [|reflexivity]. apply errs_of_results, H. }
  split; [exact (proj1 (reach_prefix _ _ _ _ _ R))|].
  split; [exact NP|].
  assert (NS : forall i, nth_error (map snd (q_delivered s)) i <> Some SPanic).
  { intros i Hn. rewrite H, nth_error_map in Hn.
    destruct (nth_error xs i) as [x|] eqn:Ex; [|discriminate]. cbn in Hn.
    destruct x; try discriminate. exact (NP i Ex). }
  split; [exact NS|].
  rewrite (reach_panics _ _ _ _ _ R). clear - NS.
  induction (q_delivered s) as [|[m o] d IH]; [reflexivity|].
  cbn [npanics]. destruct o.
  - apply IH. intros i. exact (NS (S i)).
  - apply IH. intros i. exact (NS (S i)).
  - exfalso. exact (NS 0 eq_refl).
Qed.

(* ================================================================== A.20: joint witnesses for the coupled hypotheses *)
(* six metrics for a buffered sink of capacity 8 with newline terminator: number 2 (10 bytes) is
   oversized, 0 and 3 share a datagram, 4 and 5 share one *)
Definition wit_pay (i : nat) : str :=
  match i with
  | 0 => [97; 97; 97]%N | 1 => [98; 98; 98; 98; 98]%N
  | 2 => [99; 99; 99; 99; 99; 99; 99; 99; 99; 99]%N
  | 3 => [100; 100]%N | 4 => [101; 101; 101; 101]%N | _ => [102]%N
  end.

(* a history of the queue (capacity 2, handler configured): six accepted emits and a refused one
   interleaved with the worker, a clone, its drop, the last drop on a full queue (helper thread),
   the wrapped sink answering [o i] for metric i; the worker has exited at the end *)
Definition wit_history (o : nat -> soutcome) : list event :=
  [ETrySend; ETrySend; EWDequeue; ETrySend; ETrySend; EWStep; EIncSubmitted;
   EWFinish (o 0); EWDequeue; EWStep; EClone; ETrySend; EWFinish (o 1); EWDequeue; EWStep;
   EWFinish (o 2); EDropH; ETrySend; EWDequeue; EWStep; ETrySend; EWFinish (o 3); EDropH;
   EWDequeue; EPillSend; EWStep; EWFinish (o 4); EIncSubmitted; EWDequeue; EWStep; EWFinish (o 5);
   EWDequeue; EWStep].

(* C09 (stack_faults_life / c09_stack_faults) and C16 (c16_stack) hypotheses hold TOGETHER: the
   outcomes in the queue's delivery log are the results of the writer driven with the delivered
   metrics under the fault script [error 5; interrupted; ok; error 9]: emit 1 fails (its flush of
   metric 0 is refused), the oversized metric 2 is interrupted, the final drop's flush of 4 and 5
   is refused (they stay in the buffer, the log ends with the drop's failed attempt, numbered 6);
   the handler got (1, 5) and (2, 0); metrics 0 and 3 went out in one datagram *)
Example stack_joint_witness_1 :
  let script := [WErr 5; WIntr; WOk; WErr 9]%N in
  let o i := nth i [SOk; SErr 5; SErr 0; SOk; SOk; SOk] SOk in
  match Queue.run true (init_q (Some 2) true) (wit_history o) with
  | Some (s, rs) =>
    let '(xs, w) := Writer.run 8 [10%N] script (delivered_ops wit_pay (q_delivered s)) in
    let '(xs', w') := Writer.run_from (init 8 [10%N] script) 0 (delivered_ops wit_pay (q_delivered s)) in
    q_wk s = WExited /\ q_accepted s = 6 /\ count_ok rs = 6 /\
    map snd (q_delivered s) = map sout_of xs /\ xs' = xs /\
    xs = [OOk 3; OErr 5%N; OIntr; OOk 2; OOk 4; OOk 1] /\
    q_handled s = [(1, 5); (2, 0)] /\ q_handled s = werrs (seq 0 6) xs /\
    map fst (acked 0 (delivered_ops wit_pay (q_delivered s)) xs) = [0; 3; 4; 5] /\
    map fst (sentL (lg w)) = [0; 3] /\ map fst (bids w) = [4; 5] /\ sentA (lg w) = [] /\
    map (fun a => (a_op a, a_out a)) (lg w) = [(1, WErr 5%N); (2, WIntr); (4, WOk); (6, WErr 9%N)] /\
    map fst (bids w') = [4; 5] /\ length (lg w') = 3
  | None => False
  end.
Proof. vm_compute. repeat split; reflexivity. Qed.

(* a second script [ok; error 5; ok; interrupted; error 7]: the oversized metric 2 fails with
   error 5, emit 5 fails with error 7 after an interrupted retry; the final drop succeeds and
   leaves the buffer empty; every acknowledged metric (0, 1, 3, 4) was written exactly once *)
Example stack_joint_witness_2 :
  let script := [WOk; WErr 5; WOk; WIntr; WErr 7]%N in
  let o i := nth i [SOk; SOk; SErr 5; SOk; SOk; SErr 7] SOk in
  match Queue.run true (init_q (Some 2) true) (wit_history o) with
  | Some (s, rs) =>
    let '(xs, w) := Writer.run 8 [10%N] script (delivered_ops wit_pay (q_delivered s)) in
    q_wk s = WExited /\ map snd (q_delivered s) = map sout_of xs /\
    xs = [OOk 3; OOk 5; OErr 5%N; OOk 2; OOk 4; OErr 7%N] /\
    q_handled s = [(2, 5); (5, 7)] /\ q_handled s = werrs (seq 0 6) xs /\
    map fst (acked 0 (delivered_ops wit_pay (q_delivered s)) xs) = [0; 1; 3; 4] /\
    map fst (sentL (lg w)) = [0; 1; 3; 4] /\ bids w = [] /\ sentA (lg w) = [] /\
    map (fun a => (a_op a, a_out a)) (lg w) =
      [(1, WOk); (2, WErr 5%N); (3, WOk); (5, WIntr); (5, WErr 7%N); (6, WOk)]
  | None => False
  end.
Proof. vm_compute. repeat split; reflexivity. Qed.

(* C16 [c16_stack] in the MIDDLE of a history (a handle alive, the worker processing metric 4,
   metric 5 queued, the writer not dropped): the coupled hypothesis holds for the four completed
   calls, with an acknowledged oversized metric (script [ok; ok; error 5]) *)
Example stack_joint_witness_mid :
  let script := [WOk; WOk; WErr 5]%N in
  match Queue.run true (init_q (Some 2) true)
          [ETrySend; ETrySend; EWDequeue; ETrySend; ETrySend; EWStep; EIncSubmitted;
           EWFinish SOk; EWDequeue; EWStep; EClone; ETrySend; EWFinish SOk; EWDequeue; EWStep;
           EWFinish SOk; EDropH; ETrySend; EWDequeue; EWStep; ETrySend; EWFinish (SErr 5);
           EWDequeue; EWStep] with
  | Some (s, rs) =>
    let '(xs, w) := Writer.run_from (init 8 [10%N] script) 0 (delivered_ops wit_pay (q_delivered s)) in
    (q_wk s, q_handles s, q_chan s) = (WCounted 4, 1, [Some 5]) /\
    map snd (q_delivered s) = map sout_of xs /\
    xs = [OOk 3; OOk 5; OOk 10; OErr 5%N] /\
    q_handled s = [(3, 5)] /\ q_handled s = werrs (map fst (q_delivered s)) xs /\
    map fst (sentL (lg w)) = [0] /\ map fst (bids w) = [1] /\ map fst (sentA (lg w)) = [2]
  | None => False
  end.
Proof. vm_compute. repeat split; reflexivity. Qed.

(* ================================================================== A.4, per property: C09 / C11 / C15 / C16 under any schedule *)
Definition npan (outs : list soutcome) : nat :=
  length (filter (fun o => match o with SPanic => true | _ => false end) outs).

Lemma npanics_npan d : npanics d = npan (map snd d).
Proof.
  unfold npan. induction d as [|[m o] d IH]; [reflexivity|].
  cbn [npanics map snd filter]. destruct o; cbn [length]; rewrite IH; reflexivity.
Qed.

Lemma npan_app a b : npan (a ++ b) = npan a + npan b.
Proof. unfold npan. rewrite filter_app, app_length. reflexivity. Qed.

(* C09: after the last drop EVERY maximal background schedule (not only [quiesce]) ends with the
   worker exited and the wrapped sink released, everything accepted delivered first *)
Corollary last_drop_any_schedule cap handler evs s rs wevs s' wrs :
  Queue.run true (init_q cap handler) evs = Some (s, rs) -> q_handles s = 0 ->
  Forall worker_side wevs -> Queue.run true s wevs = Some (s', wrs) ->
  length wevs <= mu s /\
  (stuck true s' \/ exists ev s'', worker_side ev /\ Queue.step true s' ev = Some (s'', RNone)) /\
  (stuck true s' ->
     q_wk s' = WExited /\ sink_released s' = true /\
     q_delivered s' = q_delivered s ++ combine (pending_ids s) (finish_outs wevs) /\
     map fst (q_delivered s') = seq 0 (q_accepted s) /\ q_chan s' = [] /\ q_pill_pending s' = false).
Proof.
  intros R Hh W R2.
  destruct (every_background_schedule _ _ _ _ _ _ _ _ R W R2)
    as (Hmu & _ & _ & _ & _ & _ & _ & Pr & H).
  split; [lia|]. split; [exact Pr|]. intro St.
  destruct (H St) as (_ & D & F & _ & _ & _ & C & _ & P & _ & X). destruct (X Hh). auto 8.
Qed.

(* C11 / C15 / C16: the panic counter, the statistics and the handler log after ANY background
   schedule, and at the end of any maximal one *)
Corollary counters_any_schedule cap handler evs s rs wevs s' wrs :
  Queue.run true (init_q cap handler) evs = Some (s, rs) ->
  Forall worker_side wevs -> Queue.run true s wevs = Some (s', wrs) ->
  q_panics s' = q_panics s + npan (finish_outs wevs) /\
  (stuck true s' ->
     q_submitted s' = count_ok rs /\ q_drained s' = count_ok rs /\
     length (q_delivered s') = count_ok rs /\ queued_now s' = 0 /\
     q_handled s' = q_handled s ++
       (if handler then errs (combine (pending_ids s) (finish_outs wevs)) else [])).
Proof.
  intros R W R2.
  destruct (every_background_schedule _ _ _ _ _ _ _ _ R W R2)
    as (_ & _ & R3 & _ & _ & _ & Eo & _ & H).
  split.
  - rewrite (reach_panics _ _ _ _ _ R3), (reach_panics _ _ _ _ _ R), !npanics_npan, Eo, npan_app.
    reflexivity.
  - intro St. destruct (H St) as (_ & D & F & Es & Ed & Eq & _).
    destruct (run_accepted _ _ _ _ _ R) as [Ea _]. cbn in Ea.
    apply (f_equal (@length nat)) in F. rewrite map_length, seq_length in F.
    split; [congruence|]. split; [congruence|]. split; [congruence|]. split; [exact Eq|].
    rewrite (reach_handled _ _ _ _ _ R3), (reach_handled _ _ _ _ _ R), D.
    destruct handler; [apply errs_app | reflexivity].
Qed.

(* the three parts, one per property *)
Corollary panics_any_schedule cap handler evs s rs wevs s' wrs :
  Queue.run true (init_q cap handler) evs = Some (s, rs) ->
  Forall worker_side wevs -> Queue.run true s wevs = Some (s', wrs) ->
  q_panics s' = q_panics s + npan (finish_outs wevs) /\ q_panics s' = npanics (q_delivered s').
Proof.
  intros R W R2. split; [exact (proj1 (counters_any_schedule _ _ _ _ _ _ _ _ R W R2))|].
  destruct (every_background_schedule _ _ _ _ _ _ _ _ R W R2) as (_ & _ & R3 & _).
  exact (reach_panics _ _ _ _ _ R3).
Qed.

Corollary stats_any_schedule cap handler evs s rs wevs s' wrs :
  Queue.run true (init_q cap handler) evs = Some (s, rs) ->
  Forall worker_side wevs -> Queue.run true s wevs = Some (s', wrs) -> stuck true s' ->
  q_submitted s' = count_ok rs /\ q_drained s' = count_ok rs /\
  length (q_delivered s') = count_ok rs /\ queued_now s' = 0.
Proof.
  intros R W R2 St.
  destruct (proj2 (counters_any_schedule _ _ _ _ _ _ _ _ R W R2) St) as (A & B & C & D & _). auto.
Qed.

Corollary handler_any_schedule cap handler evs s rs wevs s' wrs :
  Queue.run true (init_q cap handler) evs = Some (s, rs) ->
  Forall worker_side wevs -> Queue.run true s wevs = Some (s', wrs) -> stuck true s' ->
  q_handled s' = q_handled s ++
    (if handler then errs (combine (pending_ids s) (finish_outs wevs)) else []) /\
  length (finish_outs wevs) = length (pending_ids s).
Proof.
  intros R W R2 St.
  destruct (proj2 (counters_any_schedule _ _ _ _ _ _ _ _ R W R2) St) as (_ & _ & _ & _ & E).
  split; [exact E|].
  destruct (every_background_schedule _ _ _ _ _ _ _ _ R W R2) as (_ & _ & _ & _ & _ & _ & _ & _ & H).
  exact (proj1 (H St)).
Qed.

Print Assumptions panics_any_schedule.
Print Assumptions stats_any_schedule.
Print Assumptions handler_any_schedule.
Print Assumptions stuck_iff.
Print Assumptions stuck_or_progress.
Print Assumptions any_background_schedule.
Print Assumptions every_background_schedule.
Print Assumptions background_schedules_agree.
Print Assumptions last_drop_any_schedule.
Print Assumptions counters_any_schedule.
Print Assumptions act_spec.
Print Assumptions act_sample.
Print Assumptions sample_obs.
Print Assumptions act_disabled.
Print Assumptions act_enabled_spec.
Print Assumptions act_emit.
Print Assumptions acts_obs.
Print Assumptions harness_sample.
Print Assumptions stack_faults_life.
Print Assumptions stack_faults_any.
Print Assumptions every_background_schedule_witness.
Print Assumptions harness_obs_witness.
Print Assumptions stack_joint_witness_1.
Print Assumptions stack_joint_witness_2.
Print Assumptions stack_joint_witness_mid.
