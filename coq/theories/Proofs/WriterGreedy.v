(* The number of datagrams: for a fault-free run of fitting metrics the writer produces exactly
   as many non-empty datagrams as next-fit packing of the line sizes into the capacity opens
   blocks — which Base/Greedy.v shows to be the minimum over all in-order partitions.

   The proof follows the writer through one emit in the fault-free, fitting case and relates
   its fill counter to the open block of the greedy packing. *)
Require Import Cadence.Base.Prelude.
Require Import Cadence.Base.Greedy.
Require Import Cadence.Model.Writer.
Require Import Cadence.Proofs.WriterBase.
Require Import Cadence.Proofs.WriterInv.

(* datagrams that carry bytes *)
Definition nonempty (a : attempt) : bool := match a_bytes a with [] => false | _ => true end.
Definition dcount (l : list attempt) : nat := length (filter nonempty l).
(* a block is open: lines are buffered and will go out with the next flush *)
Definition openb (s : st) : nat := match bbuf s with [] => 0 | _ => 1 end.
(* blocks greedy still has to open, given the fill counter *)
Definition G (c w : nat) (rest : list nat) : nat :=
  match w with 0 => greedy_count c rest | _ => greedy_aux c w rest end.

Lemma dcount_app a b : dcount (a ++ b) = dcount a + dcount b.
Proof. unfold dcount. now rewrite filter_app, app_length. Qed.

(* the fault-free environment: the script is exhausted, every attempt answers Ok *)
Lemma under_ff s b lab op :
  sc s = [] ->
  under s b lab op = (WOk, set_io s [] (lg s ++ [{| a_bytes := b; a_out := WOk; a_lab := lab; a_op := op |}])).
Proof. intros H. unfold under. now rewrite H. Qed.

Lemma flush_buf_ff s op :
  sc s = [] ->
  exists s', flush_buf s op = (ROk tt, s') /\ sc s' = [] /\ bbuf s' = [] /\ bids s' = [] /\
    written s' = written s /\ cap s' = cap s /\ ending s' = ending s /\
    dcount (lg s') = dcount (lg s) + openb s.
Proof.
  intros H. unfold flush_buf, openb. destruct (bbuf s) as [|x xs] eqn:E.
  - eexists. split; [reflexivity|]. cbn. repeat split; auto; lia.
  - rewrite H. cbn [length flush_loop]. rewrite under_ff by exact H. rewrite E.
    eexists. split; [reflexivity|]. cbn [set_buf set_io lg sc bbuf bids written cap ending].
    rewrite dcount_app. unfold dcount at 2. cbn [filter nonempty a_bytes length]. repeat split; auto.
Qed.

Lemma mlw_flush_ff s op :
  sc s = [] ->
  exists s', mlw_flush s op = (ROk tt, s') /\ sc s' = [] /\ bbuf s' = [] /\ bids s' = [] /\
    written s' = 0 /\ cap s' = cap s /\ ending s' = ending s /\
    dcount (lg s') = dcount (lg s) + openb s.
Proof.
  intros H. destruct (flush_buf_ff s op H) as (s1 & F & A & B & C & D & E1 & E2 & E3).
  unfold mlw_flush. rewrite F. eexists. split; [reflexivity|]. cbn. repeat split; auto.
Qed.

(* BufWriter::write of [b] when it fits into the spare room, fault-free: buffered, or — when
   [b] is as large as the whole (then empty) buffer — written straight out *)
Lemma bw_write_ff s b g first op :
  sc s = [] -> length (bbuf s) <= cap s -> length b <= cap s - length (bbuf s) ->
  exists s', bw_write s b g first op = (ROk (length b), s') /\ sc s' = [] /\
    written s' = written s /\ cap s' = cap s /\ ending s' = ending s /\
    ((length b < cap s /\ bbuf s' = bbuf s ++ b /\ dcount (lg s') = dcount (lg s)) \/
     (length b = cap s /\ bbuf s = [] /\ bbuf s' = [] /\
      dcount (lg s') = dcount (lg s) + match b with [] => 0 | _ => 1 end)).
Proof.
  intros H Hl Hf. destruct (bw_write s b g first op) as [r s'] eqn:W.
  pose proof (bw_write_fits s b g first op r s' Hl Hf W) as [(A & B & C)|(A & B & D)].
  - subst r s'. eexists. split; [reflexivity|]. cbn [set_buf set_io lg sc bbuf bids written cap ending].
    repeat split; auto; try (left; repeat split; auto).
  - unfold direct in D. rewrite under_ff in D by (destruct first; cbn; exact H).
    inversion D; subst r s'. eexists. split; [reflexivity|].
    destruct first; cbn [set_buf set_io lg sc bbuf bids written cap ending]; rewrite ?B;
      repeat split; auto; right; repeat split; auto;
      rewrite dcount_app; unfold dcount at 2; cbn [filter nonempty a_bytes]; destruct b; reflexivity.
Qed.

Lemma openb_app s b : bbuf s <> [] -> match bbuf s ++ b with [] => 0 | _ => 1 end = 1.
Proof. destruct (bbuf s); [congruence|reflexivity]. Qed.

(* one fitting emit in a fault-free run: Ok, and the ledger of blocks advances as greedy does *)
Lemma emit_ff s m n rest :
  Inv s -> sc s = [] -> 0 < length m + length (ending s) -> length m + length (ending s) <= cap s ->
  exists s', mlw_write s m n = (ROk (length m), s') /\ Inv s' /\ sc s' = [] /\
    cap s' = cap s /\ ending s' = ending s /\
    dcount (lg s') + openb s' + G (cap s) (written s') rest =
    dcount (lg s) + openb s + G (cap s) (written s) ((length m + length (ending s)) :: rest).
Proof.
  intros I H Hpos Hfit. pose proof (inv_len _ I) as Hlen.
  pose proof I as [Ile Isync Ibuf].
  destruct (mlw_write s m n) as [rF sF] eqn:W.
  pose proof (mlw_write_spec s m n rF sF I W) as Post. destruct Post as (IF & _).
  set (c := cap s) in *. set (e := ending s) in *. set (x := length m + length e) in *.
  rewrite mlw_write_unfold in W. fold c e in W.
  assert (E0 : c <? written s = false) by (apply Nat.ltb_ge; lia). rewrite E0 in W.
  assert (E1 : c <? length m + length e = false) by (apply Nat.ltb_ge; unfold x in *; lia). rewrite E1 in W.
  (* the state [s0] in which the buffered path starts, and what the flush (if any) did *)
  assert (exists s0, (if c - written s <? length m + length e then mlw_flush s n else (ROk tt, s)) = (ROk tt, s0) /\
            Inv s0 /\ sc s0 = [] /\ cap s0 = c /\ ending s0 = e /\
            x <= c - written s0 /\
            dcount (lg s0) + openb s0 + G c (written s0) (x :: rest) =
              dcount (lg s) + openb s + G c (written s) (x :: rest)) as (s0 & F & I0 & H0 & C0 & En0 & Hroom & L0).
  { destruct (c - written s <? length m + length e) eqn:E2.
    - apply Nat.ltb_lt in E2. fold x in E2.
      destruct (mlw_flush_ff s n H) as (s1 & F & A & B & Bi & Wz & Cc & Ee & Dd).
      exists s1. split; [exact F|]. split.
      { constructor; [lia| left; rewrite B, Wz; reflexivity | rewrite B, Bi; reflexivity]. }
      repeat split; auto; [lia|].
      unfold openb at 1. rewrite B. rewrite Dd, Wz.
      (* before: the fill counter is positive and the item does not fit: greedy opens a new block *)
      assert (Wp : written s <> 0) by lia.
      unfold G at 2. destruct (written s) as [|w'] eqn:Ew; [congruence|].
      cbn [greedy_aux]. assert (E3 : S w' + x <=? c = false) by (apply Nat.leb_gt; lia).
      rewrite E3. unfold G. cbn [greedy_count]. lia.
    - apply Nat.ltb_ge in E2. exists s. fold x in E2. repeat split; auto. }
  rewrite F in W. clear F.
  (* the buffered path from [s0] *)
  pose proof (inv_len _ I0) as Hlen0. pose proof I0 as [Ile0 Isync0 Ibuf0].
  assert (Hsp : x <= c - length (bbuf s0)).
  { destruct Isync0 as [Hs|[Hs1 Hs2]]; [rewrite Hs; exact Hroom|]. rewrite Hs1. cbn. lia. }
  unfold mlw_tail in W. cbv zeta in W.
  destruct (bw_write_ff s0 m (n, m) true n H0) as (s1 & W1 & H1 & Wr1 & C1 & En1 & K1);
    [rewrite C0; lia|rewrite C0; unfold x in Hsp; lia|].
  rewrite W1 in W.
  set (s1' := set_written s1 (written s1 + length m)) in *.
  assert (Hs1' : sc s1' = [] /\ cap s1' = c /\ ending s1' = e /\ bbuf s1' = bbuf s1 /\ lg s1' = lg s1
                 /\ written s1' = written s0 + length m).
  { unfold s1'. cbn. rewrite C1, C0, En1, En0, Wr1. repeat split; auto. }
  destruct Hs1' as (H1' & C1' & En1' & B1' & L1' & Wr1').
  rewrite En1' in W.
  assert (Hb1 : length (bbuf s1') <= cap s1' /\ length e <= cap s1' - length (bbuf s1')).
  { rewrite B1', C1'. destruct K1 as [(A & B & _)|(A & B & Bz & _)].
    - rewrite B, app_length. unfold x in Hsp. lia.
    - rewrite Bz. cbn. rewrite C0 in A. unfold x in *. lia. }
  destruct Hb1 as [Hb1 Hb2].
  destruct (bw_write_ff s1' e (n, m) false n H1' Hb1 Hb2) as (s2 & W2 & H2 & Wr2 & C2 & En2 & K2).
  rewrite W2 in W. inversion W; subst rF. clear W.
  set (s' := set_written s2 (written s2 + length e)) in *.
  exists s'. split; [reflexivity|]. split; [subst sF; exact IF|].
  assert (Ws' : written s' = written s0 + x) by (unfold s', x; cbn; rewrite Wr2, Wr1'; lia).
  assert (Bs' : bbuf s' = bbuf s2 /\ lg s' = lg s2 /\ sc s' = [] /\ cap s' = c /\ ending s' = e).
  { unfold s'. cbn. rewrite C2, C1', En2, En1'. repeat split; auto. }
  destruct Bs' as (Bs' & Ls' & Hs' & Cs' & Ens').
  (* what the two BufWriter writes did, by cases *)
  assert (Key : (bbuf s' = bbuf s0 ++ m ++ e /\ dcount (lg s') = dcount (lg s0)) \/
                (bbuf s0 = [] /\ written s0 = 0 /\ x = c /\ bbuf s' = [] /\ dcount (lg s') = S (dcount (lg s0)))).
  { rewrite Bs', Ls'.
    destruct K1 as [(A1 & B1 & D1)|(A1 & B1 & Bz1 & D1)];
      destruct K2 as [(A2 & B2 & D2)|(A2 & B2 & Bz2 & D2)];
      rewrite ?B1', ?L1' in *.
    - left. rewrite B2, B1, <- app_assoc. split; auto. rewrite D2, D1. reflexivity.
    - (* the terminator alone is the whole buffer: the metric is empty and the buffer was empty *)
      rewrite B1 in B2. apply app_eq_nil in B2. destruct B2 as [Z0 Zm]. subst m.
      right. rewrite C1' in A2. cbn [length] in *. unfold x in *.
      assert (written s0 = 0) by (destruct Isync0 as [Q|[_ Q]]; [rewrite Z0 in Q; cbn in Q; lia|lia]).
      repeat split; auto; try lia. rewrite D2, D1.
      destruct e; [cbn in Hpos; lia|lia].
    - (* the metric alone is the whole buffer (empty terminator) and goes straight out *)
      rewrite C0 in A1. assert (Le : length e = 0) by (unfold x in *; lia).
      assert (Ee : e = []) by (now apply length_nil_inv).
      right. assert (written s0 = 0) by (destruct Isync0 as [Q|[_ Q]]; [rewrite B1 in Q; cbn in Q; lia|unfold x in *; lia]).
      repeat split; auto; try (unfold x in *; lia).
      + rewrite B2, Bz1, Ee. reflexivity.
      + rewrite D2, D1. destruct m; [cbn in A1; unfold x in *; cbn in *; lia|lia].
    - (* both as large as the buffer: impossible, the line would not fit *)
      exfalso. rewrite C0 in A1. rewrite C1' in A2. unfold x in *. lia. }
  split; [exact Hs'|]. split; [exact Cs'|]. split; [exact Ens'|].
  rewrite <- L0. rewrite Ws'.
  assert (Gx : G c (written s0 + x) rest = greedy_aux c (written s0 + x) rest).
  { unfold G. destruct (written s0 + x) eqn:Q; [lia|reflexivity]. }
  rewrite Gx.
  destruct (written s0) as [|w0] eqn:Ew.
  - (* no block open: the item opens one *)
    assert (Bz : bbuf s0 = []).
    { destruct Isync0 as [Q|[Q _]]; [apply length_nil_inv; lia|exact Q]. }
    unfold openb at 2. rewrite Bz. unfold G. cbn [greedy_count Nat.add].
    destruct Key as [(A & D)|(_ & _ & Cx & A & D)].
    + unfold openb. rewrite A, Bz. cbn [app].
      destruct (m ++ e) eqn:Me; [apply (f_equal (@length _)) in Me; rewrite app_length in Me; cbn in Me; unfold x in Hpos; lia|].
      rewrite D. lia.
    + unfold openb. rewrite A, D. lia.
  - (* a block is open and the item fits into it *)
    assert (Bn : bbuf s0 <> []).
    { destruct Isync0 as [Q|[_ Q]]; [intros Z; rewrite Z in Q; cbn in Q; lia|rewrite C0 in Q; lia]. }
    unfold G. cbn [greedy_aux].
    assert (E3 : S w0 + x <=? c = true) by (apply Nat.leb_le; lia). rewrite E3.
    destruct Key as [(A & D)|(Z & _)]; [|congruence].
    unfold openb. rewrite A. destruct (bbuf s0) eqn:Q; [congruence|]. cbn [app]. rewrite D. lia.
Qed.

(* ------------------------------------------------------------------ whole runs *)
Definition line_sizes (e : str) (ms : list str) : list nat := map (fun m => length m + length e) ms.
(* every metric fits into the buffer together with its terminator, and its line is not empty *)
Definition fits_all (c : nat) (e : str) (ms : list str) : Prop :=
  Forall (fun m => 0 < length m + length e /\ length m + length e <= c) ms.

Lemma G_nil c w : G c w [] = 0.
Proof. destruct w; reflexivity. Qed.

Lemma emits_ff ms : forall s n rest,
  Inv s -> sc s = [] -> fits_all (cap s) (ending s) ms ->
  exists rs s', run_from s n (map Emit ms) = (rs, s') /\ Inv s' /\ sc s' = [] /\
    cap s' = cap s /\ ending s' = ending s /\
    Forall2 (fun m x => x = OOk (length m)) ms rs /\
    dcount (lg s') + openb s' + G (cap s) (written s') rest =
    dcount (lg s) + openb s + G (cap s) (written s) (line_sizes (ending s) ms ++ rest).
Proof.
  induction ms as [|m ms IH]; intros s n rest I H F.
  - exists [], s. cbn [map run_from line_sizes app]. split; [reflexivity|]. split; [exact I|].
    repeat split; auto.
  - inversion F as [|? ? [Hp Hf] F']; subst.
    destruct (emit_ff s m n (line_sizes (ending s) ms ++ rest) I H Hp Hf) as (s1 & W & I1 & H1 & C1 & E1 & L1).
    assert (F1 : fits_all (cap s1) (ending s1) ms) by (rewrite C1, E1; exact F').
    destruct (IH s1 (S n) rest I1 H1 F1) as (rs & s2 & R & I2 & H2 & C2 & E2 & A2 & L2).
    exists (OOk (length m) :: rs), s2.
    cbn [map run_from step]. rewrite W. cbn [ores_of_nat]. rewrite R.
    split; [reflexivity|]. split; [exact I2|]. split; [exact H2|].
    split; [now rewrite C2|]. split; [now rewrite E2|]. split; [constructor; auto|].
    rewrite C1, E1 in L2. rewrite L2, L1. reflexivity.
Qed.

(* C19, the global count: a fault-free life of fitting metrics with no explicit flush sends
   exactly greedy_count datagrams, and every emit is acknowledged *)
Theorem datagram_count c e ms rs s :
  fits_all c e ms ->
  run c e [] (map Emit ms) = (rs, s) ->
  dcount (lg s) = greedy_count c (line_sizes e ms) /\
  Forall2 (fun m x => x = OOk (length m)) ms rs.
Proof.
  intros F R. unfold run in R.
  destruct (emits_ff ms (init c e []) 0 [] (inv_init c e []) eq_refl F) as (rs1 & s1 & R1 & I1 & H1 & C1 & E1 & A1 & L1).
  rewrite R1 in R. inversion R; subst rs s. clear R. split; [|exact A1].
  unfold mlw_drop. destruct (flush_buf_ff s1 (length (map Emit ms)) H1) as (s2 & Fb & _ & _ & _ & _ & _ & _ & D).
  rewrite Fb. cbn [snd]. rewrite D.
  cbn [cap init ending written lg bbuf] in L1. rewrite G_nil, app_nil_r in L1.
  unfold dcount at 2, openb at 2 in L1. cbn in L1. unfold G in L1. lia.
Qed.

(* with explicit flushes: the segments between flushes are packed independently *)
Definition seg_ops (segs : list (list str)) (last : list str) : list op :=
  concat (map (fun seg => map Emit seg ++ [Flush]) segs) ++ map Emit last.

Definition sum_greedy (c : nat) (e : str) (segs : list (list str)) : nat :=
  fold_right (fun seg a => greedy_count c (line_sizes e seg) + a) 0 segs.

Lemma run_from_app_ops a : forall b s n,
  run_from s n (a ++ b) =
  let '(r1, s1) := run_from s n a in
  let '(r2, s2) := run_from s1 (n + length a) b in (r1 ++ r2, s2).
Proof.
  induction a as [|o a IH]; intros b s n; cbn [app run_from length].
  - rewrite Nat.add_0_r. destruct (run_from s n b); reflexivity.
  - destruct (step s n o) as [x s1]. rewrite IH.
    destruct (run_from s1 (S n) a) as [r1 s2].
    replace (n + S (length a)) with (S n + length a) by lia.
    destruct (run_from s2 (S n + length a) b) as [r2 s3]. reflexivity.
Qed.

Lemma segments_ff segs : forall s n,
  Inv s -> sc s = [] -> written s = 0 -> bbuf s = [] ->
  Forall (fits_all (cap s) (ending s)) segs ->
  exists rs s', run_from s n (concat (map (fun seg => map Emit seg ++ [Flush]) segs)) = (rs, s') /\
    Inv s' /\ sc s' = [] /\ cap s' = cap s /\ ending s' = ending s /\ written s' = 0 /\ bbuf s' = [] /\
    Forall (fun x => exists k, x = OOk k) rs /\
    dcount (lg s') = dcount (lg s) + sum_greedy (cap s) (ending s) segs.
Proof.
  induction segs as [|seg segs IH]; intros s n I H W B F.
  - exists [], s. cbn [map concat run_from sum_greedy fold_right]. split; [reflexivity|]. split; [exact I|].
    repeat split; auto.
  - inversion F as [|? ? F1 F2]; subst. cbn [map concat]. rewrite <- app_assoc.
    rewrite run_from_app_ops.
    destruct (emits_ff seg s n [] I H F1) as (rs1 & s1 & R1 & I1 & H1 & C1 & E1 & A1 & L1).
    rewrite R1. rewrite map_length.
    cbn [app]. cbn [run_from step].
    destruct (mlw_flush_ff s1 (n + length seg) H1) as (s2 & Fl & H2 & B2 & Bi2 & W2 & C2 & E2 & D2).
    rewrite Fl. cbn [ores_of_unit].
    assert (I2 : Inv s2) by (constructor; [lia|left; rewrite B2, W2; reflexivity|rewrite B2, Bi2; reflexivity]).
    assert (F2' : Forall (fits_all (cap s2) (ending s2)) segs) by (rewrite C2, C1, E2, E1; exact F2).
    destruct (IH s2 (S (n + length seg)) I2 H2 W2 B2 F2') as (rs3 & s3 & R3 & I3 & H3 & C3 & E3 & W3 & B3 & A3 & D3).
    rewrite R3. eexists _, s3. split; [reflexivity|].
    split; [exact I3|]. split; [exact H3|]. split; [now rewrite C3, C2|]. split; [now rewrite E3, E2|].
    split; [exact W3|]. split; [exact B3|]. split.
    + apply Forall_app. split.
      * clear -A1. induction A1; constructor; eauto.
      * constructor; [eexists; reflexivity|exact A3].
    + rewrite D3, D2, C2, C1, E2, E1. cbn [sum_greedy fold_right].
      rewrite G_nil, app_nil_r, W in L1. unfold openb at 2 in L1. rewrite B in L1. unfold G in L1.
      unfold sum_greedy. lia.
Qed.

Theorem datagram_count_segments c e segs last rs s :
  Forall (fits_all c e) segs -> fits_all c e last ->
  run c e [] (seg_ops segs last) = (rs, s) ->
  dcount (lg s) = sum_greedy c e segs + greedy_count c (line_sizes e last) /\
  Forall (fun x => exists k, x = OOk k) rs.
Proof.
  intros Fs Fl R. unfold run, seg_ops in R. rewrite run_from_app_ops in R.
  destruct (segments_ff segs (init c e []) 0 (inv_init c e []) eq_refl eq_refl eq_refl Fs)
    as (rs1 & s1 & R1 & I1 & H1 & C1 & E1 & W1 & B1 & A1 & D1).
  rewrite R1 in R.
  assert (Fl' : fits_all (cap s1) (ending s1) last) by (rewrite C1, E1; exact Fl).
  destruct (emits_ff last s1 (0 + length (concat (map (fun seg => map Emit seg ++ [Flush]) segs))) [] I1 H1 Fl')
    as (rs2 & s2 & R2 & I2 & H2 & C2 & E2 & A2 & L2).
  rewrite R2 in R. inversion R; subst rs s. clear R. split.
  - unfold mlw_drop. destruct (flush_buf_ff s2 (length (concat (map (fun seg => map Emit seg ++ [Flush]) segs) ++ map Emit last)) H2)
      as (s3 & Fb & _ & _ & _ & _ & _ & _ & D). rewrite Fb. cbn [snd]. rewrite D.
    rewrite G_nil, app_nil_r, W1, C1, E1 in L2. unfold openb at 2 in L2. rewrite B1 in L2. unfold G in L2.
    cbn [cap init ending lg] in D1, L2. unfold dcount at 2 in D1. cbn in D1. lia.
  - apply Forall_app. split; [exact A1|]. clear -A2. induction A2; constructor; eauto.
Qed.
