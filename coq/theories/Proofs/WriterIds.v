(* Ghost identities are honest: every identity that ever appears in the pending list
   or in a label of the log is the identity of a metric that was really emitted. *)
Require Import Cadence.Base.Prelude.
Require Import Cadence.Model.Writer.

Definition lab_ids (l : label) : list gm := match l with Lines ms => ms | Alone m => [m] end.

Section Ids.
Variable P : gm -> Prop.

Definition IdsP (s : st) : Prop :=
  Forall P (bids s) /\ Forall (fun a => Forall P (lab_ids (a_lab a))) (lg s).

Lemma under_ids s b lab op :
  IdsP s -> Forall P (lab_ids lab) -> IdsP (snd (under s b lab op)).
Proof.
  intros [A B] L. unfold under. destruct (sc s); cbn; split; auto;
    apply Forall_app; split; auto.
Qed.

Lemma under_bids s b lab op : bids (snd (under s b lab op)) = bids s.
Proof. unfold under. destruct (sc s); reflexivity. Qed.

Lemma flush_loop_ids fuel : forall s op, IdsP s -> IdsP (snd (flush_loop fuel s op)).
Proof.
  induction fuel as [|f IH]; intros s op I; cbn [flush_loop].
  - pose proof (under_ids s (bbuf s) (Lines (bids s)) op I (proj1 I)) as U.
    destruct (under s (bbuf s) (Lines (bids s)) op) as [o s1]. cbn [snd] in U.
    destruct o; cbn; auto. destruct U as [U1 U2]. split; cbn; auto.
  - pose proof (under_ids s (bbuf s) (Lines (bids s)) op I (proj1 I)) as U.
    destruct (under s (bbuf s) (Lines (bids s)) op) as [o s1]. cbn [snd] in U.
    destruct o; cbn; auto. destruct U as [U1 U2]. split; cbn; auto.
Qed.

Lemma flush_buf_ids s op : IdsP s -> IdsP (snd (flush_buf s op)).
Proof.
  intros I. unfold flush_buf. destruct (bbuf s).
  - destruct I as [A B]. split; cbn; auto.
  - now apply flush_loop_ids.
Qed.

Lemma direct_ids s b lab op : IdsP s -> Forall P (lab_ids lab) -> IdsP (snd (direct s b lab op)).
Proof.
  intros I L. unfold direct. pose proof (under_ids s b lab op I L) as U.
  destruct (under s b lab op) as [o s1]. destruct o; exact U.
Qed.

Lemma Forall_removelast {A} (Q : A -> Prop) l : Forall Q l -> Forall Q (removelast l).
Proof.
  induction l as [|x l IH]; intros H; [constructor|].
  inversion H; subst. destruct l; [constructor|].
  change (removelast (x :: a :: l)) with (x :: removelast (a :: l)). constructor; auto.
Qed.

Lemma bw_write_ids s b g first op : IdsP s -> P g -> IdsP (snd (bw_write s b g first op)).
Proof.
  intros I Pg. unfold bw_write.
  assert (Push : forall s0, IdsP s0 -> IdsP (set_buf s0 (bbuf s0 ++ b) (if first then bids s0 ++ [g] else bids s0))).
  { intros s0 [A B]. split; cbn; auto. destruct first; auto. apply Forall_app; split; auto. }
  destruct (length b <? cap s - length (bbuf s)); [cbn; auto|].
  assert (I1 : IdsP (snd (if cap s - length (bbuf s) <? length b then flush_buf s op else (ROk tt, s)))).
  { destruct (cap s - length (bbuf s) <? length b); [now apply flush_buf_ids|exact I]. }
  destruct (if cap s - length (bbuf s) <? length b then flush_buf s op else (ROk tt, s)) as [r s1].
  cbn [snd] in I1.
  destruct r; cbn [snd]; auto.
  destruct (cap s1 <=? length b); [|cbn; auto].
  apply direct_ids; [|cbn; auto].
  destruct first; auto. destruct I1 as [A B]. split; cbn; auto using Forall_removelast.
Qed.

Lemma mlw_flush_ids s op : IdsP s -> IdsP (snd (mlw_flush s op)).
Proof.
  intros I. unfold mlw_flush. pose proof (flush_buf_ids s op I) as F.
  destruct (flush_buf s op) as [r s1]. destruct r; cbn [snd] in *; auto.
Qed.

Lemma set_written_ids s w : IdsP s -> IdsP (set_written s w).
Proof. intros [A B]. split; auto. Qed.

Lemma mlw_write_ids s m op : IdsP s -> P (op, m) -> IdsP (snd (mlw_write s m op)).
Proof.
  intros I Pg. unfold mlw_write.
  destruct (cap s <? written s); [exact I|].
  destruct (cap s <? length m + length (ending s)).
  { apply direct_ids; cbn; auto. }
  assert (I0 : IdsP (snd (if cap s - written s <? length m + length (ending s) then mlw_flush s op else (ROk tt, s)))).
  { destruct (cap s - written s <? length m + length (ending s)); [now apply mlw_flush_ids|exact I]. }
  destruct (if cap s - written s <? length m + length (ending s) then mlw_flush s op else (ROk tt, s)) as [r0 s0].
  cbn [snd] in I0. destruct r0; cbn [snd]; auto.
  pose proof (bw_write_ids s0 m (op, m) true op I0 Pg) as W1.
  destruct (bw_write s0 m (op, m) true op) as [r1 s1]. cbn [snd] in W1.
  destruct r1; cbn [snd]; auto.
  pose proof (bw_write_ids (set_written s1 (written s1 + a0)) (ending (set_written s1 (written s1 + a0)))
                (op, m) false op (set_written_ids _ _ W1) Pg) as W2.
  destruct (bw_write (set_written s1 (written s1 + a0)) (ending (set_written s1 (written s1 + a0))) (op, m) false op)
    as [r2 s2]. cbn [snd] in W2.
  destruct r2; cbn [snd]; auto using set_written_ids.
Qed.

Lemma mlw_drop_ids s op : IdsP s -> IdsP (mlw_drop s op).
Proof. apply flush_buf_ids. Qed.

End Ids.

(* the ghost identity of a metric is (index of the emitting operation, its bytes) *)
Definition real (n : nat) (ops : list op) (g : gm) : Prop :=
  exists i, fst g = n + i /\ nth_error ops i = Some (Emit (snd g)).

Lemma run_from_ids ops : forall (P : gm -> Prop) s n,
  (forall g, real n ops g -> P g) -> IdsP P s -> IdsP P (snd (run_from s n ops)).
Proof.
  induction ops as [|o ops IH]; intros P s n HP I; cbn [run_from]; [exact I|].
  assert (I1 : IdsP P (snd (step s n o))).
  { destruct o as [m|]; cbn [step].
    - pose proof (mlw_write_ids P s m n I) as W. destruct (mlw_write s m n). cbn [snd] in *.
      apply W. apply HP. exists 0. split; [cbn; lia|reflexivity].
    - pose proof (mlw_flush_ids P s n I) as W. destruct (mlw_flush s n). exact W. }
  destruct (step s n o) as [x s1]. cbn [snd] in I1.
  assert (I2 : IdsP P (snd (run_from s1 (S n) ops))).
  { apply IH; [|exact I1]. intros g (i & E1 & E2). apply HP. exists (S i). split; [lia|exact E2]. }
  destruct (run_from s1 (S n) ops) as [xs s2]. exact I2.
Qed.
