(* Socket scenarios without an outage are the fault-free line-buffering writer.

   The listener's state dictates the fault script of each call of a buffered socket sink
   (Sock.with_script); when the listener never goes away every script is "Ok, Ok, ...", and a
   writer driven by such scripts behaves exactly like one driven by the exhausted script, whose
   theory is Proofs/Writer*.v.  [er] erases the script; every operation of the model commutes
   with it.  Consequences: the byte stream on the wire, the answers and the number of datagrams
   of a buffered socket sink. *)
Require Import Cadence.Base.Prelude.
Require Import Cadence.Base.Greedy.
Require Import Cadence.Model.Writer.
Require Import Cadence.Model.Stats.
Require Import Cadence.Model.Sock.
Require Import Cadence.Proofs.WriterBase.
Require Import Cadence.Proofs.WriterInv.
Require Import Cadence.Proofs.WriterRun.
Require Import Cadence.Proofs.WriterThms.
Require Import Cadence.Proofs.WriterGreedy.

(* a script that only ever answers Ok behaves like the exhausted script *)
Definition okq (s : st) : Prop := Forall (fun o => o = WOk) (sc s).
Definition er (s : st) : st := set_io s [] (lg s).

Lemma er_fields s : written (er s) = written s /\ cap (er s) = cap s /\ bbuf (er s) = bbuf s /\
  bids (er s) = bids s /\ ending (er s) = ending s /\ lg (er s) = lg s /\ sc (er s) = [].
Proof. destruct s; cbn; repeat split. Qed.

Lemma er_set_buf s b i : er (set_buf s b i) = set_buf (er s) b i.
Proof. destruct s; reflexivity. Qed.
Lemma er_set_written s w : er (set_written s w) = set_written (er s) w.
Proof. destruct s; reflexivity. Qed.
Lemma okq_set_buf s b i : okq s -> okq (set_buf s b i). Proof. destruct s; exact (fun H => H). Qed.
Lemma okq_set_written s w : okq s -> okq (set_written s w). Proof. destruct s; exact (fun H => H). Qed.

Lemma under_er s b lab op : okq s ->
  under (er s) b lab op = (WOk, er (snd (under s b lab op))) /\ fst (under s b lab op) = WOk /\
  okq (snd (under s b lab op)).
Proof.
  unfold okq, under, er. destruct s as [w c bb bi e scr l]. cbn [sc lg set_io].
  intros H. destruct scr as [|o scr]; cbn.
  - repeat split. constructor.
  - inversion H; subst. repeat split. assumption.
Qed.

Lemma flush_loop_er fuel fuel' s op : okq s ->
  flush_loop fuel' (er s) op = (fst (flush_loop fuel s op), er (snd (flush_loop fuel s op))) /\
  okq (snd (flush_loop fuel s op)).
Proof.
  intros H. destruct (er_fields s) as (_ & _ & B & I & _).
  destruct (under_er s (bbuf s) (Lines (bids s)) op H) as (U & F & K).
  destruct fuel, fuel'; cbn [flush_loop]; rewrite B, I, U;
    destruct (under s (bbuf s) (Lines (bids s)) op) as [o s1]; cbn [fst snd] in *; subst o;
    cbn [fst snd]; rewrite er_set_buf; split; auto using okq_set_buf.
Qed.

Lemma flush_buf_er s op : okq s ->
  flush_buf (er s) op = (fst (flush_buf s op), er (snd (flush_buf s op))) /\ okq (snd (flush_buf s op)).
Proof.
  intros H. unfold flush_buf. destruct (er_fields s) as (_ & _ & B & _). rewrite B.
  destruct (bbuf s).
  - cbn [fst snd]. rewrite er_set_buf. split; auto using okq_set_buf.
  - apply flush_loop_er, H.
Qed.

Lemma direct_er s b lab op : okq s ->
  direct (er s) b lab op = (fst (direct s b lab op), er (snd (direct s b lab op))) /\ okq (snd (direct s b lab op)).
Proof.
  intros H. unfold direct. destruct (under_er s b lab op H) as (U & F & K). rewrite U.
  destruct (under s b lab op) as [o s1]. cbn [fst snd] in *. subst o. cbn [fst snd]. auto.
Qed.

Lemma bw_write_er s b g first op : okq s ->
  bw_write (er s) b g first op = (fst (bw_write s b g first op), er (snd (bw_write s b g first op))) /\
  okq (snd (bw_write s b g first op)).
Proof.
  intros H. unfold bw_write. destruct (er_fields s) as (_ & C & B & I & _). rewrite C, B, I.
  destruct (length b <? cap s - length (bbuf s)).
  - cbn [fst snd]. rewrite er_set_buf. split; auto using okq_set_buf.
  - destruct (cap s - length (bbuf s) <? length b).
    + destruct (flush_buf_er s op H) as (F & K). rewrite F.
      destruct (flush_buf s op) as [r s1]. cbn [fst snd] in *.
      destruct (er_fields s1) as (_ & C1 & B1 & I1 & _).
      destruct r; cbn [fst snd]; auto. rewrite C1.
      destruct (cap s1 <=? length b).
      * destruct first.
        -- apply direct_er, K.
        -- rewrite B1, I1, <- er_set_buf. apply direct_er, okq_set_buf, K.
      * cbn [fst snd]. rewrite B1, I1, er_set_buf. split; auto using okq_set_buf.
    + rewrite ?C, ?B, ?I. destruct (cap s <=? length b).
      * destruct first.
        -- apply direct_er, H.
        -- rewrite <- er_set_buf. apply direct_er, okq_set_buf, H.
      * cbn [fst snd]. rewrite er_set_buf. split; auto using okq_set_buf.
Qed.

Lemma mlw_flush_er s op : okq s ->
  mlw_flush (er s) op = (fst (mlw_flush s op), er (snd (mlw_flush s op))) /\ okq (snd (mlw_flush s op)).
Proof.
  intros H. unfold mlw_flush. destruct (flush_buf_er s op H) as (F & K). rewrite F.
  destruct (flush_buf s op) as [r s1]. cbn [fst snd] in *.
  destruct r; cbn [fst snd]; auto using okq_set_written.
Qed.

Lemma mlw_write_er s m op : okq s ->
  mlw_write (er s) m op = (fst (mlw_write s m op), er (snd (mlw_write s m op))) /\ okq (snd (mlw_write s m op)).
Proof.
  intros H. unfold mlw_write. destruct (er_fields s) as (W & C & _ & _ & E & _). rewrite W, C, E.
  destruct (cap s <? written s); [cbn [fst snd]; auto|].
  destruct (cap s <? length m + length (ending s)); [apply direct_er, H|].
  assert (X : (if cap s - written s <? length m + length (ending s) then mlw_flush (er s) op else (ROk tt, er s)) =
              (fst (if cap s - written s <? length m + length (ending s) then mlw_flush s op else (ROk tt, s)),
               er (snd (if cap s - written s <? length m + length (ending s) then mlw_flush s op else (ROk tt, s)))) /\
              okq (snd (if cap s - written s <? length m + length (ending s) then mlw_flush s op else (ROk tt, s)))).
  { destruct (cap s - written s <? length m + length (ending s)); [apply mlw_flush_er, H|cbn; auto]. }
  destruct X as (X & K0). rewrite X.
  destruct (if cap s - written s <? length m + length (ending s) then mlw_flush s op else (ROk tt, s)) as [r0 s0].
  cbn [fst snd] in *. destruct r0; cbn [fst snd]; auto.
  destruct (bw_write_er s0 m (op, m) true op K0) as (B1 & K1). rewrite B1.
  destruct (bw_write s0 m (op, m) true op) as [r1 s1]. cbn [fst snd] in *.
  destruct r1 as [w1| | |]; cbn [fst snd]; auto.
  assert (K1' : okq (set_written s1 (written s1 + w1))) by auto using okq_set_written.
  destruct (bw_write_er (set_written s1 (written s1 + w1)) (ending (set_written s1 (written s1 + w1))) (op, m) false op K1')
    as (B2 & K2).
  change (set_written (er s1) (written (er s1) + w1)) with (er (set_written s1 (written s1 + w1))).
  change (ending (er (set_written s1 (written s1 + w1)))) with (ending (set_written s1 (written s1 + w1))).
  rewrite B2.
  destruct (bw_write (set_written s1 (written s1 + w1)) (ending (set_written s1 (written s1 + w1))) (op, m) false op)
    as [r2 s2]. cbn [fst snd] in *.
  destruct r2; cbn [fst snd]; auto using okq_set_written.
Qed.

Lemma step_er s n o : okq s ->
  step (er s) n o = (fst (step s n o), er (snd (step s n o))) /\ okq (snd (step s n o)).
Proof.
  intros H. destruct o as [m|]; cbn [step].
  - destruct (mlw_write_er s m n H) as (X & K). rewrite X. destruct (mlw_write s m n); cbn [fst snd] in *. auto.
  - destruct (mlw_flush_er s n H) as (X & K). rewrite X. destruct (mlw_flush s n); cbn [fst snd] in *. auto.
Qed.


(* ------------------------------------------------------------------ scenarios without an outage *)
Definition no_down (ops : list sop) : Prop := Forall (fun o => o <> SDown) ops.

Fixpoint wops (ops : list sop) : list op :=
  match ops with
  | [] => []
  | SEmit m :: r => Emit m :: wops r
  | SFlush :: r => Flush :: wops r
  | _ :: r => wops r
  end.

Fixpoint sres_of (queued : bool) (ops : list sop) (xs : list ores) : list sres :=
  match ops with
  | [] => []
  | SEmit m :: r =>
    match xs with
    | x :: xs' => match x with OOk k => SK (N.of_nat k) | _ => if queued then SK (N.of_nat (length m)) else SE end
                  :: sres_of queued r xs'
    | [] => []
    end
  | SFlush :: r =>
    match xs with
    | x :: xs' => match x with OOk k => SK (N.of_nat k) | _ => SE end :: sres_of queued r xs'
    | [] => []
    end
  | _ :: r => SNone :: sres_of queued r xs
  end.

Lemma okq_with_script s : okq (with_script s true).
Proof. unfold okq, with_script, up_script. destruct s; cbn. repeat constructor. Qed.

Lemma sc_buf_up queued : forall ops s n, no_down ops ->
  exists s', sc_buf queued true s n ops =
             (sres_of queued ops (fst (run_from (er s) n (wops ops))), s', n + length (wops ops), true) /\
             er s' = snd (run_from (er s) n (wops ops)).
Proof.
  induction ops as [|o ops IH]; intros s n ND.
  - exists s. cbn. rewrite Nat.add_0_r. split; reflexivity.
  - inversion ND as [|? ? Ho ND']; subst.
    assert (step_case : forall wo, exists s1,
      step (with_script s true) n wo = (fst (step (er s) n wo), s1) /\ er s1 = snd (step (er s) n wo)).
    { intros wo. destruct (step_er (with_script s true) n wo (okq_with_script s)) as (X & _).
      change (er (with_script s true)) with (er s) in X.
      exists (snd (step (with_script s true) n wo)). rewrite X. cbn [fst snd].
      destruct (step (with_script s true) n wo); split; reflexivity. }
    destruct o as [m| | |]; cbn [sc_buf wops run_from sres_of length].
    + destruct (step_case (Emit m)) as (s1 & S1 & E1). rewrite S1.
      destruct (IH s1 (S n) ND') as (s' & R & E'). rewrite R. rewrite E1 in *.
      destruct (step (er s) n (Emit m)) as [x s1'] eqn:SS. cbn [fst snd] in *.
      destruct (run_from s1' (S n) (wops ops)) as [xs s2'] eqn:RR. cbn [fst snd] in *.
      exists s'. split; [|exact E']. replace (S n + length (wops ops)) with (n + S (length (wops ops))) by lia.
      reflexivity.
    + destruct (step_case Flush) as (s1 & S1 & E1). rewrite S1.
      destruct (IH s1 (S n) ND') as (s' & R & E'). rewrite R. rewrite E1 in *.
      destruct (step (er s) n Flush) as [x s1'] eqn:SS. cbn [fst snd] in *.
      destruct (run_from s1' (S n) (wops ops)) as [xs s2'] eqn:RR. cbn [fst snd] in *.
      exists s'. split; [|exact E']. replace (S n + length (wops ops)) with (n + S (length (wops ops))) by lia.
      reflexivity.
    + contradiction.
    + destruct (IH s n ND') as (s' & R & E'). rewrite R. exists s'. split; [reflexivity|exact E'].
Qed.

(* without an outage a buffered socket sink is the fault-free line-buffering writer: the datagrams
   of the scenario are the successful writes of Writer.run with the empty fault script *)
Theorem sc_buffered_up co queued ops : no_down ops ->
  let c := match co with Some n => n | None => default_capacity end in
  let '(xs, w) := Writer.run c newline [] (wops ops) in
  fst (sc_buffered co queued ops) = (sres_of queued ops xs, map sd_payload (datagrams 0 (lg w))).
Proof.
  intros ND c. unfold sc_buffered, Writer.run.
  destruct (sc_buf_up queued ops (sink_init co []) 0 ND) as (s' & R & E). rewrite R.
  change (er (sink_init co [])) with (init c newline []) in *.
  destruct (run_from (init c newline []) 0 (wops ops)) as [xs s1] eqn:RR. cbn [fst snd plus] in *.
  f_equal. f_equal. f_equal.
  (* the final drop: erasure again *)
  destruct (flush_buf_er (with_script s' true) (length (wops ops)) (okq_with_script s')) as (F & _).
  change (er (with_script s' true)) with (er s') in F. rewrite E in F.
  unfold mlw_drop. rewrite F. cbn [snd].
  destruct (er_fields (snd (flush_buf (with_script s' true) (length (wops ops))))) as (_ & _ & _ & _ & _ & L & _).
  now rewrite L.
Qed.


Lemma wops_emits ms : wops (map SEmit ms) = map Emit ms.
Proof. induction ms as [|m ms IH]; cbn; [reflexivity|now rewrite IH]. Qed.

Lemma no_down_emits ms : no_down (map SEmit ms).
Proof. unfold no_down. apply Forall_forall. intros o Ho. apply in_map_iff in Ho. destruct Ho as (m & <- & _). discriminate. Qed.

Lemma sres_of_emits queued ms : forall xs,
  Forall2 (fun m x => x = OOk (length m)) ms xs ->
  sres_of queued (map SEmit ms) xs = map (fun m => SK (N.of_nat (length m))) ms.
Proof.
  induction ms as [|m ms IH]; intros xs F; inversion F; subst; cbn; [reflexivity|].
  now rewrite IH.
Qed.

Lemma render_app e a b : render e (a ++ b) = render e a ++ render e b.
Proof. unfold render. now rewrite map_app, concat_app. Qed.

(* all attempts succeeded, none carried an oversized metric: the bytes on the wire are the
   rendering of the ledger of lines sent *)
Lemma wire_bytes c e d : forall l,
  Forall (frame_ok c e) l -> Forall (fun a => a_out a = WOk) l -> sentA l = [] ->
  concat (map sd_payload (datagrams d l)) = render e (sentL l) /\
  map sd_payload (datagrams d l) = map a_bytes l.
Proof.
  induction l as [|a l IH]; intros F O A; [split; reflexivity|].
  inversion F as [|? ? Fa F']; subst. inversion O as [|? ? Oa O']; subst.
  unfold sentA in A. cbn [flat_map] in A. apply app_eq_nil in A. destruct A as [A1 A2].
  destruct (IH F' O' A2) as [IH1 IH2].
  unfold datagrams, sentL in *. cbn [flat_map]. unfold ok_ids, ok_alone in *. rewrite Oa in *.
  cbn [app map concat sd_payload]. rewrite IH1, IH2.
  unfold frame_ok in Fa. destruct (a_lab a) as [ms|m]; [|discriminate].
  destruct Fa as (_ & B & _). rewrite render_app, B. split; reflexivity.
Qed.

Lemma render_emitted e ms : forall k, render e (emitted k (map Emit ms)) = concat (map (fun m => m ++ e) ms).
Proof.
  induction ms as [|m ms IH]; intros k; [reflexivity|].
  cbn [map emitted]. unfold render in *. cbn [map concat]. now rewrite IH.
Qed.

Lemma filter_all {A} (f : A -> bool) l : Forall (fun x => f x = true) l -> filter f l = l.
Proof. induction l as [|x l IH]; intros F; inversion F; subst; cbn; [reflexivity|]. rewrite H1. now rewrite IH. Qed.

Lemma emitted_snd ms : forall k, map snd (emitted k (map Emit ms)) = ms.
Proof. induction ms as [|m ms IH]; intros k; cbn; [reflexivity|now rewrite IH]. Qed.

(* C13/C19 end to end for a buffered socket sink whose listener stays: metrics that fit go out as
   the byte stream m1 "\n" m2 "\n" ... - nothing added, removed or reordered -, every emit answers
   Ok(len), and the number of datagrams is what greedy (next-fit) packing needs *)
Theorem sc_buffered_bytes co queued (ms : list str) :
  let c := match co with Some n => n | None => default_capacity end in
  Forall (fun m => length m + 1 <= c) ms ->
  let '(rs, dg, st) := sc_buffered co queued (map SEmit ms) in
  rs = map (fun m => SK (N.of_nat (length m))) ms /\
  concat dg = concat (map (fun m => m ++ [10%N]) ms) /\
  length (filter (fun d => match d with [] => false | _ => true end) dg) =
    greedy_count c (map (fun m => length m + 1) ms).
Proof.
  intros c Fit.
  pose proof (sc_buffered_up co queued (map SEmit ms) (no_down_emits ms)) as U. cbn zeta in U.
  fold c in U. rewrite wops_emits in U.
  destruct (Writer.run c newline [] (map Emit ms)) as [xs w] eqn:R.
  destruct (sc_buffered co queued (map SEmit ms)) as [[rs dg] st]. cbn [fst] in U.
  inversion U; subst rs dg; clear U.
  assert (Fit' : Forall (fun m => 0 < length m + length newline /\ length m + length newline <= c) ms).
  { eapply Forall_impl; [|exact Fit]. cbn. intros m Hm. lia. }
  destruct (datagram_count c newline ms xs w Fit' R) as (Cnt & Res).
  destruct (fault_free_conserve c newline _ _ _ R) as (L & A & Ok).
  pose proof (frame_all c newline [] _ _ _ R) as Fr.
  assert (AllFit : Forall (fun g => fitg c newline g = true) (emitted 0 (map Emit ms))).
  { apply Forall_forall. intros g Hg. unfold fitg. apply fitsb_true.
    assert (In (snd g) ms) by (rewrite <- (emitted_snd ms 0); now apply in_map).
    rewrite Forall_forall in Fit. specialize (Fit _ H). cbn. lia. }
  assert (Nz : forall l : list gm, filter (nzb newline) l = l).
  { intros l. apply filter_all, Forall_forall. intros g _. unfold nzb, line, newline. destruct (snd g); reflexivity. }
  unfold fit_ids, big_ids in *. rewrite !Nz, (filter_all _ _ AllFit) in L.
  assert (A0 : sentA (lg w) = []).
  { rewrite A. clear -AllFit. induction AllFit as [|g l Hg _ IH]; cbn; [reflexivity|]. now rewrite Hg. }
  destruct (wire_bytes c newline 0%N (lg w) Fr Ok A0) as (B1 & B2).
  split; [apply sres_of_emits, Res|]. split.
  - rewrite B1, L. apply render_emitted.
  - rewrite B2. change (map (fun m => length m + 1) ms) with (line_sizes newline ms). rewrite <- Cnt. clear.
    unfold dcount. induction (lg w) as [|a l IH]; [reflexivity|].
    cbn [map filter]. unfold nonempty at 1. destruct (a_bytes a); cbn [length]; rewrite IH; reflexivity.
Qed.
