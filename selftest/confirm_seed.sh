#!/bin/bash
# Confirm a seeded change delivered by a sub-agent, in its scratch worktree /tmp/mut/<id>:
#   demo passes on the original; with the patch the suite still passes (only the 2 known
#   always-fail tests fail) and the demo fails.  usage: confirm_seed.sh <id> <outdir> <demo file> <dest rel path> <cargo test args...>
id=$1; out=$2; demo=$3; dest=$4; shift 4
wt=/tmp/mut/$id
mkdir -p $wt/tmp
export CARGO_NET_OFFLINE=true CARGO_TARGET_DIR=$wt/target TMPDIR=$wt/tmp   # the crate's Unix-socket tests use fixed paths under $TMPDIR
cd $wt || exit 1
git checkout -q -- . ; git clean -qfd -e target -e tmp
cp $out/$demo $wt/$dest
echo "--- demo on original:"; timeout 600 cargo test --offline "$@" 2>&1 | grep -E "^test result|panicked|FAILED|error" | head -5
git apply $out/patch.diff || { echo "PATCH DOES NOT APPLY"; exit 1; }
echo "--- demo with patch:"; timeout 600 cargo test --offline "$@" 2>&1 | grep -E "^test result|FAILED|error\[" | head -5
rm -f $wt/$dest
echo "--- suite with patch:"; timeout 900 cargo test --workspace --no-fail-fast --offline 2>&1 | grep -E "^test result|^test .* FAILED" | awk '/FAILED/ {print} /^test result/ {p+=$4; f+=$6} END {print "passed",p,"failed",f}'
git checkout -q -- . ; git clean -qfd -e target -e tmp
rm -rf $wt/target $wt/tmp
