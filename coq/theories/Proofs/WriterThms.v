(* Theorems about whole lives of the writer (construction, any history, drop), in the
   form the pinned property files quote. *)
Require Import Cadence.Base.Prelude.
Require Import Cadence.Model.Writer.
Require Import Cadence.Proofs.WriterBase.
Require Import Cadence.Proofs.WriterInv.
Require Import Cadence.Proofs.WriterRun.
Require Import Cadence.Proofs.WriterIds.
Require Import Cadence.Proofs.WriterIO.

Lemma run_from_app a : forall b s n,
  run_from s n (a ++ b) =
  let '(r1, s1) := run_from s n a in
  let '(r2, s2) := run_from s1 (n + length a) b in (r1 ++ r2, s2).
Proof.
  induction a as [|o a IH]; intros b s n; cbn [run_from app length].
  - rewrite Nat.add_0_r. destruct (run_from s n b). reflexivity.
  - destruct (step s n o) as [x s1]. rewrite IH.
    destruct (run_from s1 (S n) a) as [r1 s2].
    replace (S n + length a) with (n + S (length a)) by lia.
    destruct (run_from s2 (n + S (length a)) b). reflexivity.
Qed.

(* ------------------------------------------------------------------ reachable states *)
Lemma reach_inv c e script ops rs s :
  run_from (init c e script) 0 ops = (rs, s) ->
  Inv s /\ cap s = c /\ ending s = e /\
  exists atts, run_post (init c e script) 0 ops rs s atts.
Proof.
  intros H. destruct (run_from_spec _ _ _ _ _ (inv_init c e script) H) as [atts P].
  pose proof P as [I [C E] _ _ _ _ _ _ _]. cbn in C, E.
  split; [exact I|]. split; [exact C|]. split; [exact E|]. exists atts. exact P.
Qed.

(* ------------------------------------------------------------------ C05 *)
Theorem frame_all c e script ops rs s :
  run c e script ops = (rs, s) -> Forall (frame_ok c e) (lg s).
Proof.
  unfold run. destruct (run_from (init c e script) 0 ops) as [rs0 s1] eqn:R.
  intros H; inversion H; subst; clear H.
  destruct (reach_inv _ _ _ _ _ _ R) as (I & C & E & atts & P).
  destruct P as [_ _ Lg _ Fr _ _ _ _]. cbn in Lg, Fr.
  unfold mlw_drop. destruct (flush_buf s1 (length ops)) as [r s2] eqn:F. cbn [snd].
  apply flushbuf_spec in F; [|exact I].
  destruct F as (_ & _ & datts & [X _] & Ffr & _).
  rewrite X, Lg. rewrite C, E in Ffr. apply Forall_app; split; assumption.
Qed.

Theorem ids_real c e script ops rs s :
  run c e script ops = (rs, s) ->
  Forall (fun a => Forall (fun g => nth_error ops (fst g) = Some (Emit (snd g))) (lab_ids (a_lab a))) (lg s).
Proof.
  unfold run. destruct (run_from (init c e script) 0 ops) as [rs0 s1] eqn:R.
  intros H; inversion H; subst; clear H.
  set (P := fun g : gm => nth_error ops (fst g) = Some (Emit (snd g))).
  assert (I0 : IdsP P (init c e script)) by (split; constructor).
  assert (I1 : IdsP P s1).
  { pose proof (run_from_ids ops P (init c e script) 0) as H. rewrite R in H. apply H; [|exact I0].
    intros g (i & E1 & E2). unfold P. now rewrite E1. }
  exact (proj2 (mlw_drop_ids P s1 (length ops) I1)).
Qed.

(* ------------------------------------------------------------------ fault-free runs *)
Lemma ok_run c e ops rs s :
  run_from (init c e []) 0 ops = (rs, s) -> all_ok (sc s) (lg s).
Proof.
  intros H. pose proof (run_from_io all_ok all_ok_under ops (init c e []) 0) as R.
  rewrite H in R. apply R. split; [reflexivity|constructor].
Qed.

Lemma err_last_not_ok atts o : Forall (fun a => a_out a = WOk) atts -> o <> WOk -> ~ err_last atts o.
Proof.
  intros F N (pre & a & E & O). subst atts. apply Forall_app in F. destruct F as [_ F].
  inversion F; subst. congruence.
Qed.

(* ------------------------------------------------------------------ bookkeeping lemmas *)
Lemma emitted_fst_ge n ops g : In g (emitted n ops) -> n <= fst g.
Proof.
  revert n. induction ops as [|o ops IH]; intros n H; [contradiction|].
  destruct o as [m|]; cbn in H.
  - destruct H as [H|H]; [subst; cbn; lia|]. apply IH in H. lia.
  - apply IH in H. lia.
Qed.

Lemma emitted_nodup n ops : NoDup (map fst (emitted n ops)).
Proof.
  revert n. induction ops as [|o ops IH]; intros n; [constructor|].
  destruct o as [m|]; cbn; [|apply IH].
  constructor; [|apply IH].
  intros H. apply in_map_iff in H. destruct H as (g & E & H).
  apply emitted_fst_ge in H. cbn in E. lia.
Qed.

Lemma emitted_real n ops g : In g (emitted n ops) <-> real n ops g.
Proof.
  revert n. induction ops as [|o ops IH]; intros n.
  - split; [contradiction|]. intros (i & _ & E). destruct i; discriminate.
  - destruct o as [m|]; cbn [emitted].
    + split.
      * intros [H|H]; [subst; exists 0; split; [cbn; lia|reflexivity]|].
        apply IH in H. destruct H as (i & E1 & E2). exists (S i). split; [lia|exact E2].
      * intros (i & E1 & E2). destruct i as [|i]; cbn in E2.
        -- left. inversion E2. destruct g as [gi gm]; cbn in *. subst. f_equal. lia.
        -- right. apply IH. exists i. split; [lia|exact E2].
    + rewrite IH. split.
      * intros (i & E1 & E2). exists (S i). split; [lia|exact E2].
      * intros (i & E1 & E2). destruct i as [|i]; cbn in E2; [discriminate|].
        exists i. split; [lia|exact E2].
Qed.

Lemma acked_incl n ops : forall rs g, In g (acked n ops rs) -> In g (emitted n ops).
Proof.
  revert n. induction ops as [|o ops IH]; intros n rs g H; [destruct rs; contradiction|].
  destruct rs as [|x rs]; [contradiction|]. cbn [acked] in H. apply in_app_or in H.
  destruct o as [m|]; cbn [emitted].
  - destruct H as [H|H].
    + unfold acked1 in H. destruct x; try contradiction. destruct H as [H|[]]. left. exact H.
    + right. eapply IH. exact H.
  - destruct H as [H|H]; [contradiction|]. eapply IH. exact H.
Qed.

(* [acked] is a sublist of [emitted], in the same order *)
Inductive sublist {A} : list A -> list A -> Prop :=
| sub_nil : sublist [] []
| sub_skip x l1 l2 : sublist l1 l2 -> sublist l1 (x :: l2)
| sub_take x l1 l2 : sublist l1 l2 -> sublist (x :: l1) (x :: l2).

Lemma acked_sublist n ops : forall rs, sublist (acked n ops rs) (emitted n ops).
Proof.
  revert n. induction ops as [|o ops IH]; intros n rs.
  - destruct rs; constructor.
  - destruct rs as [|x rs]; cbn [acked emitted].
    + clear IH. generalize (S n). destruct o as [m|]; intros k.
      * constructor. revert k. induction ops as [|o' ops' IH']; intros k; [constructor|].
        destruct o'; cbn; [constructor|]; apply IH'.
      * revert k. induction ops as [|o' ops' IH']; intros k; [constructor|].
        destruct o'; cbn; [constructor|]; apply IH'.
    + destruct o as [m|]; cbn [acked1].
      * destruct x; cbn [app]; try (constructor; apply IH).
      * destruct x; cbn [app]; apply IH.
Qed.

Lemma sublist_in {A} (l1 l2 : list A) x : sublist l1 l2 -> In x l1 -> In x l2.
Proof. induction 1 as [|y l1 l2 S IH|y l1 l2 S IH]; intros Hin; [contradiction| right; auto | destruct Hin; [left; auto|right; auto]]. Qed.

Lemma sublist_map {A B} (f : A -> B) l1 l2 : sublist l1 l2 -> sublist (map f l1) (map f l2).
Proof. induction 1; cbn; [constructor|constructor; assumption|constructor; assumption]. Qed.

Lemma sublist_nodup {A} (l1 l2 : list A) : sublist l1 l2 -> NoDup l2 -> NoDup l1.
Proof.
  induction 1; intros N; [constructor| |].
  - inversion N; auto.
  - inversion N; subst. constructor; auto. intros Hin. eauto using sublist_in.
Qed.

Lemma sublist_filter {A} (f : A -> bool) l : sublist (filter f l) l.
Proof. induction l as [|x l IH]; cbn; [constructor|]. destruct (f x); constructor; exact IH. Qed.

Lemma acked_nodup n ops rs : NoDup (map fst (acked n ops rs)).
Proof. eapply sublist_nodup; [apply sublist_map, acked_sublist|apply emitted_nodup]. Qed.

Lemma nodup_map_inv {A B} (f : A -> B) l : NoDup (map f l) -> NoDup l.
Proof.
  induction l as [|x l IH]; cbn; intros N; [constructor|]. inversion N; subst.
  constructor; auto. intros H. apply H1. now apply in_map.
Qed.

(* which metrics are acknowledged: exactly those whose emit answered Ok *)
Lemma acked_iff ops : forall n rs g, length rs = length ops ->
  (In g (acked n ops rs) <->
   exists i k, fst g = n + i /\ nth_error ops i = Some (Emit (snd g)) /\ nth_error rs i = Some (OOk k)).
Proof.
  induction ops as [|o ops IH]; intros n rs g L.
  - destruct rs; [|discriminate]. split; [contradiction|]. intros (i & k & _ & E & _). destruct i; discriminate.
  - destruct rs as [|x rs]; [discriminate|]. cbn in L. injection L as L.
    cbn [acked]. rewrite in_app_iff, (IH (S n) rs g L). split.
    + intros [H|(i & k & E1 & E2 & E3)].
      * unfold acked1 in H. destruct o as [m|]; [|contradiction]. destruct x; try contradiction.
        destruct H as [H|[]]. subst g. exists 0, n0. cbn. split; [lia|split; reflexivity].
      * exists (S i), k. split; [lia|split; assumption].
    + intros (i & k & E1 & E2 & E3). destruct i as [|i]; cbn in E2, E3.
      * left. inversion E2; subst. inversion E3; subst. cbn. left. destruct g as [gi gm]; cbn in *. f_equal. lia.
      * right. exists i, k. split; [lia|split; assumption].
Qed.

(* ------------------------------------------------------------------ the ledger of a whole life *)
Definition fit_ids c e (l : list gm) := filter (fitg c e) l.
Definition big_ids c e (l : list gm) := filter (fun g => negb (fitg c e g)) l.

Theorem ledger_reach c e script ops rs s :
  run_from (init c e script) 0 ops = (rs, s) ->
  filter (nzb e) (sentL (lg s) ++ bids s) = filter (nzb e) (fit_ids c e (acked 0 ops rs)) /\
  sentA (lg s) = big_ids c e (acked 0 ops rs).
Proof.
  intros H. destruct (reach_inv _ _ _ _ _ _ H) as (_ & _ & _ & atts & P).
  destruct P as [_ _ Lg _ _ _ _ L A _ _]. cbn in Lg, L, A. rewrite Lg. split; assumption.
Qed.

Theorem ledger_run c e script ops rs s :
  run c e script ops = (rs, s) ->
  filter (nzb e) (sentL (lg s) ++ bids s) = filter (nzb e) (fit_ids c e (acked 0 ops rs)) /\
  sentA (lg s) = big_ids c e (acked 0 ops rs).
Proof.
  unfold run. destruct (run_from (init c e script) 0 ops) as [rs0 s1] eqn:R.
  intros H; inversion H; subst; clear H.
  destruct (ledger_reach _ _ _ _ _ _ R) as [L A].
  destruct (reach_inv _ _ _ _ _ _ R) as (I & C & E & _).
  unfold mlw_drop. destruct (flush_buf s1 (length ops)) as [r s2] eqn:F. cbn [snd].
  apply flushbuf_spec in F; [|exact I].
  destruct F as (_ & _ & datts & [X _] & _ & DA & _ & _ & DL & _).
  rewrite E in DL. rewrite X, sentL_app, sentA_app, DA, app_nil_r. split; [|exact A].
  rewrite <- app_assoc, filter_app, DL, <- filter_app. exact L.
Qed.

(* ------------------------------------------------------------------ C07: any fault script *)
Theorem results_sound c e script ops rs s :
  run_from (init c e script) 0 ops = (rs, s) ->
  length rs = length ops /\ Forall2 res_ok ops rs /\
  forall i x, nth_error rs i = Some x ->
    match x with
    | OErr er => exists a, In a (lg s) /\ a_op a = i /\ a_out a = WErr er
    | OIntr => exists a, In a (lg s) /\ a_op a = i /\ a_out a = WIntr
    | OPanic => False
    | OOk _ => True
    end.
Proof.
  intros H. destruct (reach_inv _ _ _ _ _ _ H) as (_ & _ & _ & atts & P).
  destruct P as [_ _ Lg _ _ Len Res _ _ Err _]. cbn in Lg. rewrite Lg.
  split; [exact Len|]. split; [exact Res|].
  intros i x Hn. specialize (Err i x Hn). cbn in Err.
  destruct x; auto.
  assert (exists o, nth_error ops i = Some o) as [o Ho].
  { destruct (nth_error ops i) eqn:E; [eauto|]. apply nth_error_None in E.
    assert (i < length rs) by (apply nth_error_Some; congruence). lia. }
  clear - Res Hn Ho. revert i Hn Ho. induction Res; intros i Hn Ho; destruct i; cbn in *; try discriminate.
  - inversion Hn; inversion Ho; subst. destruct o; exact H.
  - eauto.
Qed.

Lemma sentL_acked c e script ops rs s g :
  run c e script ops = (rs, s) -> nzb e g = true -> In g (sentL (lg s)) -> In g (acked 0 ops rs).
Proof.
  intros H Nz Hin. destruct (ledger_run _ _ _ _ _ _ H) as [L _].
  assert (Hf : In g (filter (nzb e) (sentL (lg s) ++ bids s))).
  { apply filter_In. split; [apply in_or_app; left; exact Hin|exact Nz]. }
  rewrite L in Hf. apply filter_In in Hf. destruct Hf as [Hf _].
  unfold fit_ids in Hf. apply filter_In in Hf. tauto.
Qed.

Lemma nodup_app_l {A} (a b : list A) : NoDup (a ++ b) -> NoDup a.
Proof.
  induction a as [|x a IH]; cbn; intros N; [constructor|]. inversion N; subst.
  constructor; [|auto]. intros H. apply H1. apply in_or_app. now left.
Qed.

Theorem no_dup_run c e script ops rs s :
  run c e script ops = (rs, s) ->
  NoDup (filter (nzb e) (sentL (lg s))) /\ NoDup (sentA (lg s)).
Proof.
  intros H. destruct (ledger_run _ _ _ _ _ _ H) as [L A].
  assert (N : NoDup (acked 0 ops rs)) by (eapply nodup_map_inv, acked_nodup).
  split.
  - assert (N1 : NoDup (filter (nzb e) (sentL (lg s) ++ bids s))).
    { rewrite L. eapply sublist_nodup; [apply sublist_filter|].
      eapply sublist_nodup; [apply sublist_filter|exact N]. }
    rewrite filter_app in N1. apply nodup_app_l in N1. exact N1.
  - rewrite A. eapply sublist_nodup; [apply sublist_filter|exact N].
Qed.

(* an emit that returned an error is never written, not even later *)
Theorem no_resurrection c e script ops rs s i m x :
  run c e script ops = (rs, s) ->
  nth_error ops i = Some (Emit m) -> nth_error rs i = Some x -> (forall k, x <> OOk k) ->
  (nzb e (i, m) = true -> ~ In (i, m) (sentL (lg s))) /\ ~ In (i, m) (sentA (lg s)).
Proof.
  intros H Ho Hr Hx.
  assert (Len : length rs = length ops).
  { unfold run in H. destruct (run_from (init c e script) 0 ops) as [rs0 s1] eqn:R.
    inversion H; subst. now destruct (results_sound _ _ _ _ _ _ R). }
  assert (Hna : ~ In (i, m) (acked 0 ops rs)).
  { intros Hin. apply (acked_iff ops 0 rs (i, m) Len) in Hin.
    destruct Hin as (j & k & E1 & E2 & E3). cbn in E1. subst j. rewrite Hr in E3. inversion E3. eapply Hx; eauto. }
  split.
  - intros Nz Hin. apply Hna. eapply sentL_acked; eassumption.
  - intros Hin. destruct (ledger_run _ _ _ _ _ _ H) as [_ A]. rewrite A in Hin.
    apply filter_In in Hin. tauto.
Qed.

(* ------------------------------------------------------------------ flush points *)
Theorem flush_point c e script ops rs k s :
  run_from (init c e script) 0 (ops ++ [Flush]) = (rs ++ [OOk k], s) -> length rs = length ops ->
  bbuf s = [] /\ bids s = [] /\ written s = 0 /\
  filter (nzb e) (sentL (lg s)) = filter (nzb e) (fit_ids c e (acked 0 ops rs)) /\
  sentA (lg s) = big_ids c e (acked 0 ops rs).
Proof.
  intros H Len. pose proof H as H0. rewrite run_from_app in H0.
  destruct (run_from (init c e script) 0 ops) as [r1 s1] eqn:R1. cbn [run_from] in H0.
  destruct (step s1 (0 + length ops) Flush) as [x s2] eqn:S2. inversion H0; subst; clear H0.
  assert (Lr1 : length r1 = length ops) by (now destruct (results_sound _ _ _ _ _ _ R1)).
  assert (r1 = rs /\ x = OOk k) as [-> ->].
  { assert (E : r1 ++ [x] = rs ++ [OOk k]) by assumption.
    apply app_inj_tail in E. exact E. }
  destruct (reach_inv _ _ _ _ _ _ R1) as (I1 & _ & _ & _).
  destruct (step_spec _ _ _ _ _ I1 S2) as [atts P]. destruct P as [_ _ _ _ _ _ _ _ _ _ Fl].
  destruct (Fl eq_refl) as [_ Fl2]. destruct (Fl2 k eq_refl) as (B1 & B2 & B3).
  destruct (ledger_reach _ _ _ _ _ _ H) as [L A].
  rewrite B2, app_nil_r in L.
  assert (Ea : acked 0 (ops ++ [Flush]) (rs ++ [OOk k]) = acked 0 ops rs).
  { clear - Len. generalize 0. revert rs Len. induction ops as [|o ops IH]; intros rs Len n.
    - destruct rs; [reflexivity|discriminate].
    - destruct rs as [|y rs]; [discriminate|]. cbn. f_equal. apply IH. cbn in Len. lia. }
  rewrite Ea in L, A. repeat split; assumption.
Qed.

(* a flush right after a successful flush writes nothing *)
Theorem flush_idem c e script ops rs s n k s1 n' x s2 :
  run_from (init c e script) 0 ops = (rs, s) ->
  step s n Flush = (OOk k, s1) -> step s1 n' Flush = (x, s2) ->
  x = OOk 0 /\ lg s2 = lg s1.
Proof.
  intros R S1 S2. destruct (reach_inv _ _ _ _ _ _ R) as (I & _).
  destruct (step_spec _ _ _ _ _ I S1) as [a1 P1]. destruct P1 as [I1 _ _ _ _ _ _ _ _ _ Fl1].
  destruct (Fl1 eq_refl) as [_ F]. destruct (F k eq_refl) as (B1 & B2 & B3).
  destruct (step_spec _ _ _ _ _ I1 S2) as [a2 P2]. destruct P2 as [_ _ [X2 _] _ R2 E2 _ _ _ _ Fl2].
  destruct (Fl2 eq_refl) as [Nil _]. specialize (Nil B1). subst a2. rewrite app_nil_r in X2.
  split; [|exact X2].
  destruct x; cbn in R2, E2.
  - now subst.
  - destruct E2 as (p & a & E & _). destruct p; discriminate.
  - destruct E2 as (p & a & E & _). destruct p; discriminate.
  - contradiction.
Qed.

(* ------------------------------------------------------------------ C06: fault-free *)
Theorem fault_free_all_ok c e ops rs s :
  run_from (init c e []) 0 ops = (rs, s) ->
  Forall2 (fun o x => x = OOk (match o with Emit m => length m | Flush => 0 end)) ops rs.
Proof.
  intros H. destruct (results_sound _ _ _ _ _ _ H) as (Len & Res & Err).
  destruct (ok_run _ _ _ _ _ H) as [_ Ok]. rewrite Forall_forall in Ok.
  assert (Hx : forall i x, nth_error rs i = Some x -> exists k, x = OOk k).
  { intros i x Hn. specialize (Err i x Hn). destruct x; eauto.
    - destruct Err as (a & Ia & _ & Oa). rewrite (Ok a Ia) in Oa. discriminate.
    - destruct Err as (a & Ia & _ & Oa). rewrite (Ok a Ia) in Oa. discriminate.
    - contradiction. }
  clear - Res Hx. induction Res; constructor.
  - destruct (Hx 0 y eq_refl) as [k ->]. destruct x; cbn in H; now subst.
  - apply IHRes. intros i z Hn. apply (Hx (S i) z Hn).
Qed.

Lemma acked_all_ok ops : forall n rs,
  Forall2 (fun o x => x = OOk (match o with Emit m => length m | Flush => 0 end)) ops rs ->
  acked n ops rs = emitted n ops.
Proof.
  induction ops as [|o ops IH]; intros n rs F; inversion F; subst; [reflexivity|].
  cbn [acked emitted]. rewrite (IH (S n) _ H3). destruct o; reflexivity.
Qed.

Theorem fault_free_conserve c e ops rs s :
  run c e [] ops = (rs, s) ->
  filter (nzb e) (sentL (lg s)) = filter (nzb e) (fit_ids c e (emitted 0 ops)) /\
  sentA (lg s) = big_ids c e (emitted 0 ops) /\
  Forall (fun a => a_out a = WOk) (lg s).
Proof.
  intros H. pose proof H as H0. unfold run in H0.
  destruct (run_from (init c e []) 0 ops) as [rs0 s1] eqn:R. inversion H0; subst; clear H0.
  pose proof (fault_free_all_ok _ _ _ _ _ R) as AllOk.
  destruct (ledger_run _ _ _ _ _ _ H) as [L A].
  rewrite (acked_all_ok _ _ _ AllOk) in L, A.
  pose proof (ok_run _ _ _ _ _ R) as OkR.
  pose proof (mlw_drop_io all_ok all_ok_under s1 (length ops) OkR) as [_ OkD].
  (* after the drop nothing is pending *)
  destruct (reach_inv _ _ _ _ _ _ R) as (I & _).
  assert (Hb : bids (mlw_drop s1 (length ops)) = []).
  { unfold mlw_drop in *. destruct (flush_buf s1 (length ops)) as [r s2] eqn:F. cbn [snd] in *.
    apply flushbuf_spec in F; [|exact I].
    destruct F as (_ & _ & datts & [X _] & _ & _ & _ & _ & _ & M).
    destruct r; try contradiction; [now destruct M|].
    destruct M as [M _]. exfalso. eapply err_last_not_ok; [| |exact M]; [|discriminate].
    rewrite X in OkD. apply Forall_app in OkD. tauto. }
  rewrite Hb, app_nil_r in L. repeat split; assumption.
Qed.

Theorem own_emit c e script ops rs s :
  run c e script ops = (rs, s) ->
  Forall (fun a => forall g, In g (ok_alone a) -> a_op a = fst g) (lg s).
Proof.
  unfold run. destruct (run_from (init c e script) 0 ops) as [rs0 s1] eqn:R.
  intros H; inversion H; subst; clear H.
  destruct (reach_inv _ _ _ _ _ _ R) as (I & _ & _ & atts & P).
  destruct P as [_ _ Lg _ _ _ _ _ _ _ Own]. cbn in Lg.
  unfold mlw_drop. destruct (flush_buf s1 (length ops)) as [r s2] eqn:F. cbn [snd].
  apply flushbuf_spec in F; [|exact I].
  destruct F as (_ & _ & datts & [X _] & _ & DA & _).
  rewrite X, Lg. apply Forall_app; split; [exact Own|].
  apply Forall_forall. intros a Ha g Hg. pose proof (sentA_in _ _ _ Ha Hg) as Hs. rewrite DA in Hs. contradiction.
Qed.

(* ------------------------------------------------------------------ C19: greedy packing *)
Theorem must_write c e script ops rs s n m x s' :
  run_from (init c e script) 0 ops = (rs, s) ->
  step s n (Emit m) = (x, s') ->
  exists atts, lg s' = lg s ++ atts /\ Forall (fun a => a_op a = n) atts /\
    (atts <> [] -> c <= length (bbuf s) + length m + length e) /\
    (forall a ms, In a atts -> a_lab a = Lines ms -> ~ In (n, m) ms ->
                  c < length (a_bytes a) + length m + length e) /\
    (length (bbuf s) + length m + length e < c -> atts = [] /\ x = OOk (length m)).
Proof.
  intros R S. destruct (reach_inv _ _ _ _ _ _ R) as (I & C & E & _).
  destruct (step_spec _ _ _ _ _ I S) as [atts P].
  destruct P as [_ _ [X O] _ Res Err _ _ Must Max _]. rewrite C, E in *.
  exists atts. split; [exact X|]. split; [exact O|].
  split; [apply Must; reflexivity|]. split; [intros a ms; apply Max; reflexivity|].
  intros Lt. assert (Hn : atts = []).
  { destruct atts as [|a l]; [reflexivity|]. exfalso.
    assert (a :: l <> []) as N by discriminate. specialize (Must m eq_refl N). lia. }
  split; [exact Hn|]. subst atts.
  destruct x; cbn in Res, Err.
  - now subst.
  - destruct Err as (p & a & Ep & _). destruct p; discriminate.
  - destruct Err as (p & a & Ep & _). destruct p; discriminate.
  - contradiction.
Qed.

(* the buffered bytes are exactly the lines of the pending metrics *)
Theorem buffer_is_pending c e script ops rs s :
  run_from (init c e script) 0 ops = (rs, s) ->
  bbuf s = concat (map (fun g => snd g ++ e) (bids s)) /\ length (bbuf s) <= c.
Proof.
  intros R. destruct (reach_inv _ _ _ _ _ _ R) as (I & C & E & _).
  pose proof (inv_len _ I) as L. destruct I as [_ _ B]. rewrite E in B. rewrite C in L. split; assumption.
Qed.
