(* The size-hint arithmetic of cadence/src/builder.rs (MetricFormatter::from_val, with_tag,
   with_tag_value, tag_size_hint, timestamp_size_hint, sampling_rate_size_hint,
   container_id_size_hint, size_hint), with the checked arithmetic of a build with overflow
   checks and in the evaluation order of the source: [None] = the call panics.  The hint is
   only used as the capacity of the String the line is written into.  Definitions only. *)
Require Import Cadence.Base.Prelude.
Require Import Cadence.Base.MachineInt.
Require Import Cadence.Model.Convert.
Require Import Cadence.Model.Wire.

Definition len (s : str) : N := N.of_nat (length s).

(* from_val:  prefix.len() + key.len() + 1 + 10 * value_count + 1 + 2 *)
Definition base_size (prefix key : str) (count : N) : option N :=
  a <- uadd (len prefix) (len key) ;; b <- uadd a 1 ;; m <- umul 10 count ;;
  c <- uadd b m ;; d <- uadd c 1 ;; uadd d 2.

(* with_tag: kv_size += key.len() + 1 + value.len();  with_tag_value: kv_size += value.len() *)
Definition kv_step (kv : option N) (t : tag) : option N :=
  k <- kv ;;
  match t with
  | (Some tk, tv) => a <- uadd (len tk) 1 ;; b <- uadd a (len tv) ;; uadd k b
  | (None, tv) => uadd k (len tv)
  end.
Definition kv_size (ts : list tag) : option N := fold_left kv_step ts (Some 0%N).

(* tag_size_hint: 0 when there are no tags, else TAG_PREFIX.len() + kv_size + tags.len() - 1 *)
Definition tag_size_hint (ts : list tag) : option N :=
  match ts with
  | [] => Some 0%N
  | _ => kv <- kv_size ts ;; a <- uadd 2 kv ;; b <- uadd a (N.of_nat (length ts)) ;; usub b 1
  end.

Definition timestamp_size_hint (t : option N) : option N :=
  match t with Some _ => uadd 2 10 | None => Some 0%N end.
Definition sampling_rate_size_hint (r : option str) : option N :=
  match r with Some _ => uadd 2 17 | None => Some 0%N end.
Definition container_id_size_hint (c : option str) : option N :=
  match c with Some s => uadd 2 (len s) | None => Some 0%N end.

(* size_hint: base_size + rate + tags + timestamp + container, left to right *)
Definition size_hint (f : formatter) : option N :=
  b <- base_size (f_prefix f) (f_key f) (N.of_nat (mv_count (f_val f))) ;;
  r <- sampling_rate_size_hint (f_rate f) ;; a1 <- uadd b r ;;
  t <- tag_size_hint (f_tags f) ;; a2 <- uadd a1 t ;;
  ts <- timestamp_size_hint (f_timestamp f) ;; a3 <- uadd a2 ts ;;
  c <- container_id_size_hint (f_container f) ;; uadd a3 c.

(* the same quantities over unbounded numbers *)
Definition tag_bytes (t : tag) : N :=
  (match t with (Some tk, tv) => len tk + 1 + len tv | (None, tv) => len tv end)%N.
Definition kv_total (ts : list tag) : N := fold_right (fun t a => (tag_bytes t + a)%N) 0%N ts.
Definition hint_value (f : formatter) : N :=
  (len (f_prefix f) + len (f_key f) + 1 + 10 * N.of_nat (mv_count (f_val f)) + 1 + 2
  + match f_rate f with Some _ => 19 | None => 0 end
  + match f_tags f with [] => 0 | ts => 2 + kv_total ts + N.of_nat (length ts) - 1 end
  + match f_timestamp f with Some _ => 12 | None => 0 end
  + match f_container f with Some s => 2 + len s | None => 0 end)%N.

(* the bytes of the strings the caller supplied (prefix, key, tags, container id) *)
Definition arg_bytes (f : formatter) : N :=
  (len (f_prefix f) + len (f_key f) + kv_total (f_tags f)
   + match f_container f with Some s => len s | None => 0 end)%N.

(* the hint computed for a client call (None = the call does not get as far as formatting) *)
Definition call_hint (cfg : config) (c : call) : option (option N) :=
  match build cfg c with
  | Some (inr f) => Some (size_hint f)
  | _ => None
  end.
