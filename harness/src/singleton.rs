//! `singleton`: not built yet.
pub fn run_case(_line: &str) -> String {
    "unimplemented".to_string()
}
