(* Proofs about Model/Client.v: one call (emits, result, handler, sink outcome consumed)
   and sequences of calls on one client against an arbitrary sink script. *)
Require Import Cadence.Base.Prelude.
Require Import Cadence.Base.Decimal.
Require Import Cadence.Model.Convert.
Require Import Cadence.Model.Wire.
Require Import Cadence.Model.Client.
Require Import Cadence.Proofs.WireDefs.
Require Import Cadence.Proofs.WireProofs.

(* ------------------------------------------------------------------ one call *)
(* complete description of send_call by cases on the value and the sink's answer *)
Lemma send_call_rejected : forall cfg fm c script e,
  client_line cfg c = Some (inl e) ->
  send_call cfg fm c script =
  Some (match fm with
        | Quiet => {| o_ret := RUnit; o_emitted := []; o_handled := [e] |}
        | _ => {| o_ret := RError e; o_emitted := []; o_handled := [] |}
        end, script).
Proof. intros cfg fm c script e H. unfold send_call. rewrite H. reflexivity. Qed.

Lemma send_call_accepted : forall cfg fm c script l,
  client_line cfg c = Some (inr l) ->
  send_call cfg fm c script =
  Some (match next_outcome script, fm with
        | Accept, Quiet => {| o_ret := RUnit; o_emitted := [l]; o_handled := [] |}
        | Accept, _ => {| o_ret := ROkMetric l; o_emitted := [l]; o_handled := [] |}
        | Refuse k id, Quiet => {| o_ret := RUnit; o_emitted := [l]; o_handled := [EIo k id] |}
        | Refuse k id, _ => {| o_ret := RError (EIo k id); o_emitted := [l]; o_handled := [] |}
        end, tl script).
Proof.
  intros cfg fm c script l H. unfold send_call. rewrite H. destruct script as [|o r]; reflexivity.
Qed.

Lemma send_call_undefined : forall cfg fm c script,
  client_line cfg c = None -> send_call cfg fm c script = None.
Proof. intros cfg fm c script H. unfold send_call. rewrite H. reflexivity. Qed.

(* defined exactly for the calls that type-check *)
Lemma send_call_defined : forall cfg fm c script,
  send_call cfg fm c script <> None <-> to_value (k_kind c) (k_arg c) <> None.
Proof.
  intros cfg fm c script. unfold send_call. rewrite client_line_cases.
  destruct (to_value (k_kind c) (k_arg c)) as [[e|v]|]; [| |tauto].
  - split; intros; discriminate.
  - destruct (Nat.eqb (mv_count v) 0); [split; intros; discriminate|].
    destruct script as [|o r]; split; intros; discriminate.
Qed.

(* what is handed to the sink and what is left of the script depends on the value only *)
Theorem emitted_exact : forall cfg fm c script o script',
  send_call cfg fm c script = Some (o, script') ->
  o_emitted o = match client_line cfg c with Some (inr l) => [l] | _ => [] end /\
  script' = if accepted cfg c then tl script else script.
Proof.
  intros cfg fm c script o script' H. unfold accepted.
  destruct (client_line cfg c) as [[e|l]|] eqn:E.
  - rewrite (send_call_rejected _ _ _ _ _ E) in H. inversion H; subst. destruct fm; split; reflexivity.
  - rewrite (send_call_accepted _ _ _ _ _ E) in H. inversion H; subst.
    destruct (next_outcome script), fm; split; reflexivity.
  - rewrite (send_call_undefined _ _ _ _ E) in H. discriminate.
Qed.

Theorem at_most_one_emit : forall cfg fm c script o script',
  send_call cfg fm c script = Some (o, script') ->
  length (o_emitted o) <= 1 /\
  (length (o_emitted o) = 1 <-> exists l, client_line cfg c = Some (inr l)).
Proof.
  intros cfg fm c script o script' H. destruct (emitted_exact _ _ _ _ _ _ H) as [He _].
  rewrite He. destruct (client_line cfg c) as [[e|l]|]; cbn [length]; split; try lia.
  - split; [discriminate|intros [l Hl]; discriminate].
  - split; [intros _; exists l; reflexivity|reflexivity].
  - split; [discriminate|intros [l Hl]; discriminate].
Qed.

(* Ok(metric) tells the truth *)
Theorem ok_truthful : forall cfg fm c script o script' m,
  send_call cfg fm c script = Some (o, script') -> o_ret o = ROkMetric m ->
  o_emitted o = [m] /\ client_line cfg c = Some (inr m) /\ next_outcome script = Accept /\
  script' = tl script /\ o_handled o = [] /\ fm <> Quiet.
Proof.
  intros cfg fm c script o script' m H Hr.
  destruct (client_line cfg c) as [[e|l]|] eqn:E.
  - rewrite (send_call_rejected _ _ _ _ _ E) in H. inversion H; subst. destruct fm; discriminate.
  - rewrite (send_call_accepted _ _ _ _ _ E) in H. inversion H; subst. clear H.
    destruct (next_outcome script), fm; cbn [o_ret] in Hr; try discriminate;
      inversion Hr; subst; repeat split; discriminate.
  - rewrite (send_call_undefined _ _ _ _ E) in H. discriminate.
Qed.

(* a refusal of the sink is reported with the sink's own error *)
Theorem refusal_reported : forall cfg fm c script o script' l k id,
  send_call cfg fm c script = Some (o, script') ->
  client_line cfg c = Some (inr l) -> next_outcome script = Refuse k id ->
  o_emitted o = [l] /\ script' = tl script /\
  match fm with
  | Quiet => o_ret o = RUnit /\ o_handled o = [EIo k id]
  | _ => o_ret o = RError (EIo k id) /\ o_handled o = []
  end.
Proof.
  intros cfg fm c script o script' l k id H E Hn.
  rewrite (send_call_accepted _ _ _ _ _ E) in H. rewrite Hn in H. inversion H; subst.
  destruct fm; repeat split.
Qed.

(* an I/O error is returned only when the sink refused, with exactly that payload -- or when the
   argument is a user-defined value whose conversion returned exactly that I/O error, and then
   nothing was emitted and no answer of the sink consumed *)
Theorem io_error_source : forall cfg fm c script o script' k id,
  send_call cfg fm c script = Some (o, script') ->
  (o_ret o = RError (EIo k id) \/ In (EIo k id) (o_handled o)) ->
  (next_outcome script = Refuse k id /\ exists l, client_line cfg c = Some (inr l) /\ o_emitted o = [l]) \/
  (k_arg c = AUserErr (EIo k id) /\ o_emitted o = [] /\ script' = script).
Proof.
  intros cfg fm c script o script' k id H Hr.
  destruct (client_line cfg c) as [[e|l]|] eqn:E.
  - right. rewrite (send_call_rejected _ _ _ _ _ E) in H. inversion H; subst.
    assert (He : e = EIo k id).
    { destruct fm; cbn [o_ret o_handled In] in Hr; destruct Hr as [Hr|Hr]; try discriminate; try tauto;
        try (destruct Hr as [Hr|[]]); congruence. }
    subst e. destruct (client_line_err _ _ _ E) as [He|He]; [discriminate|].
    destruct fm; repeat split; exact He.
  - rewrite (send_call_accepted _ _ _ _ _ E) in H. inversion H; subst. clear H.
    destruct (next_outcome script) as [|k' id'], fm; cbn [o_ret o_handled In] in Hr;
      destruct Hr as [Hr|Hr]; try discriminate; try tauto;
      try (destruct Hr as [Hr|[]]); inversion Hr; subst;
      (left; split; [reflexivity|exists l; split; reflexivity]).
  - rewrite (send_call_undefined _ _ _ _ E) in H. discriminate.
Qed.

(* a rejected value: exactly the error of the conversion -- the invalid-input error, unless the
   argument is a user-defined value whose conversion returned another one --, nothing emitted, no sink
   outcome consumed *)
Theorem rejected_value : forall cfg fm c script o script' e,
  send_call cfg fm c script = Some (o, script') -> client_line cfg c = Some (inl e) ->
  o_emitted o = [] /\ script' = script /\
  match fm with
  | Quiet => o_ret o = RUnit /\ o_handled o = [e]
  | _ => o_ret o = RError e /\ o_handled o = []
  end /\
  (e = EInvalid \/ k_arg c = AUserErr e).
Proof.
  intros cfg fm c script o script' e H E.
  rewrite (send_call_rejected _ _ _ _ _ E) in H. inversion H; subst.
  pose proof (client_line_err _ _ _ E) as He. destruct fm; repeat split; exact He.
Qed.

(* an invalid-input error is reported only for a rejected value *)
Theorem invalid_only_if_rejected : forall cfg fm c script o script',
  send_call cfg fm c script = Some (o, script') ->
  (o_ret o = RError EInvalid \/ In EInvalid (o_handled o)) ->
  client_line cfg c = Some (inl EInvalid) /\ o_emitted o = [] /\ script' = script.
Proof.
  intros cfg fm c script o script' H Hr.
  destruct (client_line cfg c) as [[e|l]|] eqn:E.
  - rewrite (send_call_rejected _ _ _ _ _ E) in H. inversion H; subst.
    assert (He : e = EInvalid).
    { destruct fm; cbn [o_ret o_handled In] in Hr; destruct Hr as [Hr|Hr]; try discriminate; try tauto;
        try (destruct Hr as [Hr|[]]); congruence. }
    subst e. destruct fm; repeat split; exact E.
  - rewrite (send_call_accepted _ _ _ _ _ E) in H. inversion H; subst. clear H. exfalso.
    destruct (next_outcome script) as [|k' id'], fm; cbn [o_ret o_handled In] in Hr;
      destruct Hr as [Hr|Hr]; try discriminate; try tauto; destruct Hr as [Hr|[]]; discriminate.
  - rewrite (send_call_undefined _ _ _ _ E) in H. discriminate.
Qed.

(* the quiet form: never an error value; the handler gets exactly the error try_send returns *)
Theorem quiet_form : forall cfg c script o script',
  send_call cfg Quiet c script = Some (o, script') ->
  exists o', send_call cfg TrySend c script = Some (o', script') /\
    o_ret o = RUnit /\ o_emitted o = o_emitted o' /\
    o_handled o = match o_ret o' with RError e => [e] | _ => [] end /\
    o_handled o' = [].
Proof.
  intros cfg c script o script' H.
  destruct (client_line cfg c) as [[e|l]|] eqn:E.
  - rewrite (send_call_rejected _ Quiet _ _ _ E) in H. rewrite (send_call_rejected _ TrySend _ _ _ E).
    inversion H; subst. eexists. split; [reflexivity|]. repeat split.
  - rewrite (send_call_accepted _ Quiet _ _ _ E) in H. rewrite (send_call_accepted _ TrySend _ _ _ E).
    inversion H; subst. eexists. split; [reflexivity|]. destruct (next_outcome script); repeat split.
  - rewrite (send_call_undefined _ _ _ _ E) in H. discriminate.
Qed.

Theorem nonquiet_no_handler : forall cfg fm c script o script',
  send_call cfg fm c script = Some (o, script') -> fm <> Quiet ->
  o_handled o = [] /\ o_ret o <> RUnit.
Proof.
  intros cfg fm c script o script' H Hq.
  destruct (client_line cfg c) as [[e|l]|] eqn:E.
  - rewrite (send_call_rejected _ _ _ _ _ E) in H. inversion H; subst.
    destruct fm; try congruence; split; [reflexivity|discriminate|reflexivity|discriminate].
  - rewrite (send_call_accepted _ _ _ _ _ E) in H. inversion H; subst.
    destruct (next_outcome script), fm; try congruence; split; try reflexivity; discriminate.
  - rewrite (send_call_undefined _ _ _ _ E) in H. discriminate.
Qed.

(* the handler is invoked at most once per call, and only by the quiet form *)
Theorem handler_at_most_once : forall cfg fm c script o script',
  send_call cfg fm c script = Some (o, script') -> length (o_handled o) <= 1.
Proof.
  intros cfg fm c script o script' H.
  destruct (client_line cfg c) as [[e|l]|] eqn:E.
  - rewrite (send_call_rejected _ _ _ _ _ E) in H. inversion H; subst. destruct fm; cbn; lia.
  - rewrite (send_call_accepted _ _ _ _ _ E) in H. inversion H; subst.
    destruct (next_outcome script), fm; cbn; lia.
  - rewrite (send_call_undefined _ _ _ _ E) in H. discriminate.
Qed.

(* the plain (untagged) trait methods behave as try_send *)
Theorem plain_is_try_send : forall cfg c script, send_call cfg Plain c script = send_call cfg TrySend c script.
Proof.
  intros cfg c script. unfold send_call. destruct (client_line cfg c) as [[e|l]|]; reflexivity.
Qed.

(* C02: a value rejected by the conversion emits nothing; the error reported is the conversion's *)
Theorem reject_no_emit : forall cfg fm c script e,
  to_value (k_kind c) (k_arg c) = Some (inl e) ->
  exists o, send_call cfg fm c script = Some (o, script) /\ o_emitted o = [] /\
    match fm with
    | Quiet => o_ret o = RUnit /\ o_handled o = [e]
    | _ => o_ret o = RError e /\ o_handled o = []
    end.
Proof.
  intros cfg fm c script e H.
  assert (E : client_line cfg c = Some (inl e)) by (rewrite client_line_cases, H; reflexivity).
  rewrite (send_call_rejected _ _ _ _ _ E). eexists. split; [reflexivity|]. destruct fm; repeat split.
Qed.

(* ... and so does an empty packed list *)
Theorem empty_no_emit : forall cfg fm c script v,
  to_value (k_kind c) (k_arg c) = Some (inr v) -> mv_count v = 0 ->
  exists o, send_call cfg fm c script = Some (o, script) /\ o_emitted o = [] /\
    match fm with
    | Quiet => o_ret o = RUnit /\ o_handled o = [EInvalid]
    | _ => o_ret o = RError EInvalid /\ o_handled o = []
    end.
Proof.
  intros cfg fm c script v H Hc.
  assert (E : client_line cfg c = Some (inl EInvalid)) by (rewrite client_line_cases, H, Hc; reflexivity).
  rewrite (send_call_rejected _ _ _ _ _ E). eexists. split; [reflexivity|]. destruct fm; repeat split.
Qed.

(* ------------------------------------------------------------------ sequences *)
Lemma send_calls_length : forall cfg cs script os,
  send_calls cfg cs script = Some os -> length os = length cs.
Proof.
  intros cfg cs. induction cs as [|[fm c] r IH]; intros script os H; cbn [send_calls] in H.
  - inversion H. reflexivity.
  - destruct (send_call cfg fm c script) as [[o s']|]; [|discriminate].
    destruct (send_calls cfg r s') as [os'|] eqn:E; [|discriminate].
    inversion H; subst. cbn [length]. rewrite (IH _ _ E). reflexivity.
Qed.

(* the i-th outcome is that of the i-th call alone, run with the same configuration against
   the script suffix left by the calls before it *)
Theorem send_calls_nth : forall cfg cs script os,
  send_calls cfg cs script = Some os ->
  forall i fm c, nth_error cs i = Some (fm, c) ->
  exists o, nth_error os i = Some o /\
    send_call cfg fm c (script_after cfg (firstn i cs) script)
    = Some (o, script_after cfg (firstn (S i) cs) script).
Proof.
  intros cfg cs. induction cs as [|[fm0 c0] r IH]; intros script os H i fm c Hi.
  - destruct i; discriminate.
  - cbn [send_calls] in H.
    destruct (send_call cfg fm0 c0 script) as [[o0 s']|] eqn:E0; [|discriminate].
    destruct (send_calls cfg r s') as [os'|] eqn:Er; [|discriminate].
    inversion H; subst. destruct i as [|i].
    + cbn [nth_error] in Hi. inversion Hi; subst.
      exists o0. split; [reflexivity|].
      cbn [firstn script_after]. rewrite E0. reflexivity.
    + cbn [nth_error] in Hi. destruct (IH _ _ Er i fm c Hi) as [o [Ho Hs]].
      exists o. split; [exact Ho|].
      change (firstn (S (S i)) ((fm0, c0) :: r)) with ((fm0, c0) :: firstn (S i) r).
      change (firstn (S i) ((fm0, c0) :: r)) with ((fm0, c0) :: firstn i r).
      cbn [script_after]. rewrite E0. exact Hs.
Qed.

(* defined iff every call type-checks *)
Lemma send_calls_defined : forall cfg cs script,
  send_calls cfg cs script <> None <-> forall fm c, In (fm, c) cs -> to_value (k_kind c) (k_arg c) <> None.
Proof.
  intros cfg cs. induction cs as [|[fm0 c0] r IH]; intros script; cbn [send_calls].
  - split; [intros _ fm c []|discriminate].
  - destruct (send_call cfg fm0 c0 script) as [[o0 s']|] eqn:E0.
    + assert (D : to_value (k_kind c0) (k_arg c0) <> None)
        by (destruct (send_call_defined cfg fm0 c0 script) as [Hd _]; apply Hd; congruence).
      specialize (IH s'). destruct (send_calls cfg r s') as [os'|].
      * split; [|discriminate]. intros _ fm c [Hin|Hin]; [inversion Hin; subst; exact D|].
        destruct IH as [IH _]. apply (IH ltac:(discriminate) fm c Hin).
      * split; [congruence|]. intros H. exfalso. destruct IH as [_ IH]. apply IH; [|reflexivity].
        intros fm c Hin. apply (H fm c). right. exact Hin.
    + split; [congruence|]. intros H. exfalso.
      destruct (send_call_defined cfg fm0 c0 script) as [_ Hd]. apply Hd; [|exact E0].
      apply (H fm0 c0). left. reflexivity.
Qed.

(* the sink is invoked once per accepted value, in call order *)
Definition accepted_lines (cfg : config) (cs : list (form * call)) : list str :=
  flat_map (fun fc => match client_line cfg (snd fc) with Some (inr l) => [l] | _ => [] end) cs.

Theorem send_calls_emitted : forall cfg cs script os,
  send_calls cfg cs script = Some os ->
  concat (map o_emitted os) = accepted_lines cfg cs /\
  script_after cfg cs script = skipn (length (accepted_lines cfg cs)) script.
Proof.
  intros cfg cs. induction cs as [|[fm0 c0] r IH]; intros script os H; cbn [send_calls] in H.
  - inversion H; subst. split; reflexivity.
  - destruct (send_call cfg fm0 c0 script) as [[o0 s']|] eqn:E0; [|discriminate].
    destruct (send_calls cfg r s') as [os'|] eqn:Er; [|discriminate].
    inversion H; subst. destruct (IH _ _ Er) as [IH1 IH2].
    destruct (emitted_exact _ _ _ _ _ _ E0) as [He Hs].
    unfold accepted_lines in *. cbn [map concat flat_map snd script_after]. rewrite E0, IH1, IH2, He.
    split; [reflexivity|]. rewrite app_length. rewrite Hs. unfold accepted.
    destruct (client_line cfg c0) as [[e|l]|]; cbn [length Nat.add]; try reflexivity.
    destruct script; [rewrite !skipn_nil; reflexivity|reflexivity].
Qed.

Lemma accepted_lines_count : forall cfg cs,
  length (accepted_lines cfg cs) = length (filter (fun fc => accepted cfg (snd fc)) cs).
Proof.
  intros cfg cs. unfold accepted_lines, accepted. induction cs as [|[fm c] r IH]; [reflexivity|].
  cbn [flat_map filter snd]. rewrite app_length, IH.
  destruct (client_line cfg c) as [[e|l]|]; reflexivity.
Qed.

(* closed form of the script suffix the i-th call sees: one outcome removed per accepted
   earlier call *)
Lemma In_firstn : forall A (l : list A) n x, In x (firstn n l) -> In x l.
Proof.
  intros A l n x H. rewrite <- (firstn_skipn n l). apply in_or_app. left. exact H.
Qed.

Lemma script_after_skipn : forall cfg cs script,
  (forall fm c, In (fm, c) cs -> to_value (k_kind c) (k_arg c) <> None) ->
  script_after cfg cs script = skipn (length (filter (fun fc => accepted cfg (snd fc)) cs)) script.
Proof.
  intros cfg cs script H. rewrite <- accepted_lines_count.
  destruct (send_calls cfg cs script) as [os|] eqn:E.
  - exact (proj2 (send_calls_emitted _ _ _ _ E)).
  - exfalso. destruct (send_calls_defined cfg cs script) as [_ Hd]. exact (Hd H E).
Qed.

Theorem send_calls_nth_closed : forall cfg cs script os,
  send_calls cfg cs script = Some os ->
  length os = length cs /\
  forall i fm c, nth_error cs i = Some (fm, c) ->
  exists o, nth_error os i = Some o /\
    send_call cfg fm c (skipn (length (filter (fun fc => accepted cfg (snd fc)) (firstn i cs))) script)
    = Some (o, skipn (length (filter (fun fc => accepted cfg (snd fc)) (firstn (S i) cs))) script).
Proof.
  intros cfg cs script os H. split; [exact (send_calls_length _ _ _ _ H)|].
  intros i fm c Hi. destruct (send_calls_nth _ _ _ _ H i fm c Hi) as [o [Ho Hs]].
  exists o. split; [exact Ho|].
  assert (D : forall fm c, In (fm, c) cs -> to_value (k_kind c) (k_arg c) <> None).
  { destruct (send_calls_defined cfg cs script) as [Hd _]. apply Hd. congruence. }
  rewrite <- !script_after_skipn; [exact Hs| |]; intros fm' c' Hin; apply (D fm' c'); eapply In_firstn; exact Hin.
Qed.

(* what the i-th call hands to the sink depends on the configuration and on that call only *)
Theorem send_calls_local : forall cfg cs script os,
  send_calls cfg cs script = Some os ->
  forall i fm c o, nth_error cs i = Some (fm, c) -> nth_error os i = Some o ->
  o_emitted o = match client_line cfg c with Some (inr l) => [l] | _ => [] end.
Proof.
  intros cfg cs script os H i fm c o Hi Ho.
  destruct (send_calls_nth _ _ _ _ H i fm c Hi) as [o' [Ho' Hs]].
  assert (o' = o) by congruence. subst o'.
  exact (proj1 (emitted_exact _ _ _ _ _ _ Hs)).
Qed.
