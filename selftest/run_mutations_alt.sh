#!/bin/bash
# Like run_mutations.sh but on a scratch worktree of /repo (never touches /repo's working tree), so that it can run
# next to other work.  usage: run_mutations_alt.sh <scratch dir> <file.tsv> <ids...>
wt=$1; tsv=$2; shift 2
[ -d $wt ] || git -C /repo worktree add -q --detach $wt HEAD
git -C $wt reset -q --hard; git -C $wt checkout -q --detach $(git -C /repo rev-parse HEAD); git -C $wt reset -q --hard
while IFS=$'\t' read -r name file pat rep; do
  [ -z "$name" ] && continue
  case "$name" in \#*) continue;; esac
  f=${file/\/repo/$wt}
  python3 - "$f" "$pat" "$rep" <<'PY'
import re,sys
f,pat,rep=sys.argv[1:4]
s=open(f).read()
if not re.search(pat,s,flags=re.S): print("PATTERN NOT FOUND",pat); sys.exit(1)
open(f,'w').write(re.sub(pat,rep,s,count=1,flags=re.S))
PY
  echo "=== $name"
  (cd $wt && CARGO_TARGET_DIR=$wt/target cargo test --workspace --offline --no-fail-fast 2>&1 | grep -E "^test result" | awk '{p+=$4; f+=$6} END {print "  suite: passed",p,"failed",f}')
  for id in "$@"; do
    out=$(cd /verif && CADENCE_REPO=$wt VERIF_DEV_SKIP_AUDIT=$SKIP_AUDIT ./check $id 2>&1 | grep -E "^(VIOLATION|OK|KNOWN)" | head -2 | tr '\n' ' ')
    echo "  $id: $out"
  done
  git -C $wt checkout -q -- .
done < "$tsv"
