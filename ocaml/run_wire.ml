(* model: wire *)
(* include: wireparse *)
(* model side of harness bin `wire` (formats: harness/src/wire.rs); float arguments arrive
   as the hex of std's Display text instead of bit patterns *)

let rec take n l = if n = 0 then [] else match l with [] -> [] | x :: r -> x :: take (n - 1) r
let rec drop n l = if n = 0 then l else match l with [] -> [] | _ :: r -> drop (n - 1) r

let run_x t =
  match t with
  | _ :: prefix :: dtags :: dcid :: script :: n :: rest ->
    let cfg = { c_prefix = unhex0 prefix; c_tags = parse_dtags dtags;
                c_container = (if dcid = "~" then None else Some (unhex0 dcid)) } in
    let n = int_of_string n in
    let rec go i rest script acc =
      if i = n then List.rev acc else
      match rest with
      | form :: kind :: arg :: key :: ops :: rest' ->
        let c = { k_kind = parse_kind kind; k_key = unhex0 key; k_arg = parse_arg arg; k_ops = parse_ops ops } in
        (match send_call cfg (parse_form form) c script with
         | None -> go (i + 1) rest' script ("notype,~,~" :: acc)
         | Some (o, script') -> go (i + 1) rest' script' (show_outcome o :: acc))
      | _ -> failwith "short X case" in
    String.concat "|" (go 0 rest (parse_script script) [])
  | _ -> failwith "bad X case"

let run_k t =
  match t with
  | [_; kind; prefix; key; arg] ->
    let v = match (kind, parse_arg arg) with
      | ("c", AI64 z) | ("s", AI64 z) -> Some (Signed z)
      | (("ms" | "g" | "m" | "h" | "d"), AU64 n) -> Some (Unsigned n)
      | (("g" | "h" | "d"), AF64 tx) -> Some (Float tx)
      | _ -> None in
    (match v with
     | None -> "notype"
     | Some v -> hex0 (ctor_line (parse_kind kind) (unhex0 prefix) (unhex0 key) v))
  | _ -> failwith "bad K case"

let run_case line =
  let t = tokens line in
  match t with
  | "X" :: _ | "Y" :: _ -> run_x t
  | "K" :: _ -> run_k t
  | _ -> failwith ("bad wire case: " ^ line)

(* the same X case as a Gallina equation (kernel cross-check of the extracted client model) *)
let dec_of_z z = let b = Buffer.create 8 in List.iter (fun c -> Buffer.add_char b (Char.chr (int_of_n c))) (render_Z z); Buffer.contents b
let g_N n = "(" ^ dec_of_n n ^ ")%N"
let g_Z z = "(" ^ dec_of_z z ^ ")%Z"
let g_lst ty f l = if l = [] then "(@nil " ^ ty ^ ")" else g_list f l
let g_dur d = "{| secs := " ^ g_N d.secs ^ "; nanos := " ^ g_N d.nanos ^ " |}"
let g_mvalue = function
  | Signed z -> "(Signed " ^ g_Z z ^ ")" | PackedSigned l -> "(PackedSigned " ^ g_lst "Z" g_Z l ^ ")"
  | Unsigned n -> "(Unsigned " ^ g_N n ^ ")" | PackedUnsigned l -> "(PackedUnsigned " ^ g_lst "N" g_N l ^ ")"
  | Float t -> "(Float " ^ g_str t ^ ")" | PackedFloat l -> "(PackedFloat " ^ g_lst "(list N)" g_str l ^ ")"
let g_arg = function
  | AI64 z -> "(AI64 " ^ g_Z z ^ ")" | AI32 z -> "(AI32 " ^ g_Z z ^ ")"
  | AU64 n -> "(AU64 " ^ g_N n ^ ")" | AU32 n -> "(AU32 " ^ g_N n ^ ")"
  | AF64 t -> "(AF64 " ^ g_str t ^ ")" | ADur d -> "(ADur " ^ g_dur d ^ ")"
  | AVecU64 l -> "(AVecU64 " ^ g_lst "N" g_N l ^ ")" | AVecF64 l -> "(AVecF64 " ^ g_lst "(list N)" g_str l ^ ")"
  | AVecDur l -> "(AVecDur " ^ g_lst "duration" g_dur l ^ ")" | AUser v -> "(AUser " ^ g_mvalue v ^ ")"
let g_kind = function
  | Counter -> "Counter" | Timer -> "Timer" | Gauge -> "Gauge" | Meter -> "Meter"
  | Histogram -> "Histogram" | Distribution -> "Distribution" | SetK -> "SetK"
let g_bop = function
  | WithTag (k, v) -> "(WithTag " ^ g_str k ^ " " ^ g_str v ^ ")" | WithTagValue v -> "(WithTagValue " ^ g_str v ^ ")"
  | WithContainerId c -> "(WithContainerId " ^ g_str c ^ ")" | WithTimestamp t -> "(WithTimestamp " ^ g_N t ^ ")"
  | WithSamplingRate r -> "(WithSamplingRate " ^ g_str r ^ ")"
let g_tag (k, v) = "(" ^ g_option g_str k ^ ", " ^ g_str v ^ ")"
let g_form = function TrySend -> "TrySend" | Plain -> "Plain" | Quiet -> "Quiet"
let g_so = function Accept -> "Accept" | Refuse (k, id) -> "(Refuse " ^ g_N k ^ " " ^ g_N id ^ ")"
let g_merr = function EInvalid -> "EInvalid" | EIo (k, id) -> "(EIo " ^ g_N k ^ " " ^ g_N id ^ ")"
let g_ret = function ROkMetric l -> "(ROkMetric " ^ g_str l ^ ")" | RError e -> "(RError " ^ g_merr e ^ ")" | RUnit -> "RUnit"

let coq_header =
  "Require Import Cadence.Base.Prelude Cadence.Model.Convert Cadence.Model.Wire Cadence.Model.Client.\n"

let coq_case line =
  match tokens line with
  | ("X" | "Y") :: prefix :: dtags :: dcid :: script :: n :: rest when String.length line < 1200 ->
    let cfg = { c_prefix = unhex0 prefix; c_tags = parse_dtags dtags;
                c_container = (if dcid = "~" then None else Some (unhex0 dcid)) } in
    let rec calls k rest acc =
      if k = 0 then List.rev acc else
      match rest with
      | form :: kind :: arg :: key :: ops :: rest' ->
        calls (k - 1) rest' ((parse_form form, { k_kind = parse_kind kind; k_key = unhex0 key; k_arg = parse_arg arg;
                                                k_ops = parse_ops ops }) :: acc)
      | _ -> failwith "short X case" in
    let cs = calls (int_of_string n) rest [] in
    let sc = parse_script script in
    let g_call (f, c) = "(" ^ g_form f ^ ", {| k_kind := " ^ g_kind c.k_kind ^ "; k_key := " ^ g_str c.k_key ^
                        "; k_arg := " ^ g_arg c.k_arg ^ "; k_ops := " ^ g_lst "bop" g_bop c.k_ops ^ " |})" in
    let lhs = Printf.sprintf "send_calls {| c_prefix := %s; c_tags := %s; c_container := %s |} %s %s"
        (g_str cfg.c_prefix) (g_lst "tag" g_tag cfg.c_tags) (g_option g_str cfg.c_container)
        (g_lst "(form * call)" g_call cs) (g_lst "sink_outcome" g_so sc) in
    let g_o1 o = "{| o_ret := " ^ g_ret o.o_ret ^ "; o_emitted := " ^ g_lst "(list N)" g_str o.o_emitted ^
                 "; o_handled := " ^ g_lst "merror" g_merr o.o_handled ^ " |}" in
    let rhs = match send_calls cfg cs sc with
      | None -> "(@None (list outcome1))"
      | Some os -> "(Some " ^ g_lst "outcome1" g_o1 os ^ ")" in
    Some (lhs ^ " = " ^ rhs)
  | _ -> None
