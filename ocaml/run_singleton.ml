(* model: singleton *)
(* model side of harness bin `singleton` (see harness/src/singleton.rs for the formats)

   E <ords> <prog>           every SC interleaving of the program (depth-first, lowest thread first)
                             through the SC instantiation of the view machine:
                             n=<entries> <entry>;<entry>;..      entry = <sched>|<ops>|<results>
   R <ords> <prog> <sched>   one schedule (<sched> = string of thread digits): n=1 <entry>, followed by
                             |!fin=<0|1>,stuck=<n>,raced=<0|1> when the schedule does not run every
                             thread to its end, names a thread that cannot run, or races
   X <ords> <prog>           explore ALL executions (stale reads included) for a racing access:
                             racy <t>:<r>,<t>:<r>,.. <executions visited>   |   none <executions>
   <ords> = 4 letters: CAS success, CAS failure, store, load; r l a q s =
            Relaxed Release Acquire AcqRel SeqCst
   <prog> = threads separated by '/', calls by '.':  s<id> | g | i *)

let ord_of_char = function
  | 'r' -> Relaxed | 'l' -> Release | 'a' -> Acquire | 'q' -> AcqRel | 's' -> SeqCst
  | c -> failwith (Printf.sprintf "bad ordering %c" c)
let char_of_ord = function
  | Relaxed -> 'r' | Release -> 'l' | Acquire -> 'a' | AcqRel -> 'q' | SeqCst -> 's'

let parse_ords s =
  if String.length s <> 4 then failwith ("bad ords " ^ s);
  { o_cas_ok = ord_of_char s.[0]; o_cas_fail = ord_of_char s.[1];
    o_store = ord_of_char s.[2]; o_load = ord_of_char s.[3] }

let parse_call t =
  if t = "g" then CGet else if t = "i" then CIsSet
  else if String.length t >= 2 && t.[0] = 's' then
    CSet (n_of_int (int_of_string (String.sub t 1 (String.length t - 1))))
  else failwith ("bad call " ^ t)

let parse_prog s =
  List.map (fun th -> if th = "" || th = "-" then [] else List.map parse_call (String.split_on_char '.' th))
    (String.split_on_char '/' s)

let parse_sched s =
  if s = "-" then [] else List.init (String.length s) (fun i -> nat_of_int (Char.code s.[i] - 48))

let show_op = function
  | OpCas (so, fo, _, rd, ok) ->
    Printf.sprintf "C%c%c:0:1:%c%d" (char_of_ord so) (char_of_ord fo) (if ok then 'k' else 'e') (int_of_nat rd)
  | OpLoad (o, _, rd) -> Printf.sprintf "L%c%d" (char_of_ord o) (int_of_nat rd)
  | OpStore (o, _, v) -> Printf.sprintf "S%c%d" (char_of_ord o) (int_of_nat v)
  | OpCell (w, _) -> if w then "W" else "R"

let show_ret = function
  | RUnit -> "u"
  | RGet None -> "n"
  | RGet (Some v) -> "v" ^ string_of_int (int_of_n v)
  | RIsSet b -> if b then "t" else "f"

(* the entry <sched>|<ops>|<results> of a state's trace *)
let entry nthr (s : sg_state) =
  let calls_done = Array.make nthr 0 in
  let results = Array.make nthr [] in
  let ops = List.map (fun r ->
    let t = int_of_nat r.r_tid in
    let tok = Printf.sprintf "%d.%d.%s" t calls_done.(t) (show_op r.r_op) in
    (match r.r_ret with
     | Some x -> results.(t) <- show_ret x :: results.(t); calls_done.(t) <- calls_done.(t) + 1
     | None -> ());
    tok) s.g_trace in
  let eff = String.concat "" (List.map (fun r -> string_of_int (int_of_nat r.r_tid)) s.g_trace) in
  Printf.sprintf "%s|%s|%s"
    (if eff = "" then "-" else eff)
    (String.concat "," ops)
    (String.concat "/" (Array.to_list (Array.map (fun l -> String.concat "." (List.rev l)) results)))

let runnable (th : sg_thr) = match th.th_pc, th.th_calls with PIdle, [] -> false | _ -> true

let run_case line =
  match tokens line with
  | ["E"; os; prog] ->
    let os = parse_ords os and progs = parse_prog prog in
    let nthr = List.length progs in
    let buf = Buffer.create 65536 in
    let count = ref 0 in
    let rec go (s : sg_state) =
      let any = ref false in
      List.iteri (fun t th ->
        if runnable th then begin
          any := true;
          go (sg_step os s (nat_of_int t, O))
        end) s.g_thrs;
      if not !any then begin
        if !count > 0 then Buffer.add_char buf ';';
        incr count;
        Buffer.add_string buf (entry nthr s)
      end in
    go (sg_init progs);
    Printf.sprintf "n=%d %s" !count (Buffer.contents buf)
  | ["R"; os; prog; sched] ->
    let os = parse_ords os and progs = parse_prog prog and tids = parse_sched sched in
    let nthr = List.length progs in
    let s = sg_run_sc os progs tids in
    let stuck = List.length tids - List.length s.g_trace in
    let fin = sg_finished s in
    Printf.sprintf "n=1 %s%s" (entry nthr s)
      (if fin && stuck = 0 && not s.g_raced then ""
       else Printf.sprintf "|!fin=%d,stuck=%d,raced=%d" (if fin then 1 else 0) stuck (if s.g_raced then 1 else 0))
  | ["X"; os; prog] ->
    let os = parse_ords os and progs = parse_prog prog in
    (match sg_search os progs with
     | (Some w, k) ->
       Printf.sprintf "racy %s %d"
         (String.concat "," (List.map (fun (t, r) -> Printf.sprintf "%d:%d" (int_of_nat t) (int_of_nat r)) w))
         (int_of_n k)
     | (None, k) -> Printf.sprintf "none %d" (int_of_n k))
  | _ -> failwith ("bad singleton case: " ^ line)
