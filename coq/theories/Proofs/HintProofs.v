(* The size-hint arithmetic never overflows (or underflows) as long as the strings the
   caller supplied and the value count are of any size a 64-bit machine can hold. *)
Require Import Cadence.Base.Prelude.
Require Import Cadence.Base.MachineInt.
Require Import Cadence.Model.Convert.
Require Import Cadence.Model.Wire.
Require Import Cadence.Model.Hint.

Local Open Scope N_scope.
Arguments N.add : simpl never.
Arguments N.mul : simpl never.
Arguments N.sub : simpl never.
Arguments N.pow : simpl never.

Lemma uadd_some a b : a + b < W64 -> uadd a b = Some (a + b).
Proof. intros H. unfold uadd. destruct (N.ltb_spec (a + b) W64); [reflexivity|lia]. Qed.
Lemma umul_some a b : a * b < W64 -> umul a b = Some (a * b).
Proof. intros H. unfold umul. destruct (N.ltb_spec (a * b) W64); [reflexivity|lia]. Qed.
Lemma usub_some a b : b <= a -> usub a b = Some (a - b).
Proof. intros H. unfold usub. destruct (N.leb_spec b a); [reflexivity|lia]. Qed.

Lemma uadd_none a b : W64 <= a + b -> uadd a b = None.
Proof. intros H. unfold uadd. destruct (N.ltb_spec (a + b) W64); [lia|reflexivity]. Qed.
Lemma usub_none a b : a < b -> usub a b = None.
Proof. intros H. unfold usub. destruct (N.leb_spec b a); [lia|reflexivity]. Qed.

Lemma W64_pos : 0 < W64. Proof. reflexivity. Qed.

Lemma kv_total_cons t ts : kv_total (t :: ts) = tag_bytes t + kv_total ts.
Proof. reflexivity. Qed.

Lemma kv_step_some k t : k + tag_bytes t < W64 -> kv_step (Some k) t = Some (k + tag_bytes t).
Proof.
  intros H. destruct t as [[tk|] tv]; unfold tag_bytes in *; unfold kv_step; cbn [obind].
  - rewrite (uadd_some (len tk) 1) by lia. cbn [obind].
    rewrite (uadd_some (len tk + 1) (len tv)) by lia. cbn [obind]. apply uadd_some. lia.
  - apply uadd_some. lia.
Qed.

Lemma kv_fold ts : forall k, k + kv_total ts < W64 ->
  fold_left kv_step ts (Some k) = Some (k + kv_total ts).
Proof.
  induction ts as [|t ts IH]; intros k H.
  - cbn. now rewrite N.add_0_r.
  - rewrite kv_total_cons in *. cbn [fold_left]. rewrite kv_step_some by lia.
    rewrite IH by lia. f_equal. lia.
Qed.

Lemma kv_size_spec ts : kv_total ts < W64 -> kv_size ts = Some (kv_total ts).
Proof. intros H. unfold kv_size. now rewrite kv_fold by lia. Qed.

Definition tag_hint_value (ts : list tag) : N :=
  match ts with [] => 0 | _ => 2 + kv_total ts + N.of_nat (length ts) - 1 end.

Lemma tag_size_hint_spec ts : 2 + kv_total ts + N.of_nat (length ts) < W64 ->
  tag_size_hint ts = Some (tag_hint_value ts).
Proof.
  intros H. unfold tag_size_hint, tag_hint_value. destruct ts as [|t ts]; [reflexivity|].
  set (l := t :: ts) in *. rewrite kv_size_spec by lia. cbn [obind].
  rewrite (uadd_some 2) by lia. cbn [obind]. rewrite uadd_some by lia. cbn [obind].
  apply usub_some. lia.
Qed.

(* whenever the hint fits in 64 bits, no intermediate sum overflows and the subtraction in
   tag_size_hint does not underflow: the checked computation yields exactly the hint *)
Theorem size_hint_spec f : hint_value f < W64 -> size_hint f = Some (hint_value f).
Proof.
  destruct f as [pre key v kd tags ts rate cid].
  unfold hint_value, size_hint, base_size.
  cbn [f_prefix f_key f_val f_kind f_tags f_timestamp f_rate f_container].
  set (p := len pre). set (k := len key). set (c := N.of_nat (mv_count v)).
  intros H.
  assert (Htv : tag_size_hint tags = Some (tag_hint_value tags) /\
                match tags with [] => 0 | t :: l => 2 + kv_total (t :: l) + N.of_nat (length (t :: l)) - 1 end
                = tag_hint_value tags).
  { destruct tags as [|t tl]; [split; reflexivity|]. split; [|reflexivity].
    apply tag_size_hint_spec. destruct rate, ts, cid; lia. }
  destruct Htv as [Htv Hm]. rewrite Hm in *. rewrite Htv. clear Htv Hm.
  set (tv := tag_hint_value tags) in *. clearbody tv p k c.
  unfold sampling_rate_size_hint, timestamp_size_hint, container_id_size_hint.
  destruct rate as [r|]; destruct ts as [t|]; destruct cid as [cid|]; cbn [obind];
    rewrite ?(uadd_some 2 17), ?(uadd_some 2 10) by reflexivity; cbn [obind];
    try (rewrite (uadd_some 2 (len cid)) by lia; cbn [obind]);
    repeat (first [rewrite uadd_some by lia | rewrite umul_some by lia]; cbn [obind]); f_equal; lia.
Qed.

Lemma kv_total_le ts : kv_total ts <= kv_total ts. Proof. lia. Qed.

(* the hint is bounded by the caller's bytes plus ten per value, one per tag and a constant *)
Theorem hint_bound f :
  hint_value f <= arg_bytes f + 10 * N.of_nat (mv_count (f_val f)) + N.of_nat (length (f_tags f)) + 40.
Proof.
  unfold hint_value, arg_bytes.
  destruct (f_rate f), (f_timestamp f), (f_container f), (f_tags f) as [|t ts]; cbn [length]; lia.
Qed.

Definition I63 : N := 2 ^ 63.

(* C20: no arithmetic panic in the size hints, and the hint is a capacity String::with_capacity
   accepts (<= isize::MAX), for every formatter whose strings and value count a process could
   actually hold *)
Theorem hint_never_panics f :
  arg_bytes f + 10 * N.of_nat (mv_count (f_val f)) + N.of_nat (length (f_tags f)) + 40 < I63 ->
  exists h, size_hint f = Some h /\ h < I63 /\ h = hint_value f.
Proof.
  intros H. pose proof (hint_bound f) as B. exists (hint_value f).
  assert (I63 < W64) by reflexivity.
  split; [apply size_hint_spec; lia|]. split; [lia|reflexivity].
Qed.
