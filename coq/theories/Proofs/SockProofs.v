(* Scenario-level facts about the socket sinks (Model/Sock.v: sc_unbuffered, sc_buffered): what is
   on the wire, what the calls answered and what the statistics say, for every script of emits,
   flushes and listener outages. *)
Require Import Cadence.Base.Prelude.
Require Import Cadence.Model.Writer.
Require Import Cadence.Model.Stats.
Require Import Cadence.Model.Sock.
Require Import Cadence.Proofs.WriterBase.
Require Import Cadence.Proofs.WriterInv.
Require Import Cadence.Proofs.WriterRun.
Require Import Cadence.Proofs.StatsProofs.

(* ------------------------------------------------------------------ unbuffered sinks *)
(* the emits of a scenario, each with the listener's state at the time *)
Fixpoint sc_emits (up : bool) (ops : list sop) : list (str * bool) :=
  match ops with
  | [] => []
  | SEmit m :: r => (m, up) :: sc_emits up r
  | SFlush :: r => sc_emits up r
  | SDown :: r => sc_emits false r
  | SUp :: r => sc_emits true r
  end.

(* the answers the sink must give: Ok(len) for a metric that went out, the socket's error for one
   that did not (behind a queue: Ok(len) in either case), Ok for flush *)
Fixpoint sc_answers (queued up : bool) (ops : list sop) : list sres :=
  match ops with
  | [] => []
  | SEmit m :: r => (if up || queued then SK (N.of_nat (length m)) else SE) :: sc_answers queued up r
  | SFlush :: r => SK 0 :: sc_answers queued up r
  | SDown :: r => SNone :: sc_answers queued false r
  | SUp :: r => SNone :: sc_answers queued true r
  end.

Definition att_of (x : str * bool) : attempt1 := attempt_of (fst x) (os_of (snd x)).

Lemma sc_unbuf_spec queued : forall ops up st,
  sc_unbuf queued up st ops =
  (sc_answers queued up ops,
   map (fun x => {| sd_dest := 0; sd_payload := fst x |}) (filter snd (sc_emits up ops)),
   updates st (map att_of (sc_emits up ops))).
Proof.
  induction ops as [|o ops IH]; intros up st; [reflexivity|].
  destruct o as [m| | |]; cbn [sc_unbuf sc_answers sc_emits].
  - rewrite sock_emit_spec, IH. destruct up, queued; reflexivity.
  - now rewrite IH.
  - now rewrite IH.
  - now rewrite IH.
Qed.

(* C13/C14 for a whole scenario on an unbuffered sink: the wire carries exactly the metrics emitted
   while the listener was there - their bytes, unchanged, one datagram each, in order; every call
   answered truthfully; the four counters are the totals of what was sent and what was refused *)
Theorem sc_unbuffered_spec queued ops :
  let es := sc_emits true ops in
  sc_unbuffered queued ops =
  (sc_answers queued true ops, map fst (filter snd es), updates stats0 (map att_of es)).
Proof.
  cbn. unfold sc_unbuffered. rewrite sc_unbuf_spec. rewrite map_map. reflexivity.
Qed.

Lemma att_sent_bytes es :
  sent_bytes (map att_of es) = fold_right N.add 0%N (map (fun x => N.of_nat (length (fst x))) (filter snd es)) /\
  sent_count (map att_of es) = N.of_nat (length (filter snd es)) /\
  dropped_bytes (map att_of es) =
    fold_right N.add 0%N (map (fun x => N.of_nat (length (fst x))) (filter (fun x => negb (snd x)) es)) /\
  dropped_count (map att_of es) = N.of_nat (length (filter (fun x => negb (snd x)) es)).
Proof.
  induction es as [|[m [|]] es (A & B & C & D)]; [repeat split| |];
    cbn [map att_of attempt_of os_of fst snd sent_bytes sent_count dropped_bytes dropped_count at_res at_len
         filter negb fold_right length]; rewrite A, B, C, D; repeat split; lia.
Qed.

Theorem sc_unbuffered_totals queued ops rs dg st :
  sc_unbuffered queued ops = (rs, dg, st) ->
  let lost := map fst (filter (fun x => negb (snd x)) (sc_emits true ops)) in
  bytes_sent st = (fold_right N.add 0 (map (fun d => N.of_nat (length d)) dg) mod 2 ^ 64)%N /\
  packets_sent st = (N.of_nat (length dg) mod 2 ^ 64)%N /\
  bytes_dropped st = (fold_right N.add 0 (map (fun d => N.of_nat (length d)) lost) mod 2 ^ 64)%N /\
  packets_dropped st = (N.of_nat (length lost) mod 2 ^ 64)%N /\
  length dg + length lost = length (sc_emits true ops).
Proof.
  rewrite sc_unbuffered_spec. intros H. inversion H; subst; clear H. cbn zeta.
  destruct (updates_totals (map att_of (sc_emits true ops))) as (A & B & C & D).
  destruct (att_sent_bytes (sc_emits true ops)) as (E1 & E2 & E3 & E4).
  rewrite A, B, C, D, E1, E2, E3, E4, !map_map, !map_length. repeat split; try reflexivity.
  generalize (sc_emits true ops). intros l. induction l as [|[m [|]] l IH]; cbn; lia.
Qed.

(* ------------------------------------------------------------------ buffered sinks *)
Lemma inv_with_script s up : Inv s -> Inv (with_script s up).
Proof. intros [A B C]. constructor; assumption. Qed.

Definition sop_calls (ops : list sop) : nat :=
  length (filter (fun o => match o with SEmit _ | SFlush => true | _ => false end) ops).

Lemma sc_buf_inv queued : forall ops up s n rs s' n' up',
  Inv s -> LogOk s -> sc_buf queued up s n ops = (rs, s', n', up') ->
  Inv s' /\ same_cfg s s' /\ LogOk s' /\ n' = n + sop_calls ops /\ length rs = length ops /\
  (exists atts, lg s' = lg s ++ atts /\ Forall (fun a => n <= a_op a < n') atts).
Proof.
  induction ops as [|o ops IH]; intros up s n rs s' n' up' I L H.
  - inversion H; subst. split; [exact I|]. split; [apply same_cfg_refl|]. split; [exact L|].
    split; [unfold sop_calls; cbn; lia|]. split; [reflexivity|]. exists []. split; [now rewrite app_nil_r|constructor].
  - assert (step_case : forall wo x s1 rs0,
      step (with_script s up) n wo = (x, s1) -> sc_buf queued up s1 (S n) ops = (rs0, s', n', up') ->
      Inv s' /\ same_cfg s s' /\ LogOk s' /\ n' = n + S (sop_calls ops) /\ length rs0 = length ops /\
      (exists atts, lg s' = lg s ++ atts /\ Forall (fun a => n <= a_op a < n') atts)).
    { intros wo x s1 rs0 S1 R.
      destruct (step_spec _ _ _ _ _ (inv_with_script s up I) S1) as [a1 P1].
      destruct P1 as [I1 [C1 E1] [X1 O1] F1 _ _ _ _ _ _ _]. cbn [with_script set_io cap ending lg] in *.
      assert (L1 : LogOk s1).
      { unfold LogOk in *. rewrite X1, C1, E1. apply Forall_app; split; assumption. }
      destruct (IH _ _ _ _ _ _ _ I1 L1 R) as (I2 & [C2 E2] & L2 & N2 & Len & atts & X2 & O2).
      split; [exact I2|]. split; [split; congruence|]. split; [exact L2|]. split; [lia|]. split; [exact Len|].
      exists (a1 ++ atts). split; [rewrite X2, X1; now rewrite app_assoc|].
      apply Forall_app; split.
      - eapply Forall_impl; [|exact O1]. cbn. intros a Ha. lia.
      - eapply Forall_impl; [|exact O2]. cbn. intros a Ha. lia. }
    destruct o as [m| | |]; cbn [sc_buf] in H.
    + destruct (step (with_script s up) n (Emit m)) as [x s1] eqn:S1.
      destruct (sc_buf queued up s1 (S n) ops) as [[[rs0 s2] n2] up2] eqn:R.
      inversion H; subst; clear H.
      destruct (step_case _ _ _ _ S1 R) as (A & B & C & D & E & F).
      unfold sop_calls in *. cbn [filter length].
      split; [exact A|]. split; [exact B|]. split; [exact C|]. split; [lia|]. split; [cbn [length]; lia|exact F].
    + destruct (step (with_script s up) n Flush) as [x s1] eqn:S1.
      destruct (sc_buf queued up s1 (S n) ops) as [[[rs0 s2] n2] up2] eqn:R.
      inversion H; subst; clear H.
      destruct (step_case _ _ _ _ S1 R) as (A & B & C & D & E & F).
      unfold sop_calls in *. cbn [filter length].
      split; [exact A|]. split; [exact B|]. split; [exact C|]. split; [lia|]. split; [cbn [length]; lia|exact F].
    + destruct (sc_buf queued false s n ops) as [[[rs0 s2] n2] up2] eqn:R.
      inversion H; subst; clear H.
      destruct (IH _ _ _ _ _ _ _ I L R) as (A & B & C & D & E & F).
      unfold sop_calls in *. cbn [filter length].
      split; [exact A|]. split; [exact B|]. split; [exact C|]. split; [exact D|]. split; [cbn [length]; lia|exact F].
    + destruct (sc_buf queued true s n ops) as [[[rs0 s2] n2] up2] eqn:R.
      inversion H; subst; clear H.
      destruct (IH _ _ _ _ _ _ _ I L R) as (A & B & C & D & E & F).
      unfold sop_calls in *. cbn [filter length].
      split; [exact A|]. split; [exact B|]. split; [exact C|]. split; [exact D|]. split; [cbn [length]; lia|exact F].
Qed.

(* C05/C13 for a whole scenario on a buffered sink, whatever the listener does and whenever: every
   datagram that reaches the wire - those of the final drop included - is a non-empty run of whole
   lines "metric\n" within the capacity (512 unless configured), or one oversized metric alone *)
Theorem sc_buffered_frames co queued ops rs dg st :
  sc_buffered co queued ops = (rs, dg, st) ->
  let c := match co with Some n => n | None => 512 end in
  length rs = length ops /\
  Forall (fun d => (exists ms : list str, ms <> [] /\ d = concat (map (fun m => m ++ [10%N]) ms) /\ length d <= c) \/
                   (c < length d + 1)) dg.
Proof.
  unfold sc_buffered. destruct (sc_buf queued true (sink_init co []) 0 ops) as [[[rs0 s] n] up] eqn:R.
  intros H; inversion H; subst; clear H. cbn zeta.
  assert (I0 : Inv (sink_init co [])) by apply inv_init.
  assert (L0 : LogOk (sink_init co [])) by constructor.
  destruct (sc_buf_inv queued _ _ _ _ _ _ _ _ I0 L0 R) as (I & [C E] & L & _ & Len & _).
  split; [exact Len|].
  unfold mlw_drop. destruct (flush_buf (with_script s up) n) as [r s2] eqn:F. cbn [snd].
  apply flushbuf_spec in F; [|apply inv_with_script, I].
  destruct F as (_ & _ & datts & [X _] & Ffr & _). cbn [with_script set_io lg cap ending] in *.
  rewrite X. unfold datagrams. rewrite Forall_forall. intros d Hd. apply in_map_iff in Hd.
  destruct Hd as (sd & <- & Hd). apply in_flat_map in Hd. destruct Hd as (a & Ia & Hd).
  assert (Fa : frame_ok (cap s) (ending s) a).
  { apply in_app_or in Ia. destruct Ia as [Ia|Ia].
    - unfold LogOk in L. rewrite Forall_forall in L. auto.
    - rewrite Forall_forall in Ffr. auto. }
  destruct (a_out a); try contradiction. destruct Hd as [<-|[]]. cbn [sd_payload].
  rewrite C, E in Fa. unfold sink_init, init in Fa. cbn [cap ending] in Fa.
  unfold frame_ok in Fa. destruct (a_lab a) as [ms|m].
  - destruct Fa as (Nz & B & Le). left. exists (map snd ms). repeat split.
    + destruct ms; [contradiction|discriminate].
    + rewrite B. unfold render, line, newline. now rewrite map_map.
    + destruct co; exact Le.
  - destruct Fa as (B & Lt). right. rewrite B. unfold newline in Lt. cbn [length] in Lt. destruct co; exact Lt.
Qed.

(* C14 for a whole scenario on a buffered sink: the statistics read after the last call count the
   underlying sends made so far, each exactly once, as sent or as dropped with its full size *)
Theorem sc_buffered_stats co queued ops rs s n up :
  sc_buf queued true (sink_init co []) 0 ops = (rs, s, n, up) ->
  let st := buffered_stats (lg s) in
  let l := map attempt_of_log (lg s) in
  snd (sc_buffered co queued ops) = st /\
  packets_sent st = (sent_count l mod 2 ^ 64)%N /\ bytes_sent st = (sent_bytes l mod 2 ^ 64)%N /\
  packets_dropped st = (dropped_count l mod 2 ^ 64)%N /\ bytes_dropped st = (dropped_bytes l mod 2 ^ 64)%N /\
  (sent_count l + dropped_count l = N.of_nat (length (lg s)))%N.
Proof.
  intros R. cbn zeta. unfold sc_buffered. rewrite R. cbn [snd].
  destruct (updates_totals (map attempt_of_log (lg s))) as (A & B & C & D).
  repeat split; auto. rewrite counts_add, map_length. reflexivity.
Qed.
