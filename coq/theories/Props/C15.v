(* C15 — Queuing sink counters are consistent with what happened.

   Pinned statements about Cadence.Model.Queue, [step true] = the repaired code.  The counters
   are q_submitted (incremented by EIncSubmitted, the producer's step after a successful
   try_send), q_drained (incremented by the worker's EWStep before it calls the wrapped sink)
   and q_panics.  queued() is two loads, ESampleA (submitted) and ESampleB (drained, then the
   guarded difference); they may be placed ANYWHERE among the other events of a history.
   q_samples records (value returned, submitted at the moment of the second load).
   Vocabulary as in Props/C08.v;  count_ok rs = number of ROk in the results of the history
   (only ETrySend returns ROk / RFull);  counted w = 1 while the wrapped sink is processing a
   metric (w = WCounted _), else 0;  queued_now s = the value queued() would return if both
   loads happened now. *)
Require Import Cadence.Base.Prelude.
Require Import Cadence.Model.Queue.
Require Import Cadence.Proofs.QueueInv.
Require Import Cadence.Proofs.QueueLive.

(* at every moment: accepted = number of emits that returned Ok; submitted lags behind by the
   producers that have not done their increment yet; drained = calls of the wrapped sink
   completed or in progress.  At a quiescent moment (no producer between try_send and its
   increment): submitted = number of Ok emits; if moreover the worker does not hold a metric it
   has not counted yet, drained <= submitted and queued = submitted - drained = the number of
   metrics still in the channel *)
Theorem c15_quiescent : forall cap handler evs s rs,
  run true (init_q cap handler) evs = Some (s, rs) ->
  q_accepted s = count_ok rs /\
  q_submitted s + q_pending_inc s = count_ok rs /\
  q_drained s = length (q_delivered s) + counted (q_wk s) /\
  (q_pending_inc s = 0 -> q_submitted s = count_ok rs) /\
  (q_pending_inc s = 0 -> (forall m, q_wk s <> WHas (Some m)) ->
     q_drained s <= q_submitted s /\
     queued_now s = q_submitted s - q_drained s /\
     queued_now s = length (somes (q_chan s))).
Proof. exact reach_counters. Qed.

(* refused emits are counted nowhere: they change nothing at all; accepted ones count once *)
Theorem c15_refused : forall fixed s s',
  step fixed s ETrySend = Some (s', RFull) -> s' = s.
Proof.
  intros fixed s s' H. apply step_result in H. destruct H as (_ & _ & E). exact E.
Qed.

Theorem c15_results : forall fixed s ev s' r,
  step fixed s ev = Some (s', r) ->
  match r with
  | ROk => ev = ETrySend /\ room s = true /\ q_accepted s' = S (q_accepted s)
  | RFull => ev = ETrySend /\ room s = false /\ s' = s
  | RNone => ev <> ETrySend /\ q_accepted s' = q_accepted s
  end.
Proof. exact step_result. Qed.

(* once everything has settled (c08_eventually) all three agree and queued() is 0 *)
Theorem c15_settled : forall cap handler evs s rs outs fuel,
  run true (init_q cap handler) evs = Some (s, rs) -> mu s < fuel ->
  let s' := quiesce true fuel s outs in
  q_submitted s' = count_ok rs /\ q_drained s' = count_ok rs /\
  length (q_delivered s') = count_ok rs /\ queued_now s' = 0.
Proof. exact settled_counters. Qed.

(* at every moment, under any concurrency: every value q ever returned by queued(), for ANY
   placement of its two loads among the other events, satisfies q <= submitted at the time of
   its second load, which is <= submitted at any later time (q >= 0 holds by type) *)
Theorem c15_always : forall cap handler evs s rs q sub,
  run true (init_q cap handler) evs = Some (s, rs) -> In (q, sub) (q_samples s) ->
  q <= sub /\ sub <= q_submitted s.
Proof. exact reach_samples. Qed.

(* the first load can happen in any state; the second whenever a first one is outstanding.
   The value is computed without wrap-around: in exact integer arithmetic it is sub - drained
   when drained < sub (the only case in which the subtraction is performed), and 0 otherwise *)
Theorem c15_sample_a : forall fixed s,
  exists s', step fixed s ESampleA = Some (s', RNone) /\
             q_samp s' = Some (q_submitted s) /\ q_samples s' = q_samples s.
Proof. exact samplea_spec. Qed.

Theorem c15_guarded : forall fixed s s' r,
  step fixed s ESampleB = Some (s', r) ->
  exists sub q, q_samp s = Some sub /\ q_samples s' = q_samples s ++ [(q, q_submitted s)] /\
    q_samp s' = None /\
    ((q_drained s < sub /\ q + q_drained s = sub) \/ (sub <= q_drained s /\ q = 0)).
Proof. exact sampleb_spec. Qed.

(* counters never decrease, logs are only extended (both semantics, any events) *)
Theorem c15_monotone : forall fixed s evs s' rs,
  run fixed s evs = Some (s', rs) ->
  q_accepted s <= q_accepted s' /\ q_submitted s <= q_submitted s' /\
  q_drained s <= q_drained s' /\ q_panics s <= q_panics s' /\
  extends (q_samples s) (q_samples s').
Proof.
  intros fixed s evs s' rs R. destruct (run_mono _ _ _ _ _ R). auto.
Qed.

(* the guard is necessary: the worker can overtake the producer's bookkeeping, drained >
   submitted is reachable, and queued() then returns 0 (an unguarded u64 subtraction would
   wrap to 2^64 - 1) *)
Example c15_transient :
  match run true (init_q None false) [ETrySend; EWDequeue; EWStep; ESampleA; ESampleB] with
  | Some (s, rs) =>
    (rs, q_pending_inc s, q_submitted s, q_drained s, q_samples s, queued_now s) =
    ([ROk; RNone; RNone; RNone; RNone], 1, 0, 1, [(0, 0)], 0)
  | None => False
  end.
Proof. vm_compute. reflexivity. Qed.

(* non-vacuity: refused emits, loads of one queued() call far apart, quiescent samples *)
Example c15_witness :
  match run true (init_q (Some 1) false)
            [ETrySend; ETrySend; EIncSubmitted; ESampleA; EWDequeue; EWStep; ETrySend; ESampleB;
             EIncSubmitted; ESampleA; ESampleB; EWFinish SOk; EWDequeue; EWStep; ESampleA; ESampleB] with
  | Some (s, rs) =>
    (rs, q_submitted s, q_drained s, q_samples s, queued_now s, length (somes (q_chan s))) =
    ([ROk; RFull; RNone; RNone; RNone; RNone; ROk; RNone; RNone; RNone; RNone; RNone; RNone;
      RNone; RNone; RNone], 2, 2, [(0, 1); (1, 2); (0, 2)], 0, 0)
  | None => False
  end.
Proof. vm_compute. reflexivity. Qed.

(* ==== added after the audit of 2026-10-02 (selftest/audit/REPORT-2026-10-02.md) ==== *)
Require Import Cadence.Proofs.AuditQ.

(* what the harness-level ASample observes: exactly (submitted, drained, queued, panics) of the
   state, queued being the guarded difference; it answers RNone and does not change the state *)
Theorem c15_sample_obs : forall fixed s,
  ob_sample (snd (act fixed s ASample)) = Some (q_submitted s, q_drained s, queued_now s, q_panics s) /\
  ob_result (snd (act fixed s ASample)) = RNone /\ fst (act fixed s ASample) = s.
Proof. exact sample_obs. Qed.

(* a sample taken by the harness after ANY script from the initial state (repaired semantics):
   no internal step is outstanding; submitted = the number accepted; drained = completed calls
   plus the one in progress; queued() = exactly the number of metrics waiting in the channel;
   panics = the panicked calls in the delivery log *)
Theorem c15_harness_sample : forall cap handler l,
  let s := fst (acts true (init_q cap handler) l) in
  internal_step true s = None /\
  ob_sample (snd (act true s ASample)) =
    Some (q_accepted s, length (q_delivered s) + counted (q_wk s),
          length (somes (q_chan s)), npanics (q_delivered s)).
Proof. exact harness_sample. Qed.

(* the quiescent equalities at the end of EVERY maximal background schedule, not only [quiesce] *)
Theorem c15_any_schedule : forall cap handler evs s rs wevs s' wrs,
  run true (init_q cap handler) evs = Some (s, rs) ->
  Forall worker_side wevs -> run true s wevs = Some (s', wrs) -> stuck true s' ->
  q_submitted s' = count_ok rs /\ q_drained s' = count_ok rs /\
  length (q_delivered s') = count_ok rs /\ queued_now s' = 0.
Proof. exact stats_any_schedule. Qed.

Example c15_harness_obs_witness :
  let '(s, os) := acts true (init_q (Some 1) true)
                    [AEmit; AEmit; AEmit; ARelease SOk; ASample; ARelease SPanic; ARelease SOk;
                     ASample; ADrop; AEmit; AClone; ADrop; ARelease SOk; ASample] in
  (map ob_result os, map ob_sample os, q_wk s, q_handles s) =
  ([ROk; ROk; RFull; RNone; RNone; RNone; RNone; RNone; RNone; RNone; RNone; RNone; RNone; RNone],
   [None; None; None; None; Some (2, 2, 0, 0); None; None; Some (2, 2, 0, 1);
    None; None; None; None; None; Some (2, 2, 0, 1)],
   WExited, 0).
Proof. exact harness_obs_witness. Qed.
