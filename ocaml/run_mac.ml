(* model: macro *)
(* include: wireparse *)
(* model side of harness bin `mac` (formats: harness/src/mac.rs); float arguments arrive as the hex of std's
   Display text.  The parsing helpers are those of run_wire.ml.  The whole process (who set the holder first,
   the invocations one after the other) is run by the Coq model itself (Macro.run_process): the glue only
   parses the steps and prints the observations. *)


let show_expr = function
  | XKey -> "k" | XVal -> "v"
  | XTagKey i -> "tk" ^ string_of_int (int_of_nat i)
  | XTagVal i -> "tv" ^ string_of_int (int_of_nat i)

let parse_macro = function
  | "c" -> StatsdCount | "ms" -> StatsdTime | "g" -> StatsdGauge | "m" -> StatsdMeter
  | "h" -> StatsdHistogram | "d" -> StatsdDistribution | "s" -> StatsdSet | k -> failwith ("bad macro " ^ k)

let parse_tags s =
  List.map (fun t -> let (k, v) = split2 ':' t in (unhex0 k, unhex0 v)) (split_on ',' s)

(* the other client of step Z: prefix "zz", no defaults (its sink always accepts and is not observed) *)
let other_cfg = { c_prefix = unhex0 "7a7a"; c_tags = []; c_container = None }

let parse_step step =
  match String.split_on_char '|' step with
  | ["S"] -> PSet
  | ["Z"] -> PSetOther
  | ["G"] | ["GT"] -> PGet
  | ["Q"] | ["QT"] -> PIsSet
  | [("I" | "T" | "U"); kind; arg; key; tags] ->
    PInvoke { i_macro = parse_macro kind; i_key = unhex0 key; i_arg = parse_arg arg; i_tags = parse_tags tags }
  | _ -> failwith ("bad step " ^ step)

let parse_m prefix dtags dcid script steps =
  let cfg = { c_prefix = unhex0 prefix; c_tags = parse_dtags dtags;
              c_container = (if dcid = "~" then None else Some (unhex0 dcid)) } in
  (cfg, parse_script script, List.map parse_step (String.split_on_char '%' steps))

let show_obs st o =
  match o.po_flag with
  | Some b -> (match st with PIsSet -> "q" | _ -> "g") ^ (if b then "1" else "0") ^ ",~,~,~"
  | None ->
  let ret = if o.po_panicked then "panic" else if o.po_stuck then "notype" else "unit" in
  let em = if o.po_emitted = [] then "~" else String.concat "+" (List.map hex0 o.po_emitted) in
  let hd = if o.po_handled = [] then "~" else String.concat "+" (List.map show_err o.po_handled) in
  let ev = if o.po_evals = [] then "~" else String.concat "." (List.map show_expr o.po_evals) in
  ret ^ "," ^ em ^ "," ^ hd ^ "," ^ ev

let run_case line =
  match tokens line with
  | ["M"; prefix; dtags; dcid; script; steps] ->
    let (cfg, sc, st) = parse_m prefix dtags dcid script steps in
    let observed = List.filter (fun s -> match s with PSet | PSetOther -> false | _ -> true) st in
    String.concat "|" (List.map2 show_obs observed (run_process cfg other_cfg None sc st))
  | _ -> failwith ("bad mac case: " ^ line)

(* the same case as a Gallina equation (kernel cross-check of the extracted macro model) *)
let coq_header =
  "Require Import Cadence.Base.Prelude Cadence.Model.Convert Cadence.Model.Wire Cadence.Model.Client Cadence.Model.Macro.\n"

let g_bool b = if b then "true" else "false"
let g_cfg c = Printf.sprintf "{| c_prefix := %s; c_tags := %s; c_container := %s |}"
    (g_str c.c_prefix) (g_lst "tag" g_tag c.c_tags) (g_option g_str c.c_container)
let g_macro = function
  | StatsdCount -> "StatsdCount" | StatsdTime -> "StatsdTime" | StatsdGauge -> "StatsdGauge" | StatsdMeter -> "StatsdMeter"
  | StatsdHistogram -> "StatsdHistogram" | StatsdDistribution -> "StatsdDistribution" | StatsdSet -> "StatsdSet"
let g_pstep = function
  | PSet -> "PSet" | PSetOther -> "PSetOther" | PGet -> "PGet" | PIsSet -> "PIsSet"
  | PInvoke i -> Printf.sprintf "(PInvoke {| i_macro := %s; i_key := %s; i_arg := %s; i_tags := %s |})"
                   (g_macro i.i_macro) (g_str i.i_key) (g_arg i.i_arg)
                   (g_lst "(list N * list N)" (fun (k, v) -> g_pair (g_str k) (g_str v)) i.i_tags)
let g_expr = function
  | XKey -> "XKey" | XVal -> "XVal"
  | XTagKey i -> "(XTagKey " ^ g_nat i ^ ")" | XTagVal i -> "(XTagVal " ^ g_nat i ^ ")"
let g_pobs o = Printf.sprintf "{| po_panicked := %s; po_stuck := %s; po_emitted := %s; po_handled := %s; po_evals := %s; po_flag := %s |}"
    (g_bool o.po_panicked) (g_bool o.po_stuck) (g_lst "(list N)" g_str o.po_emitted)
    (g_lst "merror" g_merr o.po_handled) (g_lst "expr" g_expr o.po_evals) (g_option g_bool o.po_flag)

let coq_case line =
  if String.length line > 1400 then None else
  match tokens line with
  | ["M"; prefix; dtags; dcid; script; steps] ->
    let (cfg, sc, st) = parse_m prefix dtags dcid script steps in
    Some (Printf.sprintf "run_process %s %s None %s %s = %s" (g_cfg cfg) (g_cfg other_cfg) (g_lst "sink_outcome" g_so sc)
            (g_lst "pstep" g_pstep st) (g_lst "pobs" g_pobs (run_process cfg other_cfg None sc st)))
  | _ -> None
