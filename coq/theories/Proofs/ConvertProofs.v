(* Proofs about Model/Convert.v: the table of conversions, the Duration guards and the
   losslessness of the narrowing cast under the guard, packed lists. *)
Require Import Cadence.Base.Prelude.
Require Import Cadence.Base.Decimal.
Require Import Cadence.Model.Convert.
Require Import Cadence.Model.Wire.

(* ------------------------------------------------------------------ durations *)
(* whole milliseconds, rounded down, of the total nanosecond count *)
Lemma as_millis_floor : forall d, as_millis d = ((secs d * 10 ^ 9 + nanos d) / 10 ^ 6)%N.
Proof.
  intros d. unfold as_millis.
  change (10 ^ 9)%N with (1000 * 1000000)%N. change (10 ^ 6)%N with 1000000%N.
  rewrite N.mul_assoc. rewrite N.div_add_l by discriminate. reflexivity.
Qed.

Lemma as_nanos_total : forall d, as_nanos d = (secs d * 10 ^ 9 + nanos d)%N.
Proof. intros d. reflexivity. Qed.

Lemma cast_u64_small : forall n, (n <= u64_max)%N -> cast_u64 n = n.
Proof.
  intros n H. unfold cast_u64. apply N.mod_small. unfold u64_max in H.
  assert (0 < 2 ^ 64)%N by reflexivity. lia.
Qed.

Lemma conv_dur_spec : forall f d,
  conv_dur f d = if (f d <=? u64_max)%N then inr (Unsigned (f d)) else inl EInvalid.
Proof.
  intros f d. unfold conv_dur. destruct (N.ltb_spec u64_max (f d)) as [H|H].
  - destruct (N.leb_spec (f d) u64_max) as [H'|H']; [lia|reflexivity].
  - destruct (N.leb_spec (f d) u64_max) as [H'|H']; [|lia].
    rewrite cast_u64_small by exact H. reflexivity.
Qed.

Theorem timer_duration : forall d,
  to_value Timer (ADur d) =
  Some (if (as_millis d <=? u64_max)%N then inr (Unsigned (as_millis d)) else inl EInvalid).
Proof. intros d. cbn [to_value]. rewrite conv_dur_spec. reflexivity. Qed.

Theorem hist_duration : forall d,
  to_value Histogram (ADur d) =
  Some (if (as_nanos d <=? u64_max)%N then inr (Unsigned (as_nanos d)) else inl EInvalid).
Proof. intros d. cbn [to_value]. rewrite conv_dur_spec. reflexivity. Qed.

(* the guard in terms of the fields, for well-formed durations: a Timer accepts exactly the
   durations of at most 18446744073709551 s + 615 ms (+ 999999 ns); a Histogram exactly those of
   at most 18446744073 s + 709551615 ns *)
Lemma millis_guard : forall d, dur_ok d ->
  ((as_millis d <=? u64_max) = true <->
   (secs d < 18446744073709551 \/ (secs d = 18446744073709551 /\ nanos d < 616000000)))%N.
Proof.
  intros d [Hs Hn]. rewrite N.leb_le. unfold as_millis, u64_max.
  change (2 ^ 64 - 1)%N with 18446744073709551615%N. change (10 ^ 9)%N with 1000000000%N in Hn.
  assert (Hlo : (nanos d < 616000000 -> nanos d / 1000000 < 616)%N)
    by (intros L; apply N.div_lt_upper_bound; lia).
  assert (Hhi : (616000000 <= nanos d -> 616 <= nanos d / 1000000)%N)
    by (intros L; apply N.div_le_lower_bound; lia).
  assert (Hq : (nanos d / 1000000 < 1000)%N) by (apply N.div_lt_upper_bound; lia).
  remember (nanos d / 1000000)%N as q eqn:Eq. clear Eq.
  split.
  - intros H. destruct (N.lt_trichotomy (secs d) 18446744073709551) as [L|[E|G]].
    + left; exact L.
    + right. split; [exact E|]. destruct (N.lt_ge_cases (nanos d) 616000000) as [L|G]; [exact L|].
      specialize (Hhi G). lia.
    + exfalso. lia.
  - intros [L|[E L]]; [lia|]. specialize (Hlo L). lia.
Qed.

Lemma nanos_guard : forall d, dur_ok d ->
  ((as_nanos d <=? u64_max) = true <->
   (secs d < 18446744073 \/ (secs d = 18446744073 /\ nanos d <= 709551615)))%N.
Proof.
  intros d [Hs Hn]. rewrite N.leb_le. unfold as_nanos, u64_max.
  change (2 ^ 64 - 1)%N with 18446744073709551615%N. change (10 ^ 9)%N with 1000000000%N in Hn.
  lia.
Qed.

(* ------------------------------------------------------------------ packed durations *)
Lemma conv_durs_spec : forall f l,
  conv_durs f l = if forallb (fun d => (f d <=? u64_max)%N) l
                  then inr (PackedUnsigned (map f l)) else inl EInvalid.
Proof.
  intros f l. unfold conv_durs.
  assert (E : existsb (fun d => (u64_max <? f d)%N) l = negb (forallb (fun d => (f d <=? u64_max)%N) l)).
  { induction l as [|d r IH]; [reflexivity|]. cbn [existsb forallb]. rewrite IH, negb_andb.
    rewrite N.leb_antisym. rewrite negb_involutive. reflexivity. }
  rewrite E. destruct (forallb (fun d => (f d <=? u64_max)%N) l) eqn:Ef; cbn [negb]; [|reflexivity].
  do 2 f_equal. apply map_ext_in. intros d Hd. rewrite forallb_forall in Ef.
  apply cast_u64_small. apply N.leb_le. apply Ef. exact Hd.
Qed.

(* rejected iff SOME element, at any index, overflows *)
Lemma conv_durs_reject_iff : forall f l,
  conv_durs f l = inl EInvalid <-> exists i d, nth_error l i = Some d /\ (u64_max < f d)%N.
Proof.
  intros f l. rewrite conv_durs_spec. split.
  - intros H. destruct (forallb (fun d => (f d <=? u64_max)%N) l) eqn:Ef; [discriminate|].
    clear H. induction l as [|d r IH]; [discriminate|]. cbn [forallb] in Ef.
    destruct (N.leb_spec (f d) u64_max) as [Hd|Hd].
    + cbn [andb] in Ef. destruct (IH Ef) as [i [d' [Hi Hd']]]. exists (S i), d'. split; assumption.
    + exists 0, d. split; [reflexivity|exact Hd].
  - intros [i [d [Hi Hd]]].
    destruct (forallb (fun d => (f d <=? u64_max)%N) l) eqn:Ef; [|reflexivity].
    rewrite forallb_forall in Ef. apply nth_error_In in Hi. specialize (Ef d Hi).
    apply N.leb_le in Ef. lia.
Qed.

(* accepted: every element converted on its own, same length, same order *)
Lemma conv_durs_accept : forall f l,
  (forall d, In d l -> (f d <= u64_max)%N) -> conv_durs f l = inr (PackedUnsigned (map f l)).
Proof.
  intros f l H. rewrite conv_durs_spec.
  assert (E : forallb (fun d => (f d <=? u64_max)%N) l = true).
  { apply forallb_forall. intros d Hd. apply N.leb_le. apply H. exact Hd. }
  rewrite E. reflexivity.
Qed.

Lemma conv_durs_dichotomy : forall f l,
  conv_durs f l = inl EInvalid \/
  (conv_durs f l = inr (PackedUnsigned (map f l)) /\ forall d, In d l -> (f d <= u64_max)%N).
Proof.
  intros f l. rewrite conv_durs_spec.
  destruct (forallb (fun d => (f d <=? u64_max)%N) l) eqn:Ef; [right|left; reflexivity].
  split; [reflexivity|]. intros d Hd. rewrite forallb_forall in Ef. apply N.leb_le. apply Ef. exact Hd.
Qed.

(* ------------------------------------------------------------------ the table *)
(* which (kind, argument type) pairs exist: exactly the 22 impls + user-defined values
   (whose conversion may succeed, AUser, or fail, AUserErr) *)
Definition entry_exists (k : kind) (a : arg) : bool :=
  match a with
  | AUser _ | AUserErr _ => true
  | AI64 _ => match k with Counter | SetK => true | _ => false end
  | AI32 _ | AU32 _ => match k with Counter => true | _ => false end
  | AU64 _ => match k with SetK => false | _ => true end
  | AF64 _ => match k with Gauge | Histogram | Distribution => true | _ => false end
  | ADur _ | AVecDur _ => match k with Timer | Histogram => true | _ => false end
  | AVecU64 _ => match k with Timer | Histogram | Distribution => true | _ => false end
  | AVecF64 _ => match k with Histogram | Distribution => true | _ => false end
  end.

Lemma to_value_defined : forall k a, entry_exists k a = true <-> to_value k a <> None.
Proof.
  intros k a. destruct a, k; cbn [entry_exists to_value]; split; intros H; try reflexivity;
    try discriminate; try congruence.
Qed.
