"""Shared machinery of the checks: builds (Coq development, extracted model runner,
Rust harness against /repo's current working tree), running both sides on case
files, proof-obligation audit, evidence files, VIOLATION / KNOWN-FINDING lines."""
import fcntl
import hashlib
import json
import os
import re
import subprocess
import sys
import time
from concurrent.futures import ThreadPoolExecutor

VERIF = os.path.dirname(os.path.dirname(os.path.abspath(__file__)))
REPO = os.environ.get("CADENCE_REPO", "/repo")
BUILD = os.path.join(VERIF, "build")
COQ = os.path.join(VERIF, "coq")
HARNESS_DIR = os.path.join(VERIF, "harness")
TARGET = os.path.join(BUILD, "target")
HARNESS = os.path.join(TARGET, "release", "harness")
HARNESS_DEBUG = os.path.join(TARGET, "debug", "harness")
MODELRUN = os.path.join(BUILD, "modelrun")
EVIDENCE = os.path.join(VERIF, "evidence")
REPLAYS = os.path.join(BUILD, "replays")
NCPU = min(16, os.cpu_count() or 4)
CFG = "cadence_verif"

FORBIDDEN = re.compile(
    r"\b(Admitted|admit|Axiom|Axioms|Parameter|Parameters|Conjecture|Conjectures|"
    r"Admit Obligations|bypass_check|native_compute)\b|Unset\s+Guard|Unset\s+Positivity|"
    r"Unset\s+Universe|type-in-type|impredicative-set")

# axioms of the standard library that may appear under a property theorem (none is
# expected; each would be reported in the evidence)
ALLOWED_AXIOMS = {
    "FunctionalExtensionality.functional_extensionality_dep",
    "functional_extensionality_dep",
    "ProofIrrelevance.proof_irrelevance",
    "proof_irrelevance",
    "Eqdep.Eq_rect_eq.eq_rect_eq",
    "Classical_Prop.classic",
    "JMeq.JMeq_eq",
}


class CheckFailure(Exception):
    """The machinery itself could not run (build failure etc.)."""


def sh(cmd, cwd=None, timeout=1800, env=None, check=False, input=None):
    e = dict(os.environ)
    e["CARGO_NET_OFFLINE"] = "true"
    if env:
        e.update(env)
    p = subprocess.run(cmd, cwd=cwd, timeout=timeout, env=e, input=input,
                       stdout=subprocess.PIPE, stderr=subprocess.STDOUT, text=True,
                       shell=isinstance(cmd, str))
    if check and p.returncode != 0:
        raise CheckFailure("command failed (%s): %s\n%s" % (p.returncode, cmd, p.stdout[-4000:]))
    return p.returncode, p.stdout


class Lock:
    def __init__(self, name):
        os.makedirs(BUILD, exist_ok=True)
        self.path = os.path.join(BUILD, "." + name + ".lock")

    def __enter__(self):
        self.f = open(self.path, "w")
        fcntl.flock(self.f, fcntl.LOCK_EX)
        return self

    def __exit__(self, *a):
        fcntl.flock(self.f, fcntl.LOCK_UN)
        self.f.close()


# ----------------------------------------------------------------------------- builds

def coq_sources():
    out = []
    for root, _, files in os.walk(os.path.join(COQ, "theories")):
        for f in files:
            if f.endswith(".v"):
                out.append(os.path.join(root, f))
    return sorted(out)


def build_coq(targets=None):
    """Full .vo build (never -vos/-vok) of the given targets (default: everything),
    incremental through the coq_makefile Makefile."""
    with Lock("coq"):
        os.makedirs(os.path.join(BUILD, "extracted"), exist_ok=True)
        mk = os.path.join(COQ, "Makefile")
        proj = os.path.join(COQ, "_CoqProject")
        if not os.path.exists(mk) or os.path.getmtime(mk) < os.path.getmtime(proj):
            sh(["coq_makefile", "-f", "_CoqProject", "-o", "Makefile"], cwd=COQ, check=True)
        if not os.path.exists(os.path.join(BUILD, "extracted", "model.ml")):
            for ext in (".vo", ".vos", ".vok", ".glob"):
                try:
                    os.unlink(os.path.join(COQ, "theories", "Extract", "Extract" + ext))
                except OSError:
                    pass
        cmd = ["timeout", "1500", "make", "-j%d" % NCPU]
        if targets:
            cmd += targets
        rc, out = sh(cmd, cwd=COQ, timeout=1600)
        return rc, out


def build_modelrun():
    """(Re)compile the OCaml model runner when the extracted code or the glue changed."""
    with Lock("ocaml"):
        ex = os.path.join(BUILD, "extracted")
        srcs = [os.path.join(ex, "model.mli"), os.path.join(ex, "model.ml")]
        glue_dir = os.path.join(VERIF, "ocaml")
        order_file = os.path.join(glue_dir, "ORDER")
        glue = [l.strip() for l in open(order_file) if l.strip()]
        h = hashlib.sha256()
        for p in srcs + [os.path.join(glue_dir, g) for g in glue]:
            if not os.path.exists(p):
                raise CheckFailure("missing " + p + " (run setup.sh)")
            h.update(open(p, "rb").read())
        stamp = os.path.join(BUILD, ".modelrun.sha")
        if os.path.exists(MODELRUN) and os.path.exists(stamp) and open(stamp).read() == h.hexdigest():
            return
        for g in glue:
            sh(["cp", os.path.join(glue_dir, g), ex], check=True)
        sh(["ocamlfind", "ocamlopt", "-O3", "-w", "-a", "model.mli", "model.ml"] + glue + ["-o", MODELRUN],
           cwd=ex, check=True, timeout=600)
        open(stamp, "w").write(h.hexdigest())


def build_harness(debug=False):
    """Build the Rust harness against /repo's *current working tree* (path dependency),
    hooks enabled.  Returns (ok, output)."""
    with Lock("cargo"):
        lock_src = os.path.join(REPO, "Cargo.lock")
        lock_dst = os.path.join(HARNESS_DIR, "Cargo.lock")
        if not os.path.exists(lock_dst) and os.path.exists(lock_src):
            sh(["cp", lock_src, lock_dst])
        cmd = ["timeout", "900", "cargo", "build", "--offline", "--quiet"]
        if not debug:
            cmd.append("--release")
        env = {"CARGO_TARGET_DIR": TARGET, "RUSTFLAGS": "--cfg %s" % CFG}
        rc, out = sh(cmd, cwd=HARNESS_DIR, env=env, timeout=1000)
        return rc == 0, out


# ------------------------------------------------------------------- running both sides

def _run_sharded(exe, bin_name, cases, extra=(), timeout=900, shards=None, env=None):
    if not cases:
        return []
    n = shards or max(1, min(NCPU, len(cases) // 2000 + 1))
    os.makedirs(os.path.join(BUILD, "tmp"), exist_ok=True)
    base = os.path.join(BUILD, "tmp", "%s.%d.%s" % (bin_name, os.getpid(), os.path.basename(exe)))
    chunks = [cases[i::n] for i in range(n)]
    paths = []
    for i, c in enumerate(chunks):
        p = "%s.%d.cases" % (base, i)
        with open(p, "w") as f:
            f.write("\n".join(c) + "\n")
        paths.append(p)

    def one(p):
        e = dict(os.environ)
        if env:
            e.update(env)
        r = subprocess.run([exe, bin_name, p] + list(extra), stdout=subprocess.PIPE, stderr=subprocess.PIPE,
                           text=True, timeout=timeout, env=e)
        return r

    with ThreadPoolExecutor(max_workers=n) as ex:
        rs = list(ex.map(one, paths))
    for p in paths:
        try:
            os.unlink(p)
        except OSError:
            pass
    outs = []
    for r, c in zip(rs, chunks):
        lines = r.stdout.splitlines()
        if r.returncode != 0 or len(lines) != len(c):
            raise CheckFailure("%s %s failed (rc=%s, %d/%d lines): %s" % (
                exe, bin_name, r.returncode, len(lines), len(c), r.stderr[-2000:]))
        outs.append(lines)
    res = [None] * len(cases)
    for i, lines in enumerate(outs):
        res[i::n] = lines
    return res


def run_harness(bin_name, cases, debug=False, **kw):
    return _run_sharded(HARNESS_DEBUG if debug else HARNESS, bin_name, cases, **kw)


def run_model(bin_name, cases, **kw):
    return _run_sharded(MODELRUN, bin_name, cases, **kw)


# ------------------------------------------------------------------ proof obligations

def grep_forbidden():
    """No Admitted/admit/Axiom/Parameter/... anywhere in the development (comments
    are stripped first so that prose may mention the words)."""
    hits = []
    for p in coq_sources():
        txt = open(p).read()
        txt = strip_coq_comments(txt)
        for i, line in enumerate(txt.splitlines(), 1):
            if FORBIDDEN.search(line):
                hits.append("%s:%d: %s" % (os.path.relpath(p, VERIF), i, line.strip()))
    return hits


def strip_coq_comments(txt):
    out = []
    depth = 0
    i = 0
    n = len(txt)
    while i < n:
        if txt.startswith("(*", i):
            depth += 1
            i += 2
        elif txt.startswith("*)", i) and depth > 0:
            depth -= 1
            i += 2
        else:
            if depth == 0:
                out.append(txt[i])
            elif txt[i] == "\n":
                out.append("\n")
            i += 1
    return "".join(out)


def theorems_of(prop_id):
    p = os.path.join(COQ, "theories", "Props", prop_id + ".v")
    txt = strip_coq_comments(open(p).read())
    return re.findall(r"^\s*(?:Theorem|Example)\s+([A-Za-z0-9_']+)", txt, re.M)


def audit_proofs(prop_id, extra_v=None):
    """Rebuild Props/<id>.vo from the committed sources, re-check with a fresh coqc that
    every pinned theorem exists and print its assumptions.  Returns a dict with
    obligations / discharged / axioms / problems."""
    problems = []
    hits = grep_forbidden()
    if hits:
        problems.append("forbidden vernacular: " + "; ".join(hits[:5]))
    rc, out = build_coq(["theories/Props/%s.vo" % prop_id])
    if rc != 0:
        problems.append("Props/%s.vo does not build:\n%s" % (prop_id, out[-3000:]))
        return {"obligations": max(1, len(theorems_of(prop_id))), "discharged": 0, "axioms": {},
                "problems": problems, "theorems": theorems_of(prop_id)}
    thms = theorems_of(prop_id)
    os.makedirs(os.path.join(BUILD, "audit"), exist_ok=True)
    vf = os.path.join(BUILD, "audit", "Audit_%s.v" % prop_id)
    with open(vf, "w") as f:
        f.write("Require Import Cadence.Props.%s.\n" % prop_id)
        for t in thms:
            f.write('Goal True. idtac "@@THM %s". exact I. Qed.\n' % t)
            f.write("Print Assumptions %s.\n" % t)
        if extra_v:
            f.write(extra_v)
    rc, out = sh(["timeout", "600", "coqc", "-Q", os.path.join(COQ, "theories"), "Cadence", "-noglob", vf],
                 cwd=os.path.join(BUILD, "audit"))
    if rc != 0:
        problems.append("audit of %s failed:\n%s" % (prop_id, out[-3000:]))
    axioms = {}
    discharged = 0
    parts = out.split("@@THM ")[1:]
    seen = set()
    for part in parts:
        name = part.split()[0]
        seen.add(name)
        body = part[len(name):]
        if "Closed under the global context" in body:
            axioms[name] = []
            discharged += 1
        elif "Axioms:" in body:
            ax = re.findall(r"^([A-Za-z0-9_.']+)\s*:", body.split("Axioms:")[1], re.M)
            axioms[name] = ax
            bad = [a for a in ax if a not in ALLOWED_AXIOMS]
            if bad:
                problems.append("theorem %s depends on non-allow-listed axioms %s" % (name, bad))
            else:
                discharged += 1
        else:
            problems.append("no Print Assumptions output for %s" % name)
    for t in thms:
        if t not in seen:
            problems.append("theorem %s not audited" % t)
    if not thms:
        problems.append("no theorem pinned in Props/%s.v" % prop_id)
    return {"obligations": len(thms), "discharged": discharged, "axioms": axioms,
            "problems": problems, "theorems": thms}


def coqchk(prop_id):
    rc, out = sh(["timeout", "1200", "coqchk", "-silent", "-o", "-Q", os.path.join(COQ, "theories"), "Cadence",
                  "Cadence.Props.%s" % prop_id], cwd=COQ, timeout=1300)
    return rc, out


def run_obs_file(name, text):
    """Per-run instantiated obligations: a generated .v file that must compile."""
    os.makedirs(os.path.join(BUILD, "audit"), exist_ok=True)
    vf = os.path.join(BUILD, "audit", name + ".v")
    open(vf, "w").write(text)
    rc, out = sh(["timeout", "600", "coqc", "-Q", os.path.join(COQ, "theories"), "Cadence", "-noglob", vf],
                 cwd=os.path.join(BUILD, "audit"))
    return rc, out


# ----------------------------------------------------------------- known findings

def known_findings():
    """Entries of KNOWN_FINDINGS.txt: 'finding: property=<id> match=<regex> <text>' lines are
    open findings (suppress a matching violation); 'fixed: ...' lines suppress nothing."""
    p = os.path.join(VERIF, "KNOWN_FINDINGS.txt")
    out = []
    if os.path.exists(p):
        for line in open(p):
            line = line.strip()
            m = re.match(r"finding:\s+property=(\S+)\s+match=(\S+)\s+(.*)", line)
            if m:
                out.append({"property": m.group(1), "match": m.group(2), "text": m.group(3)})
    return out


# ----------------------------------------------------------------- reporting

class Report:
    def __init__(self, prop_id, tier, seed, level="proof"):
        self.id = prop_id
        self.tier = tier
        self.seed = seed
        self.level = level
        self.t0 = time.time()
        self.cov = {"evaluations": 0, "distinct_nontrivial": 0, "rule": "", "samples": [],
                    "obligations": 0, "discharged": 0, "checker_cmd": "", "trusted_base": [],
                    "exhaustive": False}
        self.assumptions = []
        self.violations = []   # (kind, replay dict) kind in {"input", "noinput"}
        self.known = []
        self.notes = []

    def add_audit(self, audit):
        self.cov["obligations"] += audit["obligations"]
        self.cov["discharged"] += audit["discharged"]
        self.cov["theorems"] = audit.get("theorems", [])
        self.cov["axioms_per_theorem"] = audit.get("axioms", {})
        self.cov["checker_cmd"] = ("make -C coq theories/Props/%s.vo (coqc 8.16.1, full .vo build) + coqc "
                                   "build/audit/Audit_%s.v (Print Assumptions per theorem) + grep for "
                                   "Admitted/admit/Axiom/Parameter/..." % (self.id, self.id))
        for pr in audit["problems"]:
            self.violation_noinput("proof obligation broken: " + pr,
                                   {"theorem_file": "coq/theories/Props/%s.v" % self.id, "problem": pr})

    def violation_input(self, what, replay):
        """A concrete failing input was found.  Open findings listed in
        KNOWN_FINDINGS.txt are reported as KNOWN-FINDING instead."""
        blob = json.dumps(replay, sort_keys=True)
        for k in known_findings():
            if k["property"] == self.id and re.search(k["match"], blob):
                if k["text"] not in [x["text"] for x in self.known]:
                    self.known.append(k)
                return
        self.violations.append(("input", what, replay))

    def violation_noinput(self, what, replay):
        self.violations.append(("noinput", what, replay))

    def finish(self):
        os.makedirs(EVIDENCE, exist_ok=True)
        os.makedirs(REPLAYS, exist_ok=True)
        wall = time.time() - self.t0
        ev = {"property_id": self.id, "tier": self.tier, "seed": self.seed, "level": self.level,
              "coverage": self.cov, "assumptions": self.assumptions, "wall_s": round(wall, 2),
              "violations": len(self.violations)}
        if self.notes:
            ev["coverage"]["notes"] = self.notes
        if self.known:
            ev["coverage"]["known_findings_hit"] = [k["text"] for k in self.known]
        with open(os.path.join(EVIDENCE, self.id + ".json"), "w") as f:
            json.dump(ev, f, indent=1, sort_keys=True)
            f.write("\n")
        for k in self.known:
            print("KNOWN-FINDING: property=%s %s" % (self.id, k["text"]))
        if not self.violations:
            print("OK property=%s tier=%s evaluations=%d obligations=%d/%d wall=%.1fs" % (
                self.id, self.tier, self.cov["evaluations"], self.cov["discharged"],
                self.cov["obligations"], wall))
            return 0
        # prefer a violation with a concrete failing input
        inputs = [v for v in self.violations if v[0] == "input"]
        chosen = inputs[0] if inputs else self.violations[0]
        path = os.path.join(REPLAYS, "%s.%s.%d.json" % (self.id, self.tier, self.seed))
        with open(path, "w") as f:
            json.dump({"property": self.id, "kind": chosen[0], "what": chosen[1], "replay": chosen[2],
                       "all": [{"kind": v[0], "what": v[1]} for v in self.violations[:50]]},
                      f, indent=1, sort_keys=True)
            f.write("\n")
        for v in self.violations[:5]:
            print("  " + v[0] + ": " + v[1][:300])
        suffix = "" if chosen[0] == "input" else " no-failing-input-found"
        print("VIOLATION property=%s replay=%s%s" % (self.id, path, suffix))
        return 1


def case_hash(s):
    return hashlib.blake2b(s.encode(), digest_size=8).digest()


def ensure_built(report, need_harness=True, debug=False):
    """Common preamble of every check.  Returns False when the harness could not be
    built against the current tree (reported as a broken correspondence)."""
    build_modelrun_ok = True
    try:
        rc, out = build_coq(["theories/Extract/Extract.vo"])
        if rc != 0:
            raise CheckFailure("model does not build:\n" + out[-3000:])
        build_modelrun()
    except CheckFailure as e:
        report.violation_noinput("the model / model runner does not build", {"error": str(e)})
        build_modelrun_ok = False
    if need_harness:
        ok, out = build_harness(debug=False)
        if ok and debug:
            ok, out = build_harness(debug=True)
        if not ok:
            report.violation_noinput(
                "correspondence cannot be established: the harness no longer builds against /repo's "
                "current tree", {"cargo_output": out[-6000:]})
            return False
    return build_modelrun_ok
