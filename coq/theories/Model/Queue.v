(* Model of cadence/src/sinks/queuing.rs: QueuingMetricSink = handles (clones) sharing one
   Worker (a crossbeam channel of Option<String>, a background thread running [run], three
   counters) in front of a wrapped sink.  A small-step machine: one event = one atomic step
   of the underlying primitives (one channel operation, one atomic increment, one call of the
   wrapped sink).  "For all interleavings" = "for all event lists accepted by [step]".

   Metrics are identified by the order in which they were accepted: the k-th successful
   try_send carries identity k.  [fixed] selects the repaired Drop semantics (stop marker sent
   once, by the last handle; a full queue hands it to a helper thread) or the pinned tree's
   (every handle drop sends a marker; a full queue loses it).  Definitions only. *)
Require Import Cadence.Base.Prelude.

Inductive soutcome := SOk | SErr (e : nat) | SPanic.      (* what the wrapped sink does with one metric *)

Inductive wstate :=
| WRecv                       (* in / about to enter receiver.recv() *)
| WHas (o : option nat)       (* dequeued [Some id] or the stop marker [None]; not yet counted *)
| WCounted (id : nat)         (* incr_drained done; the wrapped sink is processing [id] *)
| WExited.                    (* run() returned; this thread's references are released *)

Record qstate := {
  q_cap : option nat;                 (* None = unbounded, Some 0 = rendezvous *)
  q_handler : bool;                   (* an error handler is configured *)
  q_chan : list (option nat);         (* the channel, oldest first *)
  q_handles : nat;                    (* live handles (original + clones) *)
  q_pending_inc : nat;                (* producers between try_send = Ok and incr_submitted *)
  q_pill_pending : bool;              (* helper thread blocked in send(None) *)
  q_wk : wstate;
  q_accepted : nat;                   (* number of successful try_send(Some _) so far (= next identity) *)
  q_submitted : nat; q_drained : nat; q_panics : nat;     (* WorkerStats *)
  q_delivered : list (nat * soutcome);   (* calls of the wrapped sink, completed, in order *)
  q_handled : list (nat * nat);          (* error-handler invocations (metric, error) in order *)
  q_samp : option nat;                   (* a sampler between the two loads of queued() *)
  q_samples : list (nat * nat)           (* (value returned by queued(), submitted at that moment) *)
}.

Definition init_q (cap : option nat) (handler : bool) : qstate :=
  {| q_cap := cap; q_handler := handler; q_chan := []; q_handles := 1; q_pending_inc := 0;
     q_pill_pending := false; q_wk := WRecv; q_accepted := 0; q_submitted := 0; q_drained := 0;
     q_panics := 0; q_delivered := []; q_handled := []; q_samp := None; q_samples := [] |}.

Inductive event :=
| ETrySend                    (* a producer's sender.try_send(Some metric) on a live handle *)
| EIncSubmitted               (* that producer's incr_submitted *)
| EClone | EDropH             (* clone / drop of a live handle *)
| EPillSend                   (* the helper thread's blocking send(None) completes *)
| EWDequeue                   (* worker: recv() returns *)
| EWStep                      (* worker: incr_drained (metric) / break out of the loop (marker) *)
| EWFinish (o : soutcome)     (* worker: the wrapped sink returns / panics for the current metric *)
| ESampleA | ESampleB.        (* the two loads of queued() on some thread *)

Inductive result := ROk | RFull | RNone.         (* what the event returned to its caller *)

(* room for one more message: bounded below capacity, or a receiver waiting (rendezvous) *)
Definition room (s : qstate) : bool :=
  match q_cap s with
  | None => true
  | Some 0 => match q_wk s, q_chan s with WRecv, [] => true | _, _ => false end
  | Some c => length (q_chan s) <? c
  end.

(* put a message: into the channel, or straight into the waiting receiver (capacity 0) *)
Definition put (s : qstate) (x : option nat) : qstate :=
  match q_cap s with
  | Some 0 =>
    {| q_cap := q_cap s; q_handler := q_handler s; q_chan := q_chan s; q_handles := q_handles s;
       q_pending_inc := q_pending_inc s; q_pill_pending := q_pill_pending s; q_wk := WHas x;
       q_accepted := q_accepted s; q_submitted := q_submitted s; q_drained := q_drained s;
       q_panics := q_panics s; q_delivered := q_delivered s; q_handled := q_handled s;
       q_samp := q_samp s; q_samples := q_samples s |}
  | _ =>
    {| q_cap := q_cap s; q_handler := q_handler s; q_chan := q_chan s ++ [x]; q_handles := q_handles s;
       q_pending_inc := q_pending_inc s; q_pill_pending := q_pill_pending s; q_wk := q_wk s;
       q_accepted := q_accepted s; q_submitted := q_submitted s; q_drained := q_drained s;
       q_panics := q_panics s; q_delivered := q_delivered s; q_handled := q_handled s;
       q_samp := q_samp s; q_samples := q_samples s |}
  end.

Definition upd_wk (s : qstate) (w : wstate) : qstate :=
  {| q_cap := q_cap s; q_handler := q_handler s; q_chan := q_chan s; q_handles := q_handles s;
     q_pending_inc := q_pending_inc s; q_pill_pending := q_pill_pending s; q_wk := w;
     q_accepted := q_accepted s; q_submitted := q_submitted s; q_drained := q_drained s;
     q_panics := q_panics s; q_delivered := q_delivered s; q_handled := q_handled s;
     q_samp := q_samp s; q_samples := q_samples s |}.

(* Worker::stop *)
Definition stop (fixed : bool) (s : qstate) : qstate :=
  if room s then put s None
  else if fixed
  then {| q_cap := q_cap s; q_handler := q_handler s; q_chan := q_chan s; q_handles := q_handles s;
          q_pending_inc := q_pending_inc s; q_pill_pending := true; q_wk := q_wk s;
          q_accepted := q_accepted s; q_submitted := q_submitted s; q_drained := q_drained s;
          q_panics := q_panics s; q_delivered := q_delivered s; q_handled := q_handled s;
          q_samp := q_samp s; q_samples := q_samples s |}
  else s.                                         (* pinned tree: the marker is lost *)

(* [None] = the event is not enabled in this state *)
Definition step (fixed : bool) (s : qstate) (ev : event) : option (qstate * result) :=
  match ev with
  | ETrySend =>
    match q_handles s with
    | O => None
    | _ =>
      if room s
      then let s1 := put s (Some (q_accepted s)) in
           Some ({| q_cap := q_cap s1; q_handler := q_handler s1; q_chan := q_chan s1; q_handles := q_handles s1;
                    q_pending_inc := S (q_pending_inc s1); q_pill_pending := q_pill_pending s1; q_wk := q_wk s1;
                    q_accepted := S (q_accepted s1); q_submitted := q_submitted s1; q_drained := q_drained s1;
                    q_panics := q_panics s1; q_delivered := q_delivered s1; q_handled := q_handled s1;
                    q_samp := q_samp s1; q_samples := q_samples s1 |}, ROk)
      else Some (s, RFull)
    end
  | EIncSubmitted =>
    match q_pending_inc s with
    | O => None
    | S p => Some ({| q_cap := q_cap s; q_handler := q_handler s; q_chan := q_chan s; q_handles := q_handles s;
                      q_pending_inc := p; q_pill_pending := q_pill_pending s; q_wk := q_wk s;
                      q_accepted := q_accepted s; q_submitted := S (q_submitted s); q_drained := q_drained s;
                      q_panics := q_panics s; q_delivered := q_delivered s; q_handled := q_handled s;
                      q_samp := q_samp s; q_samples := q_samples s |}, RNone)
    end
  | EClone =>
    match q_handles s with
    | O => None
    | h => Some ({| q_cap := q_cap s; q_handler := q_handler s; q_chan := q_chan s; q_handles := S h;
                    q_pending_inc := q_pending_inc s; q_pill_pending := q_pill_pending s; q_wk := q_wk s;
                    q_accepted := q_accepted s; q_submitted := q_submitted s; q_drained := q_drained s;
                    q_panics := q_panics s; q_delivered := q_delivered s; q_handled := q_handled s;
                    q_samp := q_samp s; q_samples := q_samples s |}, RNone)
    end
  | EDropH =>
    match q_handles s with
    | O => None
    | S h =>
      let s1 := {| q_cap := q_cap s; q_handler := q_handler s; q_chan := q_chan s; q_handles := h;
                   q_pending_inc := q_pending_inc s; q_pill_pending := q_pill_pending s; q_wk := q_wk s;
                   q_accepted := q_accepted s; q_submitted := q_submitted s; q_drained := q_drained s;
                   q_panics := q_panics s; q_delivered := q_delivered s; q_handled := q_handled s;
                   q_samp := q_samp s; q_samples := q_samples s |} in
      Some (match fixed, h with
            | true, S _ => s1                      (* other clones are alive: nothing is sent *)
            | _, _ => stop fixed s1
            end, RNone)
    end
  | EPillSend =>
    if q_pill_pending s && room s
    then let s1 := put s None in
         Some ({| q_cap := q_cap s1; q_handler := q_handler s1; q_chan := q_chan s1; q_handles := q_handles s1;
                  q_pending_inc := q_pending_inc s1; q_pill_pending := false; q_wk := q_wk s1;
                  q_accepted := q_accepted s1; q_submitted := q_submitted s1; q_drained := q_drained s1;
                  q_panics := q_panics s1; q_delivered := q_delivered s1; q_handled := q_handled s1;
                  q_samp := q_samp s1; q_samples := q_samples s1 |}, RNone)
    else None
  | EWDequeue =>
    match q_wk s, q_chan s with
    | WRecv, x :: rest =>
      Some ({| q_cap := q_cap s; q_handler := q_handler s; q_chan := rest; q_handles := q_handles s;
               q_pending_inc := q_pending_inc s; q_pill_pending := q_pill_pending s; q_wk := WHas x;
               q_accepted := q_accepted s; q_submitted := q_submitted s; q_drained := q_drained s;
               q_panics := q_panics s; q_delivered := q_delivered s; q_handled := q_handled s;
               q_samp := q_samp s; q_samples := q_samples s |}, RNone)
    | _, _ => None
    end
  | EWStep =>
    match q_wk s with
    | WHas (Some id) =>
      Some ({| q_cap := q_cap s; q_handler := q_handler s; q_chan := q_chan s; q_handles := q_handles s;
               q_pending_inc := q_pending_inc s; q_pill_pending := q_pill_pending s; q_wk := WCounted id;
               q_accepted := q_accepted s; q_submitted := q_submitted s; q_drained := S (q_drained s);
               q_panics := q_panics s; q_delivered := q_delivered s; q_handled := q_handled s;
               q_samp := q_samp s; q_samples := q_samples s |}, RNone)
    | WHas None => Some (upd_wk s WExited, RNone)
    | _ => None
    end
  | EWFinish o =>
    match q_wk s with
    | WCounted id =>
      Some ({| q_cap := q_cap s; q_handler := q_handler s; q_chan := q_chan s; q_handles := q_handles s;
               q_pending_inc := q_pending_inc s; q_pill_pending := q_pill_pending s;
               q_wk := WRecv;          (* next iteration; after a panic: in the thread Sentinel respawned *)
               q_accepted := q_accepted s; q_submitted := q_submitted s; q_drained := q_drained s;
               q_panics := match o with SPanic => S (q_panics s) | _ => q_panics s end;
               q_delivered := q_delivered s ++ [(id, o)];
               q_handled := match o, q_handler s with
                            | SErr e, true => q_handled s ++ [(id, e)]
                            | _, _ => q_handled s
                            end;
               q_samp := q_samp s; q_samples := q_samples s |}, RNone)
    | _ => None
    end
  | ESampleA =>
    Some ({| q_cap := q_cap s; q_handler := q_handler s; q_chan := q_chan s; q_handles := q_handles s;
             q_pending_inc := q_pending_inc s; q_pill_pending := q_pill_pending s; q_wk := q_wk s;
             q_accepted := q_accepted s; q_submitted := q_submitted s; q_drained := q_drained s;
             q_panics := q_panics s; q_delivered := q_delivered s; q_handled := q_handled s;
             q_samp := Some (q_submitted s); q_samples := q_samples s |}, RNone)
  | ESampleB =>
    match q_samp s with
    | None => None
    | Some sub =>
      (* if submitted > drained { submitted - drained } else { 0 } *)
      let q := if q_drained s <? sub then sub - q_drained s else 0 in
      Some ({| q_cap := q_cap s; q_handler := q_handler s; q_chan := q_chan s; q_handles := q_handles s;
               q_pending_inc := q_pending_inc s; q_pill_pending := q_pill_pending s; q_wk := q_wk s;
               q_accepted := q_accepted s; q_submitted := q_submitted s; q_drained := q_drained s;
               q_panics := q_panics s; q_delivered := q_delivered s; q_handled := q_handled s;
               q_samp := None; q_samples := q_samples s ++ [(q, q_submitted s)] |}, RNone)
    end
  end.

(* a history: [None] as soon as an event is not enabled *)
Fixpoint run (fixed : bool) (s : qstate) (evs : list event) : option (qstate * list result) :=
  match evs with
  | [] => Some (s, [])
  | ev :: r =>
    match step fixed s ev with
    | None => None
    | Some (s1, x) =>
      match run fixed s1 r with Some (s2, xs) => Some (s2, x :: xs) | None => None end
    end
  end.

(* ------------------------------------------------------------------ letting the background side run *)
(* the internal (non-producer) steps that need no decision of the environment, in a fixed order *)
Definition internal_step (fixed : bool) (s : qstate) : option qstate :=
  match step fixed s EIncSubmitted with Some (s', _) => Some s' | None =>
  match step fixed s EWStep with Some (s', _) => Some s' | None =>
  match step fixed s EWDequeue with Some (s', _) => Some s' | None =>
  match step fixed s EPillSend with Some (s', _) => Some s' | None => None
  end end end end.

(* run internal steps until the worker waits for the wrapped sink, for a message, or has exited *)
Fixpoint settle (fixed : bool) (fuel : nat) (s : qstate) : qstate :=
  match fuel with
  | O => s
  | S f => match internal_step fixed s with Some s' => settle fixed f s' | None => s end
  end.

(* quiesce: let the wrapped sink answer every metric according to [outs] (exhausted = SOk)
   and run everything that is enabled, until nothing is *)
Fixpoint quiesce (fixed : bool) (fuel : nat) (s : qstate) (outs : list soutcome) : qstate :=
  match fuel with
  | O => s
  | S f =>
    match internal_step fixed s with
    | Some s' => quiesce fixed f s' outs
    | None =>
      let '(o, outs') := match outs with [] => (SOk, []) | o :: r => (o, r) end in
      match step fixed s (EWFinish o) with
      | Some (s', _) => quiesce fixed f s' outs'
      | None => s
      end
    end
  end.

(* enough fuel for any state: every message costs at most 4 steps *)
Definition fuel_of (s : qstate) : nat :=
  4 * length (q_chan s) + q_pending_inc s + 12.

(* the wrapped sink is dropped once no handle is left and the worker thread has exited *)
Definition sink_released (s : qstate) : bool :=
  match q_handles s, q_wk s with O, WExited => true | _, _ => false end.

(* ------------------------------------------------------------------ the harness-level (macro-step) view *)
(* one scripted action of the correspondence harness, followed by [settle] *)
Inductive action :=
| AEmit                         (* emit on a live handle *)
| AClone | ADrop
| ARelease (o : soutcome)       (* let the gated wrapped sink finish its current metric *)
| ASample.                      (* submitted / drained / queued / panics at a settled moment *)

Record obs := { ob_result : result; ob_sample : option (nat * nat * nat * nat) }.

Definition act (fixed : bool) (s : qstate) (a : action) : qstate * obs :=
  let none := {| ob_result := RNone; ob_sample := None |} in
  let fin s1 := settle fixed (fuel_of s1) s1 in
  match a with
  | AEmit => match step fixed s ETrySend with
             | Some (s1, r) => (fin s1, {| ob_result := r; ob_sample := None |})
             | None => (s, none)
             end
  | AClone => match step fixed s EClone with Some (s1, _) => (fin s1, none) | None => (s, none) end
  | ADrop => match step fixed s EDropH with Some (s1, _) => (fin s1, none) | None => (s, none) end
  | ARelease o => match step fixed s (EWFinish o) with Some (s1, _) => (fin s1, none) | None => (s, none) end
  | ASample =>
    let q := if q_drained s <? q_submitted s then q_submitted s - q_drained s else 0 in
    (s, {| ob_result := RNone; ob_sample := Some (q_submitted s, q_drained s, q, q_panics s) |})
  end.

Fixpoint acts (fixed : bool) (s : qstate) (l : list action) : qstate * list obs :=
  match l with
  | [] => (s, [])
  | a :: r => let '(s1, o) := act fixed s a in let '(s2, os) := acts fixed s1 r in (s2, o :: os)
  end.
