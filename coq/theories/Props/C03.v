(* C03 — One call, at most one emit; results and the error handler tell the truth.

   Pinned statements about Cadence.Model.Client: [send_call cfg fm c script] is one metric
   call in form [fm] (TrySend = builder + try_send, Plain = the untagged trait method,
   Quiet = builder + send) against a sink whose answers are given by ANY script of outcomes
   (Accept, or Refuse with an io::Error identified by its ErrorKind and a payload identity;
   an exhausted script accepts).  It returns the outcome of the call — what was returned
   [o_ret], the strings handed to the sink [o_emitted], the invocations of the client's
   error handler [o_handled] — and the rest of the script (one sink outcome is consumed per
   sink invocation).  [client_line cfg c] is the text of the call (Some (inr l)), its
   rejection (Some (inl e)) or None when the call does not type-check (then, and only then,
   send_call is None).  [next_outcome script] is the sink's answer to the next emit.
   [send_calls] runs a sequence of calls on one client.  Nothing is bounded.
   A rejection [inl e] is the library's own ([e = EInvalid]: a Duration that does not fit, an
   empty packed list) or the error [e] a user-defined value type returned from its conversion
   (argument [AUserErr e]; any [merror], of kind InvalidInput or IoError). *)
Require Import Cadence.Base.Prelude.
Require Import Cadence.Base.Decimal.
Require Import Cadence.Model.Convert.
Require Import Cadence.Model.Wire.
Require Import Cadence.Model.Client.
Require Import Cadence.Proofs.WireDefs.
Require Import Cadence.Proofs.WireProofs.
Require Import Cadence.Proofs.ClientProofs.

(* at most one string is handed to the sink; exactly one iff the value is accepted *)
Theorem c03_at_most_one : forall cfg fm c script o script',
  send_call cfg fm c script = Some (o, script') ->
  length (o_emitted o) <= 1 /\
  (length (o_emitted o) = 1 <-> exists l, client_line cfg c = Some (inr l)).
Proof. exact at_most_one_emit. Qed.

(* precisely: the text of the call, once, iff there is one; a sink outcome is consumed iff
   the sink was invoked *)
Theorem c03_emitted_exact : forall cfg fm c script o script',
  send_call cfg fm c script = Some (o, script') ->
  o_emitted o = match client_line cfg c with Some (inr l) => [l] | _ => [] end /\
  script' = match client_line cfg c with Some (inr _) => tl script | _ => script end.
Proof.
  intros cfg fm c script o script' H. destruct (emitted_exact _ _ _ _ _ _ H) as [H1 H2].
  split; [exact H1|]. rewrite H2. unfold accepted. destruct (client_line cfg c) as [[e|l]|]; reflexivity.
Qed.

(* Ok(metric) only if the sink accepted exactly that metric's text during that call *)
Theorem c03_ok_truthful : forall cfg fm c script o script' m,
  send_call cfg fm c script = Some (o, script') -> o_ret o = ROkMetric m ->
  o_emitted o = [m] /\ client_line cfg c = Some (inr m) /\ next_outcome script = Accept /\
  script' = tl script /\ o_handled o = [] /\ fm <> Quiet.
Proof. exact ok_truthful. Qed.

(* when the sink refuses: the text was handed over once, and the call reports an I/O error
   carrying the sink's own error (same kind, same payload identity) — returned by the
   non-quiet forms, given to the handler by the quiet form *)
Theorem c03_refusal_reported : forall cfg fm c script o script' l k id,
  send_call cfg fm c script = Some (o, script') ->
  client_line cfg c = Some (inr l) -> next_outcome script = Refuse k id ->
  o_emitted o = [l] /\ script' = tl script /\
  match fm with
  | Quiet => o_ret o = RUnit /\ o_handled o = [EIo k id]
  | _ => o_ret o = RError (EIo k id) /\ o_handled o = []
  end.
Proof. exact refusal_reported. Qed.

(* conversely an I/O error is only ever reported for a refusal by the sink during that very
   call, with exactly the sink's payload -- or because the argument is a user-defined value
   whose own conversion returned exactly that I/O error, and then nothing was handed to the sink
   and no answer of it consumed *)
Theorem c03_io_error_source : forall cfg fm c script o script' k id,
  send_call cfg fm c script = Some (o, script') ->
  (o_ret o = RError (EIo k id) \/ In (EIo k id) (o_handled o)) ->
  (next_outcome script = Refuse k id /\ exists l, client_line cfg c = Some (inr l) /\ o_emitted o = [l]) \/
  (k_arg c = AUserErr (EIo k id) /\ o_emitted o = [] /\ script' = script).
Proof. exact io_error_source. Qed.

(* ... hence, for every argument that is not a failing user-defined value, only for a refusal *)
Theorem c03_io_error_source_builtin : forall cfg fm c script o script' k id,
  send_call cfg fm c script = Some (o, script') ->
  (forall e, k_arg c <> AUserErr e) ->
  (o_ret o = RError (EIo k id) \/ In (EIo k id) (o_handled o)) ->
  next_outcome script = Refuse k id /\ exists l, client_line cfg c = Some (inr l) /\ o_emitted o = [l].
Proof.
  intros cfg fm c script o script' k id H Hu Hr.
  destruct (io_error_source _ _ _ _ _ _ _ _ H Hr) as [A|[A _]]; [exact A|]. exfalso. exact (Hu _ A).
Qed.

(* a rejected value: exactly the error of the rejection -- the invalid-input error, unless the
   argument is a user-defined value whose conversion returned [e] --, nothing emitted, no sink
   outcome consumed *)
Theorem c03_rejected_value : forall cfg fm c script o script' e,
  send_call cfg fm c script = Some (o, script') -> client_line cfg c = Some (inl e) ->
  o_emitted o = [] /\ script' = script /\
  match fm with
  | Quiet => o_ret o = RUnit /\ o_handled o = [e]
  | _ => o_ret o = RError e /\ o_handled o = []
  end /\
  (e = EInvalid \/ k_arg c = AUserErr e).
Proof. exact rejected_value. Qed.

(* conversely an invalid-input error is reported only for a rejected value *)
Theorem c03_invalid_only_if_rejected : forall cfg fm c script o script',
  send_call cfg fm c script = Some (o, script') ->
  (o_ret o = RError EInvalid \/ In EInvalid (o_handled o)) ->
  client_line cfg c = Some (inl EInvalid) /\ o_emitted o = [] /\ script' = script.
Proof. exact invalid_only_if_rejected. Qed.

(* the quiet form returns unit whatever happens, emits what try_send emits, and invokes the
   handler exactly once with exactly the error try_send returns for the same call and
   script — and not at all when try_send succeeds *)
Theorem c03_quiet_form : forall cfg c script o script',
  send_call cfg Quiet c script = Some (o, script') ->
  exists o', send_call cfg TrySend c script = Some (o', script') /\
    o_ret o = RUnit /\ o_emitted o = o_emitted o' /\
    o_handled o = match o_ret o' with RError e => [e] | _ => [] end /\
    o_handled o' = [].
Proof. exact quiet_form. Qed.

(* the non-quiet forms never invoke the handler (and never return unit); no form invokes it
   more than once per call *)
Theorem c03_handler_use : forall cfg fm c script o script',
  send_call cfg fm c script = Some (o, script') ->
  length (o_handled o) <= 1 /\ (fm <> Quiet -> o_handled o = [] /\ o_ret o <> RUnit).
Proof.
  intros cfg fm c script o script' H. split; [exact (handler_at_most_once _ _ _ _ _ _ H)|].
  exact (nonquiet_no_handler _ _ _ _ _ _ H).
Qed.

(* the plain trait methods behave exactly as the tagged form followed by try_send *)
Theorem c03_plain_is_try_send : forall cfg c script,
  send_call cfg Plain c script = send_call cfg TrySend c script.
Proof. exact plain_is_try_send. Qed.

(* every call that type-checks has an outcome (no stuck state), for every script *)
Theorem c03_defined : forall cfg fm c script,
  send_call cfg fm c script <> None <-> to_value (k_kind c) (k_arg c) <> None.
Proof. exact send_call_defined. Qed.

(* ------------------------------------------------------------------ sequences of calls *)
(* the i-th outcome of a sequence is the outcome of the i-th call alone, against the script
   with one outcome removed per accepted earlier call: hence every clause above holds for
   every call of every sequence against every script, w.r.t. the script suffix it saw *)
Theorem c03_sequence : forall cfg cs script os,
  send_calls cfg cs script = Some os ->
  length os = length cs /\
  forall i fm c, nth_error cs i = Some (fm, c) ->
  exists o, nth_error os i = Some o /\
    send_call cfg fm c (skipn (length (filter (fun fc => accepted cfg (snd fc)) (firstn i cs))) script)
    = Some (o, skipn (length (filter (fun fc => accepted cfg (snd fc)) (firstn (S i) cs))) script).
Proof. exact send_calls_nth_closed. Qed.

(* the main clauses, spelled out for the i-th call of a sequence *)
Theorem c03_sequence_clauses : forall cfg cs script os,
  send_calls cfg cs script = Some os ->
  forall i fm c o, nth_error cs i = Some (fm, c) -> nth_error os i = Some o ->
  let seen := skipn (length (filter (fun fc => accepted cfg (snd fc)) (firstn i cs))) script in
  o_emitted o = match client_line cfg c with Some (inr l) => [l] | _ => [] end /\
  (forall m, o_ret o = ROkMetric m -> o_emitted o = [m] /\ next_outcome seen = Accept) /\
  (forall l k id, client_line cfg c = Some (inr l) -> next_outcome seen = Refuse k id ->
     match fm with
     | Quiet => o_ret o = RUnit /\ o_handled o = [EIo k id]
     | _ => o_ret o = RError (EIo k id) /\ o_handled o = []
     end) /\
  (forall e, client_line cfg c = Some (inl e) ->
     o_emitted o = [] /\
     match fm with
     | Quiet => o_ret o = RUnit /\ o_handled o = [e]
     | _ => o_ret o = RError e /\ o_handled o = []
     end /\
     (e = EInvalid \/ k_arg c = AUserErr e)) /\
  (fm <> Quiet -> o_handled o = []) /\ (fm = Quiet -> o_ret o = RUnit).
Proof.
  intros cfg cs script os H i fm c o Hi Ho seen.
  destruct (send_calls_nth_closed _ _ _ _ H) as [_ Hn].
  destruct (Hn i fm c Hi) as [o' [Ho' Hs]]. assert (o' = o) by congruence. subst o'. fold seen in Hs.
  split; [exact (proj1 (emitted_exact _ _ _ _ _ _ Hs))|].
  split. { intros m Hm. destruct (ok_truthful _ _ _ _ _ _ _ Hs Hm) as [A [_ [B _]]]. split; assumption. }
  split. { intros l k id Hl Hk. exact (proj2 (proj2 (refusal_reported _ _ _ _ _ _ _ _ _ Hs Hl Hk))). }
  split. { intros e He. destruct (rejected_value _ _ _ _ _ _ _ Hs He) as [A [_ B]]. split; assumption. }
  split. { intros Hq. exact (proj1 (nonquiet_no_handler _ _ _ _ _ _ Hs Hq)). }
  intros ->. destruct (quiet_form _ _ _ _ _ Hs) as [o' [_ [A _]]]. exact A.
Qed.

(* over a whole sequence the sink is invoked exactly once per accepted value, with the texts
   of the accepted calls in call order, and that many sink outcomes are consumed *)
Theorem c03_sequence_emits : forall cfg cs script os,
  send_calls cfg cs script = Some os ->
  concat (map o_emitted os) =
    flat_map (fun fc => match client_line cfg (snd fc) with Some (inr l) => [l] | _ => [] end) cs /\
  length (concat (map o_emitted os)) = length (filter (fun fc => accepted cfg (snd fc)) cs) /\
  script_after cfg cs script = skipn (length (filter (fun fc => accepted cfg (snd fc)) cs)) script.
Proof.
  intros cfg cs script os H. destruct (send_calls_emitted _ _ _ _ H) as [H1 H2].
  split; [exact H1|]. rewrite H1. fold (accepted_lines cfg cs). rewrite <- accepted_lines_count.
  split; [reflexivity|exact H2].
Qed.

(* ------------------------------------------------------------------ non-vacuity *)
(* five calls on one client against the script [refuse(7,1); accept; refuse(9,2)]: a refused
   try_send, a rejected value (consumes nothing), an accepted plain call, a refused quiet
   call, an accepted quiet call on the exhausted script *)
Example c03_witness :
  let cfg := {| c_prefix := []; c_tags := []; c_container := None |} in
  let ok := {| k_kind := Counter; k_key := [107]%N; k_arg := AI64 1; k_ops := [] |} in
  let bad := {| k_kind := Timer; k_key := [107]%N;
                k_arg := ADur {| secs := 18446744073709551615; nanos := 0 |}; k_ops := [] |} in
  let line := [107; 58; 49; 124; 99]%N in
  send_calls cfg [(TrySend, ok); (TrySend, bad); (Plain, ok); (Quiet, ok); (Quiet, ok); (Quiet, bad)]
             [Refuse 7 1; Accept; Refuse 9 2] =
  Some [ {| o_ret := RError (EIo 7 1); o_emitted := [line]; o_handled := [] |};
         {| o_ret := RError EInvalid; o_emitted := []; o_handled := [] |};
         {| o_ret := ROkMetric line; o_emitted := [line]; o_handled := [] |};
         {| o_ret := RUnit; o_emitted := [line]; o_handled := [EIo 9 2] |};
         {| o_ret := RUnit; o_emitted := [line]; o_handled := [] |};
         {| o_ret := RUnit; o_emitted := []; o_handled := [EInvalid] |} ].
Proof. vm_compute. reflexivity. Qed.

(* ==== added after the audit of 2026-10-02 (selftest/audit/REPORT-2026-10-02.md) ==== *)
Require Import Cadence.Proofs.AuditM1.
(* a sequence of calls has outcomes iff every call of it type-checks (no other stuck state) *)
Theorem c03_sequence_defined : forall cfg cs script,
  send_calls cfg cs script <> None <->
  Forall (fun fc => to_value (k_kind (snd fc)) (k_arg (snd fc)) <> None) cs.
Proof. exact send_calls_defined_Forall. Qed.

(* complete form: then there is one outcome per call; the sequence is stuck iff SOME call is
   ill-typed; and this depends on the (kind, argument) pairs only — not on the client
   configuration, keys, builder calls, call forms or the sink's answers *)
Theorem c03_sequence_defined_full : forall cfg cs script,
  (Forall (fun fc => to_value (k_kind (snd fc)) (k_arg (snd fc)) <> None) cs ->
     exists os, send_calls cfg cs script = Some os /\ length os = length cs) /\
  (send_calls cfg cs script = None <->
     exists i fm c, nth_error cs i = Some (fm, c) /\ to_value (k_kind c) (k_arg c) = None) /\
  (forall cfg' script' cs', map (fun fc => (k_kind (snd fc), k_arg (snd fc))) cs' =
                            map (fun fc => (k_kind (snd fc), k_arg (snd fc))) cs ->
     (send_calls cfg' cs' script' = None <-> send_calls cfg cs script = None)).
Proof. exact send_calls_defined_full. Qed.

Example c03_sequence_defined_witness :
  let cfg := {| c_prefix := []; c_tags := []; c_container := None |} in
  let ok := {| k_kind := Counter; k_key := [107]%N; k_arg := AI64 1; k_ops := [] |} in
  let rej := {| k_kind := Timer; k_key := [107]%N; k_arg := AVecU64 []; k_ops := [] |} in
  let ill := {| k_kind := SetK; k_key := [107]%N; k_arg := AU64 1; k_ops := [] |} in
  option_map (@length _) (send_calls cfg [(Quiet, ok); (Plain, rej); (TrySend, ok)] [Refuse 1 2]) = Some 3 /\
  send_calls cfg [(Quiet, ok); (Plain, ill); (TrySend, ok)] [Refuse 1 2] = None /\
  to_value (k_kind ill) (k_arg ill) = None.
Proof. exact send_calls_defined_witness. Qed.

(* ==== added after the audit of 2026-10-02 (selftest/audit/REPORT-2026-10-02.md) ==== *)
(* ==== added for audit item A.24 (model extension: a user-defined value whose conversion fails) ==== *)
Require Import Cadence.Proofs.AuditU1.
(* a call whose argument is a user-defined value whose To*Value impl returns Err(e): for every
   kind, key, configuration, builder calls, call form and sink script the call is defined; nothing
   is handed to the sink and the script comes back untouched (no answer of the sink consumed);
   try_send and the plain method return exactly e and do not invoke the handler; the quiet form
   returns unit and hands exactly e to the handler, once *)
Theorem c03_user_error_call : forall cfg fm c script e,
  k_arg c = AUserErr e ->
  send_call cfg fm c script =
  Some (match fm with
        | Quiet => {| o_ret := RUnit; o_emitted := []; o_handled := [e] |}
        | _ => {| o_ret := RError e; o_emitted := []; o_handled := [] |}
        end, script).
Proof. exact user_error_call. Qed.

(* the same, clause by clause *)
Theorem c03_user_error_clauses : forall cfg fm c script e,
  k_arg c = AUserErr e ->
  send_call cfg fm c script <> None /\
  forall o script', send_call cfg fm c script = Some (o, script') ->
    o_emitted o = [] /\ script' = script /\
    match fm with
    | Quiet => o_ret o = RUnit /\ o_handled o = [e]
    | _ => o_ret o = RError e /\ o_handled o = []
    end.
Proof. exact user_error_call_clauses. Qed.

(* conversely, for ANY call, a reported error (returned, or handed to the handler) has exactly one
   of three sources: the library rejected the value (InvalidInput; nothing emitted, nothing
   consumed), the sink refused the line during this very call (its own I/O error; the line was
   emitted, one answer consumed), or the argument is a user-defined value whose conversion
   returned exactly this error (nothing emitted, nothing consumed) *)
Theorem c03_reported_error_source : forall cfg fm c script o script' e,
  send_call cfg fm c script = Some (o, script') ->
  (o_ret o = RError e \/ In e (o_handled o)) ->
  (e = EInvalid /\ client_line cfg c = Some (inl EInvalid) /\ o_emitted o = [] /\ script' = script) \/
  (exists k id l, e = EIo k id /\ next_outcome script = Refuse k id /\
                  client_line cfg c = Some (inr l) /\ o_emitted o = [l] /\ script' = tl script) \/
  (k_arg c = AUserErr e /\ o_emitted o = [] /\ script' = script).
Proof. exact reported_error_source. Qed.

(* an I/O error is reported with nothing handed to the sink exactly when it is the user's *)
Theorem c03_io_error_without_emit : forall cfg fm c script o script' k id,
  send_call cfg fm c script = Some (o, script') ->
  (o_ret o = RError (EIo k id) \/ In (EIo k id) (o_handled o)) ->
  (o_emitted o = [] <-> k_arg c = AUserErr (EIo k id)).
Proof. exact io_error_without_emit. Qed.

(* in a sequence such a call is invisible to all the others: the outcomes are those of the
   sequence WITHOUT it, with its own outcome inserted at its position (so the calls after it see
   the untouched script), and the script left over is the same *)
Theorem c03_user_error_sequence : forall cfg cs1 fm c cs2 script e,
  k_arg c = AUserErr e ->
  send_calls cfg (cs1 ++ (fm, c) :: cs2) script =
  option_map (fun os => firstn (length cs1) os ++
                        match fm with
                        | Quiet => {| o_ret := RUnit; o_emitted := []; o_handled := [e] |}
                        | _ => {| o_ret := RError e; o_emitted := []; o_handled := [] |}
                        end :: skipn (length cs1) os)
             (send_calls cfg (cs1 ++ cs2) script) /\
  script_after cfg (cs1 ++ (fm, c) :: cs2) script = script_after cfg (cs1 ++ cs2) script.
Proof. exact user_error_invisible. Qed.

(* in the terms of c03_sequence: the i-th outcome is the one above, and the call is not counted
   among the calls that consume an answer of the sink *)
Theorem c03_user_error_nth : forall cfg cs script os i fm c e,
  send_calls cfg cs script = Some os ->
  nth_error cs i = Some (fm, c) -> k_arg c = AUserErr e ->
  nth_error os i = Some (match fm with
                         | Quiet => {| o_ret := RUnit; o_emitted := []; o_handled := [e] |}
                         | _ => {| o_ret := RError e; o_emitted := []; o_handled := [] |}
                         end) /\
  length (filter (fun fc => accepted cfg (snd fc)) (firstn (S i) cs)) =
  length (filter (fun fc => accepted cfg (snd fc)) (firstn i cs)).
Proof. exact user_error_nth. Qed.

(* non-vacuity: a user's InvalidInput error and a user's I/O error (kind 5, payload 9), in all
   forms, between accepted calls against [refuse(7,1); accept]: the failing calls consume nothing
   (the same two answers go to the same two sent calls as in the sequence without them); every
   kind accepts the type; the two kinds of error *)
Example c03_user_error_witness :
  let cfg := {| c_prefix := []; c_tags := []; c_container := None |} in
  let ok := {| k_kind := Counter; k_key := [107]%N; k_arg := AI64 1; k_ops := [] |} in
  let uinv := {| k_kind := Gauge; k_key := [107]%N; k_arg := AUserErr EInvalid; k_ops := [] |} in
  let uio := {| k_kind := SetK; k_key := [107]%N; k_arg := AUserErr (EIo 5 9);
                k_ops := [WithTagValue [116]%N] |} in
  let line := [107; 58; 49; 124; 99]%N in
  send_calls cfg [(TrySend, uio); (Quiet, ok); (Plain, uinv); (Quiet, uio); (Quiet, uinv); (TrySend, ok)]
             [Refuse 7 1; Accept] =
  Some [ {| o_ret := RError (EIo 5 9); o_emitted := []; o_handled := [] |};
         {| o_ret := RUnit; o_emitted := [line]; o_handled := [EIo 7 1] |};
         {| o_ret := RError EInvalid; o_emitted := []; o_handled := [] |};
         {| o_ret := RUnit; o_emitted := []; o_handled := [EIo 5 9] |};
         {| o_ret := RUnit; o_emitted := []; o_handled := [EInvalid] |};
         {| o_ret := ROkMetric line; o_emitted := [line]; o_handled := [] |} ] /\
  send_calls cfg [(Quiet, ok); (TrySend, ok)] [Refuse 7 1; Accept] =
  Some [ {| o_ret := RUnit; o_emitted := [line]; o_handled := [EIo 7 1] |};
         {| o_ret := ROkMetric line; o_emitted := [line]; o_handled := [] |} ] /\
  map (fun k => to_value k (AUserErr (EIo 5 9)))
      [Counter; Timer; Gauge; Meter; Histogram; Distribution; SetK] = repeat (Some (inl (EIo 5 9))) 7 /\
  ekind EInvalid = InvalidInput /\ ekind (EIo 5 9) = IoError.
Proof. exact user_error_witness. Qed.

(* Note after the second read-only review of these pins (selftest/audit/REVIEW-2-2026-10-02.md): c03_reported_error_source: 'one of three sources' is an inclusive disjunction (a user conversion that itself returns EInvalid satisfies the first and the third).  c03_sequence_defined is the contrapositive half of c03_sequence_defined_full; c03_user_error_call / _clauses hold by unfolding send_call on AUserErr (they pin the reading). *)
