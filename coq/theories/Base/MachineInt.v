(* Checked 64-bit unsigned arithmetic: [None] is the panic ("attempt to add / subtract /
   multiply with overflow") that a build with overflow checks raises.  Definitions only. *)
Require Import Cadence.Base.Prelude.

Definition W64 : N := (2 ^ 64)%N.
Definition uadd (a b : N) : option N := if (a + b <? W64)%N then Some (a + b)%N else None.
Definition usub (a b : N) : option N := if (b <=? a)%N then Some (a - b)%N else None.
Definition umul (a b : N) : option N := if (a * b <? W64)%N then Some (a * b)%N else None.
Definition obind {A B} (x : option A) (f : A -> option B) : option B :=
  match x with Some a => f a | None => None end.
Notation "x <- e ;; k" := (obind e (fun x => k)) (at level 61, e at next level, right associativity).
