(* Common imports and the representation of byte strings used by every model. *)
From Coq Require Export List NArith ZArith Arith Lia Bool.
Export ListNotations.

(* A string is the list of its UTF-8 bytes, one [N] per byte.  No theorem needs the
   [< 256] bound, so none assumes it. *)
Notation str := (list N) (only parsing).

Definition str_eqb (a b : str) : bool :=
  if list_eq_dec N.eq_dec a b then true else false.

Lemma str_eqb_eq a b : str_eqb a b = true <-> a = b.
Proof. unfold str_eqb. destruct (list_eq_dec N.eq_dec a b); split; congruence. Qed.
