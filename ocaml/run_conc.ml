(* model: merge *)
(* include: writerprint *)
(* model side of harness bin `conc` (see harness/src/conc.rs for the formats): the programs
   of the threads, executed by the sequential writer in the lock order the harness observed *)

let parse_ops s =
  List.map (fun t ->
    if t = "F" then Flush
    else if String.length t >= 1 && t.[0] = 'E' then Emit (unhex (String.sub t 1 (String.length t - 1)))
    else failwith ("bad op " ^ t)) (split_on ',' s)

let show_res = function
  | OOk n -> "k" ^ string_of_int (int_of_nat n)
  | OErr e -> "e"
  | OIntr -> "i"
  | OPanic -> "p"

let run_case line =
  match tokens line with
  | ["CM"; cap; queue; order; progs] ->
    let ps = List.map parse_ops (String.split_on_char '/' progs) in
    let sched = List.map (fun t -> nat_of_int (int_of_string t)) (split_on ',' order) in
    let nops = List.fold_left (fun a p -> a + List.length p) 0 ps in
    let script = if queue = "u" then [] else
      List.init (int_of_string queue) (fun _ -> WOk) @ List.init (3 * nops + 3) (fun _ -> WErr N0) in
    let c = if cap = "d" then None else Some (nat_of_int (int_of_string cap)) in
    let ((l, rs), s) = conc_sink c script ps sched in
    let per_thread = List.mapi (fun t _ ->
      String.concat "," (List.map show_res (results_of (nat_of_int t) l rs))) ps in
    let left = List.fold_left (fun a p -> a + List.length p) 0 (rest_by sched ps) in
    let dg = List.filter_map (fun a -> if a.a_out = WOk then Some (hex a.a_bytes) else None) s.lg in
    Printf.sprintf "T:%s|D:%s|L:%d" (String.concat ";" per_thread) (String.concat ";" dg) left
  | _ -> failwith ("bad conc case: " ^ line)


(* the same CM case as a Gallina equation (kernel cross-check of the extracted merge + writer) *)
let coq_header =
  "Require Import Cadence.Base.Prelude Cadence.Model.Writer Cadence.Model.Merge.\n" ^
  "Definition kc (r : list (nat * op) * list ores * st) := (map fst (fst (fst r)), snd (fst r), " ^
  "map (fun a => (a_op a, a_bytes a, a_out a)) (lg (snd r))).\n"

let coq_case line =
  match tokens line with
  | ["CM"; cap; queue; order; progs] when String.length line < 1200 && (cap = "d" || int_of_string cap <= 600) ->
    let ps = List.map parse_ops (String.split_on_char '/' progs) in
    let sched = List.map (fun t -> nat_of_int (int_of_string t)) (split_on ',' order) in
    let nops = List.fold_left (fun a p -> a + List.length p) 0 ps in
    let script = if queue = "u" then [] else
      List.init (int_of_string queue) (fun _ -> WOk) @ List.init (3 * nops + 3) (fun _ -> WErr N0) in
    let c = if cap = "d" then None else Some (nat_of_int (int_of_string cap)) in
    let ((l, rs), s) = conc_sink c script ps sched in
    let g_prog p = if p = [] then "(@nil op)" else g_list g_op p in
    let lhs = Printf.sprintf "kc (conc_sink %s %s %s %s)" (g_option g_nat c)
        (if script = [] then "(@nil outcome)" else g_list g_outcome script)
        (if ps = [] then "(@nil (list op))" else g_list g_prog ps)
        (if sched = [] then "(@nil nat)" else g_list g_nat sched) in
    let rhs = Printf.sprintf "(%s, %s, %s)"
        (if l = [] then "(@nil nat)" else g_list (fun (t, _) -> g_nat t) l)
        (if rs = [] then "(@nil ores)" else g_list g_ores rs)
        (if s.lg = [] then "(@nil (nat * list N * outcome))"
         else g_list (fun a -> "(" ^ g_nat a.a_op ^ ", " ^ g_str a.a_bytes ^ ", " ^ g_outcome a.a_out ^ ")") s.lg) in
    Some (lhs ^ " = " ^ rhs)
  | _ -> None
