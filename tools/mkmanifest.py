#!/usr/bin/env python3
"""Regenerates MANIFEST.json from the table below (kept in one place so that it stays valid)."""
import json
import os

HERE = os.path.dirname(os.path.dirname(os.path.abspath(__file__)))
ALL = ["C%02d" % i for i in range(1, 21)]

TRUST = ("trusted: Coq 8.16.1 kernel (+ coqchk in the thorough tier), extraction (ExtrOcamlBasic only), "
         "OCaml/Rust/Python glue of the correspondence check; ")

CHECKS = {
    "C05": ("proof",
            "Coq theorems (Props/C05.v: c05_frame, c05_real, c05_sinks) about the executable model Model/Writer.v of "
            "MultiLineWriter+BufWriter, for all capacities, terminators, histories and fault scripts; the model is tied "
            "to io.rs on every run by a correspondence check (exhaustive small scope + boundary + random histories on "
            "the real MultiLineWriter / BufferedSpyMetricSink vs the extracted model) and the framing clause is also "
            "evaluated on the implementation's own log",
            TRUST + "modelled not verified: std BufWriter; assumes an all-or-nothing underlying writer whose flush succeeds",
            "machine-checked proof (Coq 8.16) on a hand-written model + differential correspondence check",
            "DESIGN.md 8.C05"),
}

PENDING = "check not built yet in this session (under construction; not a claim that the technique cannot apply)"


def main():
    checks = []
    for pid in ALL:
        if pid not in CHECKS:
            continue
        cat, text, note, tech, ref = CHECKS[pid]
        checks.append({
            "property_id": pid,
            "quick_cmd": "./check %s --tier quick" % pid,
            "thorough_cmd": "./check %s --tier thorough" % pid,
            "evidence_file": "/verif/evidence/%s.json" % pid,
            "replay_cmd_template": "./check %s --replay {path}" % pid,
            "engine": "coq-model+correspondence",
            "level_claimed": {"category": cat, "text": text, "design_ref": ref},
            "level_note": note,
            "technique": tech,
        })
    m = {
        "version": 1,
        "setup_cmd": "./setup.sh",
        "hooks": {
            "guard": "cadence_verif",
            "enable": "RUSTFLAGS=\"--cfg cadence_verif\" (set by driver/common.py when it builds /verif/harness against /repo)",
            "baseline_off_cmd": "cd /repo && cargo test --workspace --no-fail-fast --offline",
            "source_commits": json.load(open(os.path.join(HERE, "tools", "hook_commits.json"))) if os.path.exists(os.path.join(HERE, "tools", "hook_commits.json")) else [],
            "add_only": True,
        },
        "engines": [{
            "name": "coq-model+correspondence", "path": "/verif/check", "serves_properties": sorted(CHECKS),
            "kind_free_text": "Coq 8.16 development (coq/theories: Model, Proofs, Props) + extracted OCaml model runner + "
                              "Rust harness built on /repo's working tree + python driver",
        }],
        "checks": checks,
        "notes": "see DESIGN.md; KNOWN_FINDINGS.txt lists the three defects repaired by fix: commits in /repo",
        "not_applicable": [{"property_id": p, "reason": PENDING} for p in ALL if p not in CHECKS],
    }
    with open(os.path.join(HERE, "MANIFEST.json"), "w") as f:
        json.dump(m, f, indent=1)
        f.write("\n")


if __name__ == "__main__":
    main()
