(* C17 — Macros are exactly the tagged quiet send on the global client.

   Pinned statements.  Model: Cadence.Model.Macro — the expansion of _generate_impl!
   (cadence-macros/src/macros.rs) as an instruction list run by an interpreter that logs
   which argument expression is evaluated when and what reaches the global client's sink
   and error handler; the instructions' semantics is the client model of C01/C03
   (Cadence.Model.Client.send_call).  [global : option config] is the state of the
   process-wide holder (None = no client set); an invocation carries the macro, the values
   of $key and $val (with its Rust type) and the list of tag pairs as written; [script] is
   the sink's future answers.  All statements are for every macro, every argument, every
   number of tags, every client configuration and every sink script.  That macro_rules!
   expands the way the instruction list says is the compiler's business: it is validated by
   the correspondence check (statically expanded invocations whose argument expressions log
   their evaluation), not proved. *)
Require Import Cadence.Base.Prelude.
Require Import Cadence.Model.Convert.
Require Import Cadence.Model.Wire.
Require Import Cadence.Model.Client.
Require Import Cadence.Model.Macro.
Require Import Cadence.Proofs.ClientProofs.
Require Import Cadence.Proofs.MacroProofs.

(* with a global client set, a macro does what the corresponding <kind>_with_tags call on
   that client followed by with_tag for each pair in the written order and a quiet send
   does: the same strings reach the sink, the same errors reach the handler, the same sink
   answers are consumed; it does not panic *)
Theorem c17_equiv : forall cfg inv script o rest,
  send_call cfg Quiet
    {| k_kind := method_of (i_macro inv); k_key := i_key inv; k_arg := i_arg inv;
       k_ops := map (fun kv => WithTag (fst kv) (snd kv)) (i_tags inv) |} script = Some (o, rest) ->
  let s := run_macro (Some cfg) inv script in
  m_panicked s = false /\ m_stuck s = false /\
  m_emitted s = o_emitted o /\ m_handled s = o_handled o /\ m_script s = rest.
Proof.
  intros cfg inv script o rest H. cbv zeta.
  destruct (macro_equiv cfg inv script) as (P & _ & M). unfold reference_call in M. rewrite H in M.
  destruct M as (A & B & C & D). repeat split; assumption.
Qed.

(* the same line in a single emit: at most one string is handed to the sink, exactly one iff
   the value is accepted, and it is the line the client model (C01) gives for the tagged call *)
Theorem c17_single_emit : forall cfg inv script,
  let s := run_macro (Some cfg) inv script in
  let c := {| k_kind := method_of (i_macro inv); k_key := i_key inv; k_arg := i_arg inv;
              k_ops := map (fun kv => WithTag (fst kv) (snd kv)) (i_tags inv) |} in
  m_emitted s = match client_line cfg c with Some (inr l) => [l] | _ => [] end.
Proof.
  intros cfg inv script. cbv zeta.
  destruct (macro_equiv cfg inv script) as (_ & _ & M). unfold reference_call in M.
  destruct (send_call cfg Quiet _ script) as [[o rest]|] eqn:SC.
  - destruct M as (_ & E & _). rewrite E. apply (emitted_exact _ _ _ _ _ _ SC).
  - destruct M as (_ & E & _). rewrite E.
    unfold send_call in SC. destruct (client_line cfg _) as [[e|l]|]; try reflexivity.
    + destruct script; discriminate.
Qed.

(* failures are reported only to the global client's error handler: exactly the error that
   try_send of the same call would return, once; nothing on success *)
Theorem c17_errors_to_handler : forall cfg inv script o rest,
  send_call cfg TrySend
    {| k_kind := method_of (i_macro inv); k_key := i_key inv; k_arg := i_arg inv;
       k_ops := map (fun kv => WithTag (fst kv) (snd kv)) (i_tags inv) |} script = Some (o, rest) ->
  m_handled (run_macro (Some cfg) inv script) = match o_ret o with RError e => [e] | _ => [] end.
Proof.
  intros cfg inv script o rest H.
  destruct (macro_equiv cfg inv script) as (_ & _ & M). unfold reference_call in M.
  destruct (send_call cfg Quiet _ script) as [[oq restq]|] eqn:SC.
  - destruct M as (_ & _ & Hh & _). rewrite Hh.
    destruct (quiet_form _ _ _ _ _ SC) as (o' & T & _ & _ & Q & _).
    rewrite H in T. inversion T; subst. exact Q.
  - exfalso. unfold send_call in SC, H. destruct (client_line cfg _) as [[e|l]|]; try discriminate.
    destruct script; discriminate.
Qed.

(* each argument expression is evaluated exactly once, in the order written: key, value,
   then for each pair its key and its value *)
Theorem c17_eval_once : forall cfg inv script,
  m_evals (run_macro (Some cfg) inv script) = eval_order (length (i_tags inv)) /\
  NoDup (eval_order (length (i_tags inv))) /\
  forall x, In x (eval_order (length (i_tags inv))) <->
            x = XKey \/ x = XVal \/ exists j, j < length (i_tags inv) /\ (x = XTagKey j \/ x = XTagVal j).
Proof.
  intros cfg inv script. destruct (macro_equiv cfg inv script) as (_ & E & _).
  split; [exact E|]. split; [apply eval_order_nodup|apply eval_order_complete].
Qed.

(* it panics if and only if no global client has been set ... *)
Theorem c17_panic_iff : forall global inv script,
  m_panicked (run_macro global inv script) = true <-> global = None.
Proof. exact macro_panic_iff. Qed.

(* ... and then nothing has been evaluated, emitted or handled, and no sink answer consumed *)
Theorem c17_unset : forall inv script,
  let s := run_macro None inv script in
  m_panicked s = true /\ m_evals s = [] /\ m_emitted s = [] /\ m_handled s = [] /\ m_script s = script.
Proof. intros inv script. cbv zeta. rewrite macro_unset. repeat split. Qed.

(* the seven front ends forward the method of their own kind (finite table) *)
Theorem c17_methods :
  map method_of all_macros = [Counter; Timer; Gauge; Meter; Histogram; Distribution; SetK] /\
  forall m, In m all_macros.
Proof. split; [reflexivity|]. intros m; destruct m; cbn; tauto. Qed.

(* ---- a whole process (Macro.run_process): the holder is set at most once, by whoever offers
   first ([PSet]: the observed client, [PSetOther]: another one); [PGet] / [PIsSet] are
   get_global_default().is_ok() / is_global_default_set(); what is observed of an invocation is
   what the OBSERVED client's sink and handler saw, whether it panicked, and its evaluation log;
   of a read, what it reported ([po_flag]) ---- *)

(* before any client is set every invocation panics, having evaluated, emitted and reported nothing,
   and every read of the holder says "not set" *)
Theorem c17_process_unset : forall cfg other steps script,
  Forall (fun st => is_offer st = false) steps ->
  Forall (fun o => match po_flag o with
                   | Some b => b = false
                   | None => po_panicked o = true /\ po_emitted o = [] /\ po_handled o = [] /\ po_evals o = []
                   end)
         (run_process cfg other None script steps).
Proof. exact process_unset. Qed.

(* once a client is set, later offers change nothing for anything that follows *)
Theorem c17_process_set_once : forall cfg other b c steps script,
  run_process cfg other (Some (b, c)) script steps =
  run_process cfg other (Some (b, c)) script (filter (fun st => negb (is_offer st)) steps).
Proof. exact process_set_once. Qed.

(* ... and every read of the holder says "set" *)
Theorem c17_process_reads : forall cfg other b c steps script,
  Forall (fun o => match po_flag o with Some f => f = true | None => True end)
         (run_process cfg other (Some (b, c)) script steps).
Proof. exact process_reads_set. Qed.

(* with the observed client in the holder, the invocations of the process are, one after the
   other, the tagged quiet sends on that client (same strings to its sink, same errors to its
   handler, the sink's answers consumed in order) - whatever is offered or read in between; none
   panics *)
Theorem c17_process_mine : forall cfg other steps script,
  Forall2 (fun o r => po_panicked o = false /\
                      match r with
                      | Some x => po_stuck o = false /\ po_emitted o = o_emitted x /\ po_handled o = o_handled x
                      | None => po_stuck o = true
                      end)
          (filter (fun o => match po_flag o with None => true | Some _ => false end)
                  (run_process cfg other (Some (true, cfg)) script steps))
          (reference_sends cfg (invocations steps) script).
Proof. exact process_mine. Qed.

(* with another client in the holder, the observed client's sink and handler see nothing at all *)
Theorem c17_process_other : forall cfg other c steps script,
  Forall (fun o => po_panicked o = false /\ po_emitted o = [] /\ po_handled o = [])
         (run_process cfg other (Some (false, c)) script steps).
Proof. exact process_other. Qed.

(* non-vacuity: statsd_time!("k", 7u64, "a" => "b", "c" => "d") on a client with prefix "p",
   a default tag and a refusing sink: one line, the handler sees the sink's error once *)
Example c17_witness :
  let cfg := {| c_prefix := [112]; c_tags := [(None, [120])]; c_container := None |}%N in
  let inv := {| i_macro := StatsdTime; i_key := [107]; i_arg := AU64 7;
                i_tags := [([97], [98]); ([99], [100])] |}%N in
  let s := run_macro (Some cfg) inv [Refuse 5 9]%N in
  (m_emitted s, m_handled s, m_evals s, m_panicked s, m_stuck s) =
  ([[112;46;107;58;55;124;109;115;124;35;120;44;97;58;98;44;99;58;100]%N], [EIo 5 9],
   [XKey; XVal; XTagKey 0; XTagVal 0; XTagKey 1; XTagVal 1], false, false).
Proof. vm_compute. reflexivity. Qed.

(* ==== added after the audit of 2026-10-02 (selftest/audit/REPORT-2026-10-02.md) ==== *)
Require Import Cadence.Proofs.AuditM2.

(* ---- A.14: the process theorems compose ---- *)

(* The real life cycle of a process, from the UNSET holder: as long as nothing has been offered
   ([pre] contains no PSet / PSetOther), then this process's client is offered.  What is observed is
   what [pre] shows on the unset holder (c17_process_unset applies to it) followed by what [post]
   shows on the holder set to this process's client (c17_process_mine / _reads / _set_once apply),
   and [post] starts with the WHOLE script: the panicking invocations of [pre] consumed none of the
   sink's answers. *)
Theorem c17_process_split : forall cfg other pre post script,
  Forall (fun st => is_offer st = false) pre ->
  run_process cfg other None script (pre ++ PSet :: post) =
  run_process cfg other None script pre ++ run_process cfg other (Some (true, cfg)) script post.
Proof. exact process_split. Qed.

(* the same when somebody else's client is offered first: [post] runs on the holder holding [other] *)
Theorem c17_process_split_other : forall cfg other pre post script,
  Forall (fun st => is_offer st = false) pre ->
  run_process cfg other None script (pre ++ PSetOther :: post) =
  run_process cfg other None script pre ++ run_process cfg other (Some (false, other)) script post.
Proof. exact process_split_other. Qed.

(* in general a process can be cut at ANY point and from ANY holder state: the observations of
   [a ++ b] are those of [a] followed by those of [b] started where [a] ended.
   [AuditM2.process_end cfg other g script a] = (holder, unconsumed script) after [a]: the two
   values run_process threads through its recursion (an observation function defined in AuditM2.v) *)
Theorem c17_process_app : forall cfg other a b g script,
  run_process cfg other g script (a ++ b) =
  run_process cfg other g script a ++
  run_process cfg other (fst (process_end cfg other g script a)) (snd (process_end cfg other g script a)) b.
Proof. intros cfg other a b g script. apply process_app. Qed.

(* the composed statement in one piece: a process that starts unset, offers nothing during [pre],
   then sets its own client.  Its observations split into A (one per non-offer step of [pre]: every
   invocation panicked having evaluated, emitted and handled nothing, every read said "not set")
   and B (every read says "set", nothing panics, and the invocations are, one after the other, the
   tagged quiet sends on [cfg] consuming [script] FROM ITS START) *)
Theorem c17_process_lifecycle : forall cfg other pre post script,
  Forall (fun st => is_offer st = false) pre ->
  exists A B,
    run_process cfg other None script (pre ++ PSet :: post) = A ++ B /\
    length A = length (filter (fun st => negb (is_offer st)) pre) /\
    Forall (fun o => match po_flag o with
                     | Some b => b = false
                     | None => po_panicked o = true /\ po_emitted o = [] /\ po_handled o = [] /\ po_evals o = []
                     end) A /\
    Forall (fun o => match po_flag o with Some f => f = true | None => True end) B /\
    Forall2 (fun o r => po_panicked o = false /\
                        match r with
                        | Some x => po_stuck o = false /\ po_emitted o = o_emitted x /\ po_handled o = o_handled x
                        | None => po_stuck o = true
                        end)
            (filter (fun o => match po_flag o with None => true | Some _ => false end) B)
            (reference_sends cfg (invocations post) script).
Proof. exact process_lifecycle. Qed.

(* ... and when another client is offered first: after it nothing panics, every read says "set",
   and the observed client's sink and handler never see anything *)
Theorem c17_process_lifecycle_other : forall cfg other pre post script,
  Forall (fun st => is_offer st = false) pre ->
  exists A B,
    run_process cfg other None script (pre ++ PSetOther :: post) = A ++ B /\
    Forall (fun o => match po_flag o with
                     | Some b => b = false
                     | None => po_panicked o = true /\ po_emitted o = [] /\ po_handled o = [] /\ po_evals o = []
                     end) A /\
    Forall (fun o => po_panicked o = false /\ po_emitted o = [] /\ po_handled o = [] /\
                     match po_flag o with Some f => f = true | None => True end) B.
Proof. exact process_lifecycle_other. Qed.

(* the extracted root run_macros with a client in the holder: invocation by invocation the machine
   ends where the reference send ends - same strings to the sink, same errors to the handler, no
   panic; where the reference is undefined (no such impl) the machine is stuck having emitted and
   handled nothing; the sink's answers are consumed in step (both sides thread the same script) *)
Theorem c17_run_macros : forall cfg invs script,
  Forall2 (fun s r => m_panicked s = false /\
                      match r with
                      | Some o => m_stuck s = false /\ m_emitted s = o_emitted o /\ m_handled s = o_handled o
                      | None => m_stuck s = true /\ m_emitted s = [] /\ m_handled s = []
                      end)
          (run_macros (Some cfg) invs script) (reference_sends cfg invs script).
Proof. exact run_macros_reference. Qed.

(* ... each invocation evaluates its argument expressions once, in the written order *)
Theorem c17_run_macros_evals : forall cfg invs script,
  map m_evals (run_macros (Some cfg) invs script) = map (fun inv => eval_order (length (i_tags inv))) invs.
Proof. exact run_macros_evals. Qed.

(* run_macros without a client: every invocation panics at once; nothing evaluated, emitted,
   handled, and the script is passed on untouched *)
Theorem c17_run_macros_unset : forall invs script,
  run_macros None invs script =
  map (fun _ => {| m_client := None; m_call := None; m_evals := []; m_emitted := []; m_handled := [];
                   m_script := script; m_panicked := true; m_stuck := false |}) invs.
Proof. exact run_macros_unset. Qed.

(* the two roots agree: a process that holds its own client and only invokes IS run_macros *)
Theorem c17_process_is_run_macros : forall cfg other invs script,
  run_process cfg other (Some (true, cfg)) script (map PInvoke invs) =
  map (fun s => {| po_panicked := m_panicked s; po_stuck := m_stuck s; po_emitted := m_emitted s;
                   po_handled := m_handled s; po_evals := m_evals s; po_flag := None |})
      (run_macros (Some cfg) invs script).
Proof. exact process_is_run_macros. Qed.

(* non-vacuity: invoke and read before the set (panic / "not set"), set, invoke (first answer of the
   script: Accept), a late offer and a read ("set"), invoke (second answer: the refusal reaches the
   handler) *)
Example c17_process_split_witness :
  let cfg := {| c_prefix := [112]; c_tags := []; c_container := None |}%N in
  let other := {| c_prefix := [113]; c_tags := []; c_container := None |}%N in
  let inv k := {| i_macro := StatsdCount; i_key := [k]; i_arg := AI64 1; i_tags := [] |} in
  let steps := [PInvoke (inv 97); PIsSet; PSet; PInvoke (inv 98); PSetOther; PGet; PInvoke (inv 99)]%N in
  map (fun o => (po_panicked o, po_emitted o, po_handled o, po_flag o))
      (run_process cfg other None [Accept; Refuse 5 9]%N steps) =
  [(true, [], [], None); (false, [], [], Some false);
   (false, [[112;46;98;58;49;124;99]%N], [], None); (false, [], [], Some true);
   (false, [[112;46;99;58;49;124;99]%N], [EIo 5 9], None)].
Proof. vm_compute. reflexivity. Qed.

Example c17_run_macros_witness :
  let cfg := {| c_prefix := [112]; c_tags := []; c_container := None |}%N in
  let inv k := {| i_macro := StatsdCount; i_key := [k]; i_arg := AI64 1; i_tags := [] |} in
  map (fun s => (m_emitted s, m_handled s, m_panicked s, m_stuck s))
      (run_macros (Some cfg) [inv 98; inv 99]%N [Accept; Refuse 5 9]%N) =
  [([[112;46;98;58;49;124;99]%N], [], false, false); ([[112;46;99;58;49;124;99]%N], [EIo 5 9], false, false)] /\
  map (option_map (fun o => (o_emitted o, o_handled o)))
      (reference_sends cfg [inv 98; inv 99]%N [Accept; Refuse 5 9]%N) =
  [Some ([[112;46;98;58;49;124;99]%N], []); Some ([[112;46;99;58;49;124;99]%N], [EIo 5 9])].
Proof. vm_compute. split; reflexivity. Qed.

(* ==== added after the audit of 2026-10-02 (selftest/audit/REPORT-2026-10-02.md) ==== *)
(* ==== added for audit item A.24 (model extension: a user-defined value whose conversion fails) ==== *)
Require Import Cadence.Proofs.AuditU1.
(* a macro invoked with a user-defined value whose conversion returns Err(e): no panic, the key,
   the value and every tag expression are evaluated exactly once in the written order, nothing is
   handed to the global client's sink and no answer of it consumed, its error handler gets exactly
   e, once *)
Theorem c17_user_error : forall cfg inv script e,
  i_arg inv = AUserErr e ->
  let s := run_macro (Some cfg) inv script in
  m_panicked s = false /\ m_stuck s = false /\
  m_evals s = eval_order (length (i_tags inv)) /\
  m_emitted s = [] /\ m_handled s = [e] /\ m_script s = script.
Proof. exact user_error_macro. Qed.

Example c17_user_error_witness :
  let cfg := {| c_prefix := []; c_tags := []; c_container := None |} in
  let inv := {| i_macro := StatsdGauge; i_key := [107]%N; i_arg := AUserErr (EIo 5 9);
                i_tags := [([97]%N, [98]%N)] |} in
  let s := run_macro (Some cfg) inv [Refuse 7 1] in
  (m_panicked s, m_stuck s, m_emitted s, m_handled s, m_script s, m_evals s) =
  (false, false, [], [EIo 5 9], [Refuse 7 1], [XKey; XVal; XTagKey 0; XTagVal 0]).
Proof. exact user_error_macro_witness. Qed.

(* Note after the second read-only review of these pins (selftest/audit/REVIEW-2-2026-10-02.md): c17_process_app is a structural lemma (process_end copies the state run_process threads); the content is in c17_process_split / _split_other / _lifecycle. *)
