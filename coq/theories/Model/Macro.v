(* Model of cadence-macros/src/macros.rs: the seven statsd_* macros and their common
   expansion _generate_impl!:

       use cadence::prelude::*;
       let client = $crate::get_global_default().unwrap();
       let builder = client.$method($key, $val);
       $(let builder = builder.with_tag($tag_key, $tag_val);)*
       builder.send()

   The expansion is modelled as a little program (a list of instructions) run by an
   interpreter over a machine that records which argument expressions were evaluated, in
   which order, and what reached the global client's sink and error handler.  The
   instruction semantics reuses the client model (Cadence.Model.Client / Wire): [ICall]
   is <kind>_with_tags, [IWithTag] is MetricBuilder::with_tag, [ISend] the quiet send.

   Definitions only; no proofs in this file. *)
Require Import Cadence.Base.Prelude.
Require Import Cadence.Model.Convert.
Require Import Cadence.Model.Wire.
Require Import Cadence.Model.Client.

Inductive macro :=
| StatsdCount | StatsdTime | StatsdGauge | StatsdMeter | StatsdHistogram | StatsdDistribution | StatsdSet.

Definition all_macros : list macro :=
  [StatsdCount; StatsdTime; StatsdGauge; StatsdMeter; StatsdHistogram; StatsdDistribution; StatsdSet].

(* the method each front end forwards to _generate_impl! (count_with_tags, time_with_tags, ...) *)
Definition method_of (m : macro) : kind :=
  match m with
  | StatsdCount => Counter | StatsdTime => Timer | StatsdGauge => Gauge | StatsdMeter => Meter
  | StatsdHistogram => Histogram | StatsdDistribution => Distribution | StatsdSet => SetK
  end.

(* the argument expressions of an invocation *)
Inductive expr := XKey | XVal | XTagKey (i : nat) | XTagVal (i : nat).

Record invocation := {
  i_macro : macro;
  i_key : str;                    (* value of $key *)
  i_arg : arg;                    (* value (and Rust type) of $val *)
  i_tags : list (str * str)       (* values of the $tag_key => $tag_val pairs, as written *)
}.

Inductive instr :=
| IGetGlobal                      (* get_global_default().unwrap() *)
| IEval (x : expr)                (* evaluate one argument expression *)
| ICall (k : kind)                (* client.<kind>_with_tags(key, val) *)
| IWithTag (i : nat)              (* builder.with_tag(tag_key_i, tag_val_i) *)
| ISend.                          (* builder.send() *)

Fixpoint tag_instrs (i n : nat) : list instr :=
  match n with
  | O => []
  | S n' => IEval (XTagKey i) :: IEval (XTagVal i) :: IWithTag i :: tag_instrs (S i) n'
  end.

(* the expansion, in Rust's evaluation order: the client is fetched first, the method's
   arguments are evaluated left to right, then each with_tag evaluates its two arguments *)
Definition expansion (m : macro) (ntags : nat) : list instr :=
  [IGetGlobal; IEval XKey; IEval XVal; ICall (method_of m)] ++ tag_instrs 0 ntags ++ [ISend].

Record machine := {
  m_client : option config;       (* the client fetched by IGetGlobal *)
  m_call : option call;           (* the builder under construction (as a call of the client model) *)
  m_evals : list expr;            (* evaluation log *)
  m_emitted : list str;           (* strings handed to the global client's sink *)
  m_handled : list merror;        (* invocations of its error handler *)
  m_script : list sink_outcome;   (* the sink's future answers *)
  m_panicked : bool;
  m_stuck : bool                  (* ill-formed program / no such impl: never for an expansion that type-checks *)
}.

Definition start (script : list sink_outcome) : machine :=
  {| m_client := None; m_call := None; m_evals := []; m_emitted := []; m_handled := [];
     m_script := script; m_panicked := false; m_stuck := false |}.

Definition upd_evals (s : machine) x :=
  {| m_client := m_client s; m_call := m_call s; m_evals := m_evals s ++ [x]; m_emitted := m_emitted s;
     m_handled := m_handled s; m_script := m_script s; m_panicked := m_panicked s; m_stuck := m_stuck s |}.
Definition upd_call (s : machine) c :=
  {| m_client := m_client s; m_call := c; m_evals := m_evals s; m_emitted := m_emitted s;
     m_handled := m_handled s; m_script := m_script s; m_panicked := m_panicked s; m_stuck := m_stuck s |}.
Definition set_stuck (s : machine) :=
  {| m_client := m_client s; m_call := m_call s; m_evals := m_evals s; m_emitted := m_emitted s;
     m_handled := m_handled s; m_script := m_script s; m_panicked := m_panicked s; m_stuck := true |}.

(* one instruction; [global] is the state of the process-wide holder *)
Definition exec1 (global : option config) (inv : invocation) (s : machine) (i : instr) : machine :=
  if m_panicked s || m_stuck s then s else
  match i with
  | IGetGlobal =>
    match global with
    | None => {| m_client := None; m_call := m_call s; m_evals := m_evals s; m_emitted := m_emitted s;
                 m_handled := m_handled s; m_script := m_script s; m_panicked := true; m_stuck := false |}
    | Some cfg => {| m_client := Some cfg; m_call := m_call s; m_evals := m_evals s; m_emitted := m_emitted s;
                     m_handled := m_handled s; m_script := m_script s; m_panicked := false; m_stuck := false |}
    end
  | IEval x => upd_evals s x
  | ICall k =>
    upd_call s (Some {| k_kind := k; k_key := i_key inv; k_arg := i_arg inv; k_ops := [] |})
  | IWithTag j =>
    match m_call s, nth_error (i_tags inv) j with
    | Some c, Some (tk, tv) =>
      upd_call s (Some {| k_kind := k_kind c; k_key := k_key c; k_arg := k_arg c;
                          k_ops := k_ops c ++ [WithTag tk tv] |})
    | _, _ => set_stuck s
    end
  | ISend =>
    match m_client s, m_call s with
    | Some cfg, Some c =>
      match send_call cfg Quiet c (m_script s) with
      | Some (o, rest) =>
        {| m_client := m_client s; m_call := None; m_evals := m_evals s;
           m_emitted := m_emitted s ++ o_emitted o; m_handled := m_handled s ++ o_handled o;
           m_script := rest; m_panicked := false; m_stuck := false |}
      | None => set_stuck s
      end
    | _, _ => set_stuck s
    end
  end.

Definition exec (global : option config) (inv : invocation) (p : list instr) (s : machine) : machine :=
  fold_left (exec1 global inv) p s.

(* one macro invocation *)
Definition run_macro (global : option config) (inv : invocation) (script : list sink_outcome) : machine :=
  exec global inv (expansion (i_macro inv) (length (i_tags inv))) (start script).

(* the reference: the tagged call on the client, the tags added in the written order, quiet send *)
Definition reference_call (inv : invocation) : call :=
  {| k_kind := method_of (i_macro inv); k_key := i_key inv; k_arg := i_arg inv;
     k_ops := map (fun kv => WithTag (fst kv) (snd kv)) (i_tags inv) |}.

(* the order in which the argument expressions are to be evaluated, each once *)
Fixpoint tag_exprs (i n : nat) : list expr :=
  match n with O => [] | S n' => XTagKey i :: XTagVal i :: tag_exprs (S i) n' end.
Definition eval_order (ntags : nat) : list expr := XKey :: XVal :: tag_exprs 0 ntags.

(* a sequence of invocations in one process (the global never changes once set) *)
Fixpoint run_macros (global : option config) (invs : list invocation) (script : list sink_outcome)
  : list machine :=
  match invs with
  | [] => []
  | inv :: r => let s := run_macro global inv script in s :: run_macros global r (m_script s)
  end.

(* ------------------------------------------------------------------ a whole process
   The global holder is set at most once (C18): [PSet] offers the observed client [cfg], [PSetOther]
   offers another client whose sink nobody observes; whoever comes first wins, later offers are
   ignored.  [PInvoke] is one macro invocation.  The observation of an invocation is what the
   OBSERVED client's sink and handler saw, whether the invocation panicked, and the evaluation log. *)
Inductive pstep := PSet | PSetOther | PInvoke (inv : invocation)
                 | PGet | PIsSet.      (* get_global_default().is_ok() / is_global_default_set() *)

(* [po_flag]: what a read of the holder reported (None for an invocation) *)
Record pobs := {
  po_panicked : bool; po_stuck : bool;
  po_emitted : list str; po_handled : list merror; po_evals : list expr; po_flag : option bool }.

Definition read_obs (g : option (bool * config)) : pobs :=
  {| po_panicked := false; po_stuck := false; po_emitted := []; po_handled := []; po_evals := [];
     po_flag := Some (match g with Some _ => true | None => false end) |}.

Definition offer (g : option (bool * config)) (mine : bool) (c : config) : option (bool * config) :=
  match g with None => Some (mine, c) | Some _ => g end.

Fixpoint run_process (cfg other : config) (g : option (bool * config)) (script : list sink_outcome)
         (steps : list pstep) : list pobs :=
  match steps with
  | [] => []
  | PSet :: r => run_process cfg other (offer g true cfg) script r
  | PSetOther :: r => run_process cfg other (offer g false other) script r
  | PInvoke inv :: r =>
    let mine := match g with Some (b, _) => b | None => true end in
    let s := run_macro (option_map snd g) inv (if mine then script else []) in
    {| po_panicked := m_panicked s; po_stuck := m_stuck s;
       po_emitted := if mine then m_emitted s else [];
       po_handled := if mine then m_handled s else [];
       po_evals := m_evals s; po_flag := None |}
    :: run_process cfg other g (if mine then m_script s else script) r
  | PGet :: r => read_obs g :: run_process cfg other g script r
  | PIsSet :: r => read_obs g :: run_process cfg other g script r
  end.

Definition is_invoke (st : pstep) : bool := match st with PInvoke _ => true | _ => false end.
Definition is_offer (st : pstep) : bool := match st with PSet | PSetOther => true | _ => false end.


(* the reference for a process whose holder holds [cfg]: the tagged quiet sends, one after the other *)
Fixpoint reference_sends (cfg : config) (invs : list invocation) (script : list sink_outcome)
  : list (option outcome1) :=
  match invs with
  | [] => []
  | inv :: r =>
    match send_call cfg Quiet (reference_call inv) script with
    | Some (o, rest) => Some o :: reference_sends cfg r rest
    | None => None :: reference_sends cfg r script
    end
  end.

Definition invocations (steps : list pstep) : list invocation :=
  flat_map (fun st => match st with PInvoke inv => [inv] | _ => [] end) steps.

