"""C17: the statsd_* macros on the process-wide default client.  One fresh child process per case (a process can set
the global client once): statically expanded invocations of every macro x value type x 0..5 tag pairs whose argument
expressions log their evaluation, on clients with prefix / default tags / container id / refusing sink / handler, before
and after the client is set, on the main thread and on fresh threads, with a second (ignored) set.  The observations are
compared with the extracted model (Macro.run_macro) and judged directly against the property: the same line as the
tagged quiet send (reference evaluation shared with C01-C04), one emit, handler routing, each argument evaluated once
in order, panic iff unset."""
import random

from . import common, wire
from .common import Report, case_hash
from .wire import ENTRIES, arg_token, dtags_token, script_token, hx, rand_val, rand_str, rand_prefix


class MCase:
    def __init__(self, prefix, dtags, dcid, script, steps):
        # steps: ("S",) | ("Z",) | ("I"|"T"|"U", kind, ty, v, key, tags) | ("G",) | ("GT",) | ("Q",) | ("QT",)
        # G/Q (get_global_default / is_global_default_set, T = on a fresh thread) are the model's PGet / PIsSet
        self.prefix, self.dtags, self.dcid, self.script, self.steps = prefix, dtags, dcid, script, steps

    INNER = ("g", "u64", 7, "nested.inner", [("in", "x")])

    def line(self, ft=None):
        st = []
        for s in self.steps:
            if s[0] == "N" and ft is not None:
                # model side: the nested invocation is two invocations one after the other - the inner one (run while the
                # outer one's value expression is evaluated) and the outer one; merge_nested() joins their observations
                k, ty, v, key, tags = self.INNER
                st.append("I|%s|%s|%s|%s" % (k, arg_token(ty, v, ft), hx(key), ",".join("%s:%s" % (hx(a), hx(b)) for a, b in tags)))
                s = ("I",) + tuple(s[1:])
            if s[0] in ("G", "GT", "Q", "QT"):
                st.append(s[0])
            elif s[0] in "SZ":
                st.append(s[0])
            else:
                _, kind, ty, v, key, tags = s
                st.append("%s|%s|%s|%s|%s" % (s[0], kind, arg_token(ty, v, ft), hx(key),
                                              ",".join("%s:%s" % (hx(k), hx(x)) for k, x in tags) or "-"))
        return "M %s %s %s %s %s" % (hx(self.prefix), dtags_token(self.dtags), "~" if self.dcid is None else hx(self.dcid),
                                     script_token(self.script), "%".join(st))

    # the shape wire.judge_call / wire.all_float_bits expect
    @property
    def calls(self):
        return [("Q", s[1], s[2], s[3], s[4], [("t", k, x) for k, x in s[5]]) for s in self.steps if s[0] in ("I", "T", "U", "N")]


def merge_nested(case, mobs):
    """join the model's two observations of every N step (inner, outer) into the one the implementation reports"""
    per = mobs.split("|")
    out, i = [], 0
    for s in case.steps:
        if s[0] in "SZ":
            continue
        if s[0] == "N" and i + 1 < len(per):
            a, b = per[i].split(","), per[i + 1].split(",")
            if a[0] == "panic":                 # no client: the outer invocation panics before its value is evaluated
                out.append(per[i + 1])
            else:
                j = lambda x, y: "+".join(z for z in (x, y) if z != "~") or "~"
                out.append(",".join([b[0], j(a[1], b[1]), j(a[2], b[2]), b[3]]))
            i += 2
        else:
            out.append(per[i] if i < len(per) else "")
            i += 1
    return "|".join(out)


def rand_tags(rng, n, mode):
    return [(rand_str(rng, mode), rand_str(rng, mode)) for _ in range(n)]


def rand_cfg(rng, mode):
    prefix = rand_prefix(rng, mode)
    dtags = [((rand_str(rng, mode) if rng.random() < 0.7 else None), rand_str(rng, mode)) for _ in range(rng.choice([0, 0, 1, 2, 3]))]
    dcid = rand_str(rng, mode) if rng.random() < 0.3 else None
    return prefix, dtags, dcid


def gen_cases(rng, n_random):
    cases = []
    # exhaustive: every macro x value type x 0..5 tag pairs, on a plain client and on a decorated client with a
    # refusing sink; each process also invokes a macro before the client is set and after a second set
    for deco in (False, True):
        for (kind, ty) in ENTRIES:
            steps = [("I", kind, ty, rand_val(rng, ty), "early", rand_tags(rng, 2, "clean")), ("S",)]
            script = []
            for n in range(6):
                steps.append(("I" if n % 2 == 0 else "T", kind, ty, rand_val(rng, ty), rand_str(rng, "clean", 1), rand_tags(rng, n, "clean")))
                script.append(None if not deco or n % 3 else (rng.randrange(12), rng.randrange(1000)))
            steps += [("Z",), ("I", kind, ty, rand_val(rng, ty), "late", rand_tags(rng, 1, "clean")),
                      # ... and from a destructor that runs while its thread unwinds from a panic (U: only with a client set)
                      ("U", kind, ty, rand_val(rng, ty), "unwinding", rand_tags(rng, 2, "clean"))]
            script.append(None)
            script.append(None if not deco else (rng.randrange(12), rng.randrange(1000)))
            if deco:
                cases.append(MCase("pre.fix.", [("dk", "dv"), (None, "bare")], "cid", script, steps))
            else:
                # ... and (all-accepting sink) an invocation whose value expression invokes another macro first
                steps.append(("N", kind, ty, rand_val(rng, ty), "outer", rand_tags(rng, 1, "clean")))
                cases.append(MCase("", [], None, [], steps))
                cases.append(MCase("np.", [("d", "t")], "cc", [], [("N", kind, ty, rand_val(rng, ty), "early", []), ("S",),
                                                                  ("N", kind, ty, rand_val(rng, ty), "k", rand_tags(rng, 2, "clean"))]))
    # never set: every macro panics, nothing is evaluated
    steps = [("I" if i % 2 else "T", k, t, rand_val(rng, t), "k", rand_tags(rng, i % 6, "clean")) for i, (k, t) in enumerate(ENTRIES)]
    cases.append(MCase("p", [], None, [], steps))
    # a second client offered first is the one that counts (first set wins): Z then S
    cases.append(MCase("p", [("a", "b")], None, [], [("Z",), ("S",), ("I", "c", "i64", 5, "k", [("x", "y")])]))
    for i in range(n_random):
        mode = "hostile" if i % 4 == 3 else "clean"
        prefix, dtags, dcid = rand_cfg(rng, mode)
        steps = []
        script = []
        set_at = rng.choice([0, 0, 0, 1, 2])
        nsteps = rng.choice([1, 3, 6, 10])
        for j in range(nsteps):
            if j == set_at:
                steps.append(("S",))
            if rng.random() < 0.1:
                steps.append(("Z",))
            kind, ty = rng.choice(ENTRIES)
            steps.append((rng.choice("IIT"), kind, ty, rand_val(rng, ty), rand_str(rng, mode), rand_tags(rng, rng.choice([0, 1, 1, 2, 3, 4, 5]), mode)))
            script.append(None if rng.random() < 0.7 else (rng.randrange(12), rng.randrange(1000)))
        cases.append(MCase(prefix, dtags, dcid, script, steps))
    # the holder's read functions before, between and after the sets and invocations of every second case
    for c in cases[::2]:
        st = []
        for s in c.steps:
            if rng.random() < 0.4:
                st.append((rng.choice(["G", "GT", "Q", "QT"]),))
            st.append(s)
        c.steps = [("Q",), ("G",)] + st + [("G",), ("QT",), ("GT",)]
    return cases


def judge(case, obs, ftext):
    """the property's clauses on one child process's observation"""
    bad = []
    if obs.startswith("CHILD-FAILED") or obs.startswith("HARNESS-PANIC"):
        return ["the child process did not survive the case: " + obs[:200]]
    per = obs.split("|")
    which = None            # the configuration that is the global client: None, "cfg" or "other"
    script = list(case.script)
    i = 0
    other = wire.Case("zz", [], None, [], [])
    for s in case.steps:
        if s[0] == "S":
            which = which or "cfg"
            continue
        if s[0] == "Z":
            which = which or "other"
            continue
        ob = per[i] if i < len(per) else "missing,~,~,~"
        i += 1
        if s[0] in ("G", "GT", "Q", "QT"):
            want = ("g" if s[0][0] == "G" else "q") + ("0" if which is None else "1")
            if ob.split(",")[0] != want:
                bad.append("%s reported %s %s a client had been set (step %d)" % (
                    "get_global_default()" if s[0][0] == "G" else "is_global_default_set()", ob.split(",")[0],
                    "before" if which is None else "after", i))
            continue
        ret, emitted, handled, evals = ob.split(",")
        _, kind, ty, v, key, tags = s
        n = len(tags)
        if s[0] == "N" and which == "cfg" and ret != "panic":
            # the inner invocation's line reaches the sink first, whole; what remains is judged as the outer invocation
            ik, ity, iv, ikey, itags = MCase.INNER
            icall = ("Q", ik, ity, iv, ikey, [("t", a, b) for a, b in itags])
            want_inner = hx(wire.render_expected(wire.expected_sections(case, icall, ftext)))
            em = [] if emitted == "~" else emitted.split("+")
            if not em or em[0] != want_inner:
                bad.append("a macro invoked inside the value expression of another invocation did not send its line first "
                           "(sink saw %s, expected %s first) (macro %s, %s, %d tags)" % (em[:2], want_inner, kind, ty, n))
                continue
            emitted = "+".join(em[1:]) or "~"
        if which is None:
            if (ret, emitted, handled, evals) != ("panic", "~", "~", "~"):
                bad.append("no global client set: expected a panic with nothing evaluated, emitted or handled; got %s" % ob[:200])
            continue
        if ret == "panic":
            bad.append("the macro panicked although a global client is set (step %d: %s %s, %d tags)" % (i, kind, ty, n))
            continue
        want_ev = ".".join(["k", "v"] + [x for j in range(n) for x in ("tk%d" % j, "tv%d" % j)])
        if evals != want_ev:
            bad.append("argument expressions evaluated as %s, expected each once in the order %s" % (evals, want_ev))
        call = ("Q", kind, ty, v, key, [("t", k, x) for k, x in tags])
        if which == "cfg":
            rejected = wire.expected_values(kind, ty, v, ftext) is None
            outcome = None
            if not rejected and script:
                outcome = script.pop(0)
                if outcome is not None and outcome[0] == "a":
                    outcome = None
            for pid, msg in wire.judge_call(case, call, outcome, ",".join([ret, emitted, handled]), ftext):
                bad.append("%s (macro %s, %s, %d tags)" % (msg, kind, ty, n))
        else:
            # the ignored configuration's sink must see nothing
            if emitted != "~" or handled != "~":
                bad.append("a client offered after the global default was set received a metric: %s" % ob[:200])
    return bad


TRUSTED = [
    "Coq 8.16.1 kernel; Print Assumptions of every pinned theorem closed under the global context",
    "extraction: Require Extraction + ExtrOcamlBasic only",
    "hand-written glue: ocaml/run_mac.ml, harness/src/mac.rs (one child process per case, statically expanded invocations), "
    "driver/mac.py; the reference evaluation of the expected line is the one of C01-C04 (driver/wire.py)",
    "modelled, not verified: macro_rules! expansion and Rust's left-to-right evaluation order (validated by the logging argument "
    "expressions of every invocation), SingletonHolder (C18), float text = std's Display",
]
ASSUMPTIONS = [
    "macro_rules! expands _generate_impl! as the instruction list of Model/Macro.v (validated on 132 statically expanded call "
    "sites: 22 value types x 0..5 tag pairs, not proved)",
    "std float Display hypothesis as in C01/C02 (checked on every float used)",
]


def check_C17(tier, seed):
    prop = "C17"
    rep = Report(prop, tier, seed, level="proof")
    rep.cov["trusted_base"] = TRUSTED
    rep.assumptions = ASSUMPTIONS
    rep.add_audit(common.audit_proofs(prop))
    if not common.ensure_built(rep):
        return rep.finish()
    n_impls, cp = wire.census()
    for p in cp:
        rep.violation_noinput("entry-point census: " + p, {"correspondence": "harness entry table vs client.rs", "problem": p})
    msrc = open(common.REPO + "/cadence-macros/src/macros.rs").read()
    import re
    macs = sorted(set(re.findall(r"macro_rules!\s+(statsd_\w+)", msrc)))
    want = ["statsd_count", "statsd_distribution", "statsd_gauge", "statsd_histogram", "statsd_meter", "statsd_set", "statsd_time"]
    if macs != want:
        rep.violation_noinput("macro census: macros.rs defines %s, the harness covers %s" % (macs, want),
                              {"correspondence": "harness macro table vs macros.rs", "found": macs})
    rng = random.Random(seed)
    thorough = tier == "thorough"
    cases = gen_cases(rng, 40000 if thorough else 260)
    fb = sorted(set(wire.all_float_bits(cases)))
    try:
        ftext = {}
        for i in range(0, len(fb), 200):
            chunk = fb[i:i + 200]
            o = common.run_harness("wire", ["F " + ";".join(chunk)], shards=1)[0]
            for b, t in zip(chunk, o.split(";")):
                ftext[b] = t.split(":")
        lines = [c.line() for c in cases]
        impl = common.run_harness("mac", lines, shards=common.NCPU)
        model = [merge_nested(c, m) for c, m in zip(cases, common.run_model("mac", [c.line(ftext) for c in cases]))]
        common.kernel_crosscheck(rep, "mac", [c.line(ftext) for c in cases], 150 if thorough else 50)
    except common.CheckFailure as e:
        rep.violation_noinput("correspondence run failed", {"error": str(e)})
        return rep.finish()
    failures = []
    for c, l, o in zip(cases, lines, impl):
        for msg in judge(c, o, ftext):
            failures.append((len(l), l, o, msg))
    if failures:
        failures.sort()
        _, l, o, msg = failures[0]
        rep.violation_input("%s (%d failing invocations; smallest case shown)" % (msg[:300], len(failures)),
                            {"bin": "mac", "case": l, "implementation": o[:3000], "clause": msg,
                             "how": "build/target/release/harness mac <file with the case line> (runs the case in a fresh child process)"})
    dis = [(len(l), l, i, m) for l, i, m in zip(lines, impl, model) if i != m]
    if dis and not failures:
        dis.sort()
        _, l, i, m = dis[0]
        rep.violation_noinput(
            "correspondence Model/Macro.v <-> cadence-macros/src/macros.rs broken on %d cases; the theorems of Props/C17.v no "
            "longer speak about this code" % len(dis),
            {"correspondence": "Macro.run_macro vs the statically expanded statsd_* invocations in a fresh process",
             "theorems": rep.cov.get("theorems", []), "first_disagreeing_case": l, "implementation": i[:3000], "model": m[:3000]})
    dist = {"processes": len(cases), "invocations": 0, "unset": 0, "on_fresh_thread": 0, "second_set": 0, "refused": 0,
            "rejected_value": 0, "tags": {}, "entry_points": {}}
    nt = set()
    for c, l, o in zip(cases, lines, impl):
        is_set = False
        for s in c.steps:
            if s[0] in "SZ":
                is_set = True
                dist["second_set"] += 1 if s[0] == "Z" else 0
                continue
            if s[0] in ("G", "GT", "Q", "QT"):
                dist["holder_reads"] = dist.get("holder_reads", 0) + 1
                continue
            dist["invocations"] += 1
            dist["unset"] += 0 if is_set else 1
            dist["on_fresh_thread"] += 1 if s[0] == "T" else 0
            dist["tags"][str(len(s[5]))] = dist["tags"].get(str(len(s[5])), 0) + 1
            ek = s[1] + "/" + s[2]
            dist["entry_points"][ek] = dist["entry_points"].get(ek, 0) + 1
        dist["refused"] += o.count("eio:")
        dist["rejected_value"] += o.count("einv")
        if any(s[0] in ("I", "T", "U", "N") for s in c.steps):
            nt.add(case_hash(l))
    rep.cov["evaluations"] = dist["invocations"]
    rep.cov["distinct_nontrivial"] = len(nt)
    rep.cov["exhaustive"] = True
    rep.cov["exhaustive_scope"] = ("every macro (7) x accepted value type (22 entry points) x 0..5 tag pairs, each on a plain client and "
                                   "on a client with prefix, default tags, container id, handler and a sink refusing every third call; "
                                   "plus an invocation before the client is set and one after a second set, in every process")
    rep.cov["rule"] = ("one child process per case; statically expanded macro invocations whose argument expressions log their "
                       "evaluation; exhaustive macro x value type x tag count product + seeded random configurations (clean and "
                       "hostile strings), set point (before / between / never), second set, main and fresh threads; compared with "
                       "the extracted Macro.run_macro and judged against the property directly.  distinct_nontrivial = distinct "
                       "child-process cases containing at least one macro invocation")
    short = [(l, o) for l, o in zip(lines, impl) if len(l) + len(o) < 500]
    rep.cov["samples"] = [{"case": l, "implementation": o} for l, o in short[:1] + short[2::max(1, len(short) // 4)][:4]]
    rep.cov["disagreements"] = len(dis)
    rep.cov["input_distribution"] = dist
    rep.cov["design_ref"] = "DESIGN.md 8.C17"
    return rep.finish()


def replay(prop, data):
    r = data.get("replay", {})
    c = r.get("case") or r.get("first_disagreeing_case")
    if not c:
        print("nothing to replay")
        return 2
    print(common.run_harness("mac", [c], shards=1)[0])
    return 0
