(* Helper definitions used in the STATEMENTS of C01..C04 (not part of the models, never
   extracted): what a list of builder calls supplies, the full metric name, the hypotheses
   of the round trip, and the sink script a call of a sequence gets to see. *)
Require Import Cadence.Base.Prelude.
Require Import Cadence.Base.Decimal.
Require Import Cadence.Model.Convert.
Require Import Cadence.Model.Wire.
Require Import Cadence.Model.Client.

Definition or_else {A : Type} (a b : option A) : option A :=
  match a with Some x => Some x | None => b end.

(* ------------------------------------------------------------------ what the builder calls supply *)
(* the tags added to the call, in the order of the calls *)
Fixpoint op_tags (ops : list bop) : list tag :=
  match ops with
  | [] => []
  | WithTag k v :: r => (Some k, v) :: op_tags r
  | WithTagValue v :: r => (None, v) :: op_tags r
  | _ :: r => op_tags r
  end.

(* the LAST sampling rate / container id / timestamp given, if any *)
Fixpoint op_rate (ops : list bop) : option str :=
  match ops with
  | [] => None
  | o :: r => or_else (op_rate r) (match o with WithSamplingRate x => Some x | _ => None end)
  end.
Fixpoint op_container (ops : list bop) : option str :=
  match ops with
  | [] => None
  | o :: r => or_else (op_container r) (match o with WithContainerId x => Some x | _ => None end)
  end.
Fixpoint op_timestamp (ops : list bop) : option N :=
  match ops with
  | [] => None
  | o :: r => or_else (op_timestamp r) (match o with WithTimestamp x => Some x | _ => None end)
  end.

(* ------------------------------------------------------------------ the metric name *)
(* the key alone for an empty prefix; otherwise the prefix without its trailing dots, one
   dot, the key *)
Definition full_name (prefix key : str) : str :=
  match prefix with [] => key | _ => trim_end_dots prefix ++ b_dot :: key end.

(* ------------------------------------------------------------------ hypotheses of the round trip *)
(* every supplied text is free of the six delimiter bytes *)
Definition tag_ok (t : tag) : bool :=
  match t with (Some k, v) => clean k && clean v | (None, v) => clean v end.
Definition bop_ok (o : bop) : bool :=
  match o with
  | WithTag k v => clean k && clean v
  | WithTagValue v => clean v
  | WithContainerId c => clean c
  | WithTimestamp _ => true
  | WithSamplingRate r => clean r            (* std's text of the f64 rate *)
  end.
Definition opt_clean (o : option str) : bool := match o with Some s => clean s | None => true end.
(* float texts (std's Display) inside a value *)
Definition mvalue_ok (v : mvalue) : bool :=
  match v with Float t => clean t | PackedFloat l => forallb clean l | _ => true end.
Definition arg_ok (a : arg) : bool :=
  match a with AF64 t => clean t | AVecF64 l => forallb clean l | AUser v => mvalue_ok v | _ => true end.
Definition config_ok (cfg : config) : bool :=
  clean (c_prefix cfg) && forallb tag_ok (c_tags cfg) && opt_clean (c_container cfg).
Definition call_ok (c : call) : bool :=
  clean (k_key c) && arg_ok (k_arg c) && forallb bop_ok (k_ops c).

(* ------------------------------------------------------------------ sequences of calls *)
(* is the call's value accepted (a line is produced)? *)
Definition accepted (cfg : config) (c : call) : bool :=
  match client_line cfg c with Some (inr _) => true | _ => false end.

(* the sink script left after a sequence of calls: fold of send_call's second component *)
Fixpoint script_after (cfg : config) (cs : list (form * call)) (script : list sink_outcome)
  : list sink_outcome :=
  match cs with
  | [] => script
  | (fm, c) :: r =>
    match send_call cfg fm c script with
    | Some (_, script') => script_after cfg r script'
    | None => script
    end
  end.

(* the sink's answer to the next emit (an exhausted script accepts) *)
Definition next_outcome (script : list sink_outcome) : sink_outcome :=
  match script with [] => Accept | o :: _ => o end.
