(* Audit item A.24: a user-defined value type whose To*Value impl returns Err(e).

   Model extension (Model/Convert.v, Wire.v, Client.v): [merror] now lives in Convert.v, the
   conversion [to_value] carries the error ([option (merror + mvalue)]), the argument type has
   the constructor [AUserErr e] with [to_value k (AUserErr e) = Some (inl e)] for every kind, and
   [send_call] reports the error of a rejection as it is.  This file proves the clauses about the
   new constructor: such a call is never ill-typed, hands nothing to the sink, consumes no answer
   of the sink, reports exactly [e] (returned by try_send / the plain method, handed once to the
   error handler by the quiet form and by the macros), and is invisible to the other calls of a
   sequence.  It also proves the converse (where a reported error can come from). *)
Require Import Cadence.Base.Prelude.
Require Import Cadence.Base.Decimal.
Require Import Cadence.Model.Convert.
Require Import Cadence.Model.Wire.
Require Import Cadence.Model.Client.
Require Import Cadence.Model.Macro.
Require Import Cadence.Proofs.WireDefs.
Require Import Cadence.Proofs.WireProofs.
Require Import Cadence.Proofs.ClientProofs.
Require Import Cadence.Proofs.MacroProofs.

(* ================================================================== the conversion and the text *)
(* the outcome of a call whose argument's conversion fails with [e], by call form *)
Definition user_error_outcome (fm : form) (e : merror) : outcome1 :=
  match fm with
  | Quiet => {| o_ret := RUnit; o_emitted := []; o_handled := [e] |}
  | _ => {| o_ret := RError e; o_emitted := []; o_handled := [] |}
  end.

(* for EVERY kind the call type-checks (the impl is the user's) and the conversion answers
   exactly [e]; no MetricValue is produced *)
Theorem user_error_conversion : forall k e,
  to_value k (AUserErr e) = Some (inl e) /\
  to_value k (AUserErr e) <> None /\
  (forall v, to_value k (AUserErr e) <> Some (inr v)) /\
  (forall e', to_value k (AUserErr e) = Some (inl e') -> e' = e).
Proof.
  intros k e. rewrite to_value_user_err. repeat split; try discriminate. intros e' H. congruence.
Qed.
Print Assumptions user_error_conversion.

(* the answer of the client for the call: the error, whatever the configuration, the kind,
   the key and the builder calls; never a line; the model of the tree before the fix of D1
   agrees (the defect concerned empty packed values only) *)
Theorem user_error_line : forall cfg c e,
  k_arg c = AUserErr e ->
  client_line cfg c = Some (inl e) /\
  client_line_v0 cfg c = Some (inl e) /\
  build cfg c = Some (inl e) /\
  accepted cfg c = false /\
  (forall l, client_line cfg c <> Some (inr l)).
Proof.
  intros cfg c e Ha.
  assert (E : client_line cfg c = Some (inl e)) by (apply client_line_user_err; exact Ha).
  split; [exact E|]. split; [unfold client_line_v0; rewrite Ha, to_value_user_err; reflexivity|].
  split; [unfold build; rewrite Ha, to_value_user_err; reflexivity|].
  split; [unfold accepted; rewrite E; reflexivity|]. intros l. rewrite E. discriminate.
Qed.
Print Assumptions user_error_line.

(* conversely, where an error of the conversion / of the text can come from *)
Theorem conversion_error_source : forall k a e,
  to_value k a = Some (inl e) ->
  (e = EInvalid /\ ((exists d, a = ADur d) \/ (exists l, a = AVecDur l) \/ a = AUserErr EInvalid)) \/
  (exists ki id, e = EIo ki id /\ a = AUserErr (EIo ki id)).
Proof.
  intros k a e H. destruct a as [z|z|n|n|t|d|l|l|l|u|ue];
    try (destruct k; cbn [to_value] in H; congruence).
  - destruct (to_value_err _ _ _ H) as [He|He]; [|discriminate]. left. split; [exact He|]. left. eauto.
  - destruct (to_value_err _ _ _ H) as [He|He]; [|discriminate]. left. split; [exact He|]. right; left. eauto.
  - rewrite to_value_user_err in H. inversion H; subst ue. destruct e as [|ki id].
    + left. split; [reflexivity|]. right; right. reflexivity.
    + right. exists ki, id. split; reflexivity.
Qed.
Print Assumptions conversion_error_source.

(* an error of kind IoError is never produced by the library's own conversions nor by the
   count check: only by a user's conversion *)
Theorem io_kind_only_from_user : forall cfg c e,
  client_line cfg c = Some (inl e) -> ekind e = IoError -> k_arg c = AUserErr e.
Proof.
  intros cfg c e H Hk. destruct (client_line_err _ _ _ H) as [He|He]; [|exact He].
  subst e. discriminate.
Qed.
Print Assumptions io_kind_only_from_user.

(* ================================================================== one call *)
(* complete description: defined for every kind, key, configuration, builder calls, form and
   script; the outcome is [user_error_outcome]; the script is handed back untouched *)
Theorem user_error_call : forall cfg fm c script e,
  k_arg c = AUserErr e ->
  send_call cfg fm c script = Some (user_error_outcome fm e, script).
Proof.
  intros cfg fm c script e Ha.
  rewrite (send_call_rejected cfg fm c script e (client_line_user_err cfg c e Ha)).
  destruct fm; reflexivity.
Qed.
Print Assumptions user_error_call.

(* the clauses spelled out *)
Theorem user_error_call_clauses : forall cfg fm c script e,
  k_arg c = AUserErr e ->
  send_call cfg fm c script <> None /\
  forall o script', send_call cfg fm c script = Some (o, script') ->
    o_emitted o = [] /\ script' = script /\
    match fm with
    | Quiet => o_ret o = RUnit /\ o_handled o = [e]
    | _ => o_ret o = RError e /\ o_handled o = []
    end.
Proof.
  intros cfg fm c script e Ha. rewrite (user_error_call cfg fm c script e Ha).
  split; [discriminate|]. intros o script' H. inversion H; subst. destruct fm; repeat split.
Qed.
Print Assumptions user_error_call_clauses.

(* the outcome does not depend on the kind, the key, the builder calls, the configuration or
   the sink's answers: two calls with the same failing argument and the same form have the same
   outcome *)
Theorem user_error_call_independent : forall cfg cfg' fm c c' script script' e,
  k_arg c = AUserErr e -> k_arg c' = AUserErr e ->
  option_map fst (send_call cfg fm c script) = option_map fst (send_call cfg' fm c' script').
Proof.
  intros cfg cfg' fm c c' script script' e Ha Ha'.
  rewrite (user_error_call cfg fm c script e Ha), (user_error_call cfg' fm c' script' e Ha'). reflexivity.
Qed.
Print Assumptions user_error_call_independent.

(* the three sources of a reported error, for ANY call: the library rejected the value
   (EInvalid, nothing emitted), the sink refused the line (its own I/O error, line emitted),
   or the user's conversion returned it (nothing emitted) *)
Theorem reported_error_source : forall cfg fm c script o script' e,
  send_call cfg fm c script = Some (o, script') ->
  (o_ret o = RError e \/ In e (o_handled o)) ->
  (e = EInvalid /\ client_line cfg c = Some (inl EInvalid) /\ o_emitted o = [] /\ script' = script) \/
  (exists k id l, e = EIo k id /\ next_outcome script = Refuse k id /\
                  client_line cfg c = Some (inr l) /\ o_emitted o = [l] /\ script' = tl script) \/
  (k_arg c = AUserErr e /\ o_emitted o = [] /\ script' = script).
Proof.
  intros cfg fm c script o script' e H Hr. destruct e as [|k id].
  - left. split; [reflexivity|]. exact (invalid_only_if_rejected _ _ _ _ _ _ H Hr).
  - destruct (io_error_source _ _ _ _ _ _ _ _ H Hr) as [[Hn [l [Hl He]]]|Hu].
    + right; left. exists k, id, l. split; [reflexivity|]. split; [exact Hn|]. split; [exact Hl|].
      split; [exact He|]. destruct (emitted_exact _ _ _ _ _ _ H) as [_ Hs]. rewrite Hs.
      unfold accepted. rewrite Hl. reflexivity.
    + right; right. exact Hu.
Qed.
Print Assumptions reported_error_source.

(* an I/O error reported although nothing was handed to the sink is the user's *)
Theorem io_error_without_emit : forall cfg fm c script o script' k id,
  send_call cfg fm c script = Some (o, script') ->
  (o_ret o = RError (EIo k id) \/ In (EIo k id) (o_handled o)) ->
  (o_emitted o = [] <-> k_arg c = AUserErr (EIo k id)).
Proof.
  intros cfg fm c script o script' k id H Hr.
  destruct (io_error_source _ _ _ _ _ _ _ _ H Hr) as [[_ [l [_ He]]]|[Hu [He _]]].
  - split; [intros E; rewrite E in He; discriminate|].
    intros Hu. rewrite (user_error_call cfg fm c script _ Hu) in H. inversion H; subst.
    destruct fm; reflexivity.
  - split; [intros _; exact Hu|intros _; exact He].
Qed.
Print Assumptions io_error_without_emit.

(* ================================================================== sequences *)
Lemma send_calls_app : forall cfg cs1 cs2 script,
  send_calls cfg (cs1 ++ cs2) script =
  match send_calls cfg cs1 script with
  | None => None
  | Some os1 => match send_calls cfg cs2 (script_after cfg cs1 script) with
                | None => None
                | Some os2 => Some (os1 ++ os2)
                end
  end.
Proof.
  intros cfg cs1. induction cs1 as [|[fm c] r IH]; intros cs2 script.
  - cbn [app send_calls script_after]. destruct (send_calls cfg cs2 script); reflexivity.
  - cbn [app send_calls script_after]. destruct (send_call cfg fm c script) as [[o s']|]; [|reflexivity].
    rewrite IH. destruct (send_calls cfg r s') as [os1|]; [|reflexivity].
    destruct (send_calls cfg cs2 (script_after cfg r s')) as [os2|]; reflexivity.
Qed.

Lemma script_after_app : forall cfg cs1 cs2 script,
  send_calls cfg cs1 script <> None ->
  script_after cfg (cs1 ++ cs2) script = script_after cfg cs2 (script_after cfg cs1 script).
Proof.
  intros cfg cs1. induction cs1 as [|[fm c] r IH]; intros cs2 script H; [reflexivity|].
  cbn [app send_calls script_after] in *. destruct (send_call cfg fm c script) as [[o s']|]; [|congruence].
  apply IH. destruct (send_calls cfg r s'); [discriminate|congruence].
Qed.

(* at the head of a sequence: its outcome, then the outcomes of the rest against the SAME script *)
Theorem user_error_head : forall cfg fm c cs script e,
  k_arg c = AUserErr e ->
  send_calls cfg ((fm, c) :: cs) script =
  option_map (cons (user_error_outcome fm e)) (send_calls cfg cs script) /\
  script_after cfg ((fm, c) :: cs) script = script_after cfg cs script.
Proof.
  intros cfg fm c cs script e Ha. cbn [send_calls script_after].
  rewrite (user_error_call cfg fm c script e Ha). split; [|reflexivity].
  destruct (send_calls cfg cs script); reflexivity.
Qed.
Print Assumptions user_error_head.

(* anywhere in a sequence: the outcomes are those of the sequence WITHOUT the call, with
   [user_error_outcome] inserted at its position -- the calls before it and after it see exactly
   the scripts they would see without it, and the script left over is the same *)
Theorem user_error_invisible : forall cfg cs1 fm c cs2 script e,
  k_arg c = AUserErr e ->
  send_calls cfg (cs1 ++ (fm, c) :: cs2) script =
  option_map (fun os => firstn (length cs1) os ++ user_error_outcome fm e :: skipn (length cs1) os)
             (send_calls cfg (cs1 ++ cs2) script) /\
  script_after cfg (cs1 ++ (fm, c) :: cs2) script = script_after cfg (cs1 ++ cs2) script.
Proof.
  intros cfg cs1 fm c cs2 script e Ha. split.
  - rewrite !send_calls_app.
    destruct (send_calls cfg cs1 script) as [os1|] eqn:E1; [|reflexivity].
    destruct (user_error_head cfg fm c cs2 (script_after cfg cs1 script) e Ha) as [Hh _]. rewrite Hh.
    destruct (send_calls cfg cs2 (script_after cfg cs1 script)) as [os2|]; [|reflexivity].
    cbn [option_map]. rewrite <- (send_calls_length _ _ _ _ E1).
    rewrite firstn_app, skipn_app, Nat.sub_diag, firstn_all, skipn_all. cbn [firstn skipn].
    rewrite app_nil_r. reflexivity.
  - destruct (send_calls cfg cs1 script) as [os1|] eqn:E1.
    + rewrite !script_after_app by congruence.
      exact (proj2 (user_error_head cfg fm c cs2 (script_after cfg cs1 script) e Ha)).
    + (* a stuck prefix: script_after stops at the same ill-typed call in both sequences *)
      clear Ha. revert script E1. induction cs1 as [|[fm1 c1] r IH]; intros script E1; [discriminate|].
      cbn [app send_calls script_after] in *.
      destruct (send_call cfg fm1 c1 script) as [[o s']|]; [|reflexivity].
      apply IH. destruct (send_calls cfg r s'); [discriminate|reflexivity].
Qed.
Print Assumptions user_error_invisible.

(* in the terms of the pinned sequence theorem c03_sequence: the i-th call of a sequence, when
   its argument is a failing user value, has exactly [user_error_outcome], and it is not counted
   among the calls that consume an answer of the sink *)
Theorem user_error_nth : forall cfg cs script os i fm c e,
  send_calls cfg cs script = Some os ->
  nth_error cs i = Some (fm, c) -> k_arg c = AUserErr e ->
  nth_error os i = Some (user_error_outcome fm e) /\
  length (filter (fun fc => accepted cfg (snd fc)) (firstn (S i) cs)) =
  length (filter (fun fc => accepted cfg (snd fc)) (firstn i cs)).
Proof.
  intros cfg cs script os i fm c e H Hi Ha. split.
  - destruct (send_calls_nth _ _ _ _ H i fm c Hi) as [o [Ho Hs]].
    rewrite (user_error_call cfg fm c _ e Ha) in Hs. inversion Hs; subst. exact Ho.
  - clear H. revert i Hi. induction cs as [|[fm0 c0] r IH]; intros i Hi; [destruct i; discriminate|].
    destruct i as [|i].
    + cbn [nth_error] in Hi. inversion Hi; subst. cbn [firstn filter snd].
      rewrite (proj1 (proj2 (proj2 (proj2 (user_error_line cfg c e Ha))))). reflexivity.
    + cbn [nth_error] in Hi. specialize (IH i Hi).
      change (firstn (S (S i)) ((fm0, c0) :: r)) with ((fm0, c0) :: firstn (S i) r).
      change (firstn (S i) ((fm0, c0) :: r)) with ((fm0, c0) :: firstn i r).
      cbn [filter snd]. destruct (accepted cfg c0); cbn [length]; rewrite IH; reflexivity.
Qed.
Print Assumptions user_error_nth.

(* ================================================================== the macros *)
(* statsd_count!(key, val, tags...) and friends with a failing user value: no panic, the key,
   the value and every tag expression are evaluated exactly once in the written order, nothing is
   handed to the global client's sink, no answer of it consumed, and its error handler gets
   exactly [e] once *)
Theorem user_error_macro : forall cfg inv script e,
  i_arg inv = AUserErr e ->
  let s := run_macro (Some cfg) inv script in
  m_panicked s = false /\ m_stuck s = false /\
  m_evals s = eval_order (length (i_tags inv)) /\
  m_emitted s = [] /\ m_handled s = [e] /\ m_script s = script.
Proof.
  intros cfg inv script e Ha. cbv zeta.
  destruct (macro_equiv cfg inv script) as (P & Ev & M).
  assert (Hr : k_arg (reference_call inv) = AUserErr e) by exact Ha.
  rewrite (user_error_call cfg Quiet (reference_call inv) script e Hr) in M.
  destruct M as (St & Em & Ha' & Sc). cbn [user_error_outcome o_emitted o_handled] in Em, Ha'.
  repeat split; assumption.
Qed.
Print Assumptions user_error_macro.

(* ================================================================== non-vacuity *)
(* a user's InvalidInput error and a user's I/O error (kind 5, payload 9) between accepted
   calls, against the script [refuse(7,1); accept]: the failing calls consume nothing, the
   refusal goes to the first sent call and the acceptance to the second; the I/O error of the
   user is reported although the sink never refused it *)
Example user_error_witness :
  let cfg := {| c_prefix := []; c_tags := []; c_container := None |} in
  let ok := {| k_kind := Counter; k_key := [107]%N; k_arg := AI64 1; k_ops := [] |} in
  let uinv := {| k_kind := Gauge; k_key := [107]%N; k_arg := AUserErr EInvalid; k_ops := [] |} in
  let uio := {| k_kind := SetK; k_key := [107]%N; k_arg := AUserErr (EIo 5 9);
                k_ops := [WithTagValue [116]%N] |} in
  let line := [107; 58; 49; 124; 99]%N in
  send_calls cfg [(TrySend, uio); (Quiet, ok); (Plain, uinv); (Quiet, uio); (Quiet, uinv); (TrySend, ok)]
             [Refuse 7 1; Accept] =
  Some [ {| o_ret := RError (EIo 5 9); o_emitted := []; o_handled := [] |};
         {| o_ret := RUnit; o_emitted := [line]; o_handled := [EIo 7 1] |};
         {| o_ret := RError EInvalid; o_emitted := []; o_handled := [] |};
         {| o_ret := RUnit; o_emitted := []; o_handled := [EIo 5 9] |};
         {| o_ret := RUnit; o_emitted := []; o_handled := [EInvalid] |};
         {| o_ret := ROkMetric line; o_emitted := [line]; o_handled := [] |} ] /\
  send_calls cfg [(Quiet, ok); (TrySend, ok)] [Refuse 7 1; Accept] =
  Some [ {| o_ret := RUnit; o_emitted := [line]; o_handled := [EIo 7 1] |};
         {| o_ret := ROkMetric line; o_emitted := [line]; o_handled := [] |} ] /\
  map (fun k => to_value k (AUserErr (EIo 5 9)))
      [Counter; Timer; Gauge; Meter; Histogram; Distribution; SetK] = repeat (Some (inl (EIo 5 9))) 7 /\
  ekind EInvalid = InvalidInput /\ ekind (EIo 5 9) = IoError.
Proof. vm_compute. repeat split. Qed.
Print Assumptions user_error_witness.

Example user_error_macro_witness :
  let cfg := {| c_prefix := []; c_tags := []; c_container := None |} in
  let inv := {| i_macro := StatsdGauge; i_key := [107]%N; i_arg := AUserErr (EIo 5 9);
                i_tags := [([97]%N, [98]%N)] |} in
  let s := run_macro (Some cfg) inv [Refuse 7 1] in
  (m_panicked s, m_stuck s, m_emitted s, m_handled s, m_script s, m_evals s) =
  (false, false, [], [EIo 5 9], [Refuse 7 1], [XKey; XVal; XTagKey 0; XTagVal 0]).
Proof. vm_compute. reflexivity. Qed.
Print Assumptions user_error_macro_witness.
