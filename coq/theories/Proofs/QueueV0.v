(* The pinned tree's Drop semantics ([step false]: every handle drop sends a stop marker; a
   full queue loses it) violates C08 and C09: concrete histories accepted by [run false], and
   proofs that NO continuation whatsoever repairs them. *)
Require Import Cadence.Base.Prelude.
Require Import Cadence.Model.Queue.
Require Import Cadence.Proofs.QueueInv.
Require Import Cadence.Proofs.QueueLive.

Ltac step_inv_room H :=
  unfold step, stop, put, upd_wk, room in H;
  repeat match type of H with
         | context [match ?x with _ => _ end] => destruct x eqn:?
         end;
  try discriminate; try congruence; injection H as <- <-.

(* once the worker has exited nothing is ever delivered again, whatever happens (both semantics) *)
Lemma exited_step fixed s ev s' r : step fixed s ev = Some (s', r) -> q_wk s = WExited ->
  q_wk s' = WExited /\ q_delivered s' = q_delivered s.
Proof.
  intros H Hw.
  destruct ev; unfold step, stop, put, upd_wk, room in H; prj_in H; rewrite ?Hw in H;
    step_inv_room H; prj; auto; try congruence.
  rewrite andb_false_r in *. discriminate.
Qed.

Lemma exited_run fixed evs : forall s s' rs, run fixed s evs = Some (s', rs) -> q_wk s = WExited ->
  q_wk s' = WExited /\ q_delivered s' = q_delivered s.
Proof.
  induction evs as [|ev evs IH]; intros s s' rs H Hw; cbn [run] in H.
  - injection H as <- _. auto.
  - destruct (step fixed s ev) as [[s1 x]|] eqn:E; [|discriminate].
    destruct (run fixed s1 evs) as [[s2 xs]|] eqn:E2; [|discriminate].
    injection H as <- _. destruct (exited_step _ _ _ _ _ E Hw) as [A B].
    destruct (IH _ _ _ E2 A) as [C D]. split; congruence.
Qed.

(* D2: a clone is dropped, the shared worker takes the marker and exits; the surviving handle's
   emit returns Ok (identity 0 is accepted) and is never delivered, under any continuation *)
Theorem c08_refuted cap handler : cap <> Some 0 ->
  exists s, run false (init_q cap handler) [EClone; EDropH; EWDequeue; EWStep; ETrySend]
              = Some (s, [RNone; RNone; RNone; RNone; ROk]) /\
    q_handles s = 1 /\ q_accepted s = 1 /\ q_delivered s = [] /\
    (forall evs' s' rs', run false s evs' = Some (s', rs') -> q_delivered s' = [] /\ q_wk s' = WExited) /\
    (forall fuel outs, q_delivered (quiesce false fuel s outs) = []).
Proof.
  intro Hc.
  assert (H : exists s, run false (init_q cap handler) [EClone; EDropH; EWDequeue; EWStep; ETrySend]
              = Some (s, [RNone; RNone; RNone; RNone; ROk]) /\
              q_handles s = 1 /\ q_accepted s = 1 /\ q_delivered s = [] /\ q_wk s = WExited).
  { destruct cap as [[|c]|]; [congruence| |]; eexists; (split; [vm_compute; reflexivity|]);
      prj; auto. }
  destruct H as (s & R & Eh & Ea & Ed & Ew). exists s.
  split; [exact R|]. split; [exact Eh|]. split; [exact Ea|]. split; [exact Ed|]. split.
  - intros evs' s' rs' R'. destruct (exited_run _ _ _ _ _ R' Ew) as [A B]. split; congruence.
  - intros fuel outs. destruct (quiesce_run false fuel s outs) as (wevs & wrs & _ & R').
    destruct (exited_run _ _ _ _ _ R' Ew) as [A B]. congruence.
Qed.

(* D3: no handle, no marker anywhere: the worker can never exit (pinned semantics) *)
Lemma nomarker_step s ev s' r : step false s ev = Some (s', r) ->
  q_handles s = 0 -> markers s = 0 -> q_handles s' = 0 /\ markers s' = 0.
Proof.
  intros H Hh Hm. unfold markers in *.
  assert (Ep : q_pill_pending s = false) by (destruct (q_pill_pending s); [lia | reflexivity]).
  destruct ev; unfold step in H; rewrite ?Ep in H; cbn [andb] in H;
    step_inv_room H; prj; cbn [nones wk_marker] in *; auto; try lia; try congruence.
  match goal with o : option nat |- _ => destruct o end; cbn [nones] in *; split; lia.
Qed.

Lemma nomarker_run evs : forall s s' rs, run false s evs = Some (s', rs) ->
  q_handles s = 0 -> markers s = 0 -> q_handles s' = 0 /\ markers s' = 0.
Proof.
  induction evs as [|ev evs IH]; intros s s' rs H Hh Hm; cbn [run] in H.
  - injection H as <- _. auto.
  - destruct (step false s ev) as [[s1 x]|] eqn:E; [|discriminate].
    destruct (run false s1 evs) as [[s2 xs]|] eqn:E2; [|discriminate].
    injection H as <- _. destruct (nomarker_step _ _ _ _ E Hh Hm) as [A B].
    exact (IH _ _ _ E2 A B).
Qed.

Lemma nomarker_not_exited s : markers s = 0 -> q_wk s <> WExited /\ sink_released s = false.
Proof.
  unfold markers, sink_released. intro H.
  destruct (q_wk s); cbn [wk_marker] in H; try lia; (split; [discriminate|]); destruct (q_handles s); reflexivity.
Qed.

Definition never_exits (s : qstate) : Prop :=
  q_handles s = 0 /\
  (forall evs' s' rs', run false s evs' = Some (s', rs') -> q_wk s' <> WExited /\ sink_released s' = false) /\
  (forall fuel outs, q_wk (quiesce false fuel s outs) <> WExited /\
                     sink_released (quiesce false fuel s outs) = false).

Lemma nomarker_never s : q_handles s = 0 -> markers s = 0 -> never_exits s.
Proof.
  intros Hh Hm. split; [exact Hh|]. split.
  - intros evs' s' rs' R. destruct (nomarker_run _ _ _ _ R Hh Hm) as [_ B].
    apply nomarker_not_exited; exact B.
  - intros fuel outs. destruct (quiesce_run false fuel s outs) as (wevs & wrs & _ & R).
    destruct (nomarker_run _ _ _ _ R Hh Hm) as [_ B]. apply nomarker_not_exited; exact B.
Qed.

(* capacity 1, the queue is full when the last handle is dropped: the marker is lost *)
Theorem c09_refuted handler :
  exists s, run false (init_q (Some 1) handler) [ETrySend; EIncSubmitted; EDropH]
              = Some (s, [ROk; RNone; RNone]) /\ never_exits s.
Proof.
  eexists. split; [vm_compute; reflexivity|]. apply nomarker_never; reflexivity.
Qed.

(* capacity 0 (rendezvous), the worker is busy when the last handle is dropped *)
Theorem c09_refuted_cap0 handler :
  exists s, run false (init_q (Some 0) handler) [ETrySend; EDropH]
              = Some (s, [ROk; RNone]) /\ never_exits s.
Proof.
  eexists. split; [vm_compute; reflexivity|]. apply nomarker_never; reflexivity.
Qed.

(* capacity 2, schedule-independent variant: the wrapped sink is held on metric 0 *)
Theorem c09_refuted_cap2 handler :
  exists s, run false (init_q (Some 2) handler)
              [ETrySend; EWDequeue; EWStep; ETrySend; ETrySend; ETrySend; EDropH]
              = Some (s, [ROk; RNone; RNone; ROk; ROk; RFull; RNone]) /\ never_exits s.
Proof.
  eexists. split; [vm_compute; reflexivity|]. apply nomarker_never; reflexivity.
Qed.

(* in general: whenever the last handle is dropped while there is no room, the marker is lost *)
Theorem c09_refuted_general s : q_handles s = 1 -> markers s = 0 -> room s = false ->
  exists s', step false s EDropH = Some (s', RNone) /\ never_exits s'.
Proof.
  intros Hh Hm Er. cbn [step]. rewrite Hh. eexists. split; [reflexivity|].
  unfold stop.
  match goal with |- context [room ?x] => change (room x) with (room s) end.
  rewrite Er. apply nomarker_never; [reflexivity | exact Hm].
Qed.
