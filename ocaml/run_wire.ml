(* model: wire *)
(* include: wireparse *)
(* model side of harness bin `wire` (formats: harness/src/wire.rs); float arguments arrive
   as the hex of std's Display text instead of bit patterns *)

let rec take n l = if n = 0 then [] else match l with [] -> [] | x :: r -> x :: take (n - 1) r
let rec drop n l = if n = 0 then l else match l with [] -> [] | _ :: r -> drop (n - 1) r

let run_x t =
  match t with
  | _ :: prefix :: dtags :: dcid :: script :: n :: rest ->
    let cfg = { c_prefix = unhex0 prefix; c_tags = parse_dtags dtags;
                c_container = (if dcid = "~" then None else Some (unhex0 dcid)) } in
    let n = int_of_string n in
    let rec go i rest script acc =
      if i = n then List.rev acc else
      match rest with
      | form :: kind :: arg :: key :: ops :: rest' ->
        let c = { k_kind = parse_kind kind; k_key = unhex0 key; k_arg = parse_arg arg; k_ops = parse_ops ops } in
        (match send_call cfg (parse_form form) c script with
         | None -> go (i + 1) rest' script ("notype,~,~" :: acc)
         | Some (o, script') -> go (i + 1) rest' script' (show_outcome o :: acc))
      | _ -> failwith "short X case" in
    String.concat "|" (go 0 rest (parse_script script) [])
  | _ -> failwith "bad X case"

let run_k t =
  match t with
  | [_; kind; prefix; key; arg] ->
    let v = match (kind, parse_arg arg) with
      | ("c", AI64 z) | ("s", AI64 z) -> Some (Signed z)
      | (("ms" | "g" | "m" | "h" | "d"), AU64 n) -> Some (Unsigned n)
      | (("g" | "h" | "d"), AF64 tx) -> Some (Float tx)
      | _ -> None in
    (match v with
     | None -> "notype"
     | Some v -> hex0 (ctor_line (parse_kind kind) (unhex0 prefix) (unhex0 key) v))
  | _ -> failwith "bad K case"

let run_case line =
  let t = tokens line in
  match t with
  | "X" :: _ | "Y" :: _ -> run_x t
  | "K" :: _ -> run_k t
  | _ -> failwith ("bad wire case: " ^ line)
