//! C18, compile-time part: this program must NOT compile.  It shares a `SingletonHolder<Cell<u64>>` between two
//! threads; `Cell` is `Send` but not `Sync`, and the holder hands out `Arc<T>` aliases of its one value to every
//! thread that can reach it, so `SingletonHolder<T>: Sync` must require `T: Sync` (the `unsafe impl` in
//! cadence-macros/src/state.rs).  The C18 check builds this example and expects error E0277; if it builds, the
//! check runs it: the second thread then writes through the first thread's `Cell` without any synchronisation.
use cadence_macros::SingletonHolder;
use std::cell::Cell;

fn main() {
    let holder: SingletonHolder<Cell<u64>> = SingletonHolder::new();
    holder.set(Cell::new(7));
    let mine = holder.get().expect("set");
    std::thread::scope(|s| {
        s.spawn(|| {
            if let Some(c) = holder.get() {
                c.set(42);
            }
        });
    });
    println!("unsound: a second thread wrote {} through a !Sync value obtained from the holder", mine.get());
}
