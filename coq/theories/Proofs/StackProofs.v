(* The stack client -> queuing sink -> buffered sink, end to end: what the queue machine delivers
   to its wrapped sink (C08/C09) is what the line-buffering writer is driven with (C06). *)
Require Import Cadence.Base.Prelude.
Require Import Cadence.Model.Writer.
Require Import Cadence.Model.Queue.
Require Import Cadence.Proofs.WriterBase.
Require Import Cadence.Proofs.WriterInv.
Require Import Cadence.Proofs.WriterRun.
Require Import Cadence.Proofs.WriterThms.
Require Import Cadence.Proofs.QueueInv.
Require Import Cadence.Proofs.QueueLive.

(* the calls the wrapped (buffered) sink receives: one emit per delivered metric, [pay i] being the
   text of the metric accepted as number i *)
Definition delivered_ops (pay : nat -> str) (dl : list (nat * soutcome)) : list op :=
  map (fun d => Emit (pay (fst d))) dl.

Lemma emitted_seq pay n : forall k,
  emitted k (map (fun i => Emit (pay i)) (seq k n)) = map (fun i => (i, pay i)) (seq k n).
Proof.
  induction n as [|n IH]; intros k; [reflexivity|].
  cbn [seq map emitted]. now rewrite IH.
Qed.

Lemma delivered_ops_seq pay dl n :
  map fst dl = seq 0 n -> delivered_ops pay dl = map (fun i => Emit (pay i)) (seq 0 n).
Proof. intros H. unfold delivered_ops. rewrite <- H, map_map. reflexivity. Qed.

(* once the worker has exited: the buffered sink behind the queue has been handed exactly the
   accepted metrics 0 .. n-1, in acceptance order, and (its socket never failing) has written each
   fitting one exactly once in whole lines, in that order, and each oversized one exactly once alone *)
Theorem stack_conservation cap handler evs s rs c e pay rs' w :
  Queue.run true (init_q cap handler) evs = Some (s, rs) -> q_wk s = WExited ->
  Writer.run c e [] (delivered_ops pay (q_delivered s)) = (rs', w) ->
  map fst (q_delivered s) = seq 0 (q_accepted s) /\
  Forall2 (fun i x => x = OOk (length (pay i))) (seq 0 (q_accepted s)) rs' /\
  filter (nzb e) (sentL (lg w)) =
    filter (nzb e) (filter (fitg c e) (map (fun i => (i, pay i)) (seq 0 (q_accepted s)))) /\
  sentA (lg w) = filter (fun g => negb (fitg c e g)) (map (fun i => (i, pay i)) (seq 0 (q_accepted s))).
Proof.
  intros R E W. destruct (reach_exited _ _ _ _ _ R E) as (_ & _ & _ & D).
  split; [exact D|].
  rewrite (delivered_ops_seq pay _ _ D) in W.
  destruct (fault_free_conserve _ _ _ _ _ W) as (A & B & _).
  rewrite emitted_seq in A, B. split; [|split; assumption].
  unfold Writer.run in W.
  destruct (run_from (init c e []) 0 (map (fun i => Emit (pay i)) (seq 0 (q_accepted s)))) as [r0 s0] eqn:R0.
  inversion W; subst rs'. pose proof (fault_free_all_ok _ _ _ _ _ R0) as F.
  clear -F. revert F. generalize (seq 0 (q_accepted s)). intros l. revert r0.
  induction l as [|i l IH]; intros r0 F; inversion F; subst; constructor; auto.
Qed.

(* ------------------------------------------------------------------ the stack under faults
   A buffered sink behind the queue: the outcome the worker sees for a delivered metric IS the
   result of the writer's emit for it.  [sout_of] is that reading: Ok -> the wrapped sink accepted,
   an error (Interrupted included: it is an io::Error like any other, id 0) -> it failed with that
   error, an arithmetic panic -> it panicked. *)
Definition sout_of (x : ores) : soutcome :=
  match x with OOk _ => SOk | OErr e => SErr (N.to_nat e) | OIntr => SErr 0 | OPanic => SPanic end.

(* the failures among the writer's results, with the identities of their metrics *)
Fixpoint werrs (ids : list nat) (xs : list ores) : list (nat * nat) :=
  match ids, xs with
  | i :: ids', x :: xs' =>
    match sout_of x with SErr e => (i, e) :: werrs ids' xs' | _ => werrs ids' xs' end
  | _, _ => []
  end.

Lemma errs_of_results : forall (dl : list (nat * soutcome)) xs,
  map snd dl = map sout_of xs -> errs dl = werrs (map fst dl) xs.
Proof.
  induction dl as [|[i o] dl IH]; intros xs H; destruct xs as [|x xs]; try discriminate; [reflexivity|].
  cbn in H. inversion H as [[Ho Hr]]. cbn [map fst errs werrs]. rewrite <- Ho.
  destruct o; rewrite (IH _ Hr); reflexivity.
Qed.

(* In every state of every history of the queue whose wrapped sink is the line-buffering writer
   (the outcomes in the delivery log are the writer's results for the delivered metrics, whatever
   the socket's fault script): the queue's error handler has been given exactly the writer's error
   results, each once, in order, with the identity of its metric; every error it was given is an
   error the socket returned during that very emit; every datagram is framed as C05 says; and
   the writer's ledger (C07) holds for the metrics whose emit returned Ok to the worker *)
Theorem stack_faults cap evs s rs c e script pay xs w :
  Queue.run true (init_q cap true) evs = Some (s, rs) ->
  Writer.run_from (init c e script) 0 (delivered_ops pay (q_delivered s)) = (xs, w) ->
  map snd (q_delivered s) = map sout_of xs ->
  q_handled s = werrs (map fst (q_delivered s)) xs /\
  (forall i er, nth_error xs i = Some (OErr er) ->
     exists a, In a (lg w) /\ a_op a = i /\ a_out a = WErr er) /\
  Forall (frame_ok c e) (lg w) /\
  filter (nzb e) (sentL (lg w) ++ bids w) =
    filter (nzb e) (fit_ids c e (acked 0 (delivered_ops pay (q_delivered s)) xs)) /\
  sentA (lg w) = big_ids c e (acked 0 (delivered_ops pay (q_delivered s)) xs).
Proof.
  intros R W H.
  split.
  - rewrite (reach_handled _ _ _ _ _ R). apply errs_of_results, H.
  - destruct (results_sound _ _ _ _ _ _ W) as (_ & _ & Err).
    destruct (ledger_reach _ _ _ _ _ _ W) as (L & A).
    destruct (reach_inv _ _ _ _ _ _ W) as (_ & _ & _ & atts & P).
    destruct P as [_ _ Lg _ Fr _ _ _ _ _ _]. cbn in Lg, Fr.
    split; [|split; [|split; assumption]].
    + intros i er Hn. exact (Err i (OErr er) Hn).
    + rewrite Lg. exact Fr.
Qed.
