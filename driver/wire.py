"""C01, C02, C03, C04: the text every metric call hands to the sink (builder.rs, client.rs,
types.rs).  Case generation, a direct evaluation of the property clauses on what the
implementation did (a reference written from the property statements, independent of the
Coq model), the correspondence run against the extracted model, entry-point census."""
import itertools
import os
import random
import re
import struct

from . import common
from .common import Report, case_hash

U64 = 2 ** 64 - 1
I64MIN, I64MAX = -2 ** 63, 2 ** 63 - 1
I32MIN, I32MAX = -2 ** 31, 2 ** 31 - 1
U32 = 2 ** 32 - 1
CODES = {"c": "c", "ms": "ms", "g": "g", "m": "m", "h": "h", "d": "d", "s": "s"}

# the 22 (kind, value type) entry points of client.rs + incr/decr
ENTRIES = [("c", "i64"), ("c", "i32"), ("c", "u64"), ("c", "u32"),
           ("ms", "u64"), ("ms", "dur"), ("ms", "vu64"), ("ms", "vdur"),
           ("g", "u64"), ("g", "f64"), ("m", "u64"),
           ("h", "u64"), ("h", "f64"), ("h", "dur"), ("h", "vu64"), ("h", "vf64"), ("h", "vdur"),
           ("d", "u64"), ("d", "f64"), ("d", "vu64"), ("d", "vf64"), ("s", "i64")]
EXTRA = [("c", "incr"), ("c", "decr")]
TRAITS = {"c": "Counter", "ms": "Timer", "g": "Gauge", "m": "Meter", "h": "Histogram", "d": "Distribution", "s": "Set"}
RUST_TY = {"i64": "i64", "i32": "i32", "u64": "u64", "u32": "u32", "f64": "f64", "dur": "Duration",
           "vu64": "Vec<u64>", "vf64": "Vec<f64>", "vdur": "Vec<Duration>"}
CTORS = [("c", "i64"), ("ms", "u64"), ("g", "u64"), ("g", "f64"), ("m", "u64"), ("h", "u64"), ("h", "f64"),
         ("d", "u64"), ("d", "f64"), ("s", "i64")]


def hx(s):
    b = s.encode() if isinstance(s, str) else s
    return b.hex() if b else "_"


def bits(x):
    return "%016x" % struct.unpack("<Q", struct.pack("<d", x))[0]


# ----------------------------------------------------------------------------- census

def census():
    """the set of (kind, value type) impls and MetricClient supertraits in the source text;
    a new entry point must not silently escape the quantifier of C01/C04"""
    src = open(os.path.join(common.REPO, "cadence", "src", "client.rs")).read()
    impls = set(re.findall(r"impl\s+To(\w+)Value\s+for\s+([A-Za-z0-9_<>]+)", src))
    want = set((TRAITS[k], RUST_TY[t]) for k, t in ENTRIES)
    m = re.search(r"pub trait MetricClient:(.*?)\{", src, re.S)
    supers = set(re.findall(r"(\w+)<([A-Za-z0-9_<>]+)>", m.group(1))) if m else set()
    verb = {"Counted": "Counter", "Timed": "Timer", "Gauged": "Gauge", "Metered": "Meter",
            "Histogrammed": "Histogram", "Distributed": "Distribution", "Setted": "Set"}
    supers = set((verb.get(a, a), b) for a, b in supers)
    problems = []
    if impls != want:
        problems.append("To*Value impls in client.rs %s differ from the harness table (extra: %s, missing: %s)" % (
            len(impls), sorted(impls - want), sorted(want - impls)))
    if supers != want:
        problems.append("MetricClient supertraits differ from the harness table (extra: %s, missing: %s)" % (
            sorted(supers - want), sorted(want - supers)))
    return len(impls), problems


# ----------------------------------------------------------------------------- values

I64_EDGE = [0, 1, -1, 7, -42, I64MIN, I64MAX, I64MIN + 1, I32MAX + 1, I32MIN - 1, 10 ** 18, -10 ** 18, 999, 1000, -1000,
            2 ** 53 + 1, -(2 ** 53 + 1), 2 ** 62 + 1, -(2 ** 62) - 1, 2 ** 24 + 1, 128, -129, 32767, -32768, 2 ** 32]
I32_EDGE = [0, 1, -1, I32MIN, I32MAX, 32768, -32769, 65536, 10 ** 9, -10 ** 9, 2 ** 24 + 1, -(2 ** 24) - 1, 127, -128, 32767]
U64_EDGE = [0, 1, 9, 10, 99, 100, U64, U64 - 1, 2 ** 63, 2 ** 63 - 1, 2 ** 32, U32, 10 ** 19, 10 ** 19 - 1, 12345678901234567890,
            2 ** 53 + 1, 2 ** 53 - 1, 2 ** 63 + 1025, 2 ** 24 + 1, 2 ** 31, 2 ** 16, 255, 256, 1727740800123456789]
U32_EDGE = [0, 1, U32, U32 - 1, 65535, 65536, 10 ** 9, 2 ** 31]
F64_EDGE = [0.0, -0.0, 1.0, -1.0, 0.5, 0.1, 0.2, 0.1 + 0.2, 1e21, 1e22, 1e300, 1.7976931348623157e308, 5e-324,
            2.2250738585072014e-308, 2.225073858507201e-308, 1e-7, 1e-5, 123456789.125, 9007199254740993.0,
            float("inf"), float("-inf"), float("nan"), 1.5, 2.5, 0.3, 1 / 3, 100.0, 1e15, 1e16, 1e17, 4.35, 0.000001,
            # around the integer types' limits (a value routed through an integer cast saturates or rounds there)
            2.0 ** 63, -2.0 ** 63, 9223372036854777856.0, -9223372036854777856.0, 9223372036854774784.0, 9.5e18, -9.5e18,
            1e18, 1e19, 9999999999999997952.0, 1e20, 2.0 ** 64, 18446744073709549568.0, 2.0 ** 53, 2.0 ** 53 + 2, 2.0 ** 53 - 1,
            2.0 ** 31, 2.0 ** 31 - 1, -2.0 ** 31, 2.0 ** 32, 4294967295.0, 65535.0, 65536.0, 255.0, 256.0, 127.0, 128.0,
            1e-320, 2.5e-323, 1e23, 8.41e21, 5e-5, 0.00001, 123456.7, 1e7, 9999999.0, 1.0000000000000002, 0.9999999999999999]
DUR_EDGE = [(0, 0), (0, 1), (0, 999999), (0, 1000000), (0, 999999999), (1, 0), (1, 5000000), (157, 0),
            (18446744073709551, 615000000), (18446744073709551, 615999999), (18446744073709551, 616000000),
            (18446744073709552, 0), (18446744073, 709551615), (18446744073, 709551616), (18446744074, 0),
            (U64, 999999999), (U64, 0), (2 ** 63, 0), (4294967295, 999999999)]


def rand_val(rng, ty):
    r = rng.random()
    if ty == "i64":
        return rng.choice(I64_EDGE) if r < 0.5 else rng.randint(I64MIN, I64MAX) if r < 0.8 else rng.randint(-1000, 1000)
    if ty == "i32":
        return rng.choice(I32_EDGE) if r < 0.5 else rng.randint(I32MIN, I32MAX)
    if ty == "u64":
        return rng.choice(U64_EDGE) if r < 0.5 else rng.randint(0, U64) if r < 0.8 else rng.randint(0, 100000)
    if ty == "u32":
        return rng.choice(U32_EDGE) if r < 0.5 else rng.randint(0, U32)
    if ty == "f64":
        if r < 0.5:
            return bits(rng.choice(F64_EDGE))
        if r < 0.6:
            return "%016x" % rng.getrandbits(64)
        if r < 0.75:
            # a whole number with a random binary magnitude 2^0 .. 2^70 and a random number of significant bits
            e = rng.randint(0, 70)
            k = rng.randint(1, 53)
            m = rng.getrandbits(k) | (1 << (k - 1))
            x = float(m) * 2.0 ** max(0, e - k + 1) if e >= k - 1 else float(m >> (k - 1 - e))
            return bits(x if rng.random() < 0.5 else -x)
        if r < 0.85:
            # uniform over binary exponents, subnormals included
            return "%016x" % ((rng.getrandbits(1) << 63) | (rng.randint(0, 2046) << 52) | rng.getrandbits(52))
        return bits(round(rng.uniform(-1000, 1000), rng.randint(0, 6)))
    if ty == "dur":
        if r < 0.6:
            return rng.choice(DUR_EDGE)
        return (rng.choice([0, 1, rng.randint(0, 10 ** 6), rng.randint(0, U64)]), rng.randint(0, 999999999))
    if ty in ("vu64", "vf64", "vdur"):
        n = rng.choice([0, 1, 1, 2, 3, 3, 5, 17]) if r < 0.9 else rng.randint(0, 60)
        l = [rand_val(rng, ty[1:]) for _ in range(n)]
        if n >= 2 and rng.random() < 0.35:
            l[rng.randrange(n - 1)] = l[-1]              # an earlier element equal to the last one
        if n >= 3 and rng.random() < 0.15:
            l[rng.randrange(1, n)] = l[0]                # ... or to the first
        return l
    raise ValueError(ty)


def arg_token(ty, v, ft=None):
    """[ft]: float bits -> hex of std's Display text (model side); None = bit patterns (implementation side)"""
    fx = (lambda b: ft[b][0]) if ft is not None else (lambda b: b)
    if ty in ("incr", "decr"):
        return ty
    if ty in ("i64", "i32", "u64", "u32"):
        return "%s:%d" % (ty, v)
    if ty == "f64":
        return "f64:" + fx(v)
    if ty == "dur":
        return "dur:%d.%d" % v
    if ty == "vu64":
        return "vu64:" + (";".join(str(x) for x in v) or "-")
    if ty == "vf64":
        return "vf64:" + (";".join(fx(x) for x in v) or "-")
    if ty == "vdur":
        return "vdur:" + (";".join("%d.%d" % x for x in v) or "-")
    if ty == "usererr":
        return "usererr:einv" if v is None else "usererr:eio:%d.%d" % v
    if ty == "user":
        var, w = v
        if var in ("s", "u"):
            return "user:%s:%d" % (var, w)
        if var == "f":
            return "user:f:" + fx(w)
        if var in ("ps", "pu"):
            return "user:%s:%s" % (var, ";".join(str(x) for x in w) or "-")
        return "user:pf:" + (";".join(fx(x) for x in w) or "-")
    raise ValueError(ty)


CLEAN_ALPHA = "abcxyzABC0189._-=/ +*!?~é漢🙂"
DELIMS = ":|#,@\n"


def rand_str(rng, mode, minlen=0):
    r = rng.random()
    if mode == "clean":
        n = rng.choice([minlen, 1, 2, 3, 5, 8, 13]) if r < 0.9 else rng.randint(minlen, 80)
        s = "".join(rng.choice(CLEAN_ALPHA) for _ in range(max(n, minlen)))
        if rng.random() < 0.15 and s:
            s = rng.choice(["T", "c", "Tc", "c1", "T9", "ms", "g"]) + s[1:]   # marker look-alikes
        q = rng.random()
        if q < 0.12:
            # whitespace and control characters at either end or inside (none is a DogStatsD delimiter): a trim, a
            # line split or a C-string boundary somewhere on the way would show
            w = rng.choice([" ", "  ", "\t", "\r", "\u00a0", "\u2028", "\u3000", "\0", "\x0b", "\x7f", " \t "])
            s = rng.choice([s + w, w + s, s[:len(s) // 2] + w + s[len(s) // 2:], w])
        return s
    n = rng.choice([0, 1, 2, 3, 6]) if r < 0.9 else rng.randint(0, 300)
    return "".join(rng.choice(CLEAN_ALPHA + DELIMS * 3) for _ in range(n))


PREFIXES = ["", "p", "pre.fix", "p.", "p...", "...", ".", "é.x", "a.b.c.", "..a"]


def rand_prefix(rng, mode):
    if rng.random() < 0.6:
        return rng.choice(PREFIXES)
    return rand_str(rng, mode) + rng.choice(["", ".", ".."])


def rand_ops(rng, mode, force=None):
    """builder calls; [force] = tuple of booleans (rate, tags, container, timestamp)"""
    ops = []
    want = force if force is not None else tuple(rng.random() < 0.4 for _ in range(4))
    if want[0]:
        # any finite rate is the caller's business: zero, negative zero, negative, above one, subnormal, huge
        ops.append(("r", bits(rng.choice([0.5, 0.1, 1.0, 0.001, 1e-7, 0.25, 0.3333333333333333, 0.0, -0.0, -0.5, -1.0, 1.5,
                                          5e-324, 1.7976931348623157e308, 100.0]))))
        if rng.random() < 0.2:
            ops.append(("r", bits(rng.choice([0.75, 2.0]))))
    if want[1]:
        for _ in range(rng.choice([1, 1, 2, 3, 5])):
            prev = [o for o in ops if o[0] in "tv"]
            if prev and rng.random() < 0.15:
                ops.append(rng.choice(prev))              # the very same tag again: it must appear again
            elif prev and rng.random() < 0.1 and prev[-1][0] == "t":
                ops.append(("t", prev[-1][1], rand_str(rng, mode)))     # same key, other value
            elif rng.random() < 0.6:
                ops.append(("t", rand_str(rng, mode), rand_str(rng, mode)))
            else:
                ops.append(("v", rand_str(rng, mode)))
    if want[2]:
        ops.append(("c", rand_str(rng, mode)))
        if rng.random() < 0.2:
            ops.append(("c", rand_str(rng, mode)))
    if want[3]:
        ops.append(("T", rng.choice([0, 1, 1234567890, U64, 10 ** 10])))
        if rng.random() < 0.2:
            ops.append(("T", rng.randint(0, U64)))
    if force is None:
        rng.shuffle(ops)
    return ops


def ops_token(ops, ft=None):
    out = []
    for o in ops:
        if o[0] == "t":
            out.append("t%s:%s" % (hx(o[1]), hx(o[2])))
        elif o[0] in ("v", "c"):
            out.append(o[0] + hx(o[1]))
        elif o[0] == "T":
            out.append("T%d" % o[1])
        else:
            out.append("r" + (ft[o[1]][0] if ft is not None else o[1]))
    return ",".join(out) or "-"


def dtags_token(dtags):
    return ",".join(("k%s:%s" % (hx(k), hx(v))) if k is not None else "v" + hx(v) for k, v in dtags) or "-"


def script_token(script):
    """None = accept (Ok(len)); ("a", n) = accept, answering Ok(n) for any n; (k, id) = refuse"""
    return ",".join("a" if o is None else ("a%d" % o[1]) if o[0] == "a" else "r%d.%d" % o for o in script) or "-"


class Case:
    """one client + a sequence of calls"""

    def __init__(self, prefix, dtags, dcid, script, calls, from_sink=False, nested=False):
        self.prefix, self.dtags, self.dcid, self.script, self.calls = prefix, dtags, dcid, script, calls
        # nested: the client's error handler itself makes a failing quiet send on the same client (once, not from the
        # nested invocation): that failure must reach the handler too
        self.nested = nested and not from_sink
        # from_sink: the client is constructed with StatsdClient::from_sink instead of the builder (possible when
        # there are no defaults and no quiet form, which needs the handler, is used)
        self.from_sink = from_sink and not dtags and dcid is None and all(c[0] != "Q" for c in calls)

    def line(self, ft=None):
        t = ["Y" if self.from_sink else "XN" if self.nested and ft is None else "X", hx(self.prefix), dtags_token(self.dtags), "~" if self.dcid is None else hx(self.dcid),
             script_token(self.script), str(len(self.calls))]
        for (form, kind, ty, v, key, ops) in self.calls:
            t += [form, kind, arg_token(ty, v, ft), hx(key), ops_token(ops, ft)]
        return " ".join(t)


def all_float_bits(cases):
    out = set()
    for c in cases:
        for (_, _, ty, v, _, ops) in c.calls:
            if ty == "f64":
                out.add(v)
            elif ty == "vf64":
                out.update(v)
            elif ty == "user" and v[0] == "f":
                out.add(v[1])
            elif ty == "user" and v[0] == "pf":
                out.update(v[1])
            for o in ops:
                if o[0] == "r":
                    out.add(o[1])
    return sorted(out)


# ----------------------------------------------------------------------------- reference (the property, directly)

def expected_values(kind, ty, v, ftext):
    """value texts per the property statements (C02), or None when the value must be rejected"""
    if ty == "incr":
        return ["1"]
    if ty == "decr":
        return ["-1"]
    if ty in ("i64", "i32", "u64", "u32"):
        return [str(v)]
    if ty == "f64":
        return [bytes.fromhex(ftext[v][0]).decode() if ftext[v][0] != "_" else ""]
    if ty == "dur":
        n = v[0] * 1000 + v[1] // 10 ** 6 if kind == "ms" else v[0] * 10 ** 9 + v[1]
        return None if n > U64 else [str(n)]
    if ty == "vu64":
        return [str(x) for x in v] or None
    if ty == "vf64":
        return [bytes.fromhex(ftext[x][0]).decode() for x in v] or None
    if ty == "vdur":
        ns = [(d[0] * 1000 + d[1] // 10 ** 6) if kind == "ms" else (d[0] * 10 ** 9 + d[1]) for d in v]
        if any(n > U64 for n in ns):
            return None
        return [str(n) for n in ns] or None
    if ty == "usererr":
        return None             # the user's conversion fails: nothing is sent, that very error is reported
    if ty == "user":
        var, w = v
        if var in ("s", "u"):
            return [str(w)]
        if var == "f":
            return [bytes.fromhex(ftext[w][0]).decode()]
        if var in ("ps", "pu"):
            return [str(x) for x in w] or None
        return [bytes.fromhex(ftext[x][0]).decode() for x in w] or None
    raise ValueError(ty)


def expected_sections(case, call, ftext):
    """(name, values|None, type, rate, tags, cid, ts) per C01/C02/C04"""
    form, kind, ty, v, key, ops = call
    name = key if case.prefix == "" else case.prefix.rstrip(".") + "." + key
    rate = None
    tags = [(k, x) for k, x in case.dtags]
    cid = case.dcid
    ts = None
    for o in ops:
        if o[0] == "r":
            rate = bytes.fromhex(ftext[o[1]][0]).decode()
        elif o[0] == "t":
            tags.append((o[1], o[2]))
        elif o[0] == "v":
            tags.append((None, o[1]))
        elif o[0] == "c":
            cid = o[1]
        elif o[0] == "T":
            ts = o[1]
    return name, expected_values(kind, ty, v, ftext), CODES[kind], rate, tags, cid, ts


def render_expected(sec):
    name, vals, code, rate, tags, cid, ts = sec
    s = name + ":" + ":".join(vals) + "|" + code
    if rate is not None:
        s += "|@" + rate
    if tags:
        s += "|#" + ",".join((k + ":" + x) if k is not None else x for k, x in tags)
    if cid is not None:
        s += "|c:" + cid
    if ts is not None:
        s += "|T%d" % ts
    return s


def is_clean(s):
    return not any(ch in s for ch in DELIMS)


def parse_line(line):
    """a DogStatsD server's view of a line"""
    f = line.split("|")
    if len(f) < 2 or ":" not in f[0]:
        return None
    name, vals = f[0].split(":", 1)
    out = {"name": name, "values": vals.split(":"), "type": f[1], "rate": None, "tags": [], "cid": None, "ts": None}
    rest = f[2:]
    if rest and rest[0].startswith("@"):
        out["rate"] = rest.pop(0)[1:]
    if rest and rest[0].startswith("#"):
        out["tags"] = [tuple(t.split(":", 1)) if ":" in t else (None, t) for t in rest.pop(0)[1:].split(",")]
    if rest and rest[0].startswith("c:"):
        out["cid"] = rest.pop(0)[2:]
    if rest and rest[0].startswith("T"):
        t = rest.pop(0)[1:]
        if not t.isdigit():
            return None
        out["ts"] = int(t)
    if rest:
        return None
    return out


def judge_call(case, call, outcome, obs, ftext):
    """compare what the implementation did in one call with the property statements;
    returns a list of (property id, message)"""
    form, kind, ty, v, key, ops = call
    ret, emitted, handled = obs.split(",")
    sec = expected_sections(case, call, ftext)
    bad = []
    if ret == "panic":
        return [("C03", "the call panicked"), ("C01", "the call panicked")]
    raw = [] if emitted == "~" else emitted.split("+")
    if "F" in raw:
        # the recording sink's flush() ran: a metric call hands the sink one string and does nothing else to it
        return [(p, "the call invoked flush() on the sink (sink saw %s)" % "+".join("flush" if x == "F" else "emit" for x in raw))
                for p in ("C03", "C01")]
    em = [bytes.fromhex(x).decode() if x != "_" else "" for x in raw]
    hd = [] if handled == "~" else handled.split("+")
    if sec[1] is None:
        # rejected value: nothing sent, invalid-input error
        if em:
            bad.append(("C02", "a rejected value was sent: %r" % em))
            bad.append(("C03", "a rejected value was handed to the sink"))
            if sec[1] is None and ty in ("vu64", "vf64", "vdur", "user"):
                bad.append(("C01", "a line without a value was sent: %r" % em))
        err = "eio:%d.%d" % v if ty == "usererr" and v is not None else "einv"      # a user conversion's own error, as it is
        want_ret, want_h = ("unit", [err]) if form == "Q" else (err, [])
        if ret != want_ret:
            bad.append(("C03", "rejected value: returned %s, expected %s" % (ret, want_ret)))
            bad.append(("C02", "rejected value: returned %s, expected %s" % (ret, want_ret)))
        if hd != want_h:
            bad.append(("C03", "rejected value: handler saw %s, expected %s" % (hd, want_h)))
        return bad
    want = render_expected(sec)
    if len(em) != 1:
        bad.append(("C03", "valid value: %d strings handed to the sink" % len(em)))
        bad.append(("C01", "valid value: %d strings handed to the sink" % len(em)))
        bad.append(("C02", "a valid value (%s %s) was not sent (%d strings handed to the sink, returned %s)" % (
            ty, str(v)[:60], len(em), ret[:40])))
        return bad
    line = em[0]
    if line != want:
        # find the clause
        strings = [case.prefix, key] + [x for t in sec[4] for x in t if x is not None] + ([sec[5]] if sec[5] is not None else [])
        p = parse_line(line) if all(is_clean(s) for s in strings) else None
        tagsec = ("|#" + ",".join((k + ":" + x) if k is not None else x for k, x in sec[4])) if sec[4] else ""
        cidsec = ("|c:" + sec[5]) if sec[5] is not None else ""
        valsec = ":" + ":".join(sec[1]) + "|"
        if p is not None:
            if p["values"] != sec[1]:
                bad.append(("C02", "value fields %r, expected %r" % (p["values"], sec[1])))
            if p["rate"] != sec[3]:
                bad.append(("C02", "sampling rate field %r, expected %r" % (p["rate"], sec[3])))
            if p["tags"] != sec[4]:
                bad.append(("C04", "tag section %r, expected %r" % (p["tags"], sec[4])))
            if p["cid"] != sec[5]:
                bad.append(("C04", "container id %r, expected %r" % (p["cid"], sec[5])))
        else:
            if valsec not in line or (sec[3] is not None and "|@" + sec[3] not in line):
                bad.append(("C02", "value/rate fields of %r, expected %r" % (line, want)))
            i = line.find(tagsec) if tagsec else 0
            if i < 0 or (cidsec and line.find(cidsec, i + len(tagsec)) < 0):
                bad.append(("C04", "tag/container sections of %r, expected %r" % (line, want)))
        bad.append(("C01", "line %r, expected %r" % (line, want)))
    # results and handler (C03)
    hexline = emitted
    if outcome is None:
        want_ret, want_h = ("unit", []) if form == "Q" else ("ok:" + hexline, [])
    else:
        e = "eio:%d.%d" % outcome
        want_ret, want_h = ("unit", [e]) if form == "Q" else (e, [])
    if ret != want_ret:
        bad.append(("C03", "returned %s, expected %s" % (ret[:80], want_ret[:80])))
        if ret.startswith("ok:") and want_ret.startswith("ok:"):
            bad.append(("C01", "as_metric_str of the returned metric differs from the text handed to the sink"))
    if hd != want_h:
        bad.append(("C03", "error handler saw %s, expected %s" % (hd, want_h)))
    return bad


# ----------------------------------------------------------------------------- case families

def mk_value(rng, ty):
    if ty in ("incr", "decr"):
        return None
    return rand_val(rng, ty)


def gen_exhaustive(rng):
    """all entry points x 3 forms x 16 combinations of optional sections x {no defaults, defaults}
    (plain form: no sections), fixed small clean strings, one call per client"""
    out = []
    for (kind, ty) in ENTRIES + EXTRA:
        for defaults in (False, True):
            dt = [("dk", "dv"), (None, "bare"), ("k2", "")] if defaults else []
            dc = "cont-1" if defaults else None
            v = mk_value(rng, ty)
            if ty in ("vu64", "vf64", "vdur") and not v:
                v = [rand_val(rng, ty[1:])]
            out.append(Case("pre.", dt, dc, [], [("P", kind, ty, v, "key", [])]))
            if not defaults:
                out.append(Case("pre.", dt, dc, [], [("P", kind, ty, v, "key", [])], from_sink=True))
                out.append(Case("pre.", dt, dc, [], [("T", kind, ty, v, "key", rand_ops(rng, "clean", (True, True, True, True)))], from_sink=True))
            for form in ("T", "Q"):
                for combo in itertools.product([False, True], repeat=4):
                    out.append(Case("pre.", dt, dc, [], [(form, kind, ty, v, "key", rand_ops(rng, "clean", combo))]))
    return out


def gen_boundary(rng):
    """every guard boundary and representation edge of every value type, through every entry that takes it"""
    out = []
    edges = {"i64": I64_EDGE, "i32": I32_EDGE, "u64": U64_EDGE, "u32": U32_EDGE,
             "f64": [bits(x) for x in F64_EDGE], "dur": DUR_EDGE}
    for (kind, ty) in ENTRIES:
        if ty in edges:
            for v in edges[ty]:
                out.append(Case(rng.choice(PREFIXES), [], None, [], [(rng.choice("TPQ"), kind, ty, v, "k", [])]))
        else:
            el = edges[ty[1:]]
            for n in (0, 1, 2, 5):
                for _ in range(3):
                    v = [rng.choice(el) for _ in range(n)]
                    out.append(Case("p", [], None, [], [(rng.choice("TPQ"), kind, ty, v, "k", [])]))
            if ty == "vdur":
                ok = [(1, 0), (0, 5), (157, 0)]
                over = (U64, 0)
                for pos in range(4):
                    v = ok[:pos] + [over] + ok[pos:]
                    out.append(Case("p", [], None, [], [("T", kind, ty, v, "k", [])]))
    # user-defined values, incl. PackedSigned and empty packed lists
    for kind in CODES:
        for var, w in [("s", -5), ("ps", [1, -2, I64MIN]), ("ps", []), ("u", 7), ("pu", [U64, 0]), ("pu", []),
                       ("f", bits(1.5)), ("pf", [bits(0.1), bits(-0.0)]), ("pf", [])]:
            out.append(Case("p", [("a", "b")], None, [], [(rng.choice("TQ"), kind, "user", (var, w), "k", [])]))
    # user-defined value types whose conversion FAILS (InvalidInput of their own / an I/O error): that very error is
    # reported, nothing reaches the sink, and the sink's scripted answers are left for the calls that follow
    for kind in CODES:
        for v in (None, (3, 41), (9, 900)):
            calls = [(f, kind, "usererr", v, "k", [("t", "x", "y")] if f != "P" else []) for f in "TPQ"]
            calls += [("T", "c", "i64", 1, "after", []), ("Q", kind, "usererr", v, "k2", []), ("T", "c", "i64", 2, "after", [])]
            out.append(Case("p", [("a", "b")], "cid", [(5, 12), None], calls))
    for p in PREFIXES:
        out.append(Case(p, [], None, [], [("T", "c", "i64", 1, "k.e.y", [])]))
        out.append(Case(p, [], None, [], [("T", "c", "i64", 1, "", [])]))
    return out


def gen_random(rng, n, mode):
    out = []
    for _ in range(n):
        ndt = rng.choice([0, 0, 1, 2, 3])
        dt = [((rand_str(rng, mode) if rng.random() < 0.6 else None), rand_str(rng, mode)) for _ in range(ndt)]
        if dt and rng.random() < 0.2:
            dt.append(rng.choice(dt))                     # a default tag configured twice
        dc = rand_str(rng, mode) if rng.random() < 0.3 else None
        calls = []
        ncalls = rng.choice([1, 1, 2, 3, 5])
        script = []
        for _ in range(ncalls):
            kind, ty = rng.choice(ENTRIES + EXTRA)
            form = rng.choice("TTPQQ")
            ops = [] if form == "P" else rand_ops(rng, mode)
            if ops is not None and form != "P" and dt and rng.random() < 0.15:
                k, v = rng.choice(dt)
                ops.insert(rng.randrange(len(ops) + 1), ("t", k, v) if k is not None else ("v", v))   # a default tag repeated per call
            calls.append((form, kind, ty, mk_value(rng, ty), rand_str(rng, mode, 1 if mode == "clean" else 0), ops))
        for _ in range(rng.randint(0, ncalls)):
            r = rng.random()
            script.append(None if r < 0.4 else ("a", rng.choice([0, 1, 2, 7, 10 ** 6, 2 ** 63])) if r < 0.55
                          else (rng.randint(0, 11), rng.choice([9000, 9001])) if r < 0.65     # the crate's own error as payload
                          else (rng.randint(0, 11), rng.randint(1, 99)))
        out.append(Case(rand_prefix(rng, mode), dt, dc, script, calls, from_sink=rng.random() < 0.5, nested=rng.random() < 0.12))
    return out


def gen_scripts(rng):
    """every sink-outcome script of length <= 4 over {accept, refuse} against sequences of valid and rejected
    values in every form (C03)"""
    out = []
    valid = ("c", "i64", 3)
    rejected = ("ms", "dur", (U64, 0))
    for n in range(1, 5):
        for forms in itertools.product("TPQ", repeat=n) if n <= 2 else [tuple(rng.choice("TPQ") for _ in range(n)) for _ in range(12)]:
            for vals in itertools.product([True, False], repeat=n):
                for sc in itertools.product([None, "r", "n"] if n <= 2 else [None, "r"], repeat=n):
                    script = [None if s is None else ("a", rng.choice([0, 1, 2, 3, 10 ** 9])) if s == "n"
                              else (rng.randint(0, 11), rng.choice([10 + i, 10 + i, 9000, 9001])) for i, s in enumerate(sc)]
                    calls = []
                    for f, ok in zip(forms, vals):
                        k, ty, v = valid if ok else rejected
                        calls.append((f, k, ty, v, "k", [] if f == "P" else [("t", "a", "b")]))
                    out.append(Case("p", [], None, script, calls))
                    if n <= 2 and "Q" in forms:
                        out.append(Case("p", [], None, script, calls, nested=True))
    return out


def value_display_cases():
    """Display of cadence::ext::MetricValue (public type, public impl): every variant, empty packed lists included"""
    big = 2 ** 64 - 1
    vs = [("s", 0), ("s", -1), ("s", -(2 ** 63)), ("s", 2 ** 63 - 1), ("u", 0), ("u", big), ("u", 2 ** 53 + 1),
          ("ps", []), ("ps", [-5]), ("ps", [1, -2, 3]), ("ps", [-(2 ** 63), 2 ** 63 - 1, 0, 0]), ("ps", list(range(-300, 300))),
          ("pu", []), ("pu", [7]), ("pu", [big, 0, big]), ("pu", list(range(1000))), ("pf", [])]
    return ["V " + arg_token("user", v) for v in vs]


def value_display_failures(prop):
    """(size, case, observation, message) for the clauses of C02 (the text) and C20 (no panic)"""
    vc = value_display_cases()
    try:
        vi = common.run_harness("wire", vc, shards=1)
        vm = common.run_model("wire", vc)
    except common.CheckFailure as e:
        return [(0, vc[0], "harness failure", "Display of MetricValue: %s" % str(e)[:200])] if prop in ("C02", "C20") else []
    out = []
    for c, i, m in zip(vc, vi, vm):
        if "panic" in i.lower():
            if prop == "C20":
                out.append((len(c), c, i, "formatting a MetricValue with {} panicked: %s" % c[2:80]))
        elif i != m and prop == "C02":
            out.append((len(c), c, i, "Display of MetricValue %s gave %s, expected %s" % (c[2:60], i[:80], m[:80])))
    return out


def gen_ctor_lines(rng, ftext_needed):
    out = []
    for (kind, ty) in CTORS:
        for _ in range(12):
            v = rand_val(rng, ty)
            if ty == "f64":
                ftext_needed.add(v)
            p = rng.choice(["", "p.", "pre.fix.", "x", "é."])
            out.append(("K %s %s %s " % (kind, hx(p), hx("key")), kind, ty, v, p, "key"))
    return out


# ----------------------------------------------------------------------------- the check

TRUSTED = [
    "Coq 8.16.1 kernel; Print Assumptions of every pinned theorem closed under the global context",
    "extraction: Require Extraction + ExtrOcamlBasic only; nat/positive/N/Z stay inductive; decimal parsing/printing of "
    "case values is done by the extracted Decimal.parse_N/parse_Z/render_N themselves",
    "hand-written glue: ocaml/run_wire.ml, harness/src/wire.rs (recording scripted MetricSink, logging handler, "
    "user-defined To*Value type), driver/wire.py (generation, reference evaluation of the clauses, diff)",
    "float text: std's impl Display for f64 (not cadence) is taken from the running std (harness case F) and its "
    "hypotheses (non-empty, delimiter-free, finite values parse back bit-identically) are checked on every float used",
]
ASSUMPTIONS = [
    "f64 -> text is std's Display; cadence's delegation to it is what is modelled and proved (C02 is partial on floats)",
    "strings are byte lists; the six delimiters and '.', 'T', 'c' are ASCII and never part of a multi-byte UTF-8 sequence",
]


def run_wire_check(prop, tier, seed):
    rep = Report(prop, tier, seed, level="proof")
    rep.cov["trusted_base"] = TRUSTED
    rep.assumptions = ASSUMPTIONS
    rep.add_audit(common.audit_proofs(prop))
    if not common.ensure_built(rep):
        return rep.finish()
    n_impls, cp = census()
    for p in cp:
        rep.violation_noinput("entry-point census: " + p, {"correspondence": "harness entry table vs client.rs", "problem": p})
    rng = random.Random(seed)
    thorough = tier == "thorough"
    ex = gen_exhaustive(rng)
    cases = list(ex)
    cases += gen_boundary(rng)
    cases += gen_scripts(rng)
    cases += gen_random(rng, 300000 if thorough else 2500, "clean")
    cases += gen_random(rng, 150000 if thorough else 1200, "hostile")
    fb = set(all_float_bits(cases))
    ctor = gen_ctor_lines(rng, fb)
    fb = sorted(fb)
    try:
        ftext = {}
        for i in range(0, len(fb), 200):
            chunk = fb[i:i + 200]
            o = common.run_harness("wire", ["F " + ";".join(chunk)], shards=1)[0]
            for b, t in zip(chunk, o.split(";")):
                ftext[b] = t.split(":")
        badf = [b for b, t in ftext.items() if t[1] != "ok"]
        if badf:
            rep.violation_noinput("std float Display hypothesis fails (not cadence): bits %s" % badf[:3],
                                  {"assumption": "float text non-empty, delimiter-free, round-trips", "bits": badf[:10]})
        lines = [c.line() for c in cases]
        mlines = [c.line(ftext) for c in cases]
        klines = [k[0] + arg_token(k[2], k[3]) for k in ctor]
        impl = common.run_harness("wire", lines)
        model = common.run_model("wire", mlines)
        kimpl = common.run_harness("wire", klines)
        kmodel = common.run_model("wire", [k[0] + arg_token(k[2], k[3], ftext) for k in ctor])
    except common.CheckFailure as e:
        rep.violation_noinput("correspondence run failed", {"error": str(e)})
        return rep.finish()
    # extraction + glue against the kernel: sampled client cases proved by vm_compute
    common.kernel_crosscheck(rep, "wire", mlines, 200 if thorough else 80)
    # property clauses on the implementation's observations
    failures = []
    nontrivial = set()
    dist = {"calls": 0, "rejected": 0, "refused": 0, "forms": {"T": 0, "P": 0, "Q": 0}, "entry_points": {}}
    impl_cmp = list(impl)
    for ci, (c, l, o) in enumerate(zip(cases, lines, impl)):
        obs = o.split("|")
        if c.nested:
            # the handler's own failing quiet send: one more `einv` right after every failure the handler was given
            for j, ob in enumerate(obs):
                f = ob.split(",")
                if len(f) != 3:
                    continue
                hl = [] if f[2] == "~" else f[2].split("+")
                if len(hl) >= 2 and hl[-1] == "einv":
                    hl = hl[:-1]
                elif hl and prop == "C03":
                    failures.append((len(l), l, o, "while handling %s the error handler made a failing quiet send on the same "
                                     "client; that failure was not reported to the handler (it saw %s)" % (hl[0], f[2])))
                obs[j] = ",".join([f[0], f[1], "+".join(hl) or "~"])
            impl_cmp[ci] = "|".join(obs)
        script = list(c.script)
        for call, ob in zip(c.calls, obs):
            dist["calls"] += 1
            dist["forms"][call[0]] += 1
            ek = call[1] + "/" + call[2]
            dist["entry_points"][ek] = dist["entry_points"].get(ek, 0) + 1
            rejected = expected_values(call[1], call[2], call[3], ftext) is None
            outcome = None
            if not rejected and script:
                outcome = script.pop(0)
                if outcome is not None and outcome[0] == "a":
                    outcome = None                     # accepted, whatever count the sink answered
            if rejected:
                dist["rejected"] += 1
            if outcome is not None:
                dist["refused"] += 1
            for (pid, msg) in judge_call(c, call, outcome, ob, ftext):
                if pid == prop:
                    failures.append((len(l), l, o, msg))
        if len(c.calls) > 1 or c.dtags or c.dcid or any(call[5] for call in c.calls) or c.script:
            nontrivial.add(case_hash(l))
    if prop == "C03":
        # two threads failing a quiet send on one client while the handler of the first is still running
        try:
            xt = common.run_harness("wire", ["XT"] * 4, shards=2)
        except common.CheckFailure as e:
            xt = ["harness failure: %s" % str(e)[:200]]
        for o in xt:
            if o != "n=2:einv+einv":
                failures.append((2, "XT", o, "two threads each failed a quiet send on one client (the second while the handler was "
                                 "still running for the first): the handler saw %s, expected both errors" % o))
    # standalone constructors = client text for the same full name and value (C01)
    if prop == "C01":
        # From<String> of every metric type: as_metric_str() is the text it was given
        texts = ["", "a:1|c", "pre.k:1:2:3|h|@0.5|#a:b,c|c:x|T9", "\u00e9\u6f22:|#\n", "x" * 3000] + [rand_str(rng, "hostile") for _ in range(10)]
        kf = ["KF %s %s" % (k, hx(t)) for k in CODES for t in texts]
        try:
            kfi = common.run_harness("wire", kf, shards=2)
        except common.CheckFailure as e:
            kfi = ["harness failure: %s" % str(e)[:200]] * len(kf)
        for l, o in zip(kf, kfi):
            if o != l.split()[2]:
                failures.append((len(l), l, o, "From<String>: as_metric_str() of a metric built from a string is %s, expected the "
                                 "string itself" % o[:80]))
        for k, kl, ki in zip(ctor, klines, kimpl):
            _, kind, ty, v, p, key = k
            vals = expected_values(kind, ty, v, ftext)
            want = hx(p + key + ":" + ":".join(vals) + "|" + CODES[kind])
            if ki != want:
                failures.append((len(kl), kl, ki, "constructor text %s, expected %s" % (ki, want)))
    if prop == "C02":
        # the value section of the standalone constructors' text: the canonical numeral of the value supplied
        for k, kl, ki in zip(ctor, klines, kimpl):
            _, kind, ty, v, p, key = k
            vals = expected_values(kind, ty, v, ftext)
            head, tail = hx(p + key + ":"), hx("|" + CODES[kind])
            if ki.startswith(head) and ki.endswith(tail) and ki[len(head):len(ki) - len(tail)] != hx(":".join(vals)):
                failures.append((len(kl), kl, ki, "constructor %s::new(%s %r): value rendered as %r, expected %r" % (
                    kind, ty, v, bytes.fromhex(ki[len(head):len(ki) - len(tail)]).decode("utf-8", "replace"), ":".join(vals))))
        failures += value_display_failures(prop)
    if failures:
        failures.sort()
        _, l, o, msg = failures[0]
        rep.violation_input("%s (%d failing calls; smallest case shown)" % (msg[:300], len(failures)),
                            {"bin": "wire", "case": l, "implementation": o, "clause": msg,
                             "how": "build/target/release/harness wire <file with the case line>"})
    dis = [(len(l), l, i, m) for l, i, m in zip(lines + klines, impl_cmp + kimpl, model + kmodel) if i != m]
    if dis and not failures:
        dis.sort()
        _, l, i, m = dis[0]
        rep.violation_noinput(
            "correspondence Model/{Convert,Wire,Client}.v <-> builder.rs/client.rs/types.rs broken on %d cases; the "
            "theorems of Props/%s.v no longer speak about this code" % (len(dis), prop),
            {"correspondence": "Client.send_call / Wire.ctor_line vs StatsdClient + recording sink",
             "theorems": rep.cov.get("theorems", []), "first_disagreeing_case": l, "implementation": i, "model": m})
    rep.cov["evaluations"] = len(lines) + len(klines)
    rep.cov["calls"] = dist["calls"]
    rep.cov["distinct_nontrivial"] = len(nontrivial)
    rep.cov["exhaustive"] = True
    rep.cov["exhaustive_scope"] = ("%d clients: all %d entry points (+incr/decr) x forms {tagged try_send, plain, quiet send} x 16 "
                                   "present/absent combinations of rate/tags/container/timestamp x {no defaults, default tags + "
                                   "default container}; every sink script of length <= 2 x valid/rejected x forms"
                                   % (len(ex), n_impls))
    rep.cov["rule"] = ("exhaustive finite product + boundary values of every value type through every entry point (guard boundaries "
                       "+-1, type extremes, float edge cases, overflowing Durations at every list position, empty packed lists, "
                       "user-defined MetricValue incl. PackedSigned) + sink scripts + seeded random clients with 1-5 calls, clean "
                       "(mostly valid) and hostile (delimiter-laden, empty, long) strings; each case runs on the real StatsdClient "
                       "with a recording scripted sink and logging handler and on the extracted Coq model; per call the returned "
                       "value, the strings handed to the sink and the handler invocations are compared, and the property clauses "
                       "are evaluated on the implementation's observation by a reference written from the property statements. "
                       "distinct_nontrivial = distinct clients with defaults, builder calls, a sink script or several calls")
    short = [(l, o) for l, o in zip(lines, impl) if len(l) + len(o) < 300]
    rep.cov["samples"] = [{"case": l, "implementation": o} for l, o in short[5::max(1, len(short) // 6)][:6]]
    rep.cov["disagreements"] = len(dis)
    rep.cov["input_distribution"] = dist
    rep.cov["floats_validated"] = len(ftext)
    return rep.finish()


def check_C01(tier, seed):
    return run_wire_check("C01", tier, seed)


def check_C02(tier, seed):
    return run_wire_check("C02", tier, seed)


def check_C03(tier, seed):
    return run_wire_check("C03", tier, seed)


def check_C04(tier, seed):
    return run_wire_check("C04", tier, seed)


def replay(prop, data):
    # the recorded observation is compared with the current one (the reference evaluation needs the generator's
    # structured case, which the replay file does not carry)
    return common.replay_case(prop, data, "wire")
