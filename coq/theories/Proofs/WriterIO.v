(* Frame lemma for the environment part of the state: every operation of the model
   touches the fault script and the log only through [under], so any predicate on
   (script, log) that [under] preserves is preserved by every operation. *)
Require Import Cadence.Base.Prelude.
Require Import Cadence.Model.Writer.

Section IO.
Variable Q : list outcome -> list attempt -> Prop.
Hypothesis Q_under : forall s b lab op,
  Q (sc s) (lg s) -> Q (sc (snd (under s b lab op))) (lg (snd (under s b lab op))).

Definition IOQ (s : st) : Prop := Q (sc s) (lg s).

Lemma flush_loop_io fuel : forall s op, IOQ s -> IOQ (snd (flush_loop fuel s op)).
Proof.
  induction fuel as [|f IH]; intros s op I; cbn [flush_loop];
    pose proof (Q_under s (bbuf s) (Lines (bids s)) op I) as U;
    destruct (under s (bbuf s) (Lines (bids s)) op) as [o s1]; cbn [snd] in U;
    destruct o; cbn; auto.
Qed.

Lemma flush_buf_io s op : IOQ s -> IOQ (snd (flush_buf s op)).
Proof. intros I. unfold flush_buf. destruct (bbuf s); [exact I|now apply flush_loop_io]. Qed.

Lemma direct_io s b lab op : IOQ s -> IOQ (snd (direct s b lab op)).
Proof.
  intros I. unfold direct. pose proof (Q_under s b lab op I) as U.
  destruct (under s b lab op) as [o s1]. destruct o; exact U.
Qed.

Lemma bw_write_io s b g first op : IOQ s -> IOQ (snd (bw_write s b g first op)).
Proof.
  intros I. unfold bw_write.
  destruct (length b <? cap s - length (bbuf s)); [exact I|].
  assert (I1 : IOQ (snd (if cap s - length (bbuf s) <? length b then flush_buf s op else (ROk tt, s)))).
  { destruct (cap s - length (bbuf s) <? length b); [now apply flush_buf_io|exact I]. }
  destruct (if cap s - length (bbuf s) <? length b then flush_buf s op else (ROk tt, s)) as [r s1].
  cbn [snd] in I1. destruct r; cbn [snd]; auto.
  destruct (cap s1 <=? length b); [|exact I1].
  apply direct_io. destruct first; exact I1.
Qed.

Lemma mlw_flush_io s op : IOQ s -> IOQ (snd (mlw_flush s op)).
Proof.
  intros I. unfold mlw_flush. pose proof (flush_buf_io s op I) as F.
  destruct (flush_buf s op) as [r s1]. destruct r; exact F.
Qed.

Lemma mlw_write_io s m op : IOQ s -> IOQ (snd (mlw_write s m op)).
Proof.
  intros I. unfold mlw_write.
  destruct (cap s <? written s); [exact I|].
  destruct (cap s <? length m + length (ending s)); [now apply direct_io|].
  assert (I0 : IOQ (snd (if cap s - written s <? length m + length (ending s) then mlw_flush s op else (ROk tt, s)))).
  { destruct (cap s - written s <? length m + length (ending s)); [now apply mlw_flush_io|exact I]. }
  destruct (if cap s - written s <? length m + length (ending s) then mlw_flush s op else (ROk tt, s)) as [r0 s0].
  cbn [snd] in I0. destruct r0; cbn [snd]; auto.
  pose proof (bw_write_io s0 m (op, m) true op I0) as W1.
  destruct (bw_write s0 m (op, m) true op) as [r1 s1]. cbn [snd] in W1.
  destruct r1; cbn [snd]; auto.
  pose proof (bw_write_io (set_written s1 (written s1 + a0)) (ending (set_written s1 (written s1 + a0)))
                (op, m) false op W1) as W2.
  destruct (bw_write (set_written s1 (written s1 + a0)) (ending (set_written s1 (written s1 + a0))) (op, m) false op)
    as [r2 s2]. cbn [snd] in W2.
  destruct r2; exact W2.
Qed.

Lemma step_io s n o : IOQ s -> IOQ (snd (step s n o)).
Proof.
  intros I. destruct o as [m|]; cbn [step].
  - pose proof (mlw_write_io s m n I) as W. destruct (mlw_write s m n). exact W.
  - pose proof (mlw_flush_io s n I) as W. destruct (mlw_flush s n). exact W.
Qed.

Lemma run_from_io ops : forall s n, IOQ s -> IOQ (snd (run_from s n ops)).
Proof.
  induction ops as [|o ops IH]; intros s n I; cbn [run_from]; [exact I|].
  pose proof (step_io s n o I) as I1. destruct (step s n o) as [x s1]. cbn [snd] in I1.
  pose proof (IH s1 (S n) I1) as I2. destruct (run_from s1 (S n) ops) as [xs s2]. exact I2.
Qed.

Lemma mlw_drop_io s op : IOQ s -> IOQ (mlw_drop s op).
Proof. apply flush_buf_io. Qed.

End IO.

(* with an exhausted fault script nothing ever fails *)
Definition all_ok (c : list outcome) (l : list attempt) : Prop :=
  c = [] /\ Forall (fun a => a_out a = WOk) l.

Lemma all_ok_under s b lab op :
  all_ok (sc s) (lg s) -> all_ok (sc (snd (under s b lab op))) (lg (snd (under s b lab op))).
Proof.
  intros [A B]. unfold under. rewrite A. cbn. split; [reflexivity|].
  apply Forall_app; split; [exact B|]. constructor; [reflexivity|constructor].
Qed.
