#!/bin/bash
# Run checks against every harmless patch of one family: every line must say OK.
# usage: try_harmless.sh <scratch worktree> <out dir with p*.diff> <ids...>    (log lines: <patch> <id>: <first result line>)
wt=$1; out=$2; shift 2
for p in $out/p*.diff; do
  echo "== $(basename $out)/$(basename $p)"
  /verif/selftest/try_seed_alt.sh $wt $p "$@" 2>&1 | grep -v "^ .* file.* changed"
done
