(* Proofs about Model/Wire.v: what the builder calls do to the formatter, the shape of
   every line, totality, the standalone constructors, the type codes, and the round trip
   through the server-side parser. *)
Require Import Cadence.Base.Prelude.
Require Import Cadence.Base.Decimal.
Require Import Cadence.Model.Convert.
Require Import Cadence.Model.Wire.
Require Import Cadence.Model.Client.
Require Import Cadence.Proofs.SplitProofs.
Require Import Cadence.Proofs.DecimalProofs.
Require Import Cadence.Proofs.WireDefs.

(* ------------------------------------------------------------------ builder calls *)
Lemma or_else_None_r : forall A (a : option A), or_else a None = a.
Proof. intros A [x|]; reflexivity. Qed.

Lemma or_else_assoc : forall A (a b c : option A), or_else a (or_else b c) = or_else (or_else a b) c.
Proof. intros A [x|] b c; reflexivity. Qed.

Lemma fold_bops : forall ops f,
  fold_left apply_bop ops f =
  {| f_prefix := f_prefix f; f_key := f_key f; f_val := f_val f; f_kind := f_kind f;
     f_tags := f_tags f ++ op_tags ops;
     f_timestamp := or_else (op_timestamp ops) (f_timestamp f);
     f_rate := or_else (op_rate ops) (f_rate f);
     f_container := or_else (op_container ops) (f_container f) |}.
Proof.
  induction ops as [|o r IH]; intros f.
  - cbn [fold_left op_tags op_timestamp op_rate op_container or_else]. rewrite app_nil_r.
    destruct f; reflexivity.
  - cbn [fold_left]. rewrite IH.
    destruct o; cbn [apply_bop f_prefix f_key f_val f_kind f_tags f_timestamp f_rate f_container
                     op_tags op_timestamp op_rate op_container];
      rewrite ?or_else_None_r, <- ?app_assoc; cbn [app];
      try reflexivity; f_equal;
      match goal with |- context [or_else ?a (Some _)] => destruct a; reflexivity end.
Qed.

(* the individual projections, for direct use *)
Lemma fold_bops_tags : forall ops f, f_tags (fold_left apply_bop ops f) = f_tags f ++ op_tags ops.
Proof. intros. rewrite fold_bops. reflexivity. Qed.
Lemma fold_bops_rate : forall ops f, f_rate (fold_left apply_bop ops f) = or_else (op_rate ops) (f_rate f).
Proof. intros. rewrite fold_bops. reflexivity. Qed.
Lemma fold_bops_container : forall ops f,
  f_container (fold_left apply_bop ops f) = or_else (op_container ops) (f_container f).
Proof. intros. rewrite fold_bops. reflexivity. Qed.
Lemma fold_bops_timestamp : forall ops f,
  f_timestamp (fold_left apply_bop ops f) = or_else (op_timestamp ops) (f_timestamp f).
Proof. intros. rewrite fold_bops. reflexivity. Qed.
Lemma fold_bops_fixed : forall ops f,
  let g := fold_left apply_bop ops f in
  f_prefix g = f_prefix f /\ f_key g = f_key f /\ f_val g = f_val f /\ f_kind g = f_kind f.
Proof. intros. subst g. rewrite fold_bops. repeat split. Qed.

(* characterisation of the four summaries by "append one more builder call" *)
Lemma op_tags_app : forall a b, op_tags (a ++ b) = op_tags a ++ op_tags b.
Proof.
  induction a as [|o a IH]; intros b; [reflexivity|].
  destruct o; cbn [app op_tags]; rewrite IH; reflexivity.
Qed.
Lemma op_rate_app : forall a b, op_rate (a ++ b) = or_else (op_rate b) (op_rate a).
Proof.
  induction a as [|o a IH]; intros b; cbn [app op_rate]; [rewrite or_else_None_r; reflexivity|].
  rewrite IH. rewrite or_else_assoc. reflexivity.
Qed.
Lemma op_container_app : forall a b, op_container (a ++ b) = or_else (op_container b) (op_container a).
Proof.
  induction a as [|o a IH]; intros b; cbn [app op_container]; [rewrite or_else_None_r; reflexivity|].
  rewrite IH. rewrite or_else_assoc. reflexivity.
Qed.
Lemma op_timestamp_app : forall a b, op_timestamp (a ++ b) = or_else (op_timestamp b) (op_timestamp a).
Proof.
  induction a as [|o a IH]; intros b; cbn [app op_timestamp]; [rewrite or_else_None_r; reflexivity|].
  rewrite IH. rewrite or_else_assoc. reflexivity.
Qed.

(* reading of the summaries: one more builder call at the END of the chain *)
Lemma op_summaries_snoc : forall ops o,
  op_tags (ops ++ [o]) = op_tags ops ++
     match o with WithTag k v => [(Some k, v)] | WithTagValue v => [(None, v)] | _ => [] end /\
  op_rate (ops ++ [o]) = match o with WithSamplingRate r => Some r | _ => op_rate ops end /\
  op_container (ops ++ [o]) = match o with WithContainerId c => Some c | _ => op_container ops end /\
  op_timestamp (ops ++ [o]) = match o with WithTimestamp t => Some t | _ => op_timestamp ops end.
Proof.
  intros ops o. rewrite op_tags_app, op_rate_app, op_container_app, op_timestamp_app.
  destruct o; cbn [op_tags op_rate op_container op_timestamp or_else]; repeat split.
Qed.

(* ------------------------------------------------------------------ the name *)
Lemma name_of_prefix : forall p key, formatted_prefix p ++ key = full_name p key.
Proof.
  intros [|b p] key; [reflexivity|].
  unfold formatted_prefix, full_name. rewrite <- app_assoc. reflexivity.
Qed.

(* ------------------------------------------------------------------ values *)
Lemma value_texts_length : forall v, length (value_texts v) = mv_count v.
Proof. intros []; cbn [value_texts mv_count length]; rewrite ?map_length; reflexivity. Qed.

Lemma value_texts_nonnil : forall v, mv_count v <> 0 -> value_texts v <> [].
Proof.
  intros v H E. apply H. rewrite <- value_texts_length. rewrite E. reflexivity.
Qed.

(* ------------------------------------------------------------------ shape *)
(* the text of a line in terms of the SUPPLIED pieces *)
Definition wire_line (name : str) (vals : list str) (ty : str) (rate : option str)
                     (tags : list tag) (cid : option str) (ts : option N) : str :=
  name ++ b_colon :: join b_colon vals ++ b_pipe :: ty
  ++ match rate with Some r => b_pipe :: b_at :: r | None => [] end
  ++ match tags with [] => [] | tg => b_pipe :: b_hash :: join b_comma (map render_tag tg) end
  ++ match cid with Some c => b_pipe :: b_c :: b_colon :: c | None => [] end
  ++ match ts with Some t => b_pipe :: b_T :: render_N t | None => [] end.

Lemma format_wire_line : forall f,
  format f = wire_line (f_prefix f ++ f_key f) (value_texts (f_val f)) (code (f_kind f))
                       (f_rate f) (f_tags f) (f_container f) (f_timestamp f).
Proof.
  intros f. unfold format, wire_line. rewrite <- app_assoc. destruct (f_tags f); reflexivity.
Qed.

Lemma build_inr : forall cfg c f,
  build cfg c = Some (inr f) ->
  exists v, to_value (k_kind c) (k_arg c) = Some (inr v) /\ mv_count v <> 0 /\
    f = {| f_prefix := formatted_prefix (c_prefix cfg); f_key := k_key c; f_val := v; f_kind := k_kind c;
           f_tags := c_tags cfg ++ op_tags (k_ops c);
           f_timestamp := op_timestamp (k_ops c);
           f_rate := op_rate (k_ops c);
           f_container := or_else (op_container (k_ops c)) (c_container cfg) |}.
Proof.
  intros cfg c f H. unfold build in H.
  destruct (to_value (k_kind c) (k_arg c)) as [[e|v]|] eqn:Ev; try discriminate.
  destruct (mv_count v) eqn:Ec; [discriminate|].
  exists v. split; [reflexivity|]. split; [congruence|].
  inversion H as [H1]. rewrite fold_bops.
  cbn [f_prefix f_key f_val f_kind f_tags f_timestamp f_rate f_container].
  rewrite !or_else_None_r. reflexivity.
Qed.

Theorem shape : forall cfg c l,
  client_line cfg c = Some (inr l) ->
  exists v, to_value (k_kind c) (k_arg c) = Some (inr v) /\ value_texts v <> [] /\
    l = wire_line (full_name (c_prefix cfg) (k_key c)) (value_texts v) (code (k_kind c))
                  (op_rate (k_ops c)) (c_tags cfg ++ op_tags (k_ops c))
                  (or_else (op_container (k_ops c)) (c_container cfg)) (op_timestamp (k_ops c)).
Proof.
  intros cfg c l H. unfold client_line in H.
  destruct (build cfg c) as [[e|f]|] eqn:Eb; try discriminate.
  destruct (build_inr _ _ _ Eb) as [v [Hv [Hc Hf]]].
  exists v. split; [exact Hv|]. split; [apply value_texts_nonnil; exact Hc|].
  inversion H as [H1]. rewrite format_wire_line. subst f.
  cbn [f_prefix f_key f_val f_kind f_tags f_timestamp f_rate f_container].
  rewrite name_of_prefix. reflexivity.
Qed.

(* totality: what client_line answers is determined by the conversion and the count *)
Theorem client_line_cases : forall cfg c,
  client_line cfg c =
  match to_value (k_kind c) (k_arg c) with
  | None => None
  | Some (inl e) => Some (inl e)
  | Some (inr v) =>
    if Nat.eqb (mv_count v) 0 then Some (inl EInvalid)
    else Some (inr (wire_line (full_name (c_prefix cfg) (k_key c)) (value_texts v) (code (k_kind c))
                  (op_rate (k_ops c)) (c_tags cfg ++ op_tags (k_ops c))
                  (or_else (op_container (k_ops c)) (c_container cfg)) (op_timestamp (k_ops c))))
  end.
Proof.
  intros cfg c. destruct (client_line cfg c) as [[e|l]|] eqn:E.
  - unfold client_line, build in E.
    destruct (to_value (k_kind c) (k_arg c)) as [[e'|v]|]; try discriminate; [congruence|].
    destruct (mv_count v); [cbn [Nat.eqb]; congruence|discriminate].
  - destruct (shape _ _ _ E) as [v [Hv [Hn Hl]]]. rewrite Hv.
    destruct (Nat.eqb (mv_count v) 0) eqn:Ec.
    + apply Nat.eqb_eq in Ec. rewrite <- value_texts_length in Ec.
      destruct (value_texts v); [congruence|discriminate].
    + congruence.
  - unfold client_line, build in E.
    destruct (to_value (k_kind c) (k_arg c)) as [[e'|v]|]; try discriminate; [|reflexivity].
    destruct (mv_count v); discriminate.
Qed.

(* the only error a conversion of the library produces is InvalidInput; the only other error a
   conversion produces is the one a user-defined impl returns *)
Lemma to_value_user_err : forall k e, to_value k (AUserErr e) = Some (inl e).
Proof. intros k e. destruct k; reflexivity. Qed.

Lemma to_value_err : forall k a e, to_value k a = Some (inl e) -> e = EInvalid \/ a = AUserErr e.
Proof.
  intros k a e H. destruct a; try (destruct k; cbn [to_value] in H; congruence).
  - left. destruct k; cbn [to_value] in H; try discriminate; unfold conv_dur in H;
      match type of H with context [if ?b then _ else _] => destruct b end; congruence.
  - left. destruct k; cbn [to_value] in H; try discriminate; unfold conv_durs in H;
      match type of H with context [if ?b then _ else _] => destruct b end; congruence.
  - right. rewrite to_value_user_err in H. congruence.
Qed.

Lemma client_line_user_err : forall cfg c e, k_arg c = AUserErr e -> client_line cfg c = Some (inl e).
Proof. intros cfg c e H. rewrite client_line_cases, H, to_value_user_err. reflexivity. Qed.

Lemma client_line_err : forall cfg c e,
  client_line cfg c = Some (inl e) -> e = EInvalid \/ k_arg c = AUserErr e.
Proof.
  intros cfg c e H. rewrite client_line_cases in H.
  destruct (to_value (k_kind c) (k_arg c)) as [[e'|v]|] eqn:Ev; try discriminate.
  - inversion H; subst. eapply to_value_err; eauto.
  - left. destruct (Nat.eqb (mv_count v) 0); congruence.
Qed.

(* ------------------------------------------------------------------ constructors *)
Theorem ctor_agrees : forall k p key a v,
  to_value k a = Some (inr v) -> mv_count v <> 0 ->
  client_line {| c_prefix := p; c_tags := []; c_container := None |}
              {| k_kind := k; k_key := key; k_arg := a; k_ops := [] |}
  = Some (inr (ctor_line k (formatted_prefix p) key v)).
Proof.
  intros k p key a v Hv Hc. unfold client_line, build. cbn [k_kind k_arg k_ops k_key c_prefix c_tags c_container].
  rewrite Hv. destruct (mv_count v); [congruence|]. reflexivity.
Qed.

Theorem ctor_shape : forall k prefix key v,
  ctor_line k prefix key v = prefix ++ key ++ b_colon :: join b_colon (value_texts v) ++ b_pipe :: code k.
Proof.
  intros. unfold ctor_line, format.
  cbn [f_prefix f_key f_val f_kind f_tags f_timestamp f_rate f_container]. rewrite !app_nil_r. reflexivity.
Qed.

(* ------------------------------------------------------------------ codes *)
Definition all_kinds : list kind := [Counter; Timer; Gauge; Meter; Histogram; Distribution; SetK].

Lemma all_kinds_complete : forall k, In k all_kinds.
Proof. intros []; cbn; tauto. Qed.

Definition kind_eqb (a b : kind) : bool :=
  match a, b with
  | Counter, Counter | Timer, Timer | Gauge, Gauge | Meter, Meter | Histogram, Histogram
  | Distribution, Distribution | SetK, SetK => true
  | _, _ => false
  end.

Lemma code_clean : forall k, clean (code k) = true.
Proof. intros []; reflexivity. Qed.
Lemma code_nonempty : forall k, code k <> [].
Proof. intros []; discriminate. Qed.
Lemma code_inj : forall a b, code a = code b -> a = b.
Proof. intros [] []; cbn [code]; intros H; try reflexivity; discriminate. Qed.

(* ------------------------------------------------------------------ the round trip *)
(* the optional sections as a list of '|'-separated fields *)
Definition sections (rate : option str) (tags : list tag) (cid : option str) (ts : option N) : list str :=
  match rate with Some r => [b_at :: r] | None => [] end
  ++ match tags with [] => [] | tg => [b_hash :: join b_comma (map render_tag tg)] end
  ++ match cid with Some c => [b_c :: b_colon :: c] | None => [] end
  ++ match ts with Some t => [b_T :: render_N t] | None => [] end.

Lemma join_pipe_concat : forall secs x,
  join b_pipe (x :: secs) = x ++ concat (map (fun s => b_pipe :: s) secs).
Proof.
  induction secs as [|y r IH]; intros x.
  - cbn [join map concat]. rewrite app_nil_r. reflexivity.
  - rewrite join_cons2, IH. reflexivity.
Qed.

Lemma wire_line_join : forall name vals ty rate tags cid ts,
  wire_line name vals ty rate tags cid ts =
  join b_pipe ((name ++ b_colon :: join b_colon vals) :: ty :: sections rate tags cid ts).
Proof.
  intros. rewrite join_cons2, join_pipe_concat. unfold wire_line, sections.
  rewrite <- app_assoc. cbn [app]. do 4 f_equal.
  destruct rate, tags, cid, ts; cbn [app map concat]; rewrite ?app_nil_r; reflexivity.
Qed.

Lemma tag_ok_no_pipe : forall t, tag_ok t = true -> ~ In b_pipe (render_tag t).
Proof.
  intros [[k|] v] H; cbn [tag_ok render_tag] in *.
  - apply andb_true_iff in H. destruct H as [Hk Hv]. intros Hin. apply in_app_or in Hin.
    destruct Hin as [Hin|[Hin|Hin]]; [exact (clean_no_pipe _ Hk Hin)|discriminate|exact (clean_no_pipe _ Hv Hin)].
  - apply clean_no_pipe. exact H.
Qed.

Lemma tag_ok_no_comma : forall t, tag_ok t = true -> ~ In b_comma (render_tag t).
Proof.
  intros [[k|] v] H; cbn [tag_ok render_tag] in *.
  - apply andb_true_iff in H. destruct H as [Hk Hv]. intros Hin. apply in_app_or in Hin.
    destruct Hin as [Hin|[Hin|Hin]]; [exact (clean_no_comma _ Hk Hin)|discriminate|exact (clean_no_comma _ Hv Hin)].
  - apply clean_no_comma. exact H.
Qed.

Lemma parse_render_tag : forall t, tag_ok t = true -> parse_tag (render_tag t) = t.
Proof.
  intros [[k|] v] H; cbn [tag_ok render_tag] in *; unfold parse_tag.
  - apply andb_true_iff in H. destruct H as [Hk Hv].
    rewrite split_first_app by (apply clean_no_colon; exact Hk). reflexivity.
  - rewrite split_first_none by (apply clean_no_colon; exact H). reflexivity.
Qed.

Lemma parse_render_tags : forall tg, forallb tag_ok tg = true -> map parse_tag (map render_tag tg) = tg.
Proof.
  induction tg as [|t r IH]; intros H; [reflexivity|].
  cbn [forallb] in H. apply andb_true_iff in H. destruct H as [Ht Hr].
  cbn [map]. rewrite parse_render_tag by exact Ht. rewrite IH by exact Hr. reflexivity.
Qed.

Lemma forallb_Forall : forall A (p : A -> bool) (P : A -> Prop) l,
  (forall x, p x = true -> P x) -> forallb p l = true -> Forall P l.
Proof.
  intros A p P l HP H. rewrite forallb_forall in H. apply Forall_forall. intros x Hx. apply HP, H, Hx.
Qed.

Lemma Forall_map_iff : forall A B (f : A -> B) (P : B -> Prop) l, Forall (fun x => P (f x)) l -> Forall P (map f l).
Proof. intros A B f P l H. induction H; cbn [map]; constructor; assumption. Qed.

(* the four optional sections are recognised positionally, each iff present *)
Lemma take_rate_sections : forall rate tags cid ts,
  take_rate (sections rate tags cid ts) = (rate, sections None tags cid ts).
Proof.
  intros [r|] tags cid ts; [reflexivity|].
  destruct tags as [|t tg], cid as [c|], ts as [n|]; reflexivity.
Qed.

Lemma take_tags_sections : forall tags cid ts,
  forallb tag_ok tags = true ->
  take_tags (sections None tags cid ts) = (tags, sections None [] cid ts).
Proof.
  intros [|t tg] cid ts H.
  - destruct cid as [c|], ts as [n|]; reflexivity.
  - unfold sections. cbn [app take_tags]. change (N.eqb b_hash b_hash) with true. cbv iota.
    rewrite split_on_join.
    + rewrite parse_render_tags by exact H. reflexivity.
    + discriminate.
    + apply Forall_map_iff. eapply forallb_Forall; [|exact H]. exact tag_ok_no_comma.
Qed.

Lemma take_container_sections : forall cid ts,
  take_container (sections None [] cid ts) = (cid, sections None [] None ts).
Proof.
  intros [c|] ts; [reflexivity|].
  destruct ts as [n|]; [|reflexivity].
  unfold sections. cbn [app take_container]. destruct (render_N n); reflexivity.
Qed.

Lemma take_timestamp_sections : forall ts,
  take_timestamp (sections None [] None ts) = (Some ts, []).
Proof.
  intros [n|]; [|reflexivity].
  unfold sections. cbn [app take_timestamp]. change (N.eqb b_T b_T) with true. cbv iota.
  rewrite render_parse_N. reflexivity.
Qed.

Lemma sections_no_pipe : forall rate tags cid ts,
  opt_clean rate = true -> forallb tag_ok tags = true -> opt_clean cid = true ->
  Forall (fun p => ~ In b_pipe p) (sections rate tags cid ts).
Proof.
  intros rate tags cid ts Hr Ht Hc. unfold sections.
  apply Forall_app; split; [|apply Forall_app; split; [|apply Forall_app; split]].
  - destruct rate as [r|]; constructor; [|constructor]. cbn [opt_clean] in Hr.
    intros [H|H]; [discriminate|exact (clean_no_pipe _ Hr H)].
  - destruct tags as [|t tg]; constructor; [|constructor].
    intros [H|H]; [discriminate|]. apply In_join in H. destruct H as [H|[p [Hp Hb]]]; [discriminate|].
    apply in_map_iff in Hp. destruct Hp as [t' [Et Hin]]. subst p.
    rewrite forallb_forall in Ht. exact (tag_ok_no_pipe _ (Ht _ Hin) Hb).
  - destruct cid as [c|]; constructor; [|constructor]. cbn [opt_clean] in Hc.
    intros [H|[H|H]]; [discriminate|discriminate|exact (clean_no_pipe _ Hc H)].
  - destruct ts as [n|]; constructor; [|constructor].
    intros [H|H]; [discriminate|exact (clean_no_pipe _ (render_N_clean n) H)].
Qed.

Lemma join_colon_no_pipe : forall vals, forallb clean vals = true -> ~ In b_pipe (join b_colon vals).
Proof.
  intros vals H Hin. apply In_join in Hin. destruct Hin as [Hin|[p [Hp Hb]]]; [discriminate|].
  rewrite forallb_forall in H. exact (clean_no_pipe _ (H _ Hp) Hb).
Qed.

(* parsing any line of the wire shape gives back exactly the pieces it was made of *)
Theorem parse_wire_line : forall name vals ty rate tags cid ts,
  clean name = true -> vals <> [] -> forallb clean vals = true -> clean ty = true ->
  opt_clean rate = true -> forallb tag_ok tags = true -> opt_clean cid = true ->
  parse_line (wire_line name vals ty rate tags cid ts) =
  Some {| p_name := name; p_values := vals; p_type := ty; p_rate := rate; p_tags := tags;
          p_container := cid; p_timestamp := ts |}.
Proof.
  intros name vals ty rate tags cid ts Hname Hne Hvals Hty Hrate Htags Hcid.
  rewrite wire_line_join. unfold parse_line. rewrite split_on_join.
  - rewrite split_first_app by (apply clean_no_colon; exact Hname).
    rewrite take_rate_sections, take_tags_sections by exact Htags.
    rewrite take_container_sections, take_timestamp_sections.
    rewrite split_on_join; [reflexivity|exact Hne|].
    eapply forallb_Forall; [|exact Hvals]. exact clean_no_colon.
  - discriminate.
  - constructor; [|constructor].
    + intros Hin. apply in_app_or in Hin. destruct Hin as [Hin|[Hin|Hin]].
      * exact (clean_no_pipe _ Hname Hin).
      * discriminate.
      * exact (join_colon_no_pipe _ Hvals Hin).
    + apply clean_no_pipe. exact Hty.
    + apply sections_no_pipe; assumption.
Qed.

(* --- the hypotheses of parse_wire_line follow from config_ok / call_ok *)
Lemma full_name_clean : forall p key, clean p = true -> clean key = true -> clean (full_name p key) = true.
Proof.
  intros p key Hp Hk. unfold full_name. destruct p as [|b p]; [exact Hk|].
  rewrite clean_app, clean_cons. rewrite (trim_end_dots_clean _ Hp), Hk. reflexivity.
Qed.

Lemma op_tags_ok : forall ops, forallb bop_ok ops = true -> forallb tag_ok (op_tags ops) = true.
Proof.
  induction ops as [|o r IH]; intros H; [reflexivity|].
  cbn [forallb] in H. apply andb_true_iff in H. destruct H as [Ho Hr].
  destruct o; cbn [op_tags forallb tag_ok bop_ok] in *; rewrite ?Ho; cbn [andb]; apply IH; exact Hr.
Qed.

Lemma op_rate_ok : forall ops, forallb bop_ok ops = true -> opt_clean (op_rate ops) = true.
Proof.
  induction ops as [|o r IH]; intros H; [reflexivity|].
  cbn [forallb] in H. apply andb_true_iff in H. destruct H as [Ho Hr]. specialize (IH Hr).
  cbn [op_rate]. destruct (op_rate r); [exact IH|]. destruct o; try reflexivity. exact Ho.
Qed.

Lemma op_container_ok : forall ops, forallb bop_ok ops = true -> opt_clean (op_container ops) = true.
Proof.
  induction ops as [|o r IH]; intros H; [reflexivity|].
  cbn [forallb] in H. apply andb_true_iff in H. destruct H as [Ho Hr]. specialize (IH Hr).
  cbn [op_container]. destruct (op_container r); [exact IH|]. destruct o; try reflexivity. exact Ho.
Qed.

Lemma mvalue_ok_texts : forall v, mvalue_ok v = true -> forallb clean (value_texts v) = true.
Proof.
  intros [z|l|n|l|t|l] H; cbn [value_texts forallb mvalue_ok] in *.
  - rewrite render_Z_clean. reflexivity.
  - apply forallb_forall. intros x Hx. apply in_map_iff in Hx. destruct Hx as [z [<- _]]. apply render_Z_clean.
  - rewrite render_N_clean. reflexivity.
  - apply forallb_forall. intros x Hx. apply in_map_iff in Hx. destruct Hx as [z [<- _]]. apply render_N_clean.
  - rewrite H. reflexivity.
  - exact H.
Qed.

Lemma to_value_ok : forall k a v, arg_ok a = true -> to_value k a = Some (inr v) -> mvalue_ok v = true.
Proof.
  intros k a v Ha H.
  destruct a; destruct k; cbn [to_value arg_ok] in *; try discriminate;
    try (inversion H; subst; cbn [mvalue_ok]; first [exact Ha|reflexivity]).
  all: unfold conv_dur, conv_durs in H;
    match type of H with context [if ?b then _ else _] => destruct b end;
    try discriminate; inversion H; reflexivity.
Qed.

Theorem roundtrip : forall cfg c l,
  config_ok cfg = true -> call_ok c = true ->
  client_line cfg c = Some (inr l) ->
  exists v, to_value (k_kind c) (k_arg c) = Some (inr v) /\
    parse_line l =
    Some {| p_name := full_name (c_prefix cfg) (k_key c);
            p_values := value_texts v;
            p_type := code (k_kind c);
            p_rate := op_rate (k_ops c);
            p_tags := c_tags cfg ++ op_tags (k_ops c);
            p_container := or_else (op_container (k_ops c)) (c_container cfg);
            p_timestamp := op_timestamp (k_ops c) |}.
Proof.
  intros cfg c l Hcfg Hcall H.
  unfold config_ok in Hcfg. unfold call_ok in Hcall.
  apply andb_true_iff in Hcfg. destruct Hcfg as [Hcfg Hcc]. apply andb_true_iff in Hcfg. destruct Hcfg as [Hp Hct].
  apply andb_true_iff in Hcall. destruct Hcall as [Hcall Hops]. apply andb_true_iff in Hcall. destruct Hcall as [Hkey Harg].
  destruct (shape _ _ _ H) as [v [Hv [Hne Hl]]]. exists v. split; [exact Hv|]. subst l.
  apply parse_wire_line.
  - apply full_name_clean; assumption.
  - exact Hne.
  - apply mvalue_ok_texts. eapply to_value_ok; eassumption.
  - apply code_clean.
  - apply op_rate_ok. exact Hops.
  - rewrite forallb_app, Hct, (op_tags_ok _ Hops). reflexivity.
  - pose proof (op_container_ok _ Hops) as Hoc. destruct (op_container (k_ops c)); [exact Hoc|exact Hcc].
Qed.

(* ------------------------------------------------------------------ defaults (C04) *)
(* the client's defaults act exactly as builder calls made BEFORE the caller's own *)
Definition tag_op (t : tag) : bop := match t with (Some k, v) => WithTag k v | (None, v) => WithTagValue v end.
Definition default_ops (cfg : config) : list bop :=
  map tag_op (c_tags cfg) ++ match c_container cfg with Some x => [WithContainerId x] | None => [] end.

Lemma op_tags_map_tag_op : forall tags, op_tags (map tag_op tags) = tags.
Proof. induction tags as [|[[k|] v] r IH]; cbn [map tag_op op_tags]; try rewrite IH; reflexivity. Qed.
Lemma op_rate_map_tag_op : forall tags, op_rate (map tag_op tags) = None.
Proof. induction tags as [|[[k|] v] r IH]; cbn [map tag_op op_rate]; try rewrite IH; reflexivity. Qed.
Lemma op_container_map_tag_op : forall tags, op_container (map tag_op tags) = None.
Proof. induction tags as [|[[k|] v] r IH]; cbn [map tag_op op_container]; try rewrite IH; reflexivity. Qed.
Lemma op_timestamp_map_tag_op : forall tags, op_timestamp (map tag_op tags) = None.
Proof. induction tags as [|[[k|] v] r IH]; cbn [map tag_op op_timestamp]; try rewrite IH; reflexivity. Qed.

Lemma default_ops_summaries : forall cfg,
  op_tags (default_ops cfg) = c_tags cfg /\ op_rate (default_ops cfg) = None /\
  op_container (default_ops cfg) = c_container cfg /\ op_timestamp (default_ops cfg) = None.
Proof.
  intros cfg. unfold default_ops.
  rewrite op_tags_app, op_rate_app, op_container_app, op_timestamp_app.
  rewrite op_tags_map_tag_op, op_rate_map_tag_op, op_container_map_tag_op, op_timestamp_map_tag_op.
  destruct (c_container cfg); cbn [op_tags op_rate op_container op_timestamp or_else];
    rewrite ?app_nil_r; repeat split.
Qed.

Theorem defaults_as_ops : forall cfg c,
  client_line cfg c =
  client_line {| c_prefix := c_prefix cfg; c_tags := []; c_container := None |}
              {| k_kind := k_kind c; k_key := k_key c; k_arg := k_arg c;
                 k_ops := default_ops cfg ++ k_ops c |}.
Proof.
  intros cfg c. rewrite !client_line_cases. cbn [k_kind k_key k_arg k_ops c_prefix c_tags c_container].
  rewrite op_tags_app, op_rate_app, op_container_app, op_timestamp_app.
  destruct (default_ops_summaries cfg) as [E1 [E2 [E3 E4]]]. rewrite E1, E2, E3, E4.
  rewrite !or_else_None_r. cbn [app]. reflexivity.
Qed.

(* a client without defaults adds nothing of its own *)
Theorem no_defaults : forall p c l,
  client_line {| c_prefix := p; c_tags := []; c_container := None |} c = Some (inr l) ->
  exists v, to_value (k_kind c) (k_arg c) = Some (inr v) /\
    l = wire_line (full_name p (k_key c)) (value_texts v) (code (k_kind c))
                  (op_rate (k_ops c)) (op_tags (k_ops c)) (op_container (k_ops c)) (op_timestamp (k_ops c)).
Proof.
  intros p c l H. destruct (shape _ _ _ H) as [v [Hv [_ Hl]]]. exists v. split; [exact Hv|].
  cbn [c_prefix c_tags c_container app] in Hl. rewrite or_else_None_r in Hl. exact Hl.
Qed.
