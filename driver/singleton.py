"""C18: the global default client is set once and read race-free
(cadence-macros/src/state.rs, SingletonHolder).  Program family generation, the
exhaustive SC-interleaving correspondence run (hook H1 + blocking tracer), the
vector-clock happens-before checker and the API clauses evaluated directly on
what the *implementation* did, the per-run instantiated obligation, the search
step (extracted model explorer with the observed orderings), the check entry point."""
import itertools
import os
import random
import re
from multiprocessing import Pool

from . import common
from .common import Report, case_hash

WEIGHT = {"s": 3, "g": 2, "i": 1, "d": 0}  # traced operations a call can amount to (d = format the holder with {:?}:
                                           # not a call of the model; it must not touch the cell or the state)
ORD_NAME = {"r": "Relaxed", "l": "Release", "a": "Acquire", "q": "AcqRel", "s": "SeqCst"}
ACQ = frozenset("aqs")
REL = frozenset("lqs")
SOURCE_ORDS = "qrla"

# the instruction sequence of state.rs the model compiles calls to: (call kind, position in call) -> op kind
MODEL_SITES = {("s", 0): "C", ("s", 1): "W", ("s", 2): "S", ("g", 0): "L", ("g", 1): "R", ("i", 0): "L"}


# ------------------------------------------------------------------ program families

def call_seqs(maxw):
    out, frontier = [], [()]
    while frontier:
        nxt = []
        for s in frontier:
            for c in "sgi":
                t = s + (c,)
                if sum(WEIGHT[x] for x in t) <= maxw:
                    out.append(t)
                    nxt.append(t)
        frontier = nxt
    return out


def weight(p):
    return sum(WEIGHT[c] for th in p for c in th)


def fmt_prog(p):
    k, ths = 0, []
    for th in p:
        cs = []
        for c in th:
            if c == "s":
                k += 1
                cs.append("s%d" % k)
            else:
                cs.append(c)
        ths.append(".".join(cs))
    return "/".join(ths)


def all_programs(maxw, minw=0):
    """every program of 2 or 3 non-empty threads (up to renaming of threads) whose calls amount to
    minw..maxw traced operations (set = 3, get = 2, is_set = 1)"""
    seqs = sorted(call_seqs(maxw), key=lambda s: (sum(WEIGHT[c] for c in s), s))
    ws = [sum(WEIGHT[c] for c in s) for s in seqs]
    out = []

    def go(start, left, nthreads, acc):
        if nthreads == 0:
            if maxw - left >= minw:
                out.append(tuple(acc))
            return
        for j in range(start, len(seqs)):
            if ws[j] * nthreads > left:      # seqs are sorted by weight: the remaining threads weigh at least as much
                break
            acc.append(seqs[j])
            go(j, left - ws[j], nthreads - 1, acc)
            acc.pop()

    for n in (2, 3):
        go(0, maxw, n, [])
    return out


def sched_bound(p):
    """upper bound of the number of interleavings (multinomial of the maximal operation counts)"""
    from math import factorial
    ls = [sum(WEIGHT[c] for c in th) for th in p]
    r = factorial(sum(ls))
    for x in ls:
        r //= factorial(x)
    return r


def family(tier, seed):
    """quick: EVERY program with <= 9 traced operations.  thorough: every program with <= 11, plus a
    seeded sample (about a quarter) of the 12-operation programs."""
    rng = random.Random(seed)
    if tier == "thorough":
        progs = all_programs(11)
        extra = all_programs(12, 12)
        rng.shuffle(extra)
        budget, pick = 8_000_000, []
        for p in extra:
            b = sched_bound(p)
            if b <= budget:
                pick.append(p)
                budget -= b
            if budget < 1000:
                break
        scope = ("every program of 2-3 threads over {set, get, is_set} amounting to <= 11 traced operations "
                 "(%d programs) + %d seeded programs of the %d with exactly 12; every SC interleaving of each"
                 % (len(progs), len(pick), len(extra)))
        progs += pick
    else:
        progs = all_programs(9)
        scope = ("every program of 2-3 threads over {set, get, is_set} amounting to <= 9 traced operations "
                 "(%d programs); every SC interleaving of each" % len(progs))
    # expensive programs first so that the interleaved shards are balanced
    progs.sort(key=lambda p: (-sched_bound(p), p))
    return [fmt_prog(p) for p in progs], scope


def dbg_family():
    """programs in which the holder is also formatted with {:?} (it derives Debug) before, between and after the
    calls of every thread: every program of 2 threads with <= 3 calls each over {set, get, is_set, d}, <= 7 traced
    operations, at least one d; and the 3-thread programs set / d / get-or-is_set"""
    seqs = [()]
    for _ in range(3):
        seqs += [q + (c,) for q in seqs for c in "sgid" if len(q) == max(len(x) for x in seqs)]
    seqs = sorted(set(q for q in seqs if q))
    out = []
    for a in seqs:
        for b in seqs:
            if a <= b and "d" in a + b and "s" in a + b and weight((a, b)) <= 7:
                out.append((a, b))
    for r in "gi":
        out += [(("s",), ("d",), (r,)), (("s", "d"), ("d", r), ("d",)), (("d", "s"), (r, "d"), ("s",))]
    return [fmt_prog(q) for q in out]


def strip_dbg(ps, line=None):
    """the program the model runs (d is not a call of the model) and, given the implementation's observation of
    the program with d, the same observation with the d results removed and the call indices renumbered.  An
    observation in which a d call performed a traced operation is returned unchanged (it then disagrees)."""
    prog = parse_prog(ps)
    renum = [{} for _ in prog]
    for t, th in enumerate(prog):
        k = 0
        for ci, c in enumerate(th):
            if c != "d":
                renum[t][ci] = k
                k += 1
    sp = "/".join(".".join(c for c in th if c != "d") or "-" for th in prog)
    if line is None:
        return sp
    head, _, body = line.partition(" ")
    out = []
    for e in body.split(";") if body else []:
        f = e.split("|")
        toks = f[1].split(",") if f[1] else []
        nt = []
        for tok in toks:
            ts, cis, op = tok.split(".", 2)
            if int(cis) not in renum[int(ts)]:
                return sp, line
            nt.append("%s.%d.%s" % (ts, renum[int(ts)][int(cis)], op))
        res = [".".join(r for r in th.split(".") if r != "d") for th in f[2].split("/")]
        out.append("|".join([f[0], ",".join(nt), "/".join(res)] + f[3:]))
    return sp, head + " " + ";".join(out)


def small_family(maxw):
    ps = all_programs(maxw)
    ps.sort(key=lambda p: (weight(p), len(p), p))
    return [fmt_prog(p) for p in ps]


# ------------------------------------------------------------------ one real trace

def parse_prog(ps):
    return [([] if th in ("", "-") else th.split(".")) for th in ps.split("/")]


def check_entry(prog, entry, sites=None, stats=None):
    """Everything that is evaluated on ONE execution of the implementation.
    Returns a list of (kind, text, detail) problems:
      kind 'race'   : two conflicting cell accesses not ordered by happens-before (vector clocks,
                      DECLARED orderings, reads-from = latest write since the trace is SC)
      kind 'api'    : a clause of C18 on the API results / cell writes
    [sites] collects the orderings seen per site, [stats] the distribution."""
    f = entry.split("|")
    sched, ops_s, res_s = f[0], f[1], f[2]
    flags = f[3] if len(f) > 3 else ""
    n = len(prog)
    problems = []
    toks = ops_s.split(",") if ops_s else []
    C = [[0] * n for _ in range(n)]
    for t in range(n):
        C[t][t] = 1
    M = [0] * n                 # view carried by the latest write to `state`
    acc = []                    # (position, thread, is_write, epoch of the access)
    first, last, kcount = {}, {}, {}
    writes = []                 # (position, thread, call index)
    state_ops = []              # (position, thread, token) for the diagnosis
    win_cas = win_store = None
    failed_cas = 0
    for pos, tok in enumerate(toks):
        ts, cis, op = tok.split(".", 2)
        t, ci = int(ts), int(cis)
        key = (t, ci)
        if key not in first:
            first[key] = pos
            k = 0
        else:
            k = kcount[key] + 1
        kcount[key] = k
        last[key] = pos
        kind = op[0]
        Ct = C[t]
        if kind == "L":
            if op[1] in ACQ:
                for i in range(n):
                    if M[i] > Ct[i]:
                        Ct[i] = M[i]
            state_ops.append((pos, t, op))
            o = op[1]
        elif kind == "S":
            M = Ct[:] if op[1] in REL else [0] * n      # a non-release store heads no release sequence
            state_ops.append((pos, t, op))
            o = op[1]
            if win_cas is not None and t == win_cas[1] and win_store is None:
                win_store = pos
        elif kind == "C":
            so, fo = op[1], op[2]
            ok = op.rsplit(":", 1)[1][0] == "k"
            if ok:
                if so in ACQ:
                    for i in range(n):
                        if M[i] > Ct[i]:
                            Ct[i] = M[i]
                if so in REL:                            # the RMW continues the release sequence
                    M = [max(a, b) for a, b in zip(M, Ct)]
                if win_cas is None:
                    win_cas = (pos, t)
            else:
                failed_cas += 1
                if fo in ACQ:
                    for i in range(n):
                        if M[i] > Ct[i]:
                            Ct[i] = M[i]
            state_ops.append((pos, t, op))
            o = op[1:3]
        elif kind in "WR":
            w = kind == "W"
            for (p, u, uw, ep) in acc:
                if u != t and (w or uw) and ep > Ct[u]:
                    problems.append(("race", "cell %s by thread %d (operation %d) and cell %s by thread %d (operation %d) "
                                     "are not ordered by happens-before under the declared orderings"
                                     % ("write" if uw else "read", u, p, "write" if w else "read", t, pos),
                                     {"first_access": p, "second_access": pos,
                                      "state_operations_between": ["%d:T%d:%s" % x for x in state_ops if p < x[0] < pos]}))
            acc.append((pos, t, w, Ct[t]))
            if w:
                writes.append((pos, t, ci))
            o = ""
        else:
            problems.append(("api", "unknown traced operation %r" % tok, {}))
            o = ""
        Ct[t] += 1
        if sites is not None:
            ck = prog[t][ci][0] if t < n and ci < len(prog[t]) else "?"
            sites.setdefault((ck, k, kind), set()).add(o)
    # ---- API clauses
    res = [([] if r == "" else r.split(".")) for r in res_s.split("/")]
    if len(res) != n:
        problems.append(("api", "results for %d threads, program has %d" % (len(res), n), {}))
        return problems
    values = set()
    reads = []          # (is "set" reported, first op, last op)
    sets = {}           # payload id -> (thread, call, first, last)
    for t in range(n):
        if len(res[t]) != len(prog[t]) or "p" in res[t]:
            problems.append(("api", "thread %d: a call panicked or did not return (%s)" % (t, ".".join(res[t])), {}))
            continue
        for ci, (c, r) in enumerate(zip(prog[t], res[t])):
            a, b = first.get((t, ci)), last.get((t, ci))
            if c[0] == "s":
                if r != "u":
                    problems.append(("api", "set returned %r" % r, {}))
                sets[c[1:]] = (t, ci, a, b)
            elif c == "d":
                if r != "d":
                    problems.append(("api", "formatting the holder with {:?} returned %r" % r, {}))
                if a is not None:
                    problems.append(("api", "formatting the holder with {:?} performed traced operations on the holder "
                                     "(operations %d..%d): it is not one of set / get / is_set" % (a, b), {}))
            elif c == "g":
                if r[0] == "v":
                    values.add(r[1:])
                    reads.append((True, a, b))
                elif r == "n":
                    reads.append((False, a, b))
                else:
                    problems.append(("api", "get returned %r" % r, {}))
            else:
                if r in ("t", "f"):
                    reads.append((r == "t", a, b))
                else:
                    problems.append(("api", "is_set returned %r" % r, {}))
    if len(writes) > 1:
        problems.append(("api", "the cell was written %d times" % len(writes), {"writes": writes}))
    if len(values) > 1:
        problems.append(("api", "get returned different values %s" % sorted(values), {}))
    for v in values:
        if v not in sets:
            problems.append(("api", "get returned a value (%s) no set call was given" % v, {}))
        elif writes and (writes[0][1], writes[0][2]) != sets[v][:2]:
            problems.append(("api", "get returned the value of a set call that did not write the cell", {}))
    if flags:
        fl = dict(x.split("=") for x in flags.lstrip("!").split(","))
        if fl.get("same") == "0":
            problems.append(("api", "get returned different Arc instances (Arc::ptr_eq fails)", {}))
        if fl.get("intact") == "0":
            problems.append(("api", "get returned a payload that is not fully constructed", {}))
        if fl.get("overflow") == "1":
            problems.append(("api", "more than 96 traced operations in one execution (unbounded loop)", {}))
    # set-once register: there is a moment p inside the winning set such that every read that reported
    # "set" ends after p and every read that reported "not set" starts before p; a set that started after
    # another set had returned cannot be the winner; with no set at all nothing is ever reported set
    if not sets:
        if any(r[0] for r in reads):
            problems.append(("api", "a read reported a value although no set was called", {}))
    elif len(values) <= 1 and all(v in sets for v in values):
        cands = [sets[v] for v in values] if values else list(sets.values())
        ok = False
        for (t, ci, aw, bw) in cands:
            if aw is None:
                ok = True
                break
            if any(o[3] is not None and o[3] < aw for o in sets.values() if (o[0], o[1]) != (t, ci)):
                continue
            lo, hi = aw, bw
            for (isset, a, b) in reads:
                if a is None:
                    continue
                if isset:
                    hi = min(hi, b - 1)
                else:
                    lo = max(lo, a + 1)
            if lo <= hi:
                ok = True
                break
        if not ok:
            problems.append(("api", "reads are not consistent with a set-once value: no moment inside a set call "
                             "separates the reads that reported 'not set' from those that reported the value "
                             "(a read reported the value before it was set, or 'not set' after a set had completed "
                             "and been observed)", {}))
    if stats is not None:
        stats["ops"][len(toks)] = stats["ops"].get(len(toks), 0) + 1
        window = False
        if win_cas is not None:
            end = win_store if win_store is not None else len(toks)
            window = any(int(tk.split(".", 1)[0]) != win_cas[1] for tk in toks[win_cas[0] + 1:end])
        if failed_cas:
            stats["racing_setters"] += 1
        if window:
            stats["in_window"] += 1
        if failed_cas or window:
            stats["nontrivial"] += 1
        if values:
            stats["value_returned"] += 1
    return problems


def analyse_line(args):
    """all entries of one program (one harness output line)"""
    prog_s, line = args
    prog = parse_prog(prog_s)
    body = line.partition(" ")[2]
    entries = body.split(";") if body else []
    sites = {}
    stats = {"ops": {}, "racing_setters": 0, "in_window": 0, "nontrivial": 0, "value_returned": 0}
    bad = []
    for e in entries:
        try:
            pr = check_entry(prog, e, sites, stats)
        except Exception as ex:  # undecodable observation
            pr = [("api", "observation cannot be decoded: %r" % (ex,), {})]
        if pr and len(bad) < 3:
            bad.append((e, pr))
        elif pr:
            bad.append((None, None))
    return {"n": len(entries), "bad": bad[:3], "nbad": len(bad),
            "sites": {k: sorted(v) for k, v in sites.items()}, "stats": stats}


# ------------------------------------------------------------------ orderings

def observed_orderings(site_sets):
    """the four orderings of the model's parameter record from what the tracer reported.
    Returns (letters or None, problems)."""
    problems = []
    for k, v in sorted(site_sets.items()):
        if len(v) > 1:
            problems.append("site %s was executed with different orderings %s" % (k, sorted(v)))
    def one(key):
        v = site_sets.get(key)
        return sorted(v)[0] if v else None
    cas, st, lg, li = one(("s", 0, "C")), one(("s", 2, "S")), one(("g", 0, "L")), one(("i", 0, "L"))
    if lg and li and lg != li:
        problems.append("get and is_set load `state` with different orderings (%s, %s); the model has one" % (lg, li))
    ld = lg or li
    extra = sorted(k for k in site_sets if MODEL_SITES.get((k[0], k[1])) != k[2])
    if extra:
        problems.append("traced operations at sites the model does not have: %s" % extra)
    if not (cas and len(cas) == 2 and st and ld) or any(c not in ORD_NAME for c in (cas or "") + (st or "") + (ld or "")):
        return None, problems + ["could not observe all four orderings (CAS %r, store %r, load %r)" % (cas, st, ld)]
    return cas + st + ld, problems


def coq_ords(o):
    return ("{| o_cas_ok := %s; o_cas_fail := %s; o_store := %s; o_load := %s |}"
            % tuple(ORD_NAME[c] for c in o))


def ord_ok(o):
    return o[2] in REL and o[3] in ACQ


def obs_file(o, kernel_cases):
    """per-run obligation: the OBSERVED orderings satisfy the side condition of the theorems (so the
    theorems instantiate to this tree), + a kernel cross-check of the extracted runner on a few cases"""
    txt = ["(* generated by driver/singleton.py from the orderings the tracer observed in this tree *)",
           "Require Import Cadence.Base.Prelude Cadence.Model.Singleton Cadence.Props.C18.",
           "Definition observed : ords := %s." % coq_ords(o),
           "Example obs_ord_ok : ord_ok observed = true. Proof. vm_compute. reflexivity. Qed.",
           "Example obs_race_free : forall progs sched, g_raced (sg_run observed progs sched) = false.",
           "Proof. intros. exact (proj1 (c18_race_free observed progs sched obs_ord_ok)). Qed.",
           "Example obs_get : forall progs sched k r x, nth_error (g_trace (sg_run observed progs sched)) k = Some r ->",
           "  r_ret r = Some (RGet (Some x)) -> g_cell (sg_run observed progs sched) = Some x.",
           "Proof. intros progs sched k r x H E. exact (proj1 (proj1 (c18_get observed progs sched obs_ord_ok k r H) x E)). Qed.",
           "Definition view (s : sg_state) := (map (fun r => (r_tid r, read_val r, r_ret r)) (g_trace s), g_raced s)."]
    for i, (prog, sched, expect) in enumerate(kernel_cases):
        txt.append("Example kernel_%d : view (sg_run_sc observed %s %s) = %s. Proof. vm_compute. reflexivity. Qed."
                   % (i, prog, sched, expect))
    return "\n".join(txt) + "\n"


def coq_prog(ps):
    def call(c):
        return "CSet %s%%N" % c[1:] if c[0] == "s" else ("CGet" if c == "g" else "CIsSet")
    return "[" + "; ".join("[" + "; ".join(call(c) for c in th) + "]" for th in parse_prog(ps)) + "]"


def coq_view(entry):
    """the Coq value of [view] for an entry printed by the extracted runner"""
    f = entry.split("|")
    toks = f[1].split(",") if f[1] else []
    res = [([] if r == "" else r.split(".")) for r in f[2].split("/")]
    recs = []
    pos = {}
    for i, tok in enumerate(toks):
        ts, cis, op = tok.split(".", 2)
        t, ci = int(ts), int(cis)
        lastop = i + 1 == len(toks) or not any(x.startswith("%d.%d." % (t, ci)) for x in toks[i + 1:])
        if op[0] == "C":
            rv = "Some %s" % op.rsplit(":", 1)[1][1:]
        elif op[0] == "L":
            rv = "Some %s" % op[2:]
        else:
            rv = "None"
        ret = "None"
        if lastop:
            r = res[t][ci]
            ret = {"u": "Some RUnit", "n": "Some (RGet None)", "t": "Some (RIsSet true)",
                   "f": "Some (RIsSet false)"}.get(r) or "Some (RGet (Some %s%%N))" % r[1:]
        recs.append("(%d, %s, %s)" % (t, rv, ret))
    return "([" + "; ".join(recs) + "], false)"


# ------------------------------------------------------------------ the check

def smallest(bads):
    """(prog, entry, problems) with the shortest program / trace first"""
    bads.sort(key=lambda x: (len(x[1].split("|")[1].split(",")), len(x[0]), x[0], x[1]))
    return bads[0]


def check_C18(tier, seed):
    rep = Report("C18", tier, seed, level="proof")
    rep.cov["trusted_base"] = TRUSTED
    rep.assumptions = ASSUMPTIONS
    rep.cov["design_ref"] = "DESIGN.md 8.C18, hook H1 (section 6)"
    rep.add_audit(common.audit_proofs("C18"))
    if tier == "thorough":
        rc, out = common.coqchk("C18")
        rep.cov["coqchk"] = "ok" if rc == 0 else out[-500:]
        if rc != 0:
            rep.violation_noinput("coqchk rejects Props/C18.vo", {"output": out[-3000:]})
    if not common.ensure_built(rep):
        return rep.finish()
    progs, scope = family(tier, seed)
    dprogs = dbg_family()
    progs = progs + dprogs
    scope += "; + %d programs that also format the holder with {:?}" % len(dprogs)
    mprogs = [strip_dbg(p) if "d" in p else p for p in progs]
    try:
        impl = common.run_harness("singleton", ["A " + p for p in progs], shards=common.NCPU, timeout=1200)
    except (common.CheckFailure, Exception) as e:
        rep.violation_noinput("correspondence cannot be established: the singleton harness failed on the current tree",
                              {"error": str(e)[-3000:]})
        return rep.finish()
    with Pool(common.NCPU) as pool:
        summ = pool.map(analyse_line, list(zip(progs, impl)), chunksize=max(1, len(progs) // (8 * common.NCPU)))
    # ---- observed orderings, per site
    site_sets = {}
    for s in summ:
        for k, v in s["sites"].items():
            site_sets.setdefault(k, set()).update(v)
    obs, ord_problems = observed_orderings(site_sets)
    rep.cov["observed_orderings"] = ({"cas_success": ORD_NAME[obs[0]], "cas_failure": ORD_NAME[obs[1]],
                                      "store": ORD_NAME[obs[2]], "load": ORD_NAME[obs[3]]} if obs else None)
    rep.cov["sites"] = {"%s.%d.%s" % k: sorted(v) for k, v in sorted(site_sets.items())}
    model_ords = obs or SOURCE_ORDS
    # ---- (ii) + API clauses on the implementation's own traces
    nsched = sum(s["n"] for s in summ)
    bads = [(p, e, pr) for p, s in zip(progs, summ) for (e, pr) in s["bad"] if e is not None]
    nbad = sum(s["nbad"] for s in summ)
    concrete = False
    first_input = None
    if os.environ.get("C18_SELFTEST_NO_TRACE_CHECKS"):     # self-test of the search step only
        bads, nbad = [], 0
    if bads:
        p, e, pr = smallest(bads)
        concrete = True
        first_input = {"bin": "singleton", "case": "S %s %s" % (p, e.split("|")[0]), "program": p,
                       "schedule": e.split("|")[0], "implementation": e,
                       "clauses": [{"kind": k, "what": w, "detail": d} for (k, w, d) in pr],
                       "observed_orderings": coq_ords(obs) if obs else None,
                       "how": "./check C18 --replay <this file>, or build/target/release/harness singleton "
                              "<file with the case line>"}
        rep.violation_input("%s (%d failing executions; smallest shown)" % (pr[0][1], nbad), first_input)
    # ---- (i) trace conformance with the model instantiated with the observed orderings
    try:
        model = common.run_model("singleton", ["E %s %s" % (model_ords, p) for p in mprogs], shards=common.NCPU)
    except common.CheckFailure as e:
        rep.violation_noinput("model run failed", {"error": str(e)[-3000:]})
        return rep.finish()
    dis = []
    for p, i, m in zip(progs, impl, model):
        if "d" in p:
            i = strip_dbg(p, i)[1]
        if i == m:
            continue
        ie, me = i.partition(" ")[2].split(";"), m.partition(" ")[2].split(";")
        for k in range(max(len(ie), len(me))):
            a = ie[k] if k < len(ie) else None
            b = me[k] if k < len(me) else None
            if a is None or b is None or a.split("|!")[0] != b:
                dis.append((len(p), p, k, a, b, len(ie), len(me)))
                break
    structural = bool(dis) or obs is None or bool(ord_problems)
    rep.cov["disagreements"] = len(dis)
    # ---- (iii) the per-run instantiated obligation
    obs_ok = False
    if obs:
        kc = []
        rng = random.Random(seed)
        rich = [j for j, p in enumerate(progs) if "s" in p and "g" in p] or list(range(len(progs)))
        idx = sorted(rng.sample(rich, min(30, len(rich))) + rng.sample(range(len(progs)), min(10, len(progs))))
        for j in idx:
            es = model[j].partition(" ")[2].split(";")
            e = es[rng.randrange(len(es))]
            if len(e) < 400 and "|!" not in e:
                sched = "[" + "; ".join(e.split("|")[0]) + "]" if e.split("|")[0] != "-" else "[]"
                kc.append((coq_prog(mprogs[j]), sched, coq_view(e)))
        rc, out = common.run_obs_file("Obs_C18", obs_file(obs, kc))
        rep.cov["obligations"] += 1
        if rc == 0:
            rep.cov["discharged"] += 1
            obs_ok = True
            rep.cov["kernel_crosscheck_cases"] = len(kc)
        elif ord_ok(obs):
            rep.violation_noinput("per-run obligation Obs_C18.v does not compile although ord_ok holds for the observed "
                                  "orderings (kernel cross-check of the extracted runner failed?)", {"coqc": out[-3000:]})
        else:
            rep.cov["obs_c18"] = "ord_ok %s = false" % coq_ords(obs)
    # ---- model explorer: all RA executions (stale reads included) of the small programs, observed orderings
    small = small_family(11 if tier == "thorough" else 9)
    try:
        ex = common.run_model("singleton", ["X %s %s" % (model_ords, p) for p in small], shards=common.NCPU)
    except common.CheckFailure as e:
        ex = []
        rep.violation_noinput("model explorer failed", {"error": str(e)[-2000:]})
    racy = [(p, x.split()[1]) for p, x in zip(small, ex) if x.startswith("racy")]
    rep.cov["model_explorer"] = {"orderings": model_ords, "programs": len(small),
                                 "ra_executions_visited": sum(int(x.split()[-1]) for x in ex),
                                 "racy_programs": len(racy)}
    # ---- search: an obligation or the correspondence broke
    if (not obs_ok or structural) and not concrete:
        found = None
        for p, w in racy[:5]:
            tids = "".join(x.split(":")[0] for x in w.split(","))
            try:
                r = common.run_harness("singleton", ["S %s %s" % (p, tids)], shards=1)[0]
            except common.CheckFailure:
                continue
            e = r.partition(" ")[2]
            pr = [x for x in check_entry(parse_prog(p), e) if x[0] == "race"]
            if pr:
                found = (p, w, tids, e, pr)
                break
        if found:
            p, w, tids, e, pr = found
            concrete = True
            rep.violation_input(
                "%s — racy execution found by the model explorer with the observed orderings %s and replayed on the "
                "implementation" % (pr[0][1], coq_ords(obs) if obs else model_ords),
                {"bin": "singleton", "case": "S %s %s" % (p, tids), "program": p,
                 "model_schedule(thread:read choice)": w, "implementation": e,
                 "clauses": [{"kind": k, "what": t, "detail": d} for (k, t, d) in pr],
                 "broken_obligation": "ord_ok %s = true (side condition of c18_race_free, c18_get)" % (coq_ords(obs) if obs else "?")})
    if first_input is not None:
        if obs and not ord_ok(obs):
            first_input["broken_obligation"] = ("ord_ok %s = true (side condition of c18_race_free, c18_get) fails"
                                                % coq_ords(obs))
        if racy:
            first_input["model_explorer_racy_execution"] = {"program": racy[0][0],
                                                            "schedule(thread:read choice)": racy[0][1]}
        if dis:
            d = sorted(dis)[0]
            first_input["correspondence"] = {"programs_disagreeing_with_the_model": len(dis),
                                             "first": {"program": d[1], "entry_index": d[2],
                                                       "implementation": d[3], "model": d[4]}}
    if not concrete:
        if obs and not obs_ok and not ord_ok(obs):
            rep.violation_noinput("the observed orderings %s do not satisfy ord_ok: c18_race_free / c18_get no longer apply "
                                  "to this code" % coq_ords(obs),
                                  {"theorems": rep.cov.get("theorems", []), "observed": coq_ords(obs),
                                   "model_explorer_racy": racy[:3]})
        if structural:
            d = sorted(dis)[0] if dis else None
            rep.violation_noinput(
                "correspondence Model/Singleton.v <-> cadence-macros/src/state.rs broken (%d programs disagree%s); the "
                "theorems of Props/C18.v no longer speak about this code"
                % (len(dis), "; " + "; ".join(ord_problems) if ord_problems else ""),
                {"correspondence": "sg_run_sc (SC instantiation of the view machine, observed orderings %s) vs "
                                   "SingletonHolder under the blocking tracer" % model_ords,
                 "theorems": rep.cov.get("theorems", []), "ordering_problems": ord_problems,
                 "first_disagreeing_case": None if d is None else
                 {"program": d[1], "entry_index": d[2], "implementation": d[3], "model": d[4],
                  "implementation_entries": d[5], "model_entries": d[6]}})
    # ---- the global holder itself through the crate's public functions (set_global_default / get_global_default /
    # is_global_default_set), one fresh process per history: reads say "not set" before the first set, afterwards
    # always the same client, whoever offers another one later
    from . import mac as mac_driver
    gq = []
    for pre in ([], [("Q",)], [("G",), ("QT",)]):
        for first in ("S", "Z"):
            for mid in ([], [("G",)], [("Q",), ("GT",)]):
                steps = pre + [(first,)] + mid + [("Z",) if first == "S" else ("S",)] + [("G",), ("Q",), ("GT",), ("QT",), ("G",)]
                gq.append(mac_driver.MCase("p", [], None, [], steps))
    gq.append(mac_driver.MCase("p", [], None, [], [("Q",), ("G",), ("QT",), ("GT",)]))
    try:
        gimpl = common.run_harness("mac", [c.line() for c in gq], shards=min(8, common.NCPU))
    except common.CheckFailure as e:
        gimpl = ["HARNESS-PANIC " + str(e)[:200]] * len(gq)
    gbad = []
    for c, o in zip(gq, gimpl):
        msgs = mac_driver.judge(c, o, {})
        if "g1!" in o:
            msgs.append("get_global_default() returned different Arc instances in one process")
        if msgs:
            gbad.append((c.line(), o, msgs))
    rep.cov["global_holder_histories"] = len(gq)
    if gbad and not concrete:
        l, o, msgs = sorted(gbad, key=lambda x: len(x[0]))[0]
        concrete = True
        rep.violation_input("%s (%d failing histories of the global holder; smallest shown)" % (msgs[0][:300], len(gbad)),
                            {"bin": "mac", "case": l, "implementation": o, "clauses": msgs})
    # ---- ... and under the scheduler: small programs, EVERY schedule the model enumerates for them, each in a fresh
    # process on the process-wide holder (the free functions are part of the crate's code, not of SingletonHolder: a
    # read of the state in is_global_default_set / get_global_default that does not go through is_set / get shows here,
    # e.g. "set" reported inside another thread's initialisation window)
    gcases = []
    budget = 2500 if tier == "thorough" else 260
    for p, m in zip(mprogs, model):
        if "d" in p or "s" not in p or p.count("/") < 1 or not ("g" in p or "i" in p):
            continue
        es = m.partition(" ")[2].split(";")
        if len(es) > (120 if tier == "thorough" else 40) or any("|!" in e or len(e.split("|")[0]) > 40 for e in es):
            continue
        if len(gcases) + len(es) > budget:
            continue
        gcases += [(p, e) for e in es]
    try:
        gout = common.run_harness("singleton", ["G %s %s" % (p, e.split("|")[0]) for p, e in gcases], shards=common.NCPU)
    except common.CheckFailure as e:
        gout = ["HARNESS-PANIC " + str(e)[:200]] * len(gcases)
    g_bad, g_dis = [], []
    for (p, e), o in zip(gcases, gout):
        ie = o.partition(" ")[2] if o.startswith("n=1 ") else o
        if ie.split("|!")[0] == e and "|!" not in ie:
            continue
        try:
            pr = check_entry(parse_prog(p), ie) if o.startswith("n=1 ") else [("api", "the child process failed: " + o[:200], {})]
        except Exception as ex:
            pr = [("api", "observation cannot be decoded: %r" % (ex,), {})]
        if pr:
            g_bad.append((len(p) + len(e), p, e, ie, pr))
        else:
            g_dis.append((len(p) + len(e), p, e, ie))
    rep.cov["global_holder_schedules"] = len(gcases)
    if g_bad and not concrete:
        _, p, e, ie, pr = sorted(g_bad)[0]
        concrete = True
        rep.violation_input("on the process-wide holder (set_global_default / get_global_default / is_global_default_set): %s "
                            "(%d failing executions; smallest shown)" % (pr[0][1], len(g_bad)),
                            {"bin": "singleton", "case": "G %s %s" % (p, e.split("|")[0]), "program": p,
                             "schedule": e.split("|")[0], "implementation": ie, "model": e,
                             "clauses": [{"kind": k, "what": w, "detail": d} for (k, w, d) in pr]})
    elif g_dis and not concrete and not structural:
        _, p, e, ie = sorted(g_dis)[0]
        rep.violation_noinput(
            "correspondence Model/Singleton.v <-> the global holder of cadence-macros (free functions of state.rs) broken on "
            "%d executions; the theorems of Props/C18.v no longer speak about this code" % len(g_dis),
            {"first_disagreeing_case": {"case": "G %s %s" % (p, e.split("|")[0]), "implementation": ie, "model": e}})
    # ---- the compile-time part of "no data race on the cell": the bounds of the two unsafe impls.  Two programs that
    # share / move a holder of a !Sync / !Send value must be rejected by the compiler (E0277)
    wit = {}
    for name in ("c18_sync_witness", "c18_send_witness"):
        rc, out = common.build_example(name)
        if rc == 0:
            wit[name] = "COMPILES"
            if not concrete:
                concrete = True
                run = common.sh([os.path.join(common.TARGET, "release", "examples", name)], timeout=60)[1][-300:]
                rep.violation_input(
                    "harness/examples/%s.rs compiles: SingletonHolder<T> is %s for a T that is not - safe code can race on the "
                    "value behind the cell" % (name, "Sync" if "sync" in name else "Send"),
                    {"bin": "example", "case": "harness/examples/%s.rs" % name, "program_output": run,
                     "how": "cargo build --release --example %s in /verif/harness (RUSTFLAGS=--cfg cadence_verif)" % name})
        elif "E0277" in out:
            wit[name] = "rejected (E0277)"
        else:
            wit[name] = "did not build for another reason: " + out[-300:]
    rep.cov["compile_fail_witnesses"] = wit
    # ---- evidence
    stats = {"ops": {}, "racing_setters": 0, "in_window": 0, "nontrivial": 0, "value_returned": 0}
    for s in summ:
        for k, v in s["stats"]["ops"].items():
            stats["ops"][k] = stats["ops"].get(k, 0) + v
        for k in ("racing_setters", "in_window", "nontrivial", "value_returned"):
            stats[k] += s["stats"][k]
    rep.cov["evaluations"] = nsched
    rep.cov["programs"] = len(progs)
    rep.cov["distinct_nontrivial"] = stats["nontrivial"]
    rep.cov["exhaustive"] = True
    rep.cov["exhaustive_scope"] = scope + " — %d schedules" % nsched
    rep.cov["rule"] = (
        "each (program, schedule) is one execution of the real SingletonHolder on fresh OS threads, one traced operation "
        "granted at a time by the blocking tracer (hook H1); all schedules of a program are enumerated depth-first and are "
        "pairwise distinct by construction. Its trace (operation kinds, declared orderings, values read/written, API "
        "results, Arc::ptr_eq and payload integrity) is compared with the extracted model's SC instantiation with the "
        "observed orderings for the same schedule, checked by a vector-clock happens-before checker under the declared "
        "orderings, and checked against the API clauses of C18. distinct_nontrivial = executions in which another thread "
        "ran between the winner's compare_exchange and its COMPLETE store (reads or sets overlapping the initialisation "
        "window) or a compare_exchange failed (racing setters)")
    rep.cov["input_distribution"] = {"traced_operations_per_execution": {str(k): v for k, v in sorted(stats["ops"].items())},
                                     "executions_with_racing_setters": stats["racing_setters"],
                                     "executions_with_activity_in_init_window": stats["in_window"],
                                     "executions_where_get_returned_the_value": stats["value_returned"],
                                     "threads": {str(n): sum(1 for p in progs if p.count("/") + 1 == n) for n in (2, 3)}}
    samples = []
    for p, line in list(zip(progs, impl))[::max(1, len(progs) // 4)][:4]:
        es = line.partition(" ")[2].split(";")
        samples.append({"case": "A " + p, "entries": len(es), "one_entry": es[len(es) // 2]})
    rep.cov["samples"] = samples
    return rep.finish()


def replay(prop, data):
    """re-run the concrete case of a replay file on the implementation and re-evaluate the clauses"""
    r = data.get("replay", {})
    case = r.get("case")
    if not case:
        print("replay file has no concrete case")
        return 2
    ok, out = common.build_harness()
    if not ok:
        print(out[-2000:])
        return 2
    line = common.run_harness("singleton", [case], shards=1)[0]
    e = line.partition(" ")[2]
    print(case)
    print(e)
    pr = check_entry(parse_prog(case.split()[1]), e)
    for k, w, d in pr:
        print("  %s: %s %s" % (k, w, d))
    return 1 if pr else 0


TRUSTED = [
    "Coq 8.16.1 kernel (coqc; coqchk in the thorough tier); vm_compute for the finite sweep over the 625 ordering "
    "records in c18_ord_needed and the witnesses; no native_compute",
    "Print Assumptions of every pinned theorem: closed under the global context (no axioms)",
    "the memory model: the release/acquire fragment of C11/Rust as a view machine (Model/Singleton.v): messages in "
    "modification order with views, stale reads allowed, RMW atomicity, release sequences continued by RMWs only; no "
    "mo-insertion (sound here: the only plain store is by the thread that read the mo-latest message), no SC fences, no "
    "consume, no out-of-thin-air; SeqCst is treated as AcqRel (weaker, hence sound for race freedom)",
    "extraction: Require Extraction + ExtrOcamlBasic only; OCaml 4.13.1 ocamlfind ocamlopt; cross-checked on sampled "
    "cases against vm_compute in the generated Obs_C18.v",
    "hand-written glue: ocaml/conv.ml, ocaml/run_singleton.ml, harness/src/singleton.rs (blocking tracer, scheduler), "
    "driver/singleton.py (family, diff, vector-clock checker, API clauses), cadence-macros/src/verif.rs (hook H1: "
    "pass-through wrappers; trusted to forward the operation and report its real arguments)",
    "Arc::new / Arc::clone / Option::clone and the std atomics are trusted; the access through the pointer returned by "
    "UnsafeCell::get is taken to happen between that call and the thread's next traced operation, and to be a write "
    "inside set and a read inside get / is_set",
]
ASSUMPTIONS = [
    "stale reads and weak-memory effects are covered by the proof (every read choice) and by the model explorer, not by "
    "execution: under the blocking tracer every real execution is sequentially consistent (and x86 could not show them)",
    "threads access the holder only through set / get / is_set (the fields are private)",
]
