//! Shared helpers: hex coding of byte strings, token parsing, panic capture.
use std::panic::{self, AssertUnwindSafe};

pub fn hex(b: &[u8]) -> String {
    if b.is_empty() {
        return "-".to_string();
    }
    let mut s = String::with_capacity(b.len() * 2);
    for x in b {
        s.push_str(&format!("{:02x}", x));
    }
    s
}

pub fn unhex(s: &str) -> Vec<u8> {
    if s == "-" {
        return Vec::new();
    }
    let b = s.as_bytes();
    assert!(b.len() % 2 == 0, "odd hex string {:?}", s);
    let nib = |c: u8| -> u8 {
        match c {
            b'0'..=b'9' => c - b'0',
            b'a'..=b'f' => c - b'a' + 10,
            b'A'..=b'F' => c - b'A' + 10,
            _ => panic!("bad hex digit in {:?}", s),
        }
    };
    (0..b.len() / 2).map(|i| nib(b[2 * i]) * 16 + nib(b[2 * i + 1])).collect()
}

pub fn unhex_str(s: &str) -> String {
    String::from_utf8(unhex(s)).expect("case strings must be valid UTF-8")
}

/// Run `f`, turning an unwinding panic into `Err(message)`.
pub fn catch<T>(f: impl FnOnce() -> T) -> Result<T, String> {
    panic::catch_unwind(AssertUnwindSafe(f)).map_err(|e| {
        if let Some(s) = e.downcast_ref::<&str>() {
            s.to_string()
        } else if let Some(s) = e.downcast_ref::<String>() {
            s.clone()
        } else {
            "panic".to_string()
        }
    })
}

/// Silence the default panic message (panics are expected and reported in the
/// observation line instead).
pub fn quiet_panics() {
    panic::set_hook(Box::new(|_| {}));
}

/// Error payload with an identity, so that "the sink's own error" can be recognised.
#[derive(Debug)]
pub struct Payload(pub u64);
impl std::fmt::Display for Payload {
    fn fmt(&self, f: &mut std::fmt::Formatter<'_>) -> std::fmt::Result {
        write!(f, "payload {}", self.0)
    }
}
impl std::error::Error for Payload {}

pub fn payload_of(e: &std::io::Error) -> Option<u64> {
    e.get_ref().and_then(|r| r.downcast_ref::<Payload>()).map(|p| p.0)
}
