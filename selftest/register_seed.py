#!/usr/bin/env python3
"""Copy a confirmed seed from /tmp/mut/<id>-out into /verif/seeded/<name>/ and write meta.json.
usage: register_seed.py <id> <name> <crate> <summary> <needs>   (reads /tmp/seedlogs/<id>.confirm and .try)"""
import json, os, re, shutil, sys
pid, name, crate, summary, needs = sys.argv[1:6]
src = "/tmp/mut/%s-out" % pid
dst = "/verif/seeded/%s" % name
os.makedirs(dst, exist_ok=True)
demo = sorted(f for f in os.listdir(src) if f.endswith(".rs"))[0]
for f in ("patch.diff", demo, "NOTES.md"):
    if os.path.exists(os.path.join(src, f)):
        shutil.copy(os.path.join(src, f), os.path.join(dst, f))
confirm = open("/tmp/seedlogs/%s.confirm" % pid, errors="replace").read()
tr = open("/tmp/seedlogs/%s.try" % pid, errors="replace").read()
caught = {}
for m in re.finditer(r"^\s+(C\d\d):\s+(.*)$", tr, re.M):
    txt = m.group(2).strip()
    txt = re.sub(r"replay=\S+", "", txt)
    caught[m.group(1)] = txt[:400]
meta = {
    "property": pid[:3], "summary": summary, "needs": needs,
    "demo": "%s -> %s/tests/; cargo test -p %s --test %s --offline" % (demo, crate, crate, demo[:-3]),
    "confirmed": [l for l in confirm.splitlines() if l.startswith("---") or l.startswith("test result") or l.startswith("passed") or "FAILED" in l and "types::tests" not in l][:12],
    "caught_by": caught,
    "ran": "selftest/process_seed.sh %s %s %s (confirm_seed.sh: demo on original / demo with patch / suite with patch on the scratch worktree "
           "/tmp/mut/%s; try_seed_alt.sh: quick-tier checks with CADENCE_REPO pointing at a scratch worktree with the patch applied) on %s"
           % (pid, crate, " ".join(sorted(caught)), pid, __import__("time").strftime("%Y-%m-%d")),
}
json.dump(meta, open(os.path.join(dst, "meta.json"), "w"), indent=1)
print(json.dumps(meta, indent=1)[:1500])
