(* C07 — A failed socket write loses only what was reported lost.

   Pinned statements about Cadence.Model.Writer for EVERY fault script (each attempted
   underlying write independently succeeds, fails with an error, or is interrupted;
   all-or-nothing datagram semantics), all capacities, terminators and histories. *)
Require Import Cadence.Base.Prelude.
Require Import Cadence.Model.Writer.
Require Import Cadence.Proofs.WriterBase.
Require Import Cadence.Proofs.WriterInv.
Require Import Cadence.Proofs.WriterRun.
Require Import Cadence.Proofs.WriterThms.
Require Import Cadence.Model.Stats.
Require Import Cadence.Model.Sock.
Require Import Cadence.Proofs.SockProofs.

(* every emit/flush returns Ok (with the right count) or the error of an underlying write
   made during that very operation; nothing panics (no arithmetic underflow) *)
Theorem c07_results : forall c e script ops rs s,
  run_from (init c e script) 0 ops = (rs, s) ->
  length rs = length ops /\
  Forall2 (fun o x => match o, x with
                      | Emit m, OOk k => k = length m
                      | Flush, OOk k => k = 0
                      | _, OPanic => False
                      | _, _ => True
                      end) ops rs /\
  forall i x, nth_error rs i = Some x ->
    match x with
    | OErr er => exists a, In a (lg s) /\ a_op a = i /\ a_out a = WErr er
    | OIntr => exists a, In a (lg s) /\ a_op a = i /\ a_out a = WIntr
    | OPanic => False
    | OOk _ => True
    end.
Proof. exact results_sound. Qed.

(* conservation under faults, at every moment: what has been written successfully in whole
   lines, followed by what is still buffered, is exactly the list of acknowledged fitting
   metrics, in order; the oversized acknowledged ones have been written alone *)
Theorem c07_ledger : forall c e script ops rs s,
  run_from (init c e script) 0 ops = (rs, s) ->
  filter (nzb e) (sentL (lg s) ++ bids s) = filter (nzb e) (filter (fitg c e) (acked 0 ops rs)) /\
  sentA (lg s) = filter (fun g => negb (fitg c e g)) (acked 0 ops rs).
Proof. exact ledger_reach. Qed.

(* ... and still after the final drop *)
Theorem c07_ledger_final : forall c e script ops rs s,
  run c e script ops = (rs, s) ->
  filter (nzb e) (sentL (lg s) ++ bids s) = filter (nzb e) (filter (fitg c e) (acked 0 ops rs)) /\
  sentA (lg s) = filter (fun g => negb (fitg c e g)) (acked 0 ops rs).
Proof. exact ledger_run. Qed.

(* failures never cause a metric to be written twice *)
Theorem c07_no_dup : forall c e script ops rs s,
  run c e script ops = (rs, s) ->
  NoDup (filter (nzb e) (sentL (lg s))) /\ NoDup (sentA (lg s)).
Proof. exact no_dup_run. Qed.

(* when an emit returns an error its own metric is never written, not even later *)
Theorem c07_no_resurrection : forall c e script ops rs s i m x,
  run c e script ops = (rs, s) ->
  nth_error ops i = Some (Emit m) -> nth_error rs i = Some x -> (forall k, x <> OOk k) ->
  (nzb e (i, m) = true -> ~ In (i, m) (sentL (lg s))) /\ ~ In (i, m) (sentA (lg s)).
Proof. exact no_resurrection. Qed.

(* the next flush that succeeds writes everything accepted earlier (nothing stays pending) *)
Theorem c07_next_success : forall c e script ops rs k s,
  run_from (init c e script) 0 (ops ++ [Flush]) = (rs ++ [OOk k], s) -> length rs = length ops ->
  bbuf s = [] /\ bids s = [] /\ written s = 0 /\
  filter (nzb e) (sentL (lg s)) = filter (nzb e) (filter (fitg c e) (acked 0 ops rs)) /\
  sentA (lg s) = filter (fun g => negb (fitg c e g)) (acked 0 ops rs).
Proof. exact flush_point. Qed.

(* framing is never corrupted by failures: C05's statement holds for every fault script *)
Theorem c07_frame_after : forall c e script ops rs s,
  run c e script ops = (rs, s) -> Forall (frame_ok c e) (lg s).
Proof. exact frame_all. Qed.

(* the same for the real buffered socket sinks as the correspondence check drives them
   (Sock.sc_buf: emits and flushes while the listener goes away and comes back; [sc_wops] = the
   writer calls with the listener's state at the time, [wsteps] = the writer's own answers [xs]):
   an error answer is the error of a send refused during that very call; the lines sent plus
   the lines still buffered are exactly the fitting metrics whose emit was answered Ok - nothing
   reported lost is sent later, nothing answered Ok is missing -; the oversized metrics that went
   out alone are exactly those answered Ok; with the listener there at the end the final drop
   leaves nothing behind *)
Theorem c07_scenario : forall co queued ops rs s n up xs,
  sc_buf queued true (sink_init co []) 0 ops = (rs, s, n, up) ->
  fst (wsteps (sink_init co []) 0 (sc_wops true ops)) = xs ->
  let c := match co with Some k => k | None => default_capacity end in
  let wops := map fst (sc_wops true ops) in
  (forall i er, nth_error xs i = Some (OErr er) ->
     exists a, In a (lg s) /\ a_op a = i /\ a_out a = WErr er) /\
  filter (nzb newline) (sentL (lg s) ++ bids s) = filter (nzb newline) (fit_ids c newline (acked 0 wops xs)) /\
  sentA (lg s) = big_ids c newline (acked 0 wops xs) /\
  (up = true -> bids (mlw_drop (with_script s up) n) = []).
Proof. exact sc_buffered_ledger. Qed.

(* non-vacuity: failures on the automatic flush, a retry after Interrupted, a failed bypass *)
Example c07_witness :
  let '(rs, s) := run 8 [10%N] [WErr 7%N; WIntr; WOk; WErr 9%N]
                      [Emit [1;2;3]; Emit [4;5;6]; Emit [7]; Emit [7]; Emit [1;1;1;1;1;1;1;1;1]; Flush]%N in
  (rs, map (fun a => (a_op a, a_out a)) (lg s), map fst (sentL (lg s)), map fst (bids s)) =
  ([OOk 3; OOk 3; OErr 7%N; OOk 1; OErr 9%N; OOk 0],
   [(2, WErr 7%N); (3, WIntr); (3, WOk); (4, WErr 9%N); (5, WOk)], [0; 1; 3], []).
Proof. vm_compute. reflexivity. Qed.

(* ==== added after the audit of 2026-10-02 (selftest/audit/REPORT-2026-10-02.md) ==== *)
Require Import Cadence.Proofs.AuditW.

(* [A.9] an explicit flush never answers Interrupted and never panics: BufWriter::flush_buf
   retries interrupted writes until the write succeeds or fails with a real error (the fuel of
   the model's flush loop cannot run out).  Any state, reachable or not. *)
Theorem c07_flush_never_interrupted : forall s op,
  fst (flush_buf s op) <> RIntr /\ fst (flush_buf s op) <> RPanic.
Proof. exact flush_buf_never_interrupted. Qed.

Theorem c07_flush_result : forall c e script ops rs s n x s',
  run_from (init c e script) 0 ops = (rs, s) -> step s n Flush = (x, s') -> x <> OIntr /\ x <> OPanic.
Proof. exact flush_result_reach. Qed.

(* [A.9] ... more precisely (any state): a Flush answers Ok(0), or an error [er]; in the latter
   case what it appended to the log is some number [k] of interrupted attempts followed by ONE
   attempt that failed with [er], each carrying the whole buffer and labelled with all pending
   identities, and buffer, pending identities and the [written] counter are what they were *)
Theorem c07_flush_answer : forall s n x s',
  step s n Flush = (x, s') ->
  x <> OIntr /\ x <> OPanic /\
  (x = OOk 0 \/
   exists er k, x = OErr er /\
     lg s' = lg s ++ repeat {| a_bytes := bbuf s; a_out := WIntr; a_lab := Lines (bids s); a_op := n |} k
                  ++ [{| a_bytes := bbuf s; a_out := WErr er; a_lab := Lines (bids s); a_op := n |}] /\
     bbuf s' = bbuf s /\ bids s' = bids s /\ written s' = written s).
Proof. exact flush_step_result. Qed.

(* [A.9] an emit answers Interrupted only for a write attempted for its OWN metric (the bypass
   of an oversized metric, or a part that fills the whole empty buffer and goes straight out):
   the last attempt it made is that interrupted write - never for the automatic flush *)
Theorem c07_emit_interrupted_own : forall c e script ops rs s n m s',
  run_from (init c e script) 0 ops = (rs, s) -> step s n (Emit m) = (OIntr, s') ->
  exists pre a, lg s' = lg s ++ pre ++ [a] /\ a_out a = WIntr /\ a_op a = n /\
                (a_lab a = Lines [(n, m)] \/ a_lab a = Alone (n, m)).
Proof.
  intros c e script ops rs s n m s' R. apply emit_interrupted_own.
  exact (proj1 (reach_inv _ _ _ _ _ _ R)).
Qed.

(* [A.3] the automatic flush inside an emit: an attempt made during an emit whose label does not
   contain the new metric carries the WHOLE buffer and ALL pending identities, and is made only
   because the new line does not fit behind the buffer; if it succeeds, no earlier metric stays
   pending (only the new one may) and the pending identities are appended once, in order, to
   what was sent, followed only by what the emit sends for its own metric; if it fails with an
   error, the emit answers that error and the buffer stays as it was *)
Theorem c07_emit_flushes_all : forall c e script ops rs s n m x s',
  run_from (init c e script) 0 ops = (rs, s) -> step s n (Emit m) = (x, s') ->
  forall a ms, In a (skipn (length (lg s)) (lg s')) -> a_lab a = Lines ms -> ~ In (n, m) ms ->
    ms = bids s /\ a_bytes a = bbuf s /\ a_op a = n /\ bbuf s <> [] /\
    c < length (bbuf s) + length m + length e /\
    (a_out a = WOk ->
       (bids s' = [] \/ bids s' = [(n, m)]) /\
       exists own, Forall (fun b => (a_lab b = Lines [(n, m)] \/ a_lab b = Alone (n, m)) /\ a_op b = n) own /\
                   sentL (lg s') = sentL (lg s) ++ bids s ++ sentL own) /\
    (forall er, a_out a = WErr er -> x = OErr er /\ bbuf s' = bbuf s /\ bids s' = bids s).
Proof. exact emit_flushes_all. Qed.

(* [A.3] the exact shape of what one emit appends to the log, from any reachable state:
   first the attempts [fl] of the automatic flush - none, or [k] interrupted ones and one final
   one -, then the attempts [own] made for the new metric alone *)
Theorem c07_emit_shape : forall c e script ops rs s n m x s',
  run_from (init c e script) 0 ops = (rs, s) -> step s n (Emit m) = (x, s') ->
  exists fl own, lg s' = lg s ++ fl ++ own /\
   Forall (fun b => (a_lab b = Lines [(n, m)] \/ a_lab b = Alone (n, m)) /\ a_op b = n) own /\
   (fl = [] \/
    (bbuf s <> [] /\ c < length (bbuf s) + length m + length e /\ length m + length e <= c /\
     exists k o, fl = repeat {| a_bytes := bbuf s; a_out := WIntr; a_lab := Lines (bids s); a_op := n |} k
                      ++ [{| a_bytes := bbuf s; a_out := o; a_lab := Lines (bids s); a_op := n |}] /\
       match o with
       | WOk => (bids s' = [] \/ bids s' = [(n, m)]) /\
                sentL (lg s') = sentL (lg s) ++ bids s ++ sentL own
       | WErr er => x = OErr er /\ own = [] /\ bbuf s' = bbuf s /\ bids s' = bids s /\
                    written s' = written s
       | WIntr => False
       end)).
Proof.
  intros c e script ops rs s n m x s' R S.
  destruct (reach_inv _ _ _ _ _ _ R) as (I & C & E & _).
  pose proof (emit_shape _ _ _ _ _ I S) as H. rewrite C, E in H. exact H.
Qed.

(* [A.3] the final drop (any state; in [run] the state reached and [op = length ops]): nothing on
   an empty buffer; every attempt it makes carries the whole buffer and all pending identities;
   if one succeeds nothing stays pending and the pending identities are appended once, in order,
   to what was sent; if the drop ends on an error nothing of the buffer was sent *)
Theorem c07_drop_sends_rest : forall s op,
  let s' := mlw_drop s op in
  (bbuf s = [] -> lg s' = lg s) /\
  (forall a, In a (skipn (length (lg s)) (lg s')) ->
     a_bytes a = bbuf s /\ a_lab a = Lines (bids s) /\ a_op a = op /\
     (a_out a = WOk -> bbuf s' = [] /\ bids s' = [] /\ sentL (lg s') = sentL (lg s) ++ bids s) /\
     (forall er, a_out a = WErr er ->
        bbuf s' = bbuf s /\ bids s' = bids s /\ sentL (lg s') = sentL (lg s))).
Proof. exact drop_sends_rest. Qed.

(* [A.3] ... and its exact shape: [k] interrupted attempts, then one that is Ok or a real error *)
Theorem c07_drop_shape : forall s op,
  let s' := mlw_drop s op in
  (bbuf s = [] -> lg s' = lg s /\ sc s' = sc s) /\
  (bbuf s <> [] -> exists k o,
     lg s' = lg s ++ repeat {| a_bytes := bbuf s; a_out := WIntr; a_lab := Lines (bids s); a_op := op |} k
                  ++ [{| a_bytes := bbuf s; a_out := o; a_lab := Lines (bids s); a_op := op |}] /\
     sentA (lg s') = sentA (lg s) /\
     match o with
     | WOk => bbuf s' = [] /\ bids s' = [] /\ sentL (lg s') = sentL (lg s) ++ bids s
     | WErr _ => bbuf s' = bbuf s /\ bids s' = bids s /\ sentL (lg s') = sentL (lg s)
     | WIntr => False
     end).
Proof. exact drop_shape. Qed.

(* [A.19] zero-length lines are excluded from the identity ledgers only: on the byte level the
   bytes of the successful whole-line writes followed by the buffer are exactly the concatenated
   lines of ALL acknowledged fitting metrics, at every moment and after the final drop, for
   every fault script *)
Theorem c07_bytes_conserved : forall c e script ops rs s,
  run_from (init c e script) 0 ops = (rs, s) ->
  flat_map (fun a => match a_out a, a_lab a with WOk, Lines _ => a_bytes a | _, _ => [] end) (lg s) ++ bbuf s
  = concat (map (fun g => snd g ++ e) (filter (fitg c e) (acked 0 ops rs))).
Proof. exact bytes_conserved. Qed.

Theorem c07_bytes_conserved_final : forall c e script ops rs s,
  run c e script ops = (rs, s) ->
  flat_map (fun a => match a_out a, a_lab a with WOk, Lines _ => a_bytes a | _, _ => [] end) (lg s) ++ bbuf s
  = concat (map (fun g => snd g ++ e) (filter (fitg c e) (acked 0 ops rs))).
Proof. exact bytes_conserved_final. Qed.

(* non-vacuity: capacity 8; the third emit triggers a flush that is interrupted once and then
   succeeds, the fifth one that fails; the final drop is interrupted once, then sends the rest *)
Example c07_emit_drop_witness :
  let '(rs, s) := run_from (init 8 [10%N] [WIntr; WOk; WErr 5%N; WIntr; WOk]) 0
                    [Emit [1;2;3]; Emit [4;5]; Emit [6;7;8]; Emit [9]; Emit [1;1;1;1;1]]%N in
  let s' := mlw_drop s 5 in
  (rs, map (fun a => (a_op a, a_out a, a_bytes a)) (lg s), map fst (bids s),
   map (fun a => (a_op a, a_out a, a_bytes a)) (skipn (length (lg s)) (lg s')), map fst (bids s'),
   map fst (sentL (lg s'))) =
  ([OOk 3; OOk 2; OOk 3; OOk 1; OErr 5%N],
   [(2, WIntr, [1;2;3;10;4;5;10]%N); (2, WOk, [1;2;3;10;4;5;10]%N); (4, WErr 5%N, [6;7;8;10;9;10]%N)], [2; 3],
   [(5, WIntr, [6;7;8;10;9;10]%N); (5, WOk, [6;7;8;10;9;10]%N)], [], [0; 1; 2; 3]).
Proof. vm_compute. reflexivity. Qed.

Example c07_bytes_conserved_witness :
  let ops := [Emit [1;2]; Emit []; Emit [3;4;5]; Emit [1;1;1;1;1]; Emit [6]; Flush]%N in
  let '(rs, s) := run_from (init 4 [] [WErr 9%N]) 0 ops in
  (rs, okbytes (lg s), bbuf s, map fst (fit_ids 4 [] (acked 0 ops rs))) =
  ([OOk 2; OOk 0; OErr 9%N; OOk 5; OOk 1; OOk 0], [1;2;6]%N, [], [0; 1; 4]).
Proof. vm_compute. reflexivity. Qed.

(* ==== added after the audit of 2026-10-02 (selftest/audit/REPORT-2026-10-02.md) ==== *)
(* ------------------------------------------------------------------ audit A.6 addition *)
Require Import Cadence.Proofs.AuditS.

(* the ledger under faults (c07_ledger_final) for a life whose flushes go through the client and /
   or a queuing wrapper: what was sent plus what is still buffered is exactly what fitted and was
   acknowledged; the oversized metrics that went out alone are exactly those acknowledged *)
Theorem c07_wrapped_ledger : forall c e script ops rs s,
  hrun c e script ops = (rs, s) ->
  filter (nzb e) (sentL (lg s) ++ bids s) =
    filter (nzb e) (fit_ids c e (acked 0 (map plain ops) rs)) /\
  sentA (lg s) = big_ids c e (acked 0 (map plain ops) rs).
Proof. exact wrapped_ledger. Qed.

(* Note after the second read-only review of these pins (selftest/audit/REVIEW-2-2026-10-02.md): c07_wrapped_ledger is c07_ledger_final through the delegation model (see the note in C06.v).  In c07_emit_shape / c07_emit_flushes_all the operation number n is free: the statements are meant for n = the index of the emit in its history (where (n, m) is not yet in bids s).  c07_flush_result and c07_drop_sends_rest are weaker forms of c07_flush_answer / c07_drop_shape kept for readability. *)
