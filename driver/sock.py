"""C13, C14: the socket-backed sinks on real local sockets (UDP on 127.0.0.1, Unix datagram in a
temp dir): what reaches the wire, the results, and the I/O statistics."""
import random
import re

from . import common
from .common import Report, case_hash


def hx(b):
    return b.hex() if b else "-"


def unhx(s):
    return b"" if s == "-" else bytes.fromhex(s)


def metric(rng, j, kind):
    if kind == "big":
        n = rng.choice([1000, 9000, 20000, 60000])
        return ("big.%d:" % j).encode() + b"x" * n + b"|c"
    if kind == "utf8":
        return ("m\u00e9tric.\u6f22\u5b57.%d:%d|g|#t\u00e4g:\U0001F642" % (j, rng.randint(0, 10 ** 6))).encode()
    if kind == "short":
        return ("k%d:1|c" % j).encode()
    if kind == "edge":
        # nothing may be added or removed: whitespace and newlines at either end, the empty metric
        return rng.choice(["", " ", "a ", " a", "a\n", "a\t", "\n", "x:1|c\n\n", "\u00e9 ", "  k:1|c  ", "k:1|c\r\n", "\0z"]).encode()
    n = rng.choice([0, 1, 5, 20, 60, 200])
    return ("some.metric.%d:%d|ms%s" % (j, rng.randint(0, 99999), "|#" + "t" * n if n else "")).encode()


def gen_ops(rng, n, unix, buffered, cap):
    ops = []
    down = False
    for j in range(n):
        r = rng.random()
        if unix and r < 0.12:
            ops.append("L" if down else rng.choice("llc"))       # c: the listener closes its socket, the file stays
            down = not down
            continue
        if r < 0.25 and buffered:
            ops.append("F")
            continue
        if r < 0.33:
            ops.append("s")           # the statistics are read in the middle of the history
            continue
        kind = rng.choice(["norm", "norm", "short", "utf8", "edge", "big" if rng.random() < 0.3 else "norm"])
        m = metric(rng, j, kind)
        if buffered and cap is not None and rng.random() < 0.3:
            # lengths around the capacity and the space left
            m = (b"e%d." % j) + b"y" * max(0, rng.choice([cap - 1, cap - 2, cap, cap // 2]) - 4)
        ops.append(("P" if rng.random() < 0.1 else "E") + hx(m))   # P: emitted by a destructor of an unwinding thread
    if unix and down and rng.random() < 0.6:
        ops.append("L")
    return ",".join(ops) or "-"


def outage_cases():
    """buffered / unbuffered Unix sinks whose listener closes its socket but leaves the file (sends are refused with
    ECONNREFUSED, not ENOENT), comes back, and the sink is flushed"""
    a0, b0, c0 = "E" + hx(b"foo:1|c"), "E" + hx(b"barbaz:22|c"), "E" + hx(b"q:3|c")
    cases = []
    for cap in ("d", "8", "16"):
        for q in ("q0", "q1"):
            cases.append("BX %s %s %s" % (cap, q, ",".join([a0, "c", b0, c0, c0, "F", "L", "F", a0])))
            cases.append("BX %s %s %s" % (cap, q, ",".join([a0, b0, "c", c0, b0, "L", c0, "F"])))
    cases.append("X b q0 " + ",".join([a0, "c", b0, "L", c0]))
    return cases


def xw_buffered_cases():
    """buffered Unix sinks over a non-blocking socket whose listener does not read (WouldBlock), then reads again"""
    return ["XW 16 80 10", "XW 64 160 20", "XW 512 400 90"]


def xl_cases():
    return ["XL %s %s" % (a, b) for a in ("u 5 20", "16 9 7", "d 4 300", "64 12 20") for b in ("long", "nul")]


def big_udp_cases():
    """buffered UDP sinks whose capacity exceeds what one IPv4 datagram can carry: nothing is written while what was
    emitted fits the configured capacity (what the OS then says to the oversized flush is its business; judged, not
    modelled)"""
    def e(n, j):
        return "E" + hx((b"b%d." % j) + b"z" * (n - 3))
    return ["BU 70000 q0 " + ",".join([e(30000, 0), "s", e(30000, 1), "s", e(5600, 2), "s"]),
            "BU 66000 q0 " + ",".join([e(20000, 0), e(20000, 1), e(20000, 2), "s", e(5000, 3), "s"]),
            "BU 100000 q0 " + ",".join([e(60000, 0), "s", e(3000, 1), e(2000, 2), e(600, 3), "s"])]


def ur_cases():
    """UDP sinks over a socket connected to a closed port"""
    return ["UR " + spec for spec in ("u 6 20", "u 9 300", "16 8 9", "24 10 7", "64 12 20", "d 7 200", "d 5 600", "8 6 30",
                                      "64 3 25", "512 3 200", "d 9 40")]


def gen_cases(rng, n):
    cases = []
    # fixed small ones first
    for q in ("q0", "q1"):
        cases.append("U b %s E666f6f3a317c63,E6261723a327c63" % q)
        cases.append("X b %s E666f6f3a317c63,l,E6261723a327c63,L,E62617a3a337c63" % q)
        cases.append("BU 16 %s E666f6f3a317c63,E6261723a327c63,E6261723a337c63,F" % q)
        cases.append("BX d %s E666f6f3a317c63,l,E6261723a327c63,F,L,F" % q)
    for k in (0, 1, 2):
        cases.append("UA %d E666f6f3a317c63,E6261723a327c63" % k)
    # an outage in which the socket file stays (ECONNREFUSED, not ENOENT); emits made by a destructor of an unwinding thread
    a0, b0, c0 = "E" + hx(b"foo:1|c"), "E" + hx(b"barbaz:22|c"), "E" + hx(b"q:3|c")
    cases += outage_cases()
    for fam, cfg in (("U", "b"), ("X", "b"), ("BU", "16"), ("BU", "d"), ("BX", "16"), ("BX", "d")):
        for q in ("q0", "q1"):
            cases.append("%s %s %s %s" % (fam, cfg, q, ",".join(["P" + a0[1:], b0, "P" + c0[1:]] + (["F", "P" + b0[1:]] if fam[0] == "B" else []))))
    # exact fills of the smallest buffers (a 1-byte buffer and the empty metric: the newline alone is as large as the
    # BufWriter's capacity and goes straight to the socket - C19's "or exactly fills the buffer")
    cases += ["BU 1 q0 E-", "BU 1 q0 E-,E-,F", "BX 1 q0 E-,E61,F,E-", "BU 2 q0 E61,E-,F", "BX 2 q0 E-,E-,E61"]
    # buffered Unix sink: failed explicit / implicit flushes while the listener is away, then flushes after it is back
    a, b, c = "E" + hx(b"foo:1|c"), "E" + hx(b"barbaz:22|c"), "E" + hx(b"q:3|c")
    for cap in ("d", "8", "16", "24"):
        for q in ("q0", "q1"):
            for seq in ([a, "l", "F", "L", "F"], [a, "l", "F", "F", "L", "F", b, "F"], [a, b, "l", c, c, c, "F", "L", c, "F"],
                        [a, "l", b, "L", "F", "F"], ["l", a, "F", "L", b, "F", "F"]):
                cases.append("BX %s %s %s" % (cap, q, ",".join(seq)))
    # SocketStats::update with every kind of error (ext API), written != len included
    for k in range(20):
        cases.append("SU k5/5,e%d/7,k3/9,e%d/0" % (k, k))
    # the four public incrementers called directly, mixed with update(); four times 2^62-1 and ten more wrap a byte counter to 6
    big = 2 ** 62 - 1
    cases.append("SU ibs5,ips,ibd7,ipd,k3/3,e2/9,ips,ipd,ibs0,ibd0")
    cases.append("SU " + ",".join(["ibs%d" % big] * 4 + ["ibd%d" % big] * 4 + ["k10/10", "ips", "e1/10"]))   # 4 * (2^62-1) + 10 = 2^64 + 6
    for _ in range(max(10, n // 10)):
        ups = []
        for _ in range(rng.choice([1, 3, 10, 30])):
            ln = rng.choice([0, 1, 7, 512, 1432, 65507, rng.randrange(1 << 40)])
            if rng.random() < 0.55:
                ups.append("k%d/%d" % (rng.choice([ln, ln, 0, rng.randrange(ln + 1)]), ln))
            else:
                ups.append("e%d/%d" % (rng.randrange(20), ln))
            if rng.random() < 0.25:
                ups.append(rng.choice(["ibs%d" % ln, "ips", "ibd%d" % ln, "ipd"]))
        cases.append("SU " + ",".join(ups))
    # the Unix sinks given a symbolic link that is re-pointed to another listener half way (op m)
    e1, e2, e3 = "E" + hx(b"one:1|c"), "E" + hx("zw\u00f6lf:12|ms".encode()), "E" + hx(b"three:3|g")
    for seq in ([e1, "m", e2], [e1, e2, "m", e3, e1], ["m", e1], [e1, "m", "m", e2]):
        cases.append("XS - q0 " + ",".join(seq))
    # the Unix sinks given a path whose file name is not valid UTF-8 (a second listener sits at the lossy name)
    for seq in ([e1], [e1, e2, e3], [e2, e2]):
        cases.append("XN - q0 " + ",".join(seq))
    for cap in ("d", "8", "64"):
        for seq in ([e1, "F"], [e1, e2, e3, "F", e1], [e3, e3, e3, e3]):
            cases.append("BXN %s q0 %s" % (cap, ",".join(seq)))
    for cap in ("d", "8", "20", "64"):
        for seq in ([e1, "m", e2, "F"], [e1, e2, "F", "m", e3, "F", e1], [e1, "m", "F", e2], [e1, e2, "m", e3, e3, e3]):
            cases.append("BXS %s q0 %s" % (cap, ",".join(seq)))
    # a non-blocking Unix socket whose listener does not read: WouldBlock once its queue is full
    for spec in ("u 40 30", "u 120 700", "16 80 10", "64 160 20", "512 400 90"):
        cases.append("XW " + spec)
    cases += ur_cases()
    cases += xl_cases()
    cases += ["UA6 u", "UA6 16", "UA6 512", "UA4 u", "UA4 16", "UA4 512", "UK u", "UK 16", "UK 512", "UE", "UO6 65508", "UO6 65527", "UO u", "UO 32", "UO 512"]
    cases += big_udp_cases()
    cases += stats_sample_cases(rng, max(10, n // 10))
    for _ in range(n):
        fam = rng.choice(["U", "X", "BU", "BX", "BU", "BX", "US", "UT", "BUS", "BUT"])
        q = "q1" if rng.random() < 0.25 else "q0"
        nops = rng.choice([1, 3, 8, 20])
        if fam in ("U", "X", "US", "UT"):
            cases.append("%s %s %s %s" % (fam, rng.choice("bn"), q, gen_ops(rng, nops, fam == "X", False, None)))
        else:
            cap = rng.choice(["d", "d", "0", "1", "16", "64", "512", "1432"])
            c = 512 if cap == "d" else int(cap)
            cases.append("%s %s %s %s" % (fam, cap, q, gen_ops(rng, nops, fam == "BX", True, c)))
    return cases


def plain_ops(case):
    """`c` (the listener closes its socket but leaves the file: ECONNREFUSED instead of ENOENT) is an outage like `l`, and
    `P<hex>` (an emit made by a destructor while its thread unwinds) is an emit like `E<hex>` - for the model and for
    the clauses"""
    t = case.split()
    if len(t) != 4 or t[0] not in ("U", "X", "BU", "BX", "US", "UT", "BUS", "BUT"):
        return case
    ops = ["l" if o == "c" else ("E" + o[1:] if o[:1] == "P" else o) for o in t[3].split(",")]
    return " ".join(t[:3] + [",".join(ops)])


def without_samples(case):
    """`s` (read the statistics) is not an operation of the model: reading must change nothing, so the model runs the
    history with, in its place, the listener command that is a no-op in the current state (same `-` result)"""
    case = plain_ops(case)
    t = case.split()
    if len(t) != 4 or "s" not in t[3].split(","):
        return case
    up, ops = True, []
    for o in t[3].split(","):
        if o == "l":
            up = False
        elif o == "L":
            up = True
        ops.append(("L" if up else "l") if o == "s" else o)
    return " ".join(t[:3] + [",".join(ops)])


def stats_sample_cases(rng, n):
    """buffered sinks whose statistics are read while lines are buffered (C19: reading is not an occasion to write)"""
    cases = []
    a, b, c = "E" + hx(b"aa:1|c"), "E" + hx(b"bbbb:22|g"), "E" + hx(b"c:3|ms")
    for fam in ("BX", "BU"):
        for cap in ("d", "16", "24", "64"):
            for q in ("q0", "q1"):
                cases.append("%s %s %s %s" % (fam, cap, q, ",".join([a, "s", b, "s", c, "s", a, b, "s", "F", "s", c, "s"])))
    for _ in range(n):
        fam = rng.choice(["BX", "BU", "BUS", "BUT"])
        cap = rng.choice(["d", "16", "64", "512"])
        ops = gen_ops(rng, rng.choice([4, 10, 25]), fam == "BX", True, 512 if cap == "d" else int(cap)).split(",")
        ops = [x for o in ops for x in ((o, "s") if o[0] == "E" and rng.random() < 0.5 else (o,))]
        cases.append("%s %s %s %s" % (fam, cap, "q1" if rng.random() < 0.2 else "q0", ",".join(ops)))
    return cases


def xw_as_model_case(case, obs):
    case = without_samples(case)
    t = case.split()
    if t[0] in ("XS", "BXS", "XN", "BXN"):
        ops = ",".join(o for o in t[3].split(",") if o != "m")
        return ("X b q0 " if t[0] in ("XS", "XN") else "BX %s q0 " % t[1]) + ops
    if t[0] in ("UR", "XL", "UA6", "UA4", "UK", "UE", "UO6", "UO") or (t[0] == "BU" and t[1].isdigit() and int(t[1]) > 65000):
        return "UA 0 -"          # judged on the implementation's observation only
    if t[0] != "XW":
        return case
    if t[1] != "u" or obs.startswith("HARNESS-PANIC"):
        return "UA 0 -"          # placeholder (buffered: judged on the implementation's observation only)
    res = dict(x.split(":", 1) for x in obs.split("|"))["R"].split(",")
    n, ln = int(t[2]), int(t[3])
    ops = []
    for i, r in enumerate(res):
        m = ("w%d.%s" % (i, "x" * max(0, ln - 3 - len(str(i))))).encode()
        ops += ["l", "E" + hx(m), "L"] if r[0] == "e" else ["E" + hx(m)]
    return "X n q0 " + ",".join(ops)


def xw_views(case, iobs, mobs):
    """comparable views of an XW case: results as k<n>/e, datagrams, statistics"""
    if case.split()[1] != "u" or iobs.startswith("HARNESS-PANIC"):
        return iobs, iobs
    ip = dict(x.split(":", 1) for x in iobs.split("|"))
    mp = dict(x.split(":", 1) for x in mobs.split("|"))
    iv = "R:%s|D:%s|S:%s" % (",".join("e" if r[0] == "e" else r for r in ip["R"].split(",")), ip["D"], ip["S"])
    mv = "R:%s|D:%s|S:%s" % (",".join(r for r in mp["R"].split(",") if r != "-"), mp["D"], mp["S"])
    return iv + "|A:" + ip.get("A", ""), mv + "|A:" + ip.get("A", "")


def judge_xl(t, obs):
    """a Unix sink whose destination path cannot be a socket address: every send is refused; a refused send is a
    dropped packet like any other"""
    bad = []
    if obs.startswith("HARNESS-PANIC"):
        return [(p, "unsendable Unix path: " + obs[:160]) for p in ("C13", "C14")]
    parts = dict(x.split(":", 1) for x in obs.split("|"))
    res = parts["R"].split(",")
    st = [int(x) for x in parts["S"].split(".")]
    n, ln = int(t[2]), int(t[3])
    ms = [("l%d.%s" % (i, "x" * max(0, ln - 3 - len(str(i))))).encode() for i in range(n)]
    if st[0] or st[1]:
        bad.append(("C14", "statistics %s report sent packets although no send can succeed on this path" % st))
    if t[1] == "u":
        if any(r[0] != "e" for r in res[:n]):
            bad.append(("C13", "an emit to a path that cannot be an address returned Ok: %s" % parts["R"]))
        want = [0, 0, sum(map(len, ms)), n]
        if st != want:
            bad.append(("C14", "statistics %s, expected %s: %d sends were refused (destination path cannot be a socket address)" % (st, want, n)))
    else:
        att = int(parts["A"])
        if st[3] != att:
            bad.append(("C14", "packets_dropped = %d but %d sends were attempted and refused (destination path cannot be a socket "
                        "address)" % (st[3], att)))
        if att and st[2] == 0:
            bad.append(("C14", "bytes_dropped = 0 after %d refused sends" % att))
    return bad


def judge_ua6(t, obs):
    """address list [IPv6 listener, IPv4 listener]: everything goes to the first resolved address"""
    if obs == "noipv6":
        return []
    if obs.startswith("HARNESS-PANIC") or obs.startswith("ctor"):
        return [("C13", "IPv6-first address list: " + obs[:160])]
    parts = dict(x.split(":", 1) for x in obs.split("|"))
    first = [bytes.fromhex(x) for x in parts["first"].split(";")] if parts["first"] else []
    want = [b"six:1|c", "z\u00f6lf:12|ms".encode()] if t[1] == "u" else None
    bad = []
    if int(parts["second"]):
        bad.append(("C13", "%s datagram(s) went to %s" % (parts["second"], "the peer the socket was connected to, not to the address "
                                                           "given at construction" if t[0] == "UK" else "the second address of the list")))
    if t[0] == "UA4":
        # the IPv4 sender cannot reach the IPv6 first address: nothing arrives anywhere, the unbuffered sink answers an
        # error per emit, every attempt is a dropped packet and nothing counts as sent
        st = [int(x) for x in parts["S"].split(".")]
        if first:
            bad.append(("C13", "an IPv4 socket delivered %d datagram(s) to an IPv6 address?" % len(first)))
        if t[1] == "u":
            if parts["R"].split(",")[:2] != ["e", "e"]:
                bad.append(("C13", "emits to an unreachable first address returned %s, expected the socket's error twice" % parts["R"]))
            want = [0, 0, len(b"six:1|c") + len("z\u00f6lf:12|ms".encode()), 2]
            if st != want:
                bad.append(("C14", "statistics %s after two sends refused by the socket (first address unreachable), expected %s" % (st, want)))
        elif st[0] or st[1]:
            bad.append(("C14", "statistics %s count sent packets although the first address is unreachable and nothing arrived" % st))
        return bad
    payload = b"".join(first) if t[1] == "u" else b"".join(first).replace(b"\n", b"")
    if payload != b"six:1|c" + "z\u00f6lf:12|ms".encode() or (want is not None and first != want):
        bad.append(("C13", "the address given at construction (the first of the list) received %r (results %s)" % (first, parts["R"])))
    return bad


def judge_uo(t, obs):
    """a 70 000-byte metric through a UDP sink: the OS refuses the send; the refusal is a dropped packet"""
    if obs.startswith("HARNESS-PANIC"):
        return [(p, "oversized UDP datagram: " + obs[:160]) for p in ("C13", "C14")]
    parts = dict(x.split(":", 1) for x in obs.split("|"))
    res = parts["R"].split(",")
    st = [int(x) for x in parts["S"].split(".")]
    dg = [bytes.fromhex(x) for x in parts["D"].split(";")] if parts["D"] else []
    big = 4 + 70000 + 2
    bad = []
    if any(len(d) > 65507 for d in dg):
        return bad              # this OS delivered it: nothing to say
    # whatever the OS says to a datagram that large: an emit that answers Ok has sent its metric whole (Ok with the
    # metric's byte length - C13; C06 for the buffered sink, where it is written during its own emit, alone)
    if res[1][0] == "k":
        whole = ("big:%s|c" % ("9" * 70000)).encode()
        if whole not in dg:
            why = ("the 70 006-byte metric was acknowledged with Ok(%s) but no datagram carries it whole (datagrams of %s bytes "
                   "arrived)" % (res[1][1:], [len(d) for d in dg]))
            bad.append(("C13", why))
            if t[1] != "u":
                bad.append(("C06", why))
                bad.append(("C05", why))
    if t[1] == "u":
        if res[:3] == ["k5", "e", "k5"]:
            want = [10, 2, big, 1]
            if st != want:
                bad.append(("C14", "statistics %s, expected %s: the OS refused one send of %d bytes (too large for a datagram)" % (st, want, big)))
        elif res[1][0] != "k":
            bad.append(("C13", "results %s for small / 70 000-byte / small metrics" % parts["R"]))
    else:
        if st[1] + st[3] != int(parts["A"]):
            bad.append(("C14", "packets_sent + packets_dropped = %d but %d sends were attempted (one of them refused as too large)" % (
                st[1] + st[3], int(parts["A"]))))
        if res[1] == "e" and st[2] < big:
            bad.append(("C14", "bytes_dropped = %d after a refused send of %d bytes" % (st[2], big)))
    return bad


def judge_ur(t, obs):
    """a UDP sink over a socket connected to a closed port (ECONNREFUSED on every other send): every call returns Ok
    or the socket's error, the statistics account for every attempt, what arrives once a listener is there is whole
    lines of emitted metrics, each at most once; a flush with the listener present succeeds (the first may still
    collect a pending bounce)"""
    bad = []
    if obs.startswith("HARNESS-PANIC"):
        return [(p, "connected UDP socket, refused sends: " + obs[:160]) for p in ("C07", "C13", "C14")]
    parts = dict(x.split(":", 1) for x in obs.split("|"))
    res = parts["R"].split(",")
    fl = parts["F"].split(",")
    dg = [bytes.fromhex(x) for x in parts["D"].split(";")] if parts["D"] else []
    st = [int(x) for x in parts["S"].split(".")]
    n, ln = int(t[2]), int(t[3])
    ms = [("r%d.%s" % (i, "x" * max(0, ln - 3 - len(str(i))))).encode() for i in range(n)]
    if any(not re.fullmatch(r"k\d+|e\d+", r) for r in res + [f for f in fl if f != "norebind"]):
        bad.append(("C07", "a call neither returned Ok nor an error: %s / %s" % (parts["R"], parts["F"])))
        return bad
    for m, r in zip(ms, res):
        if r[0] == "k" and int(r[1:]) != len(m):
            bad.append(("C13", "emit of %d bytes returned Ok(%s)" % (len(m), r[1:])))
    if t[1] == "u":
        okm = [m for m, r in zip(ms, res) if r[0] == "k"]
        erm = [m for m, r in zip(ms, res) if r[0] == "e"]
        want = [sum(map(len, okm)), len(okm), sum(map(len, erm)), len(erm)]
        if st != want:
            bad.append(("C14", "statistics %s, expected %s (%d sends accepted, %d refused)" % (st, want, len(okm), len(erm))))
        if dg:
            bad.append(("C13", "an unbuffered sink sent %d datagrams on flush / drop" % len(dg)))
    else:
        cap = 512 if t[1] == "d" else int(t[1])
        if st[1] + st[3] != int(parts["A"]):
            bad.append(("C14", "packets_sent + packets_dropped = %d but %d sends were attempted" % (st[1] + st[3], int(parts["A"]))))
        if "S2" in parts:
            st2 = [int(x) for x in parts["S2"].split(".")]
            if st2[1] + st2[3] != int(parts["A2"]):
                bad.append(("C14", "after the explicit flushes (%s): packets_sent + packets_dropped = %d but %d sends were attempted" % (
                    parts["F"], st2[1] + st2[3], int(parts["A2"]))))
        seen = []
        for d in dg:
            if d in ms and len(d) + 1 > cap:
                seen.append(d)
                continue
            if not d.endswith(b"\n") or len(d) > cap:
                bad.append(("C07", "after refused sends a datagram is not whole lines within the capacity: %r" % d[:80]))
                continue
            seen += d[:-1].split(b"\n")
        if any(x not in ms for x in seen) or len(set(seen)) != len(seen):
            bad.append(("C07", "after refused sends the listener received lines that were not emitted, or twice: %r" % seen[:6]))
        if "norebind" not in fl and fl[-1][0] != "k":
            bad.append(("C07", "flush with the listener present failed twice in a row: %s" % parts["F"]))
    return bad


def judge(case, obs):
    """clauses of C13 / C14 on the implementation's observation (reference from the property statements)"""
    bad = []
    t = case.split()
    if t[0] == "UR":
        return judge_ur(t, obs)
    if t[0] == "XL":
        return judge_xl(t, obs)
    if t[0] in ("UA6", "UA4", "UK"):
        return judge_ua6(t, obs)
    if t[0] == "UO6":
        if obs == "noipv6":
            return []
        if obs.startswith("HARNESS-PANIC"):
            return [("C13", obs[:160]), ("C20", obs[:160])]
        parts = dict(x.split(":", 1) for x in obs.split("|"))
        ln = int(parts["L"])
        if parts["R"] == "e" and parts["D"] == "0" and parts.get("C") != "k":
            # the OS refuses a datagram of this size here (the control send from a plain std socket failed too): then it
            # is the socket's error and one dropped packet
            want = "0.0.%d.1" % ln
            return [] if parts["S"] == want else [("C14", "statistics %s after one refused send of %d bytes, expected %s" % (parts["S"], ln, want))]
        bad = []
        if parts["R"] != "k%d" % ln or parts["W"] != "1":
            bad.append(("C13", "a %d-byte metric to an IPv6 address (datagram limit 65527): emit answered %s, %s datagram(s) arrived, whole: %s"
                        % (ln, parts["R"], parts["D"], parts["W"])))
        if parts["S"] != "%d.1.0.0" % ln:
            bad.append(("C14", "statistics %s after one successful send of %d bytes" % (parts["S"], ln)))
        return bad
    if t[0] == "UE":
        if obs != "ctor:inv,inv,inv":
            return [("C13", "an address argument that yields no address: the three UDP constructors answered %s, expected an "
                            "invalid-input error each" % obs[:100])] + ([("C20", "a UDP sink constructor panicked on an address argument "
                                                                                 "that yields no address: %s" % obs[:100])] if "panic" in obs.lower() else [])
        return []
    if t[0] == "UO":
        return judge_uo(t, obs)
    if obs.startswith("HARNESS-PANIC"):
        return [("C13", obs[:200]), ("C14", obs[:200])]
    case = plain_ops(case)
    t = case.split()
    if t[0] in ("ST", "UC"):
        parts = dict(x.split(":", 1) for x in obs.split("|"))
        if parts["S"] != parts["W"]:
            bad.append(("C14", "statistics %s after concurrent updates, expected %s" % (parts["S"], parts["W"])))
        if t[0] == "UC":
            n, b = parts["N"].split(".")
            w = parts["W"].split(".")
            # the OS may drop datagrams of a burst when the receive buffer overflows (not cadence's doing): only
            # "never more on the wire than accepted" is demanded here; exact delivery is checked by the paced families
            if int(n) > int(w[1]) or int(b) > int(w[0]):
                bad.append(("C13", "received %s datagrams / %s bytes, the sink reported only %s / %s accepted" % (n, b, w[1], w[0])))
        return bad
    if t[0] == "SU":
        parts = dict(x.split(":", 1) for x in obs.split("|"))
        ups = t[1].split(",")
        want = [0, 0, 0, 0]
        for u in ups:
            if u[0] == "i":
                k = {"bs": 0, "ps": 1, "bd": 2, "pd": 3}[u[1:3]]
                want[k] += int(u[3:]) if u[3:] else 1
                continue
            r, ln = u.split("/")
            if r[0] == "k":
                want[0] += int(r[1:])
                want[1] += 1
            else:
                want[2] += int(ln)
                want[3] += 1
        want = [x % (1 << 64) for x in want]
        if [int(x) for x in parts["S"].split(".")] != want:
            bad.append(("C14", "statistics %s after the updates %s, expected %s" % (parts["S"], t[1][:200], want)))
        if parts["R"].split(",") != ["-" if u[0] == "i" else u.split("/")[0] for u in ups]:
            bad.append(("C14", "SocketStats::update did not hand its argument back unchanged: %s for %s" % (parts["R"][:200], t[1][:200])))
        return bad
    if t[0] == "XW":
        parts = dict(x.split(":", 1) for x in obs.split("|"))
        res = parts["R"].split(",")
        dg = [bytes.fromhex(x) for x in parts["D"].split(";")] if parts["D"] else []
        st = [int(x) for x in parts["S"].split(".")]
        n, ln = int(t[2]), int(t[3])
        ms = [("w%d.%s" % (i, "x" * max(0, ln - 3 - len(str(i))))).encode() for i in range(n)]
        if t[1] == "u":
            okm = [m for m, r in zip(ms, res) if r[0] == "k"]
            erm = [m for m, r in zip(ms, res) if r[0] == "e"]
            if dg != okm:
                bad.append(("C13", "datagrams received differ from the metrics whose emit returned Ok (%d vs %d)" % (len(dg), len(okm))))
            want = [sum(map(len, okm)), len(okm), sum(map(len, erm)), len(erm)]
            if st != want:
                bad.append(("C14", "statistics %s, expected %s: %d sends accepted, %d refused (WouldBlock on a full listener queue)" % (st, want, len(okm), len(erm))))
        else:
            att = int(parts["A"])
            if st[1] != len(dg) or st[0] != sum(map(len, dg)):
                bad.append(("C14", "statistics %s but %d datagrams / %d bytes reached the listener" % (st, len(dg), sum(map(len, dg)))))
            if st[1] + st[3] != att:
                bad.append(("C14", "packets_sent + packets_dropped = %d but %d sends were attempted" % (st[1] + st[3], att)))
            # after the listener reads again and a flush has answered Ok (then the drop): every metric whose emit returned
            # Ok is on the wire exactly once, none whose emit returned an error (the sends refused with WouldBlock lost
            # nothing that had been acknowledged)
            if "G" in parts and parts.get("Y", "").endswith("k"):
                after = [bytes.fromhex(x) for x in parts["G"].split(";")] if parts["G"] else []
                lines = [x for d in dg + after for x in d.split(b"\n") if x]
                okm = [m for m, r in zip(ms, res) if r[0] == "k"]
                erm = [m for m, r in zip(ms, res) if r[0] == "e"]
                lost = [m for m in okm if lines.count(m) != 1]
                ghost = [m for m in erm if m in lines]
                for pid in ("C13", "C06", "C07", "C12"):
                    if lost:
                        bad.append((pid, "a non-blocking Unix socket whose listener fell behind (WouldBlock), then read again: %d of the "
                                    "%d metrics acknowledged with Ok are not on the wire exactly once after a flush answered Ok and "
                                    "the drop (first: %r)" % (len(lost), len(okm), lost[0][:30])))
                    if ghost and pid != "C06":
                        bad.append((pid, "%d metrics whose emit returned an error were written later (first: %r)" % (len(ghost), ghost[0][:30])))
        return bad
    if t[0] == "UR":
        return judge_ur(t, obs)
    if t[0] in ("XN", "BXN"):
        parts = dict(x.split(":", 1) for x in obs.split("|"))
        total = len([d for d in parts["D"].split(";") if d != ""]) if parts["D"] else 0
        if int(parts["P"]) != total:
            bad.append(("C13", "the sink was given a path that is not valid UTF-8; %d of %d datagrams did not reach the listener bound "
                        "at exactly that path (they went to the name a lossy string conversion gives)" % (total - int(parts["P"]), total)))
        plain = xw_as_model_case(case, obs)
        return bad + judge(plain, "R:%s|D:%s|S:%s" % (parts["R"], parts["D"], parts["S"]))
    if t[0] in ("XS", "BXS"):
        parts = dict(x.split(":", 1) for x in obs.split("|"))
        seen = [int(x) for x in parts["N"].split(",")]
        ops = t[3].split(",")
        last_m = max(i for i, o in enumerate(ops) if o == "m")
        first_m = min(i for i, o in enumerate(ops) if o == "m")
        at_a = int(parts["P"])
        before = seen[first_m]          # datagrams sent before the link was re-pointed: they belong to the first listener
        if at_a != before:
            bad.append(("C13", "the sink was given a symlink path; %d datagrams were sent before the link was re-pointed but the "
                        "first listener received %d (datagrams must go to the path given at construction, resolved when sent)"
                        % (before, at_a)))
        # everything else as for the plain sink
        plain = xw_as_model_case(case, obs)
        ip = parts
        obs2 = "R:%s|D:%s|S:%s" % (",".join(r for r in ip["R"].split(",") if r != "-"), ip["D"], ip["S"])
        return bad + judge(plain, obs2)
    if t[0] == "UA":
        if t[1] == "0":
            if obs != "ctor:inv":
                bad.append(("C13", "an empty address list gave %s, expected an invalid-input error" % obs))
            return bad
        if not obs.endswith("|D2:0"):
            bad.append(("C13", "a datagram went to an address other than the first one"))
        obs = obs.rsplit("|D2:", 1)[0]
    parts = dict(x.split(":", 1) for x in obs.split("|"))
    res = parts["R"].split(",") if parts["R"] else []
    dg = [bytes.fromhex(x) if x != "-" else b"" for x in parts["D"].split(";")] if parts["D"] else []
    st = [int(x) for x in parts["S"].split(".")]
    ops = [] if t[-1] == "-" else t[-1].split(",")
    queued = len(t) > 2 and t[2] == "q1"
    if parts.get("T") and parts.get("N"):
        # statistics read in the middle of the history: they are the figures of the datagrams that have reached the
        # listener so far, and reading them puts nothing on the wire
        seen = [int(x) for x in parts["N"].split(",")]
        samples = [[int(x) for x in y.split(".")] for y in parts["T"].split(";")]
        k = 0
        for j, op in enumerate(ops):
            if op != "s" or j >= len(seen) or k >= len(samples):
                continue
            sm = samples[k]
            k += 1
            before = seen[j - 1] if j else 0
            if seen[j] != before:
                for pid in ("C19", "C13"):
                    bad.append((pid, "reading the statistics (op %d) put %d datagram(s) on the wire" % (j, seen[j] - before)))
            elif sm[1] != seen[j] or sm[0] != sum(len(d) for d in dg[:seen[j]]):
                bad.append(("C14", "statistics read at op %d are %s; %d datagrams / %d bytes had reached the listener" % (
                    j, sm, seen[j], sum(len(d) for d in dg[:seen[j]]))))
    if t[0] in ("U", "X", "UA", "US", "UT"):
        # one datagram per accepted emit, payload exactly the metric, in order; figures = counts/lengths of Ok/Err emits
        want_dg, ok_b, ok_n, er_b, er_n = [], 0, 0, 0, 0
        up = True
        for op, r in zip(ops, res):
            if op == "l":
                up = False
            elif op == "L":
                up = True
            elif op[0] == "E":
                m = unhx(op[1:])
                if up:
                    want_dg.append(m)
                    ok_b += len(m)
                    ok_n += 1
                    if r != "k%d" % len(m):
                        bad.append(("C13", "emit of %d bytes returned %s" % (len(m), r)))
                else:
                    er_b += len(m)
                    er_n += 1
                    if not queued and r != "e":
                        bad.append(("C13", "emit to a vanished listener returned %s, expected the socket's error" % r))
        if dg != want_dg:
            bad.append(("C13", "datagrams on the wire differ from the emitted metrics (%d received, %d expected; first difference at %s)" % (
                len(dg), len(want_dg), next((i for i, (a, b) in enumerate(zip(dg, want_dg)) if a != b), min(len(dg), len(want_dg))))))
        if st != [ok_b, ok_n, er_b, er_n]:
            bad.append(("C14", "statistics %s, expected %s (accepted bytes/packets, refused bytes/packets)" % (st, [ok_b, ok_n, er_b, er_n])))
    else:
        # buffered: whole newline-terminated lines within the capacity or one oversized metric alone; stats = datagrams
        cap = 512 if t[1] == "d" else int(t[1])
        from .writer import segment
        emitted = [unhx(op[1:]) for op in ops if op[0] == "E"]
        lines = {j: m + b"\n" for j, m in enumerate(emitted) if len(m) + 1 <= cap}
        big = set(m for m in emitted if len(m) + 1 > cap)
        used = set()
        for i, d in enumerate(dg):
            if d in big:
                continue
            ids = segment(d, lines, used)
            ok = len(d) <= cap and ids is not None
            if ok:
                used.update(ids)
            if not ok:
                for pid in ("C13", "C05"):       # C05 runs the large-capacity UDP families and picks its own
                    bad.append((pid, "datagram %d (%d bytes) is neither whole lines within %d bytes nor an oversized metric alone" % (i, len(d), cap)))
                break
        # a flush that returned Ok while the listener is up: every metric acknowledged before it has reached the
        # listener by then (N: datagrams received after each op)
        if "N" in parts and parts["N"]:
            seen = [int(x) for x in parts["N"].split(",")]
            up = True
            acked = []
            for j, (op, r) in enumerate(zip(ops, res)):
                if op == "l":
                    up = False
                elif op == "L":
                    up = True
                elif op[0] == "E" and r.startswith("k"):
                    acked.append(unhx(op[1:]))
                elif op == "F" and r == "k0" and up and not queued and j < len(seen):
                    have = b"".join(dg[:seen[j]])
                    missing = [m for m in acked if m not in have]
                    if missing:
                        for pid in ("C13", "C06", "C07"):        # C06/C07 run the outage families and pick theirs
                            bad.append((pid, "flush (op %d) returned Ok with the listener up, but %r, acknowledged earlier, had not "
                                        "reached it (%d datagrams received so far)" % (j, missing[0][:40], seen[j])))
                        break
        # after a flush that answered Ok nothing remains buffered: the next flush - with no emit in between, whatever
        # the listener did meanwhile - puts nothing on the wire
        if parts.get("N") and not queued:
            seen = [int(x) for x in parts["N"].split(",")]
            last_ok_flush = None
            for j, (op, r) in enumerate(zip(ops, res)):
                if j >= len(seen):
                    break
                if op[0] == "E":
                    last_ok_flush = None
                elif op == "F":
                    if last_ok_flush is not None and seen[j] != seen[j - 1]:
                        for pid in ("C13", "C06", "C07"):
                            bad.append((pid, "flush (op %d) returned Ok, no emit followed, yet the next flush (op %d) put %d datagram(s) on "
                                        "the wire: the first flush had not written everything" % (last_ok_flush, j, seen[j] - seen[j - 1])))
                        break
                    last_ok_flush = j if r == "k0" else None
        # greedy at the level of the real sink: while what has been emitted since the last write fits the configured
        # capacity, an emit puts nothing on the wire (listener always there, no queue in between)
        if parts.get("N") and "l" not in ops and not queued:
            seen = [int(x) for x in parts["N"].split(",")]
            pending = 0
            for j, (op, r) in enumerate(zip(ops, res)):
                if j >= len(seen):
                    break
                before = seen[j - 1] if j else 0
                if op[0] == "E" and r.startswith("k"):
                    need = len(unhx(op[1:])) + 1
                    if need <= cap and pending + need <= cap:
                        # C19 allows a write during an emit that exactly fills the buffer (a 1-byte buffer and an
                        # empty metric: BufWriter passes the newline straight through), so only a strict fit is judged
                        if pending + need < cap and seen[j] != before:
                            for pid in ("C19", "C13"):
                                bad.append((pid, "emit %d (%d bytes with its newline) fitted the %d-byte buffer holding %d bytes, yet %d "
                                            "datagram(s) were written during it" % (j, need, cap, pending, seen[j] - before)))
                            break
                        pending += need
                    elif need <= cap:
                        pending = need          # the buffer was flushed to make room, the new line is buffered
                    # else: an oversized metric goes out on its own and leaves the buffer as it is
                elif op == "F":
                    pending = 0
                elif op[0] == "E":
                    break
        # statistics are read before the drop: they count the datagrams sent so far; with the listener always
        # up nothing is ever dropped and nothing sent before the stats were read is missing
        if "l" not in ops:
            if st[2] != 0 or st[3] != 0:
                bad.append(("C14", "statistics report dropped packets (%s) although every send succeeded" % st))
            n_before = st[1]
            if n_before > len(dg) or sum(len(d) for d in dg[:n_before]) != st[0]:
                bad.append(("C14", "statistics %s do not match the first %d datagrams on the wire" % (st, n_before)))
    return bad


TRUSTED = [
    "Coq 8.16.1 kernel; Print Assumptions of every pinned theorem closed under the global context",
    "extraction: Require Extraction + ExtrOcamlBasic only",
    "hand-written glue: ocaml/run_sock.ml, harness/src/sock.rs (real local sockets, listener up/down script), driver/sock.py",
    "modelled, not verified: UdpSocket::send_to / UnixDatagram::send_to (one datagram, all-or-nothing), the OS's delivery on "
    "loopback (volumes are kept below the receive buffers), AtomicU64::fetch_add (atomic, wrapping)",
]
ASSUMPTIONS = [
    "loopback UDP and Unix datagram sockets deliver every datagram in order when the receive queue is drained after each emit",
    "a Unix datagram send fails while the receiving path is unlinked and succeeds while it is bound (used as the fault script)",
]


def run_sock_check(prop, tier, seed):
    rep = Report(prop, tier, seed, level="proof")
    rep.cov["trusted_base"] = TRUSTED
    rep.assumptions = ASSUMPTIONS
    rep.add_audit(common.audit_proofs(prop))
    if not common.ensure_built(rep):
        return rep.finish()
    rng = random.Random(seed)
    thorough = tier == "thorough"
    cases = gen_cases(rng, 40000 if thorough else 350)
    conc = ["ST 4 20000", "ST 8 %d" % (2000000 if thorough else 20000), "UC 4 200", "UC 8 %d" % (5000 if thorough else 150)]
    try:
        impl = common.run_harness("sock", cases, shards=min(8, common.NCPU))
        # XW: which sends the OS refuses is not the model's to predict; the unbuffered ones are replayed in the model
        # with the observed refusals as the fault script (listener down around every refused emit)
        raw = list(impl)
        impl = [re.sub(r"\|N:[0-9,]*(\|T:[0-9.;]*)?", "", o) for o in impl]       # per-op receive counts and mid-history samples: judged, not modelled
        mcases = [xw_as_model_case(c, o) for c, o in zip(cases, impl)]
        model = common.run_model("sock", mcases)
        common.kernel_crosscheck(rep, "sock", mcases, 150 if thorough else 60)
        for i, c in enumerate(cases):
            if c.startswith("XW"):
                impl[i], model[i] = xw_views(c, impl[i], model[i])
            elif c.split()[0] in ("UR", "XL", "UA6", "UA4", "UK", "UE", "UO6", "UO") or (c.startswith("BU ") and c.split()[1].isdigit() and int(c.split()[1]) > 65000):
                model[i] = impl[i]                 # judged, not modelled
            elif c.split()[0] in ("XS", "BXS", "XN", "BXN"):
                # which listener got what is judged, not modelled; the `-` of op m is not in the model's results
                ip = dict(x.split(":", 1) for x in impl[i].split("|"))
                impl[i] = "R:%s|D:%s|S:%s" % (",".join(r for r in ip["R"].split(",") if r != "-"), ip["D"], ip["S"])
        cimpl = common.run_harness("sock", conc, shards=len(conc))
    except common.CheckFailure as e:
        rep.violation_noinput("correspondence run failed", {"error": str(e)})
        return rep.finish()
    # real sockets: a disagreement must reproduce
    dis_idx = [i for i, (a, b) in enumerate(zip(impl, model)) if a != b]
    if dis_idx:
        again = common.run_harness("sock", [cases[i] for i in dis_idx], shards=min(4, len(dis_idx)))
        for i, o in zip(dis_idx, again):
            if o == model[i]:
                impl[i] = o
        rep.cov["rerun_after_disagreement"] = len(dis_idx)
    failures = []
    # statistics read through a QueuingMetricSink in every queue state (full bounded queue, worker busy, after panics):
    # scripted histories of the queue check with a sample after every action
    from . import queue as queue_driver
    qcases = []
    for cap in ("0", "1", "2", "u"):
        for ctor in ("1", "3"):
            qcases.append("Q %s %s E0,S,E0,S,E0,S,E0,S,Rk,S,Re8,S,Rp,S,E0,S,Rk,S,Rk,S,D0" % (cap, ctor))
            qcases.append("Q %s %s E0l,S,E0u,S,E0,S,Re3,S,E0,S,Rk,S,Rk,S,Rk,S,D0" % (cap, ctor))
    try:
        qimpl = common.run_harness("queue", qcases, shards=min(8, len(qcases)))
    except common.CheckFailure as e:
        rep.violation_noinput("correspondence run failed (queue-state statistics)", {"error": str(e)})
        return rep.finish()
    for c, o in zip(qcases, qimpl):
        for pid, msg in queue_driver.judge(c, o):
            if pid == prop:
                failures.append((len(c), c, o, msg))
    for c, o in list(zip(cases, raw)) + list(zip(conc, cimpl)):
        for pid, msg in judge(c, o):
            if pid == prop:
                failures.append((len(c), c, o, msg))
    if failures:
        failures.sort()
        _, c, o, msg = failures[0]
        rep.violation_input("%s (%d failing cases; smallest shown)" % (msg[:300], len(failures)),
                            {"bin": "queue" if c.startswith("Q ") else "sock", "case": c, "implementation": o, "clause": msg})
    dis = [(len(c), c, i, m) for c, i, m in zip(cases, impl, model) if i != m]
    if dis and not failures:
        dis.sort()
        _, c, i, m = dis[0]
        rep.violation_noinput(
            "correspondence Model/{Stats,Sock,Writer}.v <-> sinks/{udp,unix,core}.rs broken on %d cases; the theorems of "
            "Props/%s.v no longer speak about this code" % (len(dis), prop),
            {"correspondence": "Stats.sock_emit / Sock.buffered_stats + Writer.sink_init vs the real sinks on local sockets",
             "theorems": rep.cov.get("theorems", []), "first_disagreeing_case": c,
             "implementation": i, "model": m, "first_difference": common.first_difference(i, m)})
    nt = set()
    dist = {"families": {}, "queued": 0, "listener_toggles": 0, "refused": 0, "datagrams": 0}
    for c, o in zip(cases, impl):
        t = c.split()
        dist["families"][t[0]] = dist["families"].get(t[0], 0) + 1
        dist["queued"] += 1 if "q1" in t else 0
        dist["listener_toggles"] += t[-1].count("l")
        dist["refused"] += o.count(",e") + o.count(":e")
        dist["datagrams"] += o.split("|D:")[1].split("|")[0].count(";") + 1 if "|D:" in o and o.split("|D:")[1][0] != "|" else 0
        if "l" in t[-1] or t[0] in ("BU", "BX", "BUS", "BUT") or "q1" in t:
            nt.add(case_hash(c))
    rep.cov["evaluations"] = len(cases) + len(conc)
    rep.cov["distinct_nontrivial"] = len(nt)
    rep.cov["exhaustive"] = False
    rep.cov["rule"] = ("seeded random op sequences (emit of ASCII / multi-byte UTF-8 / up to 60 kB metrics, flush, Unix listener down/up as "
                       "fault script) through UdpMetricSink, UnixMetricSink (blocking and non-blocking), BufferedUdp/UnixMetricSink "
                       "(capacities 0..1432 and default), optionally behind a QueuingMetricSink, address lists of length 0/1/2; the "
                       "datagrams received on the real local socket, every result and MetricSink::stats() are compared with the "
                       "extracted model (Stats.sock_emit; Writer.sink_init + Sock.buffered_stats) and the clauses are evaluated on the "
                       "implementation's observation; plus SocketStats::update from 4-8 threads and one UdpMetricSink shared by 4-8 "
                       "emitting threads.  distinct_nontrivial = distinct cases with a fault, a buffered sink or a queuing wrapper")
    short = [(c, o) for c, o in zip(cases, impl) if len(c) + len(o) < 300]
    rep.cov["samples"] = [{"case": c, "implementation": o} for c, o in short[3::max(1, len(short) // 5)][:5]]
    rep.cov["samples"].append({"case": conc[0], "implementation": cimpl[0]})
    rep.cov["disagreements"] = len(dis)
    rep.cov["input_distribution"] = dist
    return rep.finish()


def check_C13(tier, seed):
    return run_sock_check("C13", tier, seed)


def check_C14(tier, seed):
    return run_sock_check("C14", tier, seed)


def _replay_judge(prop, case, obs):
    if case.startswith("Q "):
        from . import queue as queue_driver
        return [m for p, m in queue_driver.judge(case, obs) if p == prop]
    return [m for p, m in judge(case, obs) if p == prop]


def replay(prop, data):
    return common.replay_case(prop, data, "sock", _replay_judge)
