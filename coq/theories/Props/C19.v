(* C19 — Buffered sinks pack datagrams greedily.

   Pinned statements about Cadence.Model.Writer, all capacities, terminators, histories
   and fault scripts: [s] is any reachable state, the emit is operation number [n]. *)
Require Import Cadence.Base.Prelude.
Require Import Cadence.Base.Greedy.
Require Import Cadence.Model.Writer.
Require Import Cadence.Proofs.WriterBase.
Require Import Cadence.Proofs.WriterInv.
Require Import Cadence.Proofs.WriterRun.
Require Import Cadence.Proofs.WriterThms.
Require Import Cadence.Proofs.WriterGreedy.
Require Import Cadence.Model.Stats.
Require Import Cadence.Model.Sock.
Require Import Cadence.Proofs.SockFF.

(* an emit writes to the socket only when it must: only if the buffered bytes plus the
   metric plus the terminator do not fit strictly; every whole-line datagram it flushes
   (other than one carrying the new metric itself) could not have taken the new metric;
   and an emit that fits strictly writes nothing and returns Ok *)
Theorem c19_must_and_maximal : forall c e script ops rs s n m x s',
  run_from (init c e script) 0 ops = (rs, s) ->
  step s n (Emit m) = (x, s') ->
  exists atts, lg s' = lg s ++ atts /\ Forall (fun a => a_op a = n) atts /\
    (atts <> [] -> c <= length (bbuf s) + length m + length e) /\
    (forall a ms, In a atts -> a_lab a = Lines ms -> ~ In (n, m) ms ->
                  c < length (a_bytes a) + length m + length e) /\
    (length (bbuf s) + length m + length e < c -> atts = [] /\ x = OOk (length m)).
Proof. exact must_write. Qed.

(* "the buffered bytes" are exactly the lines of the metrics accepted and not yet written *)
Theorem c19_buffer : forall c e script ops rs s,
  run_from (init c e script) 0 ops = (rs, s) ->
  bbuf s = concat (map (fun g => snd g ++ e) (bids s)) /\ length (bbuf s) <= c.
Proof. exact buffer_is_pending. Qed.

(* after a successful flush packing restarts from an empty buffer *)
Theorem c19_reset : forall c e script ops rs k s,
  run_from (init c e script) 0 (ops ++ [Flush]) = (rs ++ [OOk k], s) -> length rs = length ops ->
  bbuf s = [] /\ bids s = [] /\ written s = 0.
Proof.
  intros c e script ops rs k s H L. destruct (flush_point c e script ops rs k s H L) as (A & B & C & _).
  auto.
Qed.

(* in-order packing that closes a block only when the next item does not fit (which is what
   the two clauses of c19_must_and_maximal say the writer does) uses the fewest blocks of
   all in-order partitions into blocks that fit *)
Theorem c19_greedy_optimal : forall cap sizes p,
  valid_partition cap sizes p -> greedy_count cap sizes <= length p.
Proof. exact greedy_optimal. Qed.

(* the global count: in a fault-free life in which every metric fits (and no line is empty) and
   nothing is flushed explicitly, the number of datagrams carrying bytes is exactly the number of
   blocks next-fit packing opens for the line sizes, every emit is acknowledged ... *)
Theorem c19_count : forall c e (ms : list str) rs s,
  Forall (fun m => 0 < length m + length e /\ length m + length e <= c) ms ->
  run c e [] (map Emit ms) = (rs, s) ->
  length (filter (fun a => match a_bytes a with [] => false | _ => true end) (lg s)) =
    greedy_count c (map (fun m => length m + length e) ms) /\
  Forall2 (fun m x => x = OOk (length m)) ms rs.
Proof. exact datagram_count. Qed.

(* ... hence it is the minimum over ALL in-order partitions of the lines into blocks that fit *)
Theorem c19_optimal : forall c e (ms : list str) rs s p,
  Forall (fun m => 0 < length m + length e /\ length m + length e <= c) ms ->
  run c e [] (map Emit ms) = (rs, s) ->
  valid_partition c (map (fun m => length m + length e) ms) p ->
  length (filter (fun a => match a_bytes a with [] => false | _ => true end) (lg s)) <= length p.
Proof.
  intros c e ms rs s p F R V. destruct (datagram_count c e ms rs s F R) as [D _].
  unfold dcount, nonempty, line_sizes in D. rewrite D. now apply greedy_optimal.
Qed.

(* with explicit flushes the segments between them are packed independently: [segs] are the
   runs of metrics each closed by a flush, [last] the metrics after the last flush *)
Theorem c19_count_segments : forall c e (segs : list (list str)) (last : list str) rs s,
  Forall (Forall (fun m => 0 < length m + length e /\ length m + length e <= c)) segs ->
  Forall (fun m => 0 < length m + length e /\ length m + length e <= c) last ->
  run c e [] (concat (map (fun seg => map Emit seg ++ [Flush]) segs) ++ map Emit last) = (rs, s) ->
  length (filter (fun a => match a_bytes a with [] => false | _ => true end) (lg s)) =
    fold_right (fun seg a => greedy_count c (map (fun m => length m + length e) seg) + a) 0 segs
    + greedy_count c (map (fun m => length m + length e) last) /\
  Forall (fun x => exists k, x = OOk k) rs.
Proof. exact datagram_count_segments. Qed.

(* ... and so for the buffered socket sinks themselves (Sock.sc_buffered, listener present): the
   number of datagrams that carry bytes - those of the final drop included - is exactly what greedy
   packing of the lines "metric\n" needs for the sink's capacity (512 unless configured) *)
Theorem c19_socket : forall co queued (ms : list str),
  let c := match co with Some n => n | None => default_capacity end in
  Forall (fun m => length m + 1 <= c) ms ->
  length (filter (fun d => match d with [] => false | _ => true end)
                 (snd (fst (sc_buffered co queued (map SEmit ms))))) =
    greedy_count c (map (fun m => length m + 1) ms).
Proof.
  intros co queued ms c F. pose proof (sc_buffered_bytes co queued ms F) as H.
  destruct (sc_buffered co queued (map SEmit ms)) as [[rs dg] st]. cbn [fst snd]. exact (proj2 (proj2 H)).
Qed.

(* non-vacuity of the count: capacity 8, newline; sizes 4 4 | 8 | 2 (an exact fill in the middle) *)
Example c19_count_witness :
  let ms := [[1;2;3]; [4;5;6]; [7;7;7;7;7;7;7]; [9]]%N in
  (length (lg (snd (run 8 [10%N] [] (map Emit ms)))), greedy_count 8 (map (fun m => length m + 1) ms)) = (3, 3).
Proof. vm_compute. reflexivity. Qed.

(* non-vacuity *)
Example c19_witness :
  map (fun a => (a_op a, length (a_bytes a)))
      (lg (snd (run 10 [10%N] [] [Emit [1;2;3]; Emit [4;5;6]; Emit [7;7;7]; Emit [8]; Emit [9;9;9;9;9;9;9;9;9]; Emit [1]]%N)))
  = [(2, 8); (4, 6); (5, 10); (6, 2)].
Proof. vm_compute. reflexivity. Qed.

(* ==== added after the audit of 2026-10-02 (selftest/audit/REPORT-2026-10-02.md) ==== *)
Require Import Cadence.Proofs.AuditW.

(* [A.12] an explicit flush with an empty buffer (any state): no write is attempted, no outcome
   of the environment is consumed, the answer is Ok(0) *)
Theorem c19_flush_nothing_pending : forall c e script ops rs s n x s',
  run_from (init c e script) 0 ops = (rs, s) -> step s n Flush = (x, s') -> bbuf s = [] ->
  lg s' = lg s /\ x = OOk 0.
Proof. exact flush_nothing_pending_reach. Qed.

Theorem c19_flush_nothing_pending_any : forall s n x s',
  step s n Flush = (x, s') -> bbuf s = [] ->
  x = OOk 0 /\ lg s' = lg s /\ sc s' = sc s /\ bbuf s' = [] /\ bids s' = [] /\ written s' = 0.
Proof. exact flush_nothing_pending. Qed.

(* conversely, with a non-empty buffer an explicit flush always attempts a write *)
Theorem c19_flush_something_pending : forall s n x s',
  step s n Flush = (x, s') -> bbuf s <> [] -> length (lg s) < length (lg s').
Proof. exact flush_something_pending. Qed.

(* ==== added after the audit of 2026-10-02 (selftest/audit/REPORT-2026-10-02.md) ==== *)
(* ==== added after the audit of 2026-10-02, item A.12 first part ==== *)
Require Import Cadence.Proofs.AuditW2.

(* [A.12, first part (1)+(2)] The global count for ANY fault-free history (every history has the
   form below: c19_every_history_is_segments): metrics of any size - fitting, oversized,
   zero-length - and explicit flushes anywhere.  The number of whole-line datagrams that carry
   bytes is the sum, over the segments closed by the explicit flushes and the final drop, of
   the next-fit count of those lines of the segment that fit the buffer and are not
   zero-length.  No hypothesis on the metrics.  Oversized metrics do NOT cut a segment: in the
   model the oversized metric bypasses the buffer (get_mut), nothing buffered is flushed.
   Zero-length lines (empty metric, empty terminator) carry no byte and are invisible. *)
Theorem c19_count_general : forall c e (segs : list (list str)) (last : list str) rs s,
  run c e [] (concat (map (fun seg => map Emit seg ++ [Flush]) segs) ++ map Emit last) = (rs, s) ->
  length (filter (fun a => match a_lab a with Lines _ => true | Alone _ => false end &&
                           match a_bytes a with [] => false | _ => true end) (lg s)) =
    fold_right (fun seg a =>
       greedy_count c (map (fun m => length m + length e)
          (filter (fun m => negb (c <? length m + length e) && (0 <? length m + length e)) seg)) + a) 0 segs
    + greedy_count c (map (fun m => length m + length e)
          (filter (fun m => negb (c <? length m + length e) && (0 <? length m + length e)) last)) /\
  Forall (fun x => exists k, x = OOk k) rs.
Proof. exact count_general. Qed.

(* every history is a list of flushed segments followed by a last, unflushed one *)
Theorem c19_every_history_is_segments : forall ops : list op,
  exists segs last, ops = concat (map (fun seg => map Emit seg ++ [Flush]) segs) ++ map Emit last.
Proof. exact ops_as_segments. Qed.

(* fault-free: the writes of a metric alone are, in log order, exactly the oversized metrics of
   the history (identities are operation numbers, so each exactly once); each is made during its
   own emit, carries the metric without terminator and is answered Ok *)
Theorem c19_alone : forall c e ops rs s,
  run c e [] ops = (rs, s) ->
  flat_map (fun a => match a_lab a with Alone g => [g] | Lines _ => [] end) (lg s) =
    filter (fun g => c <? length (snd g) + length e) (emitted 0 ops) /\
  Forall (fun a => forall g, a_lab a = Alone g ->
            a_op a = fst g /\ a_bytes a = snd g /\ a_out a = WOk /\ c < length (snd g) + length e) (lg s).
Proof. exact alone_general_spelled. Qed.

(* optimality: no in-order packing of the fitting lines (zero-length ones may be put anywhere)
   that closes a block at every explicit flush and at the drop - the only forced cut points -
   has fewer blocks than the writer sent whole-line datagrams with bytes *)
Theorem c19_optimal_general : forall c e (segs : list (list str)) (last : list str) rs s ps p,
  run c e [] (concat (map (fun seg => map Emit seg ++ [Flush]) segs) ++ map Emit last) = (rs, s) ->
  Forall2 (fun seg q => valid_partition c (map (fun m => length m + length e)
                           (filter (fun m => negb (c <? length m + length e)) seg)) q) segs ps ->
  valid_partition c (map (fun m => length m + length e)
                           (filter (fun m => negb (c <? length m + length e)) last)) p ->
  length (filter (fun a => match a_lab a with Lines _ => true | Alone _ => false end &&
                           match a_bytes a with [] => false | _ => true end) (lg s))
    <= fold_right (fun q a => length q + a) 0 ps + length p.
Proof. exact optimal_general. Qed.

(* [A.12, first part (3)] ANY fault script: the number of SUCCESSFUL whole-line datagrams with
   bytes is at most: the sum, over the segments delimited by the explicit flushes that answered
   Ok (and the drop), of the next-fit count of the fitting non-zero-length lines ACKNOWLEDGED in
   the segment [cur_sizes / later, AuditW2.v], plus ONE for every REFUSED emit of a line exactly
   as large as the buffer [pen].  Failed or interrupted flushes, refused emits of any other
   line, and oversized metrics cost nothing.  The "+1" is attained (c19_fault_bound_witness). *)
Theorem c19_fault_bound : forall c e script ops rs s,
  run c e script ops = (rs, s) ->
  length (filter (fun a => match a_lab a with Lines _ => true | Alone _ => false end &&
                           match a_bytes a with [] => false | _ => true end &&
                           match a_out a with WOk => true | _ => false end) (lg s))
    <= greedy_count c (cur_sizes c e ops rs) + later c e ops rs.
Proof. exact fault_bound. Qed.

(* one emit of a fitting non-empty line from any state satisfying the invariant, any script:
   acknowledged - the potential [Phi] (successful whole-line datagrams so far + open block +
   blocks next-fit still opens for the lines to come) moves exactly as next-fit does; refused -
   it does not grow, except by one when the line is exactly as large as the buffer *)
Theorem c19_fault_emit : forall s m n r s' rest,
  Inv s -> length m + length (ending s) <= cap s -> 0 < length m + length (ending s) ->
  mlw_write s m n = (r, s') ->
  Inv s' /\ cap s' = cap s /\ ending s' = ending s /\
  (((exists k, r = ROk k) /\ Phi s' rest = Phi s ((length m + length (ending s)) :: rest)) \/
   ((forall k, r <> ROk k) /\
    Phi s' rest <= Phi s rest + (if length m + length (ending s) =? cap s then 1 else 0))).
Proof. exact emit_phi. Qed.

Example c19_count_general_witness :
  let nine := [9;9;9;9;9;9;9;9;9]%N in
  let segs := [[[1;2]; nine; [3;4]]]%N in let last := [[5%N]] in
  let s := snd (run 8 [10%N] [] (seg_ops segs last)) in
  (map (fun a => (a_op a, is_lines a, length (a_bytes a))) (lg s),
   lcount (lg s), sum_packed 8 [10%N] segs + greedy_count 8 (seg_sizes 8 [10%N] last),
   map fst (alones (lg s))) =
  ([(1, false, 9); (3, true, 6); (5, true, 2)], 2, 2, [1]).
Proof. exact count_general_witness. Qed.

Example c19_zero_line_breaks_count :
  let s := snd (run 4 [] [] (map Emit [[]])) in
  (dcount (lg s), greedy_count 4 (line_sizes [] [[]])) = (0, 1).
Proof. exact zero_line_breaks_c19_count. Qed.

Example c19_zero_line_count_witness :
  let segs := [[[]; [1;2]; []; [3;4]; []; [5]]; [[]]]%N in let last := [[]] : list str in
  let s := snd (run 4 [] [] (seg_ops segs last)) in
  (map (fun a => a_bytes a) (lg s), lcount (lg s),
   sum_packed 4 [] segs + greedy_count 4 (seg_sizes 4 [] last)) =
  ([[1;2;3;4]; [5]]%N, 2, 2).
Proof. exact zero_line_count_witness. Qed.

Example c19_fault_bound_witness :
  let ops := [Emit [1;2;3]; Emit [4;4;4;4;4;4;4;4]; Emit [5;6;7]]%N in
  let '(rs, s) := run 8 [] [WOk; WErr 5%N; WOk] ops in
  (rs, map (fun a => (a_op a, a_out a, length (a_bytes a))) (lg s), oklcount (lg s),
   cur_sizes 8 [] ops rs, later 8 [] ops rs, fault_bound_of 8 [] ops rs) =
  ([OOk 3; OErr 5%N; OOk 3], [(1, WOk, 3); (1, WErr 5%N, 8); (3, WOk, 3)], 2, [3; 3], 1, 2).
Proof. exact fault_bound_witness. Qed.

Example c19_fault_bound_witness2 :
  let ops := [Emit [1;2]; Emit [4;4;4;4;4]; Emit [5;6]; Flush; Emit [7]]%N in
  let '(rs, s) := run 8 [10%N] [WErr 5%N; WIntr; WOk; WErr 6%N] ops in
  (rs, map (fun a => (a_op a, a_out a, length (a_bytes a))) (lg s), oklcount (lg s),
   fault_bound_of 8 [10%N] ops rs) =
  ([OOk 2; OErr 5%N; OOk 2; OOk 0; OOk 1],
   [(1, WErr 5%N, 3); (3, WIntr, 6); (3, WOk, 6); (5, WErr 6%N, 2)], 1, 2).
Proof. exact fault_bound_witness2. Qed.

(* Note after the second read-only review of these pins (selftest/audit/REVIEW-2-2026-10-02.md): c19_fault_emit is the potential-function step behind c19_fault_bound (stated over the proof invariant WriterInv.Inv); the user-level statement is c19_fault_bound.  c19_flush_nothing_pending is the reachable instance of c19_flush_nothing_pending_any. *)
