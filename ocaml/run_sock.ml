(* model: sock *)
(* model side of harness bin `sock` (formats: harness/src/sock.rs): the unbuffered sinks are Stats.sock_emit,
   the buffered ones Writer.sink_init with newline terminator; the listener state of the script decides the
   outcome of every underlying send made during an operation *)

let show_stats s =
  Printf.sprintf "%d.%d.%d.%d" (int_of_n s.bytes_sent) (int_of_n s.packets_sent)
    (int_of_n s.bytes_dropped) (int_of_n s.packets_dropped)

let n_len l = n_of_int (List.length l)

let run_unbuffered queued ops =
  let up = ref true and st = ref stats0 and res = ref [] and dg = ref [] in
  List.iter (fun op ->
    match op.[0] with
    | 'E' ->
      let m = unhex (String.sub op 1 (String.length op - 1)) in
      let o = if !up then OsOk else OsErr N0 in
      let ((sd, r), st') = sock_emit N0 !st m o in
      st := st';
      (match r with
       | Inl n -> dg := hex sd.sd_payload :: !dg;
         res := ("k" ^ string_of_int (int_of_n n)) :: !res
       | Inr _ -> res := (if queued then "k" ^ string_of_int (List.length m) else "e") :: !res)
    | 'F' -> res := "k0" :: !res
    | 'l' -> up := false; res := "-" :: !res
    | 'L' -> up := true; res := "-" :: !res
    | _ -> failwith ("bad op " ^ op)) ops;
  Printf.sprintf "R:%s|D:%s|S:%s" (String.concat "," (List.rev !res)) (String.concat ";" (List.rev !dg)) (show_stats !st)

let stats_of_log lg = buffered_stats lg

let run_buffered cap queued ops =
  let c = if cap = "d" then None else Some (nat_of_int (int_of_string cap)) in
  let s = ref (sink_init c []) and up = ref true and res = ref [] and n = ref 0 in
  let script () = List.init 6 (fun _ -> if !up then WOk else WErr N0) in
  List.iter (fun op ->
    match op.[0] with
    | 'E' | 'F' ->
      let o = if op.[0] = 'F' then Flush else Emit (unhex (String.sub op 1 (String.length op - 1))) in
      s := { !s with sc = script () };
      let (r, s') = step !s (nat_of_int !n) o in
      incr n; s := s';
      res := (match r, o with
        | OOk k, _ -> "k" ^ string_of_int (int_of_nat k)
        | _, Emit m when queued -> "k" ^ string_of_int (List.length m)
        | _, _ -> "e") :: !res
    | 'l' -> up := false; res := "-" :: !res
    | 'L' -> up := true; res := "-" :: !res
    | _ -> failwith ("bad op " ^ op)) ops;
  let st = stats_of_log !s.lg in
  s := { !s with sc = script () };
  let fin = mlw_drop !s (nat_of_int !n) in
  let dg = List.map (fun d -> hex d.sd_payload) (datagrams N0 fin.lg) in
  Printf.sprintf "R:%s|D:%s|S:%s" (String.concat "," (List.rev !res)) (String.concat ";" dg) (show_stats st)

let run_case line =
  match tokens line with
  | [("U" | "US" | "UT"); _; q; ops] | ["X"; _; q; ops] -> run_unbuffered (q = "q1") (split_on ',' ops)
  | [("BU" | "BUS" | "BUT"); cap; q; ops] | ["BX"; cap; q; ops] -> run_buffered cap (q = "q1") (split_on ',' ops)
  | ["UA"; n; ops] ->
    (match get_addr (List.init (int_of_string n) (fun i -> n_of_int i)) with
     | None -> "ctor:inv"
     | Some _ -> run_unbuffered false (split_on ',' ops) ^ "|D2:0")
  | ["SU"; ups] ->
    let res = ref [] in
    let st = List.fold_left (fun st u ->
      match String.split_on_char '/' u with
      | [r; len] ->
        let len = n_of_int (int_of_string len) in
        let body = String.sub r 1 (String.length r - 1) in
        if r.[0] = 'k' then begin
          res := ("k" ^ body) :: !res;
          update st { at_len = len; at_res = Some (n_of_int (int_of_string body)) } end
        else begin
          res := ("e" ^ body) :: !res;
          update st { at_len = len; at_res = None } end
      | _ -> failwith ("bad update " ^ u)) stats0 (split_on ',' ups) in
    Printf.sprintf "R:%s|S:%s" (String.concat "," (List.rev !res)) (show_stats st)
  | _ -> "nomodel"
