(* Line-oriented driver around the extracted models: reads the same case file as the
   Rust harness and prints one observation line per case. *)
let () =
  if Array.length Sys.argv < 3 then (prerr_endline "usage: modelrun <bin> <casefile>"; exit 2);
  let bin = Sys.argv.(1) in
  let ic = open_in Sys.argv.(2) in
  let run = match bin with
    | "mlw" -> Run_mlw.run_case
    | _ -> prerr_endline ("unknown bin " ^ bin); exit 2 in
  let out = Buffer.create 65536 in
  (try
    while true do
      let line = String.trim (input_line ic) in
      if line <> "" && line.[0] <> '#' then begin
        Buffer.add_string out (run line); Buffer.add_char out '\n';
        if Buffer.length out > 60000 then (print_string (Buffer.contents out); Buffer.clear out)
      end
    done
  with End_of_file -> ());
  print_string (Buffer.contents out)
