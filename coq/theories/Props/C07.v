(* C07 — A failed socket write loses only what was reported lost.

   Pinned statements about Cadence.Model.Writer for EVERY fault script (each attempted
   underlying write independently succeeds, fails with an error, or is interrupted;
   all-or-nothing datagram semantics), all capacities, terminators and histories. *)
Require Import Cadence.Base.Prelude.
Require Import Cadence.Model.Writer.
Require Import Cadence.Proofs.WriterBase.
Require Import Cadence.Proofs.WriterInv.
Require Import Cadence.Proofs.WriterRun.
Require Import Cadence.Proofs.WriterThms.
Require Import Cadence.Model.Stats.
Require Import Cadence.Model.Sock.
Require Import Cadence.Proofs.SockProofs.

(* every emit/flush returns Ok (with the right count) or the error of an underlying write
   made during that very operation; nothing panics (no arithmetic underflow) *)
Theorem c07_results : forall c e script ops rs s,
  run_from (init c e script) 0 ops = (rs, s) ->
  length rs = length ops /\
  Forall2 (fun o x => match o, x with
                      | Emit m, OOk k => k = length m
                      | Flush, OOk k => k = 0
                      | _, OPanic => False
                      | _, _ => True
                      end) ops rs /\
  forall i x, nth_error rs i = Some x ->
    match x with
    | OErr er => exists a, In a (lg s) /\ a_op a = i /\ a_out a = WErr er
    | OIntr => exists a, In a (lg s) /\ a_op a = i /\ a_out a = WIntr
    | OPanic => False
    | OOk _ => True
    end.
Proof. exact results_sound. Qed.

(* conservation under faults, at every moment: what has been written successfully in whole
   lines, followed by what is still buffered, is exactly the list of acknowledged fitting
   metrics, in order; the oversized acknowledged ones have been written alone *)
Theorem c07_ledger : forall c e script ops rs s,
  run_from (init c e script) 0 ops = (rs, s) ->
  filter (nzb e) (sentL (lg s) ++ bids s) = filter (nzb e) (filter (fitg c e) (acked 0 ops rs)) /\
  sentA (lg s) = filter (fun g => negb (fitg c e g)) (acked 0 ops rs).
Proof. exact ledger_reach. Qed.

(* ... and still after the final drop *)
Theorem c07_ledger_final : forall c e script ops rs s,
  run c e script ops = (rs, s) ->
  filter (nzb e) (sentL (lg s) ++ bids s) = filter (nzb e) (filter (fitg c e) (acked 0 ops rs)) /\
  sentA (lg s) = filter (fun g => negb (fitg c e g)) (acked 0 ops rs).
Proof. exact ledger_run. Qed.

(* failures never cause a metric to be written twice *)
Theorem c07_no_dup : forall c e script ops rs s,
  run c e script ops = (rs, s) ->
  NoDup (filter (nzb e) (sentL (lg s))) /\ NoDup (sentA (lg s)).
Proof. exact no_dup_run. Qed.

(* when an emit returns an error its own metric is never written, not even later *)
Theorem c07_no_resurrection : forall c e script ops rs s i m x,
  run c e script ops = (rs, s) ->
  nth_error ops i = Some (Emit m) -> nth_error rs i = Some x -> (forall k, x <> OOk k) ->
  (nzb e (i, m) = true -> ~ In (i, m) (sentL (lg s))) /\ ~ In (i, m) (sentA (lg s)).
Proof. exact no_resurrection. Qed.

(* the next flush that succeeds writes everything accepted earlier (nothing stays pending) *)
Theorem c07_next_success : forall c e script ops rs k s,
  run_from (init c e script) 0 (ops ++ [Flush]) = (rs ++ [OOk k], s) -> length rs = length ops ->
  bbuf s = [] /\ bids s = [] /\ written s = 0 /\
  filter (nzb e) (sentL (lg s)) = filter (nzb e) (filter (fitg c e) (acked 0 ops rs)) /\
  sentA (lg s) = filter (fun g => negb (fitg c e g)) (acked 0 ops rs).
Proof. exact flush_point. Qed.

(* framing is never corrupted by failures: C05's statement holds for every fault script *)
Theorem c07_frame_after : forall c e script ops rs s,
  run c e script ops = (rs, s) -> Forall (frame_ok c e) (lg s).
Proof. exact frame_all. Qed.

(* the same for the real buffered socket sinks as the correspondence check drives them
   (Sock.sc_buf: emits and flushes while the listener goes away and comes back; [sc_wops] = the
   writer calls with the listener's state at the time, [wsteps] = the writer's own answers [xs]):
   an error answer is the error of a send refused during that very call; the lines sent plus
   the lines still buffered are exactly the fitting metrics whose emit was answered Ok - nothing
   reported lost is sent later, nothing answered Ok is missing -; the oversized metrics that went
   out alone are exactly those answered Ok; with the listener there at the end the final drop
   leaves nothing behind *)
Theorem c07_scenario : forall co queued ops rs s n up xs,
  sc_buf queued true (sink_init co []) 0 ops = (rs, s, n, up) ->
  fst (wsteps (sink_init co []) 0 (sc_wops true ops)) = xs ->
  let c := match co with Some k => k | None => default_capacity end in
  let wops := map fst (sc_wops true ops) in
  (forall i er, nth_error xs i = Some (OErr er) ->
     exists a, In a (lg s) /\ a_op a = i /\ a_out a = WErr er) /\
  filter (nzb newline) (sentL (lg s) ++ bids s) = filter (nzb newline) (fit_ids c newline (acked 0 wops xs)) /\
  sentA (lg s) = big_ids c newline (acked 0 wops xs) /\
  (up = true -> bids (mlw_drop (with_script s up) n) = []).
Proof. exact sc_buffered_ledger. Qed.

(* non-vacuity: failures on the automatic flush, a retry after Interrupted, a failed bypass *)
Example c07_witness :
  let '(rs, s) := run 8 [10%N] [WErr 7%N; WIntr; WOk; WErr 9%N]
                      [Emit [1;2;3]; Emit [4;5;6]; Emit [7]; Emit [7]; Emit [1;1;1;1;1;1;1;1;1]; Flush]%N in
  (rs, map (fun a => (a_op a, a_out a)) (lg s), map fst (sentL (lg s)), map fst (bids s)) =
  ([OOk 3; OOk 3; OErr 7%N; OOk 1; OErr 9%N; OOk 0],
   [(2, WErr 7%N); (3, WIntr); (3, WOk); (4, WErr 9%N); (5, WOk)], [0; 1; 3], []).
Proof. vm_compute. reflexivity. Qed.
