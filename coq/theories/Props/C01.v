(* C01 — Every emitted line is a well-formed, faithful DogStatsD metric line.

   Pinned statements about Cadence.Model.Wire (MetricFormatter::format, MetricBuilder, the
   per-kind *_with_tags methods, the standalone constructors) and about the independent
   server-side parser [parse_line] of the same file.  Strings are byte lists.  A call is
   (kind, key, argument, list of builder calls [k_ops]); [client_line cfg c] is the text the
   client hands to the sink ([Some (inr l)]), the error it reports ([Some (inl e)]), or
   [None] when the (kind, argument type) pair has no impl (does not type-check).  All four
   call forms emit exactly this text (see c01_all_forms).  Nothing below bounds strings,
   values, packed lists, tag lists or the number of builder calls.

   Reading aids (Proofs/WireDefs.v):
     op_tags ops       the tags added by the builder calls, in order
     op_rate ops, op_container ops, op_timestamp ops
                       the LAST sampling rate / container id / timestamp given, if any
     (c01_builder_calls below pins these readings)
     clean s = true    s contains none of ':' '|' '#' ',' '@' '\n'   (c01_clean)
     config_ok cfg     prefix, default tag keys/values, default container id are clean
     call_ok c         key, tag keys/values, container ids, the rate text and every float
                       text inside the value are clean (texts of floats are std's Display) *)
Require Import Cadence.Base.Prelude.
Require Import Cadence.Base.Decimal.
Require Import Cadence.Model.Convert.
Require Import Cadence.Model.Wire.
Require Import Cadence.Model.Client.
Require Import Cadence.Proofs.SplitProofs.
Require Import Cadence.Proofs.DecimalProofs.
Require Import Cadence.Proofs.WireDefs.
Require Import Cadence.Proofs.WireProofs.
Require Import Cadence.Proofs.ConvertProofs.
Require Import Cadence.Proofs.ClientProofs.

(* the grammar: <name>:<v1>[:<v2>...]|<type>[|@<rate>][|#<tag>,...][|c:<container>][|T<timestamp>]
   with the name rule, the kind's code, at least one value, each optional section exactly
   when supplied (by the call or, for tags and container id, by the client), in this order *)
Theorem c01_shape : forall cfg c l,
  client_line cfg c = Some (inr l) ->
  exists v, to_value (k_kind c) (k_arg c) = Some (inr v) /\ value_texts v <> [] /\
    let name := match c_prefix cfg with
                | [] => k_key c
                | _ :: _ => trim_end_dots (c_prefix cfg) ++ b_dot :: k_key c
                end in
    let rate := op_rate (k_ops c) in
    let tags := c_tags cfg ++ op_tags (k_ops c) in
    let cid := match op_container (k_ops c) with Some x => Some x | None => c_container cfg end in
    let ts := op_timestamp (k_ops c) in
    l = name ++ b_colon :: join b_colon (value_texts v) ++ b_pipe :: code (k_kind c)
        ++ match rate with Some r => b_pipe :: b_at :: r | None => [] end
        ++ match tags with [] => [] | _ :: _ => b_pipe :: b_hash :: join b_comma (map render_tag tags) end
        ++ match cid with Some x => b_pipe :: b_c :: b_colon :: x | None => [] end
        ++ match ts with Some t => b_pipe :: b_T :: render_N t | None => [] end.
Proof. exact shape. Qed.

(* the converse: a call is answered according to its conversion only — a line for every
   well-typed call whose value is accepted and non-empty, an error exactly when the
   conversion fails or the packed list is empty: InvalidInput, unless the argument is a
   user-defined value whose own conversion returned the error [e], which is then reported as it is *)
Theorem c01_total : forall cfg c,
  (to_value (k_kind c) (k_arg c) = None -> client_line cfg c = None) /\
  (forall e, to_value (k_kind c) (k_arg c) = Some (inl e) ->
             client_line cfg c = Some (inl e) /\ (e = EInvalid \/ k_arg c = AUserErr e)) /\
  (forall v, to_value (k_kind c) (k_arg c) = Some (inr v) -> mv_count v = 0 ->
             client_line cfg c = Some (inl EInvalid)) /\
  (forall v, to_value (k_kind c) (k_arg c) = Some (inr v) -> mv_count v <> 0 ->
             exists l, client_line cfg c = Some (inr l)).
Proof.
  intros cfg c. rewrite client_line_cases. split; [|split; [|split]].
  - intros ->. reflexivity.
  - intros e H. split; [rewrite H; reflexivity|exact (to_value_err _ _ _ H)].
  - intros v H Hc. rewrite H, Hc. reflexivity.
  - intros v H Hc. rewrite H. apply Nat.eqb_neq in Hc. rewrite Hc. eexists. reflexivity.
Qed.

(* the entry points: a call type-checks iff its (kind, argument type) pair is one of the 22
   impls of client.rs or the argument is a user-defined To*Value type (whatever its conversion
   returns) *)
Theorem c01_entry_points : forall k a,
  to_value k a <> None <->
  match a with
  | AUser _ | AUserErr _ => True
  | AI64 _ => k = Counter \/ k = SetK
  | AI32 _ | AU32 _ => k = Counter
  | AU64 _ => k <> SetK
  | AF64 _ => k = Gauge \/ k = Histogram \/ k = Distribution
  | ADur _ | AVecDur _ => k = Timer \/ k = Histogram
  | AVecU64 _ => k = Timer \/ k = Histogram \/ k = Distribution
  | AVecF64 _ => k = Histogram \/ k = Distribution
  end.
Proof.
  intros k a. rewrite <- to_value_defined.
  destruct a, k; cbn [entry_exists]; split; intros H; try reflexivity; try exact I; try discriminate;
    try tauto; try congruence;
    repeat match goal with H : _ \/ _ |- _ => destruct H end; discriminate.
Qed.

(* trim_end_dots removes exactly the trailing dots: the input is the result followed by
   dots only, the result does not end with a dot, and it is the only such decomposition *)
Theorem c01_trim : forall s,
  (exists dots, s = trim_end_dots s ++ dots /\ Forall (fun b => b = b_dot) dots) /\
  (forall t, trim_end_dots s <> t ++ [b_dot]) /\
  (forall t dots, s = t ++ dots -> Forall (fun b => b = b_dot) dots ->
                  (t = [] \/ last t 0%N <> b_dot) -> trim_end_dots s = t).
Proof.
  intros s. split; [exact (trim_end_dots_split s)|]. split; [exact (trim_end_dots_no_trailing_dot s)|].
  intros t dots. apply trim_end_dots_unique.
Qed.

(* reading of the builder-call summaries: one more call at the END of the chain appends its
   tag / replaces the rate, container id, timestamp and leaves the rest alone *)
Theorem c01_builder_calls : forall ops o,
  op_tags [] = [] /\ op_rate [] = None /\ op_container [] = None /\ op_timestamp [] = None /\
  op_tags (ops ++ [o]) = op_tags ops ++
     match o with WithTag k v => [(Some k, v)] | WithTagValue v => [(None, v)] | _ => [] end /\
  op_rate (ops ++ [o]) = match o with WithSamplingRate r => Some r | _ => op_rate ops end /\
  op_container (ops ++ [o]) = match o with WithContainerId c => Some c | _ => op_container ops end /\
  op_timestamp (ops ++ [o]) = match o with WithTimestamp t => Some t | _ => op_timestamp ops end.
Proof. intros ops o. repeat (split; [reflexivity|]). exact (op_summaries_snoc ops o). Qed.

(* what ANY chain of builder calls does to a formatter: tags are appended in call order; rate,
   container id and timestamp are last-wins over what the formatter had; prefix, key, value
   and kind are never touched *)
Theorem c01_builder_fold : forall ops f,
  fold_left apply_bop ops f =
  {| f_prefix := f_prefix f; f_key := f_key f; f_val := f_val f; f_kind := f_kind f;
     f_tags := f_tags f ++ op_tags ops;
     f_timestamp := match op_timestamp ops with Some t => Some t | None => f_timestamp f end;
     f_rate := match op_rate ops with Some r => Some r | None => f_rate f end;
     f_container := match op_container ops with Some x => Some x | None => f_container f end |}.
Proof. exact fold_bops. Qed.

(* clean = none of the six delimiter bytes occurs *)
Theorem c01_clean : forall s,
  clean s = true <->
  (~ In 58%N s /\ ~ In 124%N s /\ ~ In 35%N s /\ ~ In 44%N s /\ ~ In 64%N s /\ ~ In 10%N s).
Proof. exact clean_spec. Qed.

(* the round trip: for clean supplied strings the server-side parser recovers exactly the
   supplied name, value list, kind code, rate, tag sequence (key:value or bare, in order),
   container id and timestamp.  (Non-emptiness of float texts is not needed; an empty tag
   list gives no section and parses to []; one bare empty tag gives "|#" and parses to
   [(None, [])].) *)
Theorem c01_roundtrip : forall cfg c l,
  config_ok cfg = true -> call_ok c = true ->
  client_line cfg c = Some (inr l) ->
  exists v, to_value (k_kind c) (k_arg c) = Some (inr v) /\
    parse_line l =
    Some {| p_name := match c_prefix cfg with
                      | [] => k_key c
                      | _ :: _ => trim_end_dots (c_prefix cfg) ++ b_dot :: k_key c
                      end;
            p_values := value_texts v;
            p_type := code (k_kind c);
            p_rate := op_rate (k_ops c);
            p_tags := c_tags cfg ++ op_tags (k_ops c);
            p_container := match op_container (k_ops c) with Some x => Some x | None => c_container cfg end;
            p_timestamp := op_timestamp (k_ops c) |}.
Proof. exact roundtrip. Qed.

(* the same for ANY line of the grammar built from clean pieces (covers the lines of the
   standalone constructors too): parsing is a left inverse of the line layout *)
Theorem c01_roundtrip_general : forall name vals ty rate tags cid ts,
  clean name = true -> vals <> [] -> forallb clean vals = true -> clean ty = true ->
  opt_clean rate = true -> forallb tag_ok tags = true -> opt_clean cid = true ->
  parse_line
    (name ++ b_colon :: join b_colon vals ++ b_pipe :: ty
     ++ match rate with Some r => b_pipe :: b_at :: r | None => [] end
     ++ match tags with [] => [] | _ :: _ => b_pipe :: b_hash :: join b_comma (map render_tag tags) end
     ++ match cid with Some x => b_pipe :: b_c :: b_colon :: x | None => [] end
     ++ match ts with Some t => b_pipe :: b_T :: render_N t | None => [] end) =
  Some {| p_name := name; p_values := vals; p_type := ty; p_rate := rate; p_tags := tags;
          p_container := cid; p_timestamp := ts |}.
Proof. exact parse_wire_line. Qed.

(* rendered integers never need a hypothesis: they are clean and non-empty *)
Theorem c01_numerals_clean : forall n z,
  clean (render_N n) = true /\ render_N n <> [] /\ clean (render_Z z) = true /\ render_Z z <> [].
Proof.
  intros n z. repeat split; [apply render_N_clean|apply render_N_nonempty|apply render_Z_clean|apply render_Z_nonempty].
Qed.

(* the standalone constructors (Counter::new .. Set::new, new_f64, ...) with the formatted
   prefix produce the text the client produces for a call without decorations *)
Theorem c01_ctor : forall k p key a v,
  to_value k a = Some (inr v) -> mv_count v <> 0 ->
  client_line {| c_prefix := p; c_tags := []; c_container := None |}
              {| k_kind := k; k_key := key; k_arg := a; k_ops := [] |}
  = Some (inr (ctor_line k (formatted_prefix p) key v)).
Proof. exact ctor_agrees. Qed.

Theorem c01_ctor_shape : forall k prefix key v,
  ctor_line k prefix key v = prefix ++ key ++ b_colon :: join b_colon (value_texts v) ++ b_pipe :: code k.
Proof. exact ctor_shape. Qed.

(* the type codes: c ms g m h d s — pairwise distinct, clean, non-empty *)
Theorem c01_codes :
  code Counter = [99%N] /\ code Timer = [109%N; 115%N] /\ code Gauge = [103%N] /\
  code Meter = [109%N] /\ code Histogram = [104%N] /\ code Distribution = [100%N] /\
  code SetK = [115%N] /\
  (forall a b, code a = code b -> a = b) /\
  (forall k, clean (code k) = true) /\ (forall k, code k <> []).
Proof.
  repeat (split; [reflexivity|]). split; [exact code_inj|]. split; [exact code_clean|exact code_nonempty].
Qed.

(* every call form (try_send, plain, quiet) hands the sink exactly the text of client_line,
   once, and nothing when there is none *)
Theorem c01_all_forms : forall cfg fm c script o script',
  send_call cfg fm c script = Some (o, script') ->
  o_emitted o = match client_line cfg c with Some (inr l) => [l] | _ => [] end.
Proof. intros cfg fm c script o script' H. exact (proj1 (emitted_exact _ _ _ _ _ _ H)). Qed.

(* the pinned tree BEFORE the fix of defect D1 (no check of the packed count) violates "at
   least one value": client.time("k", vec![]) hands "k:|ms" to the sink; the repaired model
   reports InvalidInput for the same call *)
Theorem c01_refuted_v0 : exists cfg c l v,
  client_line_v0 cfg c = Some (inr l) /\
  to_value (k_kind c) (k_arg c) = Some (inr v) /\ value_texts v = [] /\
  l = [107%N; 58%N; 124%N; 109%N; 115%N] /\
  option_map p_values (parse_line l) = Some [[]] /\
  client_line cfg c = Some (inl EInvalid).
Proof.
  exists {| c_prefix := []; c_tags := []; c_container := None |},
         {| k_kind := Timer; k_key := [107%N]; k_arg := AVecU64 []; k_ops := [] |},
         [107%N; 58%N; 124%N; 109%N; 115%N], (PackedUnsigned []).
  vm_compute. repeat split.
Qed.

(* ------------------------------------------------------------------ non-vacuity *)
(* prefix "a.." (two trailing dots), three default tags (key:value, bare, bare), default
   container "dd"; a timer call with the multi-byte key "ék", a packed value, a call tag, a
   rate "0.5", timestamp 1234, per-call container "T1" and a bare tag "c" *)
(* "a.ék:1:20:300|ms|@0.5|#x:y,z,w,t:u,c|c:T1|T1234" *)
Example c01_witness :
  let cfg := {| c_prefix := [97; 46; 46]%N;
                c_tags := [(Some [120]%N, [121]%N); (None, [122]%N); (None, [119]%N)];
                c_container := Some [100; 100]%N |} in
  let c := {| k_kind := Timer; k_key := [195; 169; 107]%N; k_arg := AVecU64 [1; 20; 300]%N;
              k_ops := [WithTag [116]%N [117]%N; WithSamplingRate [48; 46; 53]%N; WithTimestamp 1234;
                        WithContainerId [84; 49]%N; WithTagValue [99]%N] |} in
  let l := [97; 46; 195; 169; 107; 58; 49; 58; 50; 48; 58; 51; 48; 48; 124; 109; 115;
            124; 64; 48; 46; 53;
            124; 35; 120; 58; 121; 44; 122; 44; 119; 44; 116; 58; 117; 44; 99;
            124; 99; 58; 84; 49;
            124; 84; 49; 50; 51; 52]%N in
  config_ok cfg = true /\ call_ok c = true /\
  client_line cfg c = Some (inr l) /\
  parse_line l =
  Some {| p_name := [97; 46; 195; 169; 107]%N;
          p_values := [[49]; [50; 48]; [51; 48; 48]]%N;
          p_type := [109; 115]%N;
          p_rate := Some [48; 46; 53]%N;
          p_tags := [(Some [120], [121]); (None, [122]); (None, [119]); (Some [116], [117]); (None, [99])]%N;
          p_container := Some [84; 49]%N;
          p_timestamp := Some 1234%N |}.
Proof. vm_compute. repeat split. Qed.

(* corners: no optional section at all and an empty key; a single bare empty tag *)
Example c01_witness_corners :
  let cfg := {| c_prefix := []; c_tags := []; c_container := None |} in
  let c1 := {| k_kind := Counter; k_key := []; k_arg := AI64 (-5)%Z; k_ops := [] |} in
  let c2 := {| k_kind := Counter; k_key := [99]%N; k_arg := AI64 7%Z; k_ops := [WithTagValue []] |} in
  client_line cfg c1 = Some (inr [58; 45; 53; 124; 99]%N) /\
  client_line cfg c2 = Some (inr [99; 58; 55; 124; 99; 124; 35]%N) /\
  option_map p_tags (parse_line [99; 58; 55; 124; 99; 124; 35]%N) = Some [(None, [])] /\
  (* 22 of the 7 x 9 (kind, built-in argument type) pairs exist *)
  length (filter (fun ka => match to_value (fst ka) (snd ka) with Some _ => true | None => false end)
            (list_prod all_kinds
               [AI64 0; AI32 0; AU64 0; AU32 0; AF64 []; ADur {| secs := 0; nanos := 0 |};
                AVecU64 []; AVecF64 []; AVecDur []])) = 22.
Proof. vm_compute. repeat split. Qed.

(* ==== added after the audit of 2026-10-02 (selftest/audit/REPORT-2026-10-02.md) ==== *)
Require Import Cadence.Proofs.AuditM1.
(* the model of the pinned tree before the fix of defect D1 agrees with the repaired model on
   every call whose value has at least one element ... *)
Theorem c01_v0_agrees : forall cfg c v,
  to_value (k_kind c) (k_arg c) = Some (inr v) -> mv_count v <> 0 ->
  client_line_v0 cfg c = client_line cfg c.
Proof. exact v0_agrees. Qed.

(* ... (also on ill-typed calls and conversion errors: agreement holds exactly when no
   accepted value is empty) ... *)
Theorem c01_v0_agrees_iff : forall cfg c,
  client_line_v0 cfg c = client_line cfg c <->
  (forall v, to_value (k_kind c) (k_arg c) = Some (inr v) -> mv_count v <> 0).
Proof. exact v0_agrees_iff. Qed.

(* ... and differs exactly on the empty packed values *)
Theorem c01_v0_differs : forall cfg c,
  client_line_v0 cfg c <> client_line cfg c <->
  exists v, to_value (k_kind c) (k_arg c) = Some (inr v) /\
    (v = PackedSigned [] \/ v = PackedUnsigned [] \/ v = PackedFloat []).
Proof. exact v0_differs_pin. Qed.

(* there, the old code hands "<name>:|<type>[sections]" — no value text — to the sink, where
   the repaired code reports InvalidInput *)
Theorem c01_v0_on_empty : forall cfg c v,
  to_value (k_kind c) (k_arg c) = Some (inr v) -> mv_count v = 0 ->
  client_line cfg c = Some (inl EInvalid) /\
  value_texts v = [] /\
  client_line_v0 cfg c =
  Some (inr (match c_prefix cfg with
             | [] => k_key c
             | _ :: _ => trim_end_dots (c_prefix cfg) ++ b_dot :: k_key c
             end ++ b_colon :: b_pipe :: code (k_kind c)
        ++ match op_rate (k_ops c) with Some r => b_pipe :: b_at :: r | None => [] end
        ++ match c_tags cfg ++ op_tags (k_ops c) with
           | [] => []
           | _ :: _ => b_pipe :: b_hash :: join b_comma (map render_tag (c_tags cfg ++ op_tags (k_ops c)))
           end
        ++ match (match op_container (k_ops c) with Some x => Some x | None => c_container cfg end) with
           | Some x => b_pipe :: b_c :: b_colon :: x | None => [] end
        ++ match op_timestamp (k_ops c) with Some t => b_pipe :: b_T :: render_N t | None => [] end)).
Proof. exact v0_on_empty. Qed.

(* the calls concerned: an empty Vec<u64>, Vec<f64> or Vec<Duration>, or a user-defined type
   that yields an empty packed value *)
Theorem c01_empty_value_args : forall k a v,
  to_value k a = Some (inr v) -> mv_count v = 0 ->
  a = AVecU64 [] \/ a = AVecF64 [] \/ a = AVecDur [] \/
  (exists v', a = AUser v' /\ (v' = PackedSigned [] \/ v' = PackedUnsigned [] \/ v' = PackedFloat [])).
Proof. exact empty_value_args_pin. Qed.

Example c01_v0_witness :
  let cfg := {| c_prefix := []; c_tags := []; c_container := None |} in
  let c1 := {| k_kind := Timer; k_key := [107]%N; k_arg := AVecU64 [1; 20]%N; k_ops := [] |} in
  let c0 := {| k_kind := Histogram; k_key := [107]%N; k_arg := AVecF64 []; k_ops := [WithTagValue [116]%N] |} in
  client_line_v0 cfg c1 = client_line cfg c1 /\
  client_line cfg c1 = Some (inr [107; 58; 49; 58; 50; 48; 124; 109; 115]%N) /\
  client_line_v0 cfg c0 = Some (inr [107; 58; 124; 104; 124; 35; 116]%N) /\
  client_line cfg c0 = Some (inl EInvalid).
Proof. exact v0_witness. Qed.

(* the count of the entry points (audit A.23): whether a call type-checks depends on the kind
   and the TYPE of the argument only (first theorem; [arg_index] numbers the ten constructors
   of [arg], [arg_samples] holds one sample of each), hence the counts of the second are
   counts of entry points: 22 (kind, built-in type) pairs = 4+4+2+1+6+4+1 by kind; 23 if the
   user-defined route is counted once, 29 if once per kind; 7 kinds x 3 call forms = 21 *)
Theorem c01_defined_by_type : forall k a,
  to_value k a <> None <->
  (match to_value k (nth (arg_index a) arg_samples (AI64 0)) with Some _ => true | None => false end) = true.
Proof. exact defined_by_type. Qed.

Theorem c01_entry_point_counts :
  length (filter defined_pair (list_prod all_kinds builtin_args)) = 22 /\
  map (fun k => length (filter (fun a => defined_pair (k, a)) builtin_args)) all_kinds = [4; 4; 2; 1; 6; 4; 1] /\
  map (fun a => length (filter (fun k => defined_pair (k, a)) all_kinds)) builtin_args = [2; 1; 6; 1; 3; 2; 3; 2; 2] /\
  length (filter defined_pair (list_prod all_kinds arg_samples)) = 29 /\
  length (filter defined_pair (list_prod all_kinds builtin_args)) + 1 = 23 /\
  length all_kinds = 7 /\ length arg_samples = 10 /\
  length (list_prod all_kinds [TrySend; Plain; Quiet]) = 21 /\
  length (list_prod all_kinds [TrySend; Plain; Quiet]) + 2 = 23 /\
  length (filter defined_pair (list_prod all_kinds builtin_args)) + 2 = 24.
Proof. exact entry_point_counts. Qed.

(* Note after the second read-only review of these pins (selftest/audit/REVIEW-2-2026-10-02.md): c01_entry_point_counts: the sums 22+1, 21+2 and 22+2 only record the candidate readings of the '23 entry points' of the property text (+1 = the user-defined route, +2 = incr and decr); c01_v0_agrees / _iff / _differs are one fact in three forms. *)
