#!/bin/bash
# Build the framework from files on disk only (offline): the Coq development (full .vo
# build), the extracted OCaml model runner, the Rust harness against /repo.
set -e
cd "$(dirname "$0")"
export CARGO_NET_OFFLINE=true
mkdir -p build/extracted build/replays evidence
( cd coq && coq_makefile -f _CoqProject -o Makefile >/dev/null && timeout 3000 make -j16 ) 2>&1 | tail -5
python3 - <<'PY'
import sys
sys.path.insert(0, ".")
from driver import common
common.build_modelrun()
ok, out = common.build_harness()
print("harness build:", "ok" if ok else out[-3000:])
sys.exit(0 if ok else 1)
PY
echo "setup done"
