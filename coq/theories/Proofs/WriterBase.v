(* Basic lemmas about the Writer model: the underlying attempt, the flush loop,
   direct writes; the ghost ledger. *)
Require Import Cadence.Base.Prelude.
Require Import Cadence.Model.Writer.

(* -------------------------------------------------------------- framing of one attempt *)
Definition frame_ok (c : nat) (e : str) (a : attempt) : Prop :=
  match a_lab a with
  | Lines ms => ms <> [] /\ a_bytes a = render e ms /\ length (a_bytes a) <= c
  | Alone m => a_bytes a = snd m /\ c < length (snd m) + length e
  end.

(* -------------------------------------------------------------- ghost ledger *)
Definition nzb (e : str) (g : gm) : bool := match line e g with [] => false | _ => true end.
Definition ok_ids (a : attempt) : list gm :=
  match a_out a, a_lab a with WOk, Lines ms => ms | _, _ => [] end.
Definition ok_alone (a : attempt) : list gm :=
  match a_out a, a_lab a with WOk, Alone m => [m] | _, _ => [] end.
Definition sentL (l : list attempt) : list gm := flat_map ok_ids l.
Definition sentA (l : list attempt) : list gm := flat_map ok_alone l.

Lemma sentL_app a b : sentL (a ++ b) = sentL a ++ sentL b.
Proof. apply flat_map_app. Qed.
Lemma sentA_app a b : sentA (a ++ b) = sentA a ++ sentA b.
Proof. apply flat_map_app. Qed.

Lemma render_app e a b : render e (a ++ b) = render e a ++ render e b.
Proof. unfold render. now rewrite map_app, concat_app. Qed.
Lemma render_nil e : render e [] = [].
Proof. reflexivity. Qed.
Lemma render_one e g : render e [g] = snd g ++ e.
Proof. unfold render, line; cbn. now rewrite app_nil_r. Qed.
Lemma render_ne e ms : render e ms <> [] -> ms <> [].
Proof. destruct ms; cbn; congruence. Qed.

Lemma filter_nz_render_nil e ms : render e ms = [] -> filter (nzb e) ms = [].
Proof.
  induction ms as [|g ms IH]; cbn; [reflexivity|]. intros H.
  apply app_eq_nil in H. destruct H as [H1 H2].
  unfold nzb, line in *. rewrite H1. auto.
Qed.

(* -------------------------------------------------------------- configuration *)
Definition same_cfg (s s' : st) : Prop := cap s' = cap s /\ ending s' = ending s.

Lemma same_cfg_refl s : same_cfg s s. Proof. split; reflexivity. Qed.
Lemma same_cfg_trans a b c : same_cfg a b -> same_cfg b c -> same_cfg a c.
Proof. unfold same_cfg. intuition congruence. Qed.

(* what one API call (numbered [op]) appended to the log *)
Definition ext (s s' : st) (op : nat) (atts : list attempt) : Prop :=
  lg s' = lg s ++ atts /\ Forall (fun a => a_op a = op) atts.

Lemma ext_nil s op : ext s s op [].
Proof. split; [now rewrite app_nil_r | constructor]. Qed.
Lemma ext_trans a b c op x y : ext a b op x -> ext b c op y -> ext a c op (x ++ y).
Proof.
  intros [H1 F1] [H2 F2]. split.
  - rewrite H2, H1. now rewrite app_assoc.
  - apply Forall_app; split; assumption.
Qed.

(* -------------------------------------------------------------- under *)
Lemma under_spec s b lab op o s' :
  under s b lab op = (o, s') ->
  written s' = written s /\ cap s' = cap s /\ bbuf s' = bbuf s /\ bids s' = bids s /\ ending s' = ending s /\
  lg s' = lg s ++ [{| a_bytes := b; a_out := o; a_lab := lab; a_op := op |}] /\
  length (sc s') <= length (sc s) /\ (o <> WOk -> length (sc s') < length (sc s)).
Proof.
  unfold under. destruct (sc s) as [|o' c] eqn:E; intros H; inversion H; subst; cbn;
    repeat split; auto; try lia; congruence.
Qed.

(* -------------------------------------------------------------- flush loop *)
(* the attempts of one flush: all carry the buffer, labelled with the pending ids *)
Definition flush_att (s : st) (op : nat) (a : attempt) : Prop :=
  a_bytes a = bbuf s /\ a_lab a = Lines (bids s) /\ a_op a = op.

Lemma flush_loop_spec fuel : forall s op r s',
  flush_loop fuel s op = (r, s') ->
  length (sc s) < fuel ->
  written s' = written s /\ same_cfg s s' /\
  exists atts, ext s s' op atts /\ Forall (flush_att s op) atts /\ atts <> [] /\ sentA atts = [] /\
  match r with
  | ROk _ => bbuf s' = [] /\ bids s' = [] /\ sentL atts = bids s
  | RErr e => bbuf s' = bbuf s /\ bids s' = bids s /\ sentL atts = [] /\
              exists a, last atts a = a /\ a_out a = WErr e /\ In a atts
  | _ => False
  end.
Proof.
  induction fuel as [|f IH]; intros s op r s' H Hf; [lia|].
  cbn in H.
  destruct (under s (bbuf s) (Lines (bids s)) op) as [o s1] eqn:Hu.
  apply under_spec in Hu. destruct Hu as (Hw & Hcap & Hbuf & Hids & He & Hlg & Hsc & Hsc').
  set (a0 := {| a_bytes := bbuf s; a_out := o; a_lab := Lines (bids s); a_op := op |}) in *.
  assert (Ha0 : flush_att s op a0) by (unfold flush_att; cbn; auto).
  destruct o.
  - inversion H; subst; cbn.
    split; [auto|]. split; [split; auto|].
    exists [a0]. split; [split; [cbn; now rewrite Hlg | repeat constructor]|].
    split; [repeat constructor; auto|]. split; [discriminate|]. split; [reflexivity|].
    cbn. now rewrite app_nil_r.
  - inversion H; subst; cbn.
    split; [auto|]. split; [split; auto|].
    exists [a0]. split; [split; [cbn; now rewrite Hlg | repeat constructor]|].
    split; [repeat constructor; auto|]. split; [discriminate|]. split; [reflexivity|].
    repeat split; auto. exists a0. cbn. auto.
  - assert (Hlt : length (sc s1) < f) by (assert (WIntr <> WOk) by discriminate; specialize (Hsc' H0); lia).
    destruct (IH _ _ _ _ H Hlt) as (A & [B1 B2] & atts & [E1 E2] & F & N & SA & M).
    split; [congruence|]. split; [split; congruence|].
    exists (a0 :: atts).
    split; [split; [rewrite E1, Hlg; now rewrite <- app_assoc | constructor; auto]|].
    split. { constructor; auto. eapply Forall_impl; [|exact F].
      intros a [X [Y Z]]. unfold flush_att. rewrite <- Hbuf, <- Hids. auto. }
    split; [discriminate|].
    split. { cbn. unfold sentA in SA. now rewrite SA. }
    assert (L0 : sentL (a0 :: atts) = sentL atts) by reflexivity.
    destruct r; auto.
    + destruct M as (M1 & M2 & M3). repeat split; auto. rewrite L0. congruence.
    + destruct M as (M1 & M2 & M3 & a & La & Oa & Ia).
      split; [congruence|]. split; [congruence|]. split; [congruence|].
      exists a. split; [|split; [auto|right; exact Ia]].
      destruct atts; [contradiction|]. exact La.
Qed.

Lemma flush_buf_spec s op r s' :
  flush_buf s op = (r, s') ->
  written s' = written s /\ same_cfg s s' /\
  exists atts, ext s s' op atts /\ Forall (flush_att s op) atts /\ sentA atts = [] /\
  (bbuf s = [] -> atts = []) /\
  match r with
  | ROk _ => bbuf s' = [] /\ bids s' = [] /\ (bbuf s <> [] -> sentL atts = bids s /\ atts <> [])
  | RErr e => bbuf s' = bbuf s /\ bids s' = bids s /\ bbuf s <> [] /\ sentL atts = [] /\
              exists a, last atts a = a /\ a_out a = WErr e /\ In a atts
  | _ => False
  end.
Proof.
  unfold flush_buf. destruct (bbuf s) as [|x xs] eqn:E.
  - intros H; inversion H; subst; cbn. repeat split; auto.
    exists []. split; [split; [cbn; now rewrite app_nil_r | constructor]|]. split; [constructor|].
    repeat split; auto; try (intros X; congruence); try congruence.
  - intros H. apply flush_loop_spec in H; [|lia].
    destruct H as (A & B & atts & C & D & N & SA & M).
    split; [exact A|]. split; [exact B|].
    exists atts. split; [exact C|]. split; [exact D|]. split; [exact SA|].
    split; [discriminate|].
    destruct r; auto.
    + destruct M as (M1 & M2 & M3). repeat split; auto.
    + destruct M as (M1 & M2 & M3 & M4). rewrite E in M1. repeat split; auto. discriminate.
Qed.

(* -------------------------------------------------------------- direct *)
Lemma direct_spec s b lab op r s' :
  direct s b lab op = (r, s') ->
  written s' = written s /\ same_cfg s s' /\ bbuf s' = bbuf s /\ bids s' = bids s /\
  exists o, ext s s' op [{| a_bytes := b; a_out := o; a_lab := lab; a_op := op |}] /\
  match r with
  | ROk n => n = length b /\ o = WOk
  | RErr e => o = WErr e
  | RIntr => o = WIntr
  | RPanic => False
  end.
Proof.
  unfold direct. destruct (under s b lab op) as [o s1] eqn:Hu.
  apply under_spec in Hu. destruct Hu as (A & B & C & D & E & F & _).
  intros H. assert (s1 = s') by (destruct o; inversion H; auto). subst s1.
  repeat split; auto. exists o. split.
  - split; auto.
  - destruct o; inversion H; subst; auto.
Qed.
