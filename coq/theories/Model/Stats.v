(* Model of cadence/src/sinks/core.rs SocketStats (four AtomicU64 counters updated with
   fetch_add, which wraps) and of the unbuffered socket sinks of udp.rs / unix.rs.
   Definitions only. *)
Require Import Cadence.Base.Prelude.

Definition W64 : N := (2 ^ 64)%N.
Definition wadd (a b : N) : N := ((a + b) mod W64)%N.        (* AtomicU64::fetch_add *)

Record stats := { bytes_sent : N; packets_sent : N; bytes_dropped : N; packets_dropped : N }.
Definition stats0 : stats := {| bytes_sent := 0; packets_sent := 0; bytes_dropped := 0; packets_dropped := 0 |}.

(* one atomic increment of one counter *)
Inductive incr := IBytesSent (n : N) | IPacketsSent | IBytesDropped (n : N) | IPacketsDropped.

Definition apply_incr (s : stats) (i : incr) : stats :=
  match i with
  | IBytesSent n => {| bytes_sent := wadd (bytes_sent s) n; packets_sent := packets_sent s;
                       bytes_dropped := bytes_dropped s; packets_dropped := packets_dropped s |}
  | IPacketsSent => {| bytes_sent := bytes_sent s; packets_sent := wadd (packets_sent s) 1;
                       bytes_dropped := bytes_dropped s; packets_dropped := packets_dropped s |}
  | IBytesDropped n => {| bytes_sent := bytes_sent s; packets_sent := packets_sent s;
                          bytes_dropped := wadd (bytes_dropped s) n; packets_dropped := packets_dropped s |}
  | IPacketsDropped => {| bytes_sent := bytes_sent s; packets_sent := packets_sent s;
                          bytes_dropped := bytes_dropped s; packets_dropped := wadd (packets_dropped s) 1 |}
  end.

(* one send attempt: the socket accepted [Some written] bytes or refused (None); [len] = size offered *)
Record attempt1 := { at_len : N; at_res : option N }.

(* SocketStats::update: the two increments, in program order *)
Definition update_incrs (a : attempt1) : list incr :=
  match at_res a with
  | Some w => [IBytesSent w; IPacketsSent]
  | None => [IBytesDropped (at_len a); IPacketsDropped]
  end.

Definition update (s : stats) (a : attempt1) : stats := fold_left apply_incr (update_incrs a) s.
Definition updates (s : stats) (l : list attempt1) : stats := fold_left update l s.

(* ------------------------------------------------------------------ unbuffered socket sinks *)
(* what the OS answers to one send_to *)
Inductive os_outcome := OsOk | OsErr (k : N).

Record send := { sd_dest : N; sd_payload : str }.     (* one datagram handed to send_to *)

(* UdpMetricSink / UnixMetricSink ::emit : exactly one send_to of the metric's bytes to the
   configured destination; the result is the OS's; the statistics are updated with it *)
Definition sock_emit (dest : N) (st : stats) (m : str) (o : os_outcome) : send * (N + N) * stats :=
  let len := N.of_nat (length m) in
  match o with
  | OsOk => ({| sd_dest := dest; sd_payload := m |}, inl len,
             update st {| at_len := len; at_res := Some len |})
  | OsErr k => ({| sd_dest := dest; sd_payload := m |}, inr k,
                update st {| at_len := len; at_res := None |})
  end.

(* udp.rs get_addr: the first address the argument resolves to, InvalidInput when there is none *)
Definition get_addr (addrs : list N) : option N := match addrs with a :: _ => Some a | [] => None end.

Fixpoint sock_emits (dest : N) (st : stats) (ms : list str) (os : list os_outcome)
  : list (send * (N + N)) * stats :=
  match ms with
  | [] => ([], st)
  | m :: r =>
    let '(o, os') := match os with [] => (OsOk, []) | o :: t => (o, t) end in
    let '(sd, res, st1) := sock_emit dest st m o in
    let '(rest, st2) := sock_emits dest st1 r os' in
    ((sd, res) :: rest, st2)
  end.
