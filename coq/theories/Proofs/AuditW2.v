(* Audit item A.12 (first part) of the audit of 2026-10-02: the GLOBAL count / optimality
   statements of C19 extended (1) to histories with oversized metrics and explicit flushes
   anywhere, (2) to zero-length lines, (3) to arbitrary fault scripts (one-sided statements).
   New file; no existing file is changed.

   NEW DEFINITIONS (all of them only classify / count entries of the log or of the history):
   [is_lines], [lcount], [oklcount], [keep], [alones], [okext], [seg_sizes]. *)
Require Import Cadence.Base.Prelude.
Require Import Cadence.Base.Greedy.
Require Import Cadence.Model.Writer.
Require Import Cadence.Proofs.WriterBase.
Require Import Cadence.Proofs.WriterInv.
Require Import Cadence.Proofs.WriterIO.
Require Import Cadence.Proofs.WriterRun.
Require Import Cadence.Proofs.WriterThms.
Require Import Cadence.Proofs.WriterGreedy.
Require Import Cadence.Proofs.AuditW.

(* ====================================================================== counting *)
(* an attempt that carries whole lines (as opposed to one oversized metric alone) *)
Definition is_lines (a : attempt) : bool := match a_lab a with Lines _ => true | Alone _ => false end.
(* whole-line datagrams that carry bytes *)
Definition lcount (l : list attempt) : nat := length (filter (fun a => is_lines a && nonempty a) l).
(* a metric that takes part in the packing: its line fits the buffer and is not zero-length *)
Definition keep (c : nat) (e : str) (m : str) : bool := fitsb c e m && (0 <? length m + length e).
(* the oversized metrics written alone, in log order *)
Definition alones (l : list attempt) : list gm :=
  flat_map (fun a => match a_lab a with Alone g => [g] | Lines _ => [] end) l.

Lemma lcount_app a b : lcount (a ++ b) = lcount a + lcount b.
Proof. unfold lcount. now rewrite filter_app, app_length. Qed.

Lemma lcount_lines atts : Forall (fun a => is_lines a = true) atts -> lcount atts = dcount atts.
Proof.
  induction 1 as [|a l Ha _ IH]; [reflexivity|].
  unfold lcount, dcount in *. cbn [filter]. rewrite Ha. cbn [andb].
  destruct (nonempty a); cbn [length]; now rewrite IH.
Qed.

Lemma lcount_cap0 e atts : Forall (frame_ok 0 e) atts -> lcount atts = 0.
Proof.
  induction 1 as [|a l Ha _ IH]; [reflexivity|].
  unfold lcount in *. cbn [filter]. unfold is_lines, nonempty, frame_ok in *.
  destruct (a_lab a); cbn [andb]; [|exact IH].
  destruct Ha as (_ & _ & Hl). destruct (a_bytes a); [exact IH|cbn in Hl; lia].
Qed.

(* ====================================================================== one call, fault-free *)
(* everything an emit of a FITTING metric attempts is a whole-line write (any script) *)
Lemma fit_emit_lines s n m x s' :
  Inv s -> length m + length (ending s) <= cap s -> step s n (Emit m) = (x, s') ->
  exists atts, lg s' = lg s ++ atts /\ Forall (fun a => is_lines a = true) atts.
Proof.
  intros I Hf S. destruct (emit_shape _ _ _ _ _ I S) as (fl & own & Lg & Own & Sh).
  destruct (step_spec _ _ _ _ _ I S) as [atts P]. destruct P as [_ _ [X _] Fr _ _ _ _ _ _ _].
  assert (Eq : atts = fl ++ own) by (rewrite X in Lg; apply app_inv_head in Lg; exact Lg).
  exists atts. split; [exact X|]. subst atts. apply Forall_forall. intros a Ha.
  rewrite Forall_forall in Fr. specialize (Fr a Ha). apply in_app_or in Ha. destruct Ha as [Ha|Ha].
  - destruct Sh as [->|(_ & _ & _ & k & o & -> & _)]; [contradiction|].
    apply in_flush_atts in Ha. destruct Ha as (_ & A2 & _). unfold is_lines. now rewrite A2.
  - rewrite Forall_forall in Own. destruct (Own a Ha) as [[L|L] _]; unfold is_lines; rewrite L; [reflexivity|].
    unfold frame_ok in Fr. rewrite L in Fr. cbn in Fr. lia.
Qed.

(* with an exhausted script every attempt a call appends answers Ok *)
Definition okext (l0 : list attempt) (c : list outcome) (l : list attempt) : Prop :=
  c = [] /\ exists atts, l = l0 ++ atts /\ Forall (fun a => a_out a = WOk) atts.

Lemma okext_under l0 s b lab op :
  okext l0 (sc s) (lg s) -> okext l0 (sc (snd (under s b lab op))) (lg (snd (under s b lab op))).
Proof.
  intros [A (atts & B & C)]. unfold under. rewrite A. cbn. split; [reflexivity|].
  eexists (atts ++ [_]). rewrite B, <- app_assoc. split; [reflexivity|].
  apply Forall_app; split; [exact C|]. constructor; [reflexivity|constructor].
Qed.

Lemma step_ff s n o x s' :
  Inv s -> sc s = [] -> step s n o = (x, s') -> sc s' = [] /\ exists k, x = OOk k.
Proof.
  intros I H S.
  assert (Q0 : okext (lg s) (sc s) (lg s)) by (split; [exact H|exists []; now rewrite app_nil_r]).
  pose proof (step_io (okext (lg s)) (okext_under (lg s)) s n o Q0) as Q. rewrite S in Q. cbn [snd] in Q.
  destruct Q as [A (atts & B & C)]. split; [exact A|].
  destruct (step_spec _ _ _ _ _ I S) as [atts' P]. destruct P as [_ _ [X _] _ Rk Er _ _ _ _ _].
  assert (Eq : atts' = atts) by (rewrite X in B; apply app_inv_head in B; exact B). subst atts'.
  destruct x as [k|er| |].
  - eauto.
  - exfalso. cbn in Er. revert Er. apply err_last_not_ok; [exact C|discriminate].
  - exfalso. cbn in Er. revert Er. apply err_last_not_ok; [exact C|discriminate].
  - exfalso. destruct o; exact Rk.
Qed.

(* a fitting, non-empty line: the ledger of WriterGreedy.emit_ff, counting whole-line datagrams *)
Lemma emit_keep s m n rest :
  Inv s -> sc s = [] -> 0 < length m + length (ending s) -> length m + length (ending s) <= cap s ->
  exists s', mlw_write s m n = (ROk (length m), s') /\ Inv s' /\ sc s' = [] /\
    cap s' = cap s /\ ending s' = ending s /\
    lcount (lg s') + openb s' + G (cap s) (written s') rest =
    lcount (lg s) + openb s + G (cap s) (written s) ((length m + length (ending s)) :: rest).
Proof.
  intros I H Hp Hf. destruct (emit_ff s m n rest I H Hp Hf) as (s' & W & I' & H' & C & E & L).
  exists s'. split; [exact W|]. split; [exact I'|]. split; [exact H'|]. split; [exact C|]. split; [exact E|].
  assert (S : step s n (Emit m) = (OOk (length m), s')) by (cbn [step]; rewrite W; reflexivity).
  destruct (fit_emit_lines _ _ _ _ _ I Hf S) as (atts & Lg & Fl).
  rewrite Lg, lcount_app, (lcount_lines _ Fl). rewrite Lg, dcount_app in L. lia.
Qed.

(* an oversized metric: one write of the metric alone; buffer, fill counter and the whole-line
   count are untouched - in particular NO flush of the buffered lines is forced *)
Lemma emit_big s m n :
  Inv s -> sc s = [] -> cap s < length m + length (ending s) ->
  exists s', mlw_write s m n = (ROk (length m), s') /\ Inv s' /\ sc s' = [] /\
    cap s' = cap s /\ ending s' = ending s /\ written s' = written s /\ bbuf s' = bbuf s /\
    lg s' = lg s ++ [{| a_bytes := m; a_out := WOk; a_lab := Alone (n, m); a_op := n |}].
Proof.
  intros I H Hb. rewrite mlw_write_unfold.
  assert (E0 : cap s <? written s = false) by (apply Nat.ltb_ge; destruct I; lia). rewrite E0.
  assert (E1 : cap s <? length m + length (ending s) = true) by (apply Nat.ltb_lt; lia). rewrite E1.
  unfold direct. rewrite under_ff by exact H. eexists. split; [reflexivity|].
  split. { destruct I as [A B C]. constructor; cbn; assumption. }
  cbn. repeat split; reflexivity.
Qed.

(* a zero-length line (empty metric, empty terminator): nothing that counts happens *)
Lemma emit_zero s n :
  Inv s -> sc s = [] -> ending s = [] ->
  exists s', mlw_write s [] n = (ROk 0, s') /\ Inv s' /\ sc s' = [] /\
    cap s' = cap s /\ ending s' = ending s /\ written s' = written s /\ openb s' = openb s /\
    lcount (lg s') = lcount (lg s).
Proof.
  intros I H E. destruct (mlw_write s [] n) as [r s'] eqn:W.
  assert (S : step s n (Emit []) = (ores_of_nat r, s')) by (cbn [step]; rewrite W; reflexivity).
  destruct (step_ff _ _ _ _ _ I H S) as [H' [k Hk]].
  destruct (step_spec _ _ _ _ _ I S) as [atts P]. destruct P as [I' [C' E'] [X _] Fr Rk _ _ _ _ _ _].
  rewrite Hk in Rk. cbn in Rk. subst k.
  assert (Hr : r = ROk 0) by (destruct r; cbn in Hk; inversion Hk; reflexivity). subst r.
  exists s'. split; [reflexivity|]. split; [exact I'|]. split; [exact H'|]. split; [exact C'|]. split; [exact E'|].
  destruct (cap s) as [|c'] eqn:Ec.
  - (* capacity 0: only empty datagrams *)
    pose proof (inv_len _ I) as L0. pose proof (inv_len _ I') as L1. rewrite C' in L1. rewrite Ec in L0.
    destruct I as [A0 _ _]. destruct I' as [A1 _ _]. rewrite C' in A1.
    assert (B0 : bbuf s = []) by (apply length_nil_inv; lia).
    assert (B1 : bbuf s' = []) by (apply length_nil_inv; lia).
    split; [lia|]. split; [unfold openb; now rewrite B0, B1|].
    rewrite X, lcount_app, (lcount_cap0 (ending s) atts Fr). lia.
  - assert (Hc : 0 < cap s) by lia.
    destruct (zero_line_emit s n _ _ I E Hc S) as (_ & Lg & _ & Bb & Wr & _).
    split; [exact Wr|]. split; [unfold openb; now rewrite Bb|]. now rewrite Lg.
Qed.

(* ====================================================================== runs, fault-free *)
Lemma keep_sizes c e ms :
  line_sizes e (filter (keep c e) ms) = filter (fun x => 0 <? x) (line_sizes e (filter (fitsb c e) ms)).
Proof.
  unfold line_sizes. induction ms as [|m ms IH]; [reflexivity|]. cbn [filter]. unfold keep at 1.
  destruct (fitsb c e m); cbn [andb]; [|exact IH].
  cbn [map filter]. destruct (0 <? length m + length e); [|exact IH].
  cbn [map]. now rewrite IH.
Qed.

(* any run of emits - fitting, oversized, zero-length - fault-free *)
Lemma emits_gen ms : forall s n rest,
  Inv s -> sc s = [] ->
  exists rs s', run_from s n (map Emit ms) = (rs, s') /\ Inv s' /\ sc s' = [] /\
    cap s' = cap s /\ ending s' = ending s /\
    Forall2 (fun m x => x = OOk (length m)) ms rs /\
    lcount (lg s') + openb s' + G (cap s) (written s') rest =
    lcount (lg s) + openb s +
      G (cap s) (written s) (line_sizes (ending s) (filter (keep (cap s) (ending s)) ms) ++ rest).
Proof.
  induction ms as [|m ms IH]; intros s n rest I H.
  - exists [], s. cbn [map run_from filter line_sizes app]. split; [reflexivity|]. split; [exact I|].
    repeat split; auto.
  - cbn [map run_from step filter]. unfold keep at 1. unfold fitsb.
    destruct (cap s <? length m + length (ending s)) eqn:E1.
    + (* oversized *)
      apply Nat.ltb_lt in E1. cbn [negb andb].
      destruct (emit_big s m n I H E1) as (s1 & W & I1 & H1 & C1 & En1 & W1 & B1 & L1).
      destruct (IH s1 (S n) rest I1 H1) as (rs & s2 & R & I2 & H2 & C2 & En2 & A2 & L2).
      exists (OOk (length m) :: rs), s2. rewrite W. cbn [ores_of_nat]. rewrite R.
      split; [reflexivity|]. split; [exact I2|]. split; [exact H2|].
      split; [now rewrite C2|]. split; [now rewrite En2|]. split; [constructor; auto|].
      rewrite C1, En1, W1 in L2. rewrite L2. unfold openb. rewrite B1, L1, lcount_app.
      unfold lcount at 2. cbn. lia.
    + apply Nat.ltb_ge in E1. cbn [negb andb].
      destruct (0 <? length m + length (ending s)) eqn:E2.
      * (* takes part in the packing *)
        apply Nat.ltb_lt in E2.
        destruct (emit_keep s m n (line_sizes (ending s) (filter (keep (cap s) (ending s)) ms) ++ rest) I H E2 E1)
          as (s1 & W & I1 & H1 & C1 & En1 & L1).
        destruct (IH s1 (S n) rest I1 H1) as (rs & s2 & R & I2 & H2 & C2 & En2 & A2 & L2).
        exists (OOk (length m) :: rs), s2. rewrite W. cbn [ores_of_nat]. rewrite R.
        split; [reflexivity|]. split; [exact I2|]. split; [exact H2|].
        split; [now rewrite C2|]. split; [now rewrite En2|]. split; [constructor; auto|].
        rewrite C1, En1 in L2. rewrite L2, L1. reflexivity.
      * (* zero-length line *)
        apply Nat.ltb_ge in E2.
        assert (Zm : m = []) by (apply length_nil_inv; lia).
        assert (Ze : ending s = []) by (apply length_nil_inv; lia). subst m.
        destruct (emit_zero s n I H Ze) as (s1 & W & I1 & H1 & C1 & En1 & W1 & O1 & L1).
        destruct (IH s1 (S n) rest I1 H1) as (rs & s2 & R & I2 & H2 & C2 & En2 & A2 & L2).
        exists (OOk 0 :: rs), s2. rewrite W. cbn [ores_of_nat]. rewrite R.
        split; [reflexivity|]. split; [exact I2|]. split; [exact H2|].
        split; [now rewrite C2|]. split; [now rewrite En2|]. split; [constructor; auto|].
        rewrite C1, En1, W1, O1, L1 in L2. exact L2.
Qed.

(* the lines of one segment that take part in the packing, as sizes *)
Definition seg_sizes (c : nat) (e : str) (seg : list str) : list nat := line_sizes e (filter (keep c e) seg).
Definition sum_packed (c : nat) (e : str) (segs : list (list str)) : nat :=
  fold_right (fun seg a => greedy_count c (seg_sizes c e seg) + a) 0 segs.

Lemma segments_gen segs : forall s n,
  Inv s -> sc s = [] -> written s = 0 -> bbuf s = [] ->
  exists rs s', run_from s n (concat (map (fun seg => map Emit seg ++ [Flush]) segs)) = (rs, s') /\
    Inv s' /\ sc s' = [] /\ cap s' = cap s /\ ending s' = ending s /\ written s' = 0 /\ bbuf s' = [] /\
    Forall (fun x => exists k, x = OOk k) rs /\
    lcount (lg s') = lcount (lg s) + sum_packed (cap s) (ending s) segs.
Proof.
  induction segs as [|seg segs IH]; intros s n I H W B.
  - exists [], s. cbn [map concat run_from sum_packed fold_right]. split; [reflexivity|]. split; [exact I|].
    repeat split; auto.
  - cbn [map concat]. rewrite <- app_assoc. rewrite run_from_app_ops.
    destruct (emits_gen seg s n [] I H) as (rs1 & s1 & R1 & I1 & H1 & C1 & E1 & A1 & L1).
    rewrite R1. rewrite map_length. cbn [app]. cbn [run_from step].
    destruct (mlw_flush_ff s1 (n + length seg) H1) as (s2 & Fl & H2 & B2 & Bi2 & W2 & C2 & E2 & D2).
    rewrite Fl. cbn [ores_of_unit].
    assert (I2 : Inv s2) by (constructor; [lia|left; rewrite B2, W2; reflexivity|rewrite B2, Bi2; reflexivity]).
    destruct (IH s2 (S (n + length seg)) I2 H2 W2 B2) as (rs3 & s3 & R3 & I3 & H3 & C3 & E3 & W3 & B3 & A3 & D3).
    rewrite R3. eexists _, s3. split; [reflexivity|].
    split; [exact I3|]. split; [exact H3|]. split; [now rewrite C3, C2|]. split; [now rewrite E3, E2|].
    split; [exact W3|]. split; [exact B3|]. split.
    + apply Forall_app. split.
      * clear -A1. induction A1; constructor; eauto.
      * constructor; [eexists; reflexivity|exact A3].
    + rewrite D3, C2, C1, E2, E1. cbn [sum_packed fold_right]. fold (sum_packed (cap s) (ending s) segs).
      (* the flush of the segment: one more whole-line datagram iff a block is open *)
      unfold mlw_flush in Fl. destruct (flush_buf s1 (n + length seg)) as [rb sb] eqn:FB.
      apply flush_buf_shape in FB.
      rewrite G_nil, app_nil_r, W in L1. unfold openb at 2 in L1. rewrite B in L1. unfold G in L1.
      unfold seg_sizes.
      destruct FB as [(Eb & -> & ->)|(Nb & k & o & Sh)].
      * inversion Fl; subst s2. cbn [set_written set_buf lg]. unfold openb in L1. rewrite Eb in L1. lia.
      * destruct Sh as (Lg & Fk & Ho & _ & _ & _ & _ & M).
        rewrite H1 in Fk, Ho.
        assert (Ek : k = 0) by (destruct k; [reflexivity|cbn in Fk; discriminate]). subst k.
        cbn in Ho. subst o. cbv beta iota in M. destruct M as (-> & _ & _). inversion Fl; subst s2. cbn [set_written lg].
        rewrite Lg. cbn [repeat app]. rewrite lcount_app. unfold lcount at 2. cbn [filter fl_att is_lines a_lab andb nonempty a_bytes].
        unfold nonempty, fl_att. cbn [a_bytes]. unfold openb in L1. destruct (bbuf s1) eqn:Eb; [congruence|]. cbn [length]. lia.
Qed.

(* the final drop (or any flush_buf), fault-free: one more whole-line datagram iff a block is open *)
Lemma flush_buf_ff_l s op :
  sc s = [] -> lcount (lg (snd (flush_buf s op))) = lcount (lg s) + openb s.
Proof.
  intros H. destruct (flush_buf s op) as [rb sb] eqn:FB. cbn [snd].
  apply flush_buf_shape in FB. unfold openb.
  destruct FB as [(Eb & _ & ->)|(Nb & k & o & Sh)].
  - rewrite Eb. cbn [set_buf lg]. lia.
  - destruct Sh as (Lg & Fk & Ho & _).
    rewrite H in Fk, Ho.
    assert (Ek : k = 0) by (destruct k; [reflexivity|cbn in Fk; discriminate]). subst k.
    cbn in Ho. subst o. rewrite Lg. cbn [repeat app]. rewrite lcount_app. unfold lcount at 2.
    cbn [filter fl_att is_lines a_lab andb]. unfold nonempty, fl_att. cbn [a_bytes].
    destruct (bbuf s); [congruence|]. cbn [length]. lia.
Qed.

(* ---------------------------------------------------------------- (1)+(2): the global count
   ANY fault-free history (every history is [seg_ops segs last], see [ops_as_segments]):
   oversized metrics, zero-length lines and explicit flushes anywhere.  The number of
   whole-line datagrams carrying bytes is the sum, over the segments between explicit flushes
   (the last one closed by the drop), of the next-fit count of the lines that fit and are
   not zero-length.  Oversized metrics do not cut a segment. *)
Theorem count_general c e segs last rs s :
  run c e [] (seg_ops segs last) = (rs, s) ->
  lcount (lg s) = sum_packed c e segs + greedy_count c (seg_sizes c e last) /\
  Forall (fun x => exists k, x = OOk k) rs.
Proof.
  intros R. unfold run, seg_ops in R. rewrite run_from_app_ops in R.
  destruct (segments_gen segs (init c e []) 0 (inv_init c e []) eq_refl eq_refl eq_refl)
    as (rs1 & s1 & R1 & I1 & H1 & C1 & E1 & W1 & B1 & A1 & D1).
  rewrite R1 in R.
  destruct (emits_gen last s1 (0 + length (concat (map (fun seg => map Emit seg ++ [Flush]) segs))) [] I1 H1)
    as (rs2 & s2 & R2 & I2 & H2 & C2 & E2 & A2 & L2).
  rewrite R2 in R. inversion R; subst rs s. clear R. split.
  - unfold mlw_drop. rewrite (flush_buf_ff_l _ _ H2).
    rewrite G_nil, app_nil_r, W1, C1, E1 in L2. unfold openb at 2 in L2. rewrite B1 in L2. unfold G in L2.
    cbn [cap init ending lg] in D1, L2. unfold lcount at 2 in D1. cbn in D1. unfold seg_sizes. lia.
  - apply Forall_app. split; [exact A1|]. clear -A2. induction A2; constructor; eauto.
Qed.

Lemma ops_as_segments (ops : list op) : exists segs last, ops = seg_ops segs last.
Proof.
  induction ops as [|o ops (segs & last & ->)]; [exists [], []; reflexivity|].
  destruct o as [m|].
  - destruct segs as [|sg segs]; [exists [], (m :: last); reflexivity|].
    exists ((m :: sg) :: segs), last. reflexivity.
  - exists ([] :: segs), last. reflexivity.
Qed.

(* the same for the raw count of c19_count (datagrams with bytes, whatever they carry), when no
   metric is oversized: zero-length lines simply do not count *)
Lemma lcount_dcount l : Forall (fun a => is_lines a = true) l -> dcount l = lcount l.
Proof. intros F. symmetry. now apply lcount_lines. Qed.

(* ---------------------------------------------------------------- the oversized metrics *)
Lemma sentA_alones l : Forall (fun a => a_out a = WOk) l -> sentA l = alones l.
Proof.
  induction 1 as [|a l Ha _ IH]; [reflexivity|]. unfold sentA, alones in *. cbn [flat_map].
  rewrite IH. unfold ok_alone. rewrite Ha. reflexivity.
Qed.

(* fault-free: the writes of a metric alone are, in order, exactly the oversized metrics of the
   history (each once: identities are operation numbers), each made during its own emit,
   carrying the metric without terminator, and answered Ok *)
Theorem alone_general c e ops rs s :
  run c e [] ops = (rs, s) ->
  alones (lg s) = big_ids c e (emitted 0 ops) /\
  Forall (fun a => forall g, a_lab a = Alone g ->
            a_op a = fst g /\ a_bytes a = snd g /\ a_out a = WOk /\ c < length (snd g) + length e) (lg s).
Proof.
  intros R. destruct (fault_free_conserve _ _ _ _ _ R) as (_ & A & Ok).
  pose proof (own_emit _ _ _ _ _ _ R) as Own. pose proof (frame_all _ _ _ _ _ _ R) as Fr.
  split; [rewrite <- A; symmetry; now apply sentA_alones|].
  rewrite Forall_forall in *. intros a Ha g Hl.
  specialize (Ok a Ha). specialize (Own a Ha g). specialize (Fr a Ha).
  unfold ok_alone in Own. rewrite Ok, Hl in Own. unfold frame_ok in Fr. rewrite Hl in Fr.
  destruct Fr as [Fb Fc]. repeat split; auto. apply Own. left. reflexivity.
Qed.

(* the same with [alones] and [big_ids] spelled out *)
Corollary alone_general_spelled c e ops rs s :
  run c e [] ops = (rs, s) ->
  flat_map (fun a => match a_lab a with Alone g => [g] | Lines _ => [] end) (lg s) =
    filter (fun g => c <? length (snd g) + length e) (emitted 0 ops) /\
  Forall (fun a => forall g, a_lab a = Alone g ->
            a_op a = fst g /\ a_bytes a = snd g /\ a_out a = WOk /\ c < length (snd g) + length e) (lg s).
Proof.
  intros R. destruct (alone_general c e ops rs s R) as [A B]. split; [|exact B].
  change (alones (lg s) = filter (fun g => c <? length (snd g) + length e) (emitted 0 ops)).
  rewrite A. unfold big_ids, fitg, fitsb. apply filter_ext. intros g. now rewrite negb_involutive.
Qed.

(* ---------------------------------------------------------------- optimality *)
Definition nzs (l : list nat) : list nat := filter (fun x => 0 <? x) l.
Definition nonnil (b : list nat) : bool := match b with [] => false | _ => true end.

Lemma sum_nzs_le b : sum (nzs b) <= sum b.
Proof.
  induction b as [|x b IH]; [cbn; lia|]. unfold nzs in *. cbn [filter].
  destruct (0 <? x); unfold sum in *; cbn [fold_right]; lia.
Qed.

Lemma concat_nzs p : concat (filter nonnil (map nzs p)) = nzs (concat p).
Proof.
  assert (nzs_app : forall a b, nzs (a ++ b) = nzs a ++ nzs b) by (intros; apply filter_app).
  induction p as [|b p IH]; [reflexivity|]. cbn [map filter concat]. rewrite nzs_app, <- IH.
  destruct (nzs b) eqn:Eb; reflexivity.
Qed.

Lemma filter_len_le {A} (f : A -> bool) l : length (filter f l) <= length l.
Proof. induction l as [|x l IH]; cbn; [lia|]. destruct (f x); cbn; lia. Qed.

(* dropping the zero-size items of a valid partition gives a valid partition of the rest *)
Lemma greedy_filter_le cap sizes p :
  valid_partition cap sizes p -> greedy_count cap (nzs sizes) <= length p.
Proof.
  intros [Hc Hf]. subst sizes.
  assert (V : valid_partition cap (nzs (concat p)) (filter nonnil (map nzs p))).
  { split; [apply concat_nzs|]. apply Forall_forall. intros b Hb.
    apply filter_In in Hb. destruct Hb as [Hb Hn]. apply in_map_iff in Hb. destruct Hb as (b0 & <- & Hb0).
    rewrite Forall_forall in Hf. destruct (Hf b0 Hb0) as [_ Hs].
    split; [destruct (nzs b0); [discriminate|discriminate]|]. pose proof (sum_nzs_le b0). lia. }
  apply greedy_optimal in V. pose proof (filter_len_le nonnil (map nzs p)) as L. rewrite map_length in L. lia.
Qed.

(* no in-order packing of the FITTING lines (zero-length ones included) that closes a block at
   every explicit flush and at the drop uses fewer blocks than the writer sent whole-line
   datagrams with bytes: [ps] gives one packing per flushed segment, [p] one for the last *)
Theorem optimal_general c e segs last rs s ps p :
  run c e [] (seg_ops segs last) = (rs, s) ->
  Forall2 (fun seg q => valid_partition c (line_sizes e (filter (fitsb c e) seg)) q) segs ps ->
  valid_partition c (line_sizes e (filter (fitsb c e) last)) p ->
  lcount (lg s) <= fold_right (fun q a => length q + a) 0 ps + length p.
Proof.
  intros R Fs Fl. destruct (count_general _ _ _ _ _ _ R) as [D _]. rewrite D.
  unfold seg_sizes. rewrite keep_sizes. apply greedy_filter_le in Fl. fold (nzs (line_sizes e (filter (fitsb c e) last))).
  assert (sum_packed c e segs <= fold_right (fun q a => length q + a) 0 ps); [|lia].
  clear -Fs. induction Fs as [|seg q segs ps V _ IH]; [cbn; lia|].
  cbn [sum_packed fold_right]. fold (sum_packed c e segs). unfold seg_sizes at 1. rewrite keep_sizes.
  apply greedy_filter_le in V. fold (nzs (line_sizes e (filter (fitsb c e) seg))). lia.
Qed.

(* ====================================================================== (3) arbitrary fault scripts *)
Definition isok (o : outcome) : bool := match o with WOk => true | _ => false end.
(* SUCCESSFUL whole-line datagrams that carry bytes *)
Definition oklcount (l : list attempt) : nat :=
  length (filter (fun a => is_lines a && nonempty a && isok (a_out a)) l).

Lemma okl_app a b : oklcount (a ++ b) = oklcount a + oklcount b.
Proof. unfold oklcount. now rewrite filter_app, app_length. Qed.

Lemma okl_intr s op k : oklcount (repeat (fl_att s op WIntr) k) = 0.
Proof. induction k as [|k IH]; [reflexivity|]. cbn [repeat]. unfold oklcount in *. cbn [filter fl_att a_out isok]. now rewrite andb_false_r. Qed.

Lemma okl_flush_atts s op k o :
  oklcount (repeat (fl_att s op WIntr) k ++ [fl_att s op o]) = if isok o then openb s else 0.
Proof.
  rewrite okl_app, okl_intr. unfold oklcount, openb, is_lines, nonempty, fl_att. cbn [filter a_lab a_out a_bytes andb].
  destruct (bbuf s); destruct o; reflexivity.
Qed.

Lemma okl_cap0 e atts : Forall (frame_ok 0 e) atts -> oklcount atts = 0.
Proof.
  induction 1 as [|a l Ha _ IH]; [reflexivity|].
  unfold oklcount in *. cbn [filter]. unfold is_lines, nonempty, frame_ok in *.
  destruct (a_lab a); cbn [andb]; [|exact IH].
  destruct Ha as (_ & _ & Hl). destruct (a_bytes a); [exact IH|cbn in Hl; lia].
Qed.

(* MultiLineWriter::flush under any script: either everything pending went out in ONE successful
   write (none if nothing was pending) or nothing changed but the log, which got failed attempts only *)
Lemma mlw_flush_any s op r s0 :
  Inv s -> mlw_flush s op = (r, s0) ->
  Inv s0 /\ cap s0 = cap s /\ ending s0 = ending s /\
  ((r = ROk tt /\ bbuf s0 = [] /\ written s0 = 0 /\ oklcount (lg s0) = oklcount (lg s) + openb s) \/
   ((exists er, r = RErr er) /\ bbuf s0 = bbuf s /\ written s0 = written s /\ oklcount (lg s0) = oklcount (lg s))).
Proof.
  intros I F. pose proof (mlw_flush_spec _ _ _ _ I F) as (I0 & [Fc Fe] & _).
  split; [exact I0|]. split; [exact Fc|]. split; [exact Fe|].
  unfold mlw_flush in F. destruct (flush_buf s op) as [rb sb] eqn:FB.
  apply flush_buf_shape in FB. destruct FB as [(Eb & -> & ->)|(Nb & k & o & Sh)].
  - inversion F; subst. left. cbn [set_written set_buf bbuf written lg]. unfold openb. rewrite Eb. repeat split; lia.
  - destruct Sh as (Lg & _ & _ & _ & Sw & _ & _ & M).
    destruct o; [destruct M as (-> & M1 & M2)|destruct M as (-> & M1 & M2)|contradiction]; inversion F; subst.
    + left. cbn [set_written bbuf written lg]. rewrite Lg, okl_app, okl_flush_atts. cbn [isok]. repeat split; auto.
    + right. rewrite Lg, okl_app, okl_flush_atts. cbn [isok]. repeat split; eauto.
Qed.

Lemma okl_one s b o lab op :
  oklcount (lg s ++ [{| a_bytes := b; a_out := o; a_lab := lab; a_op := op |}]) =
  oklcount (lg s) + (if match lab with Lines _ => true | _ => false end && match b with [] => false | _ => true end && isok o then 1 else 0).
Proof.
  rewrite okl_app. unfold oklcount at 2, is_lines, nonempty. cbn [filter a_lab a_bytes a_out].
  destruct (match lab with Lines _ => true | _ => false end && match b with [] => false | _ => true end && isok o); reflexivity.
Qed.

(* the buffered path under any script: the line is appended to the buffer without any write, or
   - only when it is exactly as large as the whole, empty buffer - ONE direct write is attempted *)
Lemma tail_any s0 m op r s' :
  Inv s0 -> 0 < length m + length (ending s0) -> length m + length (ending s0) <= cap s0 - written s0 ->
  mlw_tail s0 m op = (r, s') ->
  (r = ROk (length m) /\ bbuf s' = bbuf s0 ++ m ++ ending s0 /\
   written s' = written s0 + (length m + length (ending s0)) /\ lg s' = lg s0) \/
  (length m + length (ending s0) = cap s0 /\ bbuf s0 = [] /\ written s0 = 0 /\ bbuf s' = [] /\
   ((r = ROk (length m) /\ written s' = cap s0 /\ oklcount (lg s') = S (oklcount (lg s0))) \/
    ((forall k, r <> ROk k) /\ written s' = 0 /\ oklcount (lg s') = oklcount (lg s0)))).
Proof.
  intros I Hp Hreq. unfold mlw_tail. cbv zeta.
  pose proof (inv_len _ I) as Hlen. destruct I as [Ile Isync Ibuf].
  assert (Hsp : length m + length (ending s0) <= cap s0 - length (bbuf s0)).
  { destruct Isync as [Hs|[Hs1 Hs2]]; [lia|]. rewrite Hs1. cbn. lia. }
  destruct (bw_write s0 m (op, m) true op) as [r1 s1] eqn:W1.
  apply bw_write_fits in W1; [|lia|lia].
  destruct W1 as [(Hm & Hr1 & Hs1)|(Hm & Hb0 & D1)].
  - subst r1 s1. cbn [set_buf set_written written cap bbuf bids ending sc lg].
    match goal with |- context [bw_write ?x (ending s0) ?g0 false op] => set (s1 := x); set (g := g0) in * end.
    destruct (bw_write s1 (ending s0) g false op) as [r2 s2] eqn:W2.
    apply bw_write_fits in W2; subst s1; cbn [set_buf set_written written cap bbuf bids ending sc lg] in *;
      [| rewrite app_length; lia | rewrite app_length; lia].
    destruct W2 as [(He & Hr2 & Hs2)|(He & Hb1 & D2)].
    + subst r2 s2. intros H; inversion H; subst r s'. left.
      cbn [set_buf set_written written cap bbuf bids ending sc lg]. rewrite <- app_assoc. repeat split; lia.
    + (* the terminator alone fills the whole empty buffer: the metric is empty *)
      apply app_eq_nil in Hb1. destruct Hb1 as [Hb0 Hm0]. subst m. cbn [length] in *.
      assert (Hw0 : written s0 = 0) by lia.
      apply direct_spec in D2. unfold same_cfg, ext in D2.
      cbn [set_buf set_written written cap bbuf bids ending sc lg] in D2.
      destruct D2 as (Dw & [Dc De] & Db & Di & o & [Dl Df] & Dr).
      rewrite Hb0 in Db. cbn [app] in Db.
      assert (Hen : match ending s0 with [] => false | _ => true end = true) by (destruct (ending s0); [cbn in Hp; lia|reflexivity]).
      intros H. right. split; [lia|]. split; [exact Hb0|]. split; [exact Hw0|].
      destruct r2; inversion H; subst; clear H; cbn [set_buf set_written written cap bbuf bids ending sc lg].
      * destruct Dr as [Dn ->]. split; [exact Db|]. left. split; [reflexivity|].
        split; [rewrite Dw, Hw0, Dn; lia|]. rewrite Dl, okl_one, Hen. cbn. lia.
      * split; [exact Db|]. right. split; [discriminate|]. split; [lia|].
        rewrite Dl, okl_one. cbn [isok]. rewrite andb_false_r. lia.
      * split; [exact Db|]. right. split; [discriminate|]. split; [lia|].
        rewrite Dl, okl_one. cbn [isok]. rewrite andb_false_r. lia.
      * contradiction.
  - (* the metric alone fills the whole empty buffer: the terminator is empty *)
    rewrite Hb0 in Hsp. cbn [length] in Hsp.
    assert (He0 : ending s0 = []) by (apply length_nil_inv; lia).
    assert (Hw0 : written s0 = 0).
    { destruct Isync as [Hs|[_ Hs]]; [rewrite Hb0 in Hs; cbn in Hs; lia | lia]. }
    rewrite He0 in *. cbn [length] in *.
    apply direct_spec in D1. unfold same_cfg, ext in D1.
    destruct D1 as (Dw & [Dc De] & Db & Di & o & [Dl Df] & Dr).
    assert (Hmn : match m with [] => false | _ => true end = true) by (destruct m; [cbn in Hp; lia|reflexivity]).
    destruct r1 as [w1| | |].
    + destruct Dr as [Dn ->]. subst w1.
      match goal with |- context [bw_write ?x _ ?g0 false op] => set (s1' := x); set (g := g0) in * end.
      destruct (bw_write s1' (ending s1') g false op) as [r2 s2] eqn:W2.
      assert (Ee : ending s1' = []) by (subst s1'; cbn; congruence).
      rewrite Ee in W2.
      apply bw_write_fits in W2; subst s1'; cbn [set_buf set_written written cap bbuf bids ending sc lg length] in *;
        [| rewrite Db, Hb0; cbn; lia | lia].
      destruct W2 as [(_ & Hr2 & Hs2)|(Hc & _)]; [|lia].
      subst r2 s2. intros H; inversion H; subst r s'.
      right. split; [lia|]. split; [exact Hb0|]. split; [exact Hw0|].
      cbn [set_buf set_written written cap bbuf bids ending sc lg]. rewrite Db, Hb0.
      split; [reflexivity|]. left. split; [reflexivity|]. split; [lia|].
      rewrite Dl, okl_one, Hmn. cbn. lia.
    + subst o. intros H; inversion H; subst.
      right. split; [lia|]. split; [exact Hb0|]. split; [exact Hw0|].
      rewrite Db, Hb0. split; [reflexivity|]. right.
      split; [discriminate|]. split; [lia|]. rewrite Dl, okl_one. cbn [isok]. rewrite andb_false_r. lia.
    + subst o. intros H; inversion H; subst.
      right. split; [lia|]. split; [exact Hb0|]. split; [exact Hw0|].
      rewrite Db, Hb0. split; [reflexivity|]. right.
      split; [discriminate|]. split; [lia|]. rewrite Dl, okl_one. cbn [isok]. rewrite andb_false_r. lia.
    + contradiction.
Qed.

(* ---------------------------------------------------------------- the potential *)
(* successful whole-line datagrams so far + the open block + what next-fit still opens for [rest] *)
Definition Phi (s : st) (rest : list nat) : nat := oklcount (lg s) + openb s + G (cap s) (written s) rest.

Lemma GA c x rest : 0 < x -> G c 0 (x :: rest) = S (G c x rest).
Proof. intros H. unfold G. cbn [greedy_count]. destruct x; [lia|reflexivity]. Qed.
Lemma GB c w x rest : 0 < w -> 0 < x -> w + x <= c -> G c w (x :: rest) = G c (w + x) rest.
Proof.
  intros Hw Hx H. unfold G. destruct w; [lia|]. cbn [greedy_aux].
  assert (E : S w + x <=? c = true) by (apply Nat.leb_le; lia). rewrite E.
  destruct (S w + x) eqn:Q; [lia|reflexivity].
Qed.
Lemma GC c w x rest : 0 < w -> 0 < x -> c < w + x -> G c w (x :: rest) = S (G c x rest).
Proof.
  intros Hw Hx H. unfold G. destruct w; [lia|]. cbn [greedy_aux].
  assert (E : S w + x <=? c = false) by (apply Nat.leb_gt; lia). rewrite E.
  destruct x; [lia|reflexivity].
Qed.
Lemma GD c w rest : G c 0 rest <= S (G c w rest).
Proof.
  unfold G. destruct w; [lia|]. destruct rest as [|y r]; cbn [greedy_count greedy_aux]; [lia|].
  destruct (S w + y <=? c); [|lia].
  pose proof (proj1 (greedy_aux_mono c r y (S w + y))). lia.
Qed.

Lemma openb_cases s : Inv s ->
  (openb s = 0 /\ bbuf s = [] /\ (written s = 0 \/ written s = cap s)) \/
  (openb s = 1 /\ 0 < written s /\ written s = length (bbuf s)).
Proof.
  intros [_ [Hs|[Hs1 Hs2]] _]; unfold openb.
  - destruct (bbuf s) eqn:E; [left; cbn in Hs; auto|right; cbn in Hs; cbn; split; [reflexivity|lia]].
  - left. rewrite Hs1. auto.
Qed.

(* one emit of a fitting, non-empty line under ANY script: acknowledged - the potential moves as
   next-fit does; refused - the potential does not grow, except by one when the line is exactly
   as large as the buffer (a flush succeeded, then the direct write of the line failed) *)
Lemma emit_phi s m n r s' rest :
  Inv s -> length m + length (ending s) <= cap s -> 0 < length m + length (ending s) ->
  mlw_write s m n = (r, s') ->
  Inv s' /\ cap s' = cap s /\ ending s' = ending s /\
  (((exists k, r = ROk k) /\ Phi s' rest = Phi s ((length m + length (ending s)) :: rest)) \/
   ((forall k, r <> ROk k) /\
    Phi s' rest <= Phi s rest + (if length m + length (ending s) =? cap s then 1 else 0))).
Proof.
  intros I Hf Hp W.
  destruct (mlw_write_spec s m n r s' I W) as (I' & [C' E'] & _).
  split; [exact I'|]. split; [exact C'|]. split; [exact E'|].
  rewrite mlw_write_unfold in W.
  pose proof (inv_len _ I) as Hlen. pose proof I as [Ile _ _].
  assert (E0 : cap s <? written s = false) by (apply Nat.ltb_ge; lia). rewrite E0 in W.
  assert (E1 : cap s <? length m + length (ending s) = false) by (apply Nat.ltb_ge; lia). rewrite E1 in W.
  set (x := length m + length (ending s)) in *. set (c := cap s) in *.
  assert (Hne : forall b, match b ++ m ++ ending s with [] => 0 | _ => 1 end = 1).
  { intros b. destruct (b ++ m ++ ending s) eqn:Q; [|reflexivity].
    apply (f_equal (@length _)) in Q. rewrite !app_length in Q. cbn in Q. unfold x in Hp. lia. }
  pose proof (Hne []) as Hn0. cbn [app] in Hn0.
  unfold Phi. rewrite C'. fold c.
  destruct (openb_cases s I) as [(O & Bz & Wz)|(O & Wp & Wl)].
  - (* no block open *)
    destruct (c - written s <? x) eqn:E2.
    + apply Nat.ltb_lt in E2. destruct (mlw_flush s n) as [r0 s0] eqn:F.
      destruct (mlw_flush_any _ _ _ _ I F) as (I0 & C0 & En0 & [(-> & B0 & W0 & K0)|((er & ->) & B0 & W0 & K0)]).
      * apply tail_any in W; [|exact I0|rewrite En0; exact Hp|rewrite En0, C0, W0; fold x c; lia].
        rewrite En0, C0, W0, B0 in W. fold x c in W. cbn [app] in W.
        destruct W as [(-> & Bs & Ws & Ls)|(Hx & _ & _ & Bs & [(-> & Ws & Ks)|(Hr & Ws & Ks)])].
        -- left. split; [eauto|]. unfold openb at 1. rewrite Bs, Hn0, Ls, K0, Ws. cbn [Nat.add]. destruct Wz as [Wz|Wz]; rewrite Wz in *.
           ++ rewrite GA by exact Hp. lia.
           ++ rewrite GC by (fold c; lia). lia.
        -- left. split; [eauto|]. unfold openb at 1. rewrite Bs, Ks, K0, Ws.
           destruct Wz as [Wz|Wz]; rewrite Wz in *.
           ++ rewrite GA by exact Hp. rewrite Hx. lia.
           ++ rewrite GC by (fold c; lia). rewrite Hx. lia.
        -- right. split; [exact Hr|]. unfold openb at 1. rewrite Bs, Ks, K0, Ws.
           pose proof (GD c (written s) rest). rewrite Hx, Nat.eqb_refl. lia.
      * inversion W; subst r s'. right. split; [discriminate|]. rewrite K0, W0. unfold openb. rewrite B0. lia.
    + apply Nat.ltb_ge in E2.
      apply tail_any in W; [|exact I|exact Hp|fold x c; lia]. fold x c in W.
      destruct W as [(-> & Bs & Ws & Ls)|(Hx & _ & Wz' & Bs & [(-> & Ws & Ks)|(Hr & Ws & Ks)])].
      * left. split; [eauto|]. unfold openb at 1. rewrite Bs, Hne, Ls, Ws.
        destruct Wz as [Wz|Wz]; rewrite Wz in *; [|lia].
        rewrite GA by exact Hp. cbn [Nat.add]. lia.
      * left. split; [eauto|]. unfold openb at 1. rewrite Bs, Ks, Ws. rewrite Wz'.
        rewrite GA by exact Hp. rewrite Hx. lia.
      * right. split; [exact Hr|]. unfold openb at 1. rewrite Bs, Ks, Ws. rewrite Wz', O. lia.
  - (* a block is open *)
    destruct (c - written s <? x) eqn:E2.
    + apply Nat.ltb_lt in E2. destruct (mlw_flush s n) as [r0 s0] eqn:F.
      destruct (mlw_flush_any _ _ _ _ I F) as (I0 & C0 & En0 & [(-> & B0 & W0 & K0)|((er & ->) & B0 & W0 & K0)]).
      * apply tail_any in W; [|exact I0|rewrite En0; exact Hp|rewrite En0, C0, W0; fold x c; lia].
        rewrite En0, C0, W0, B0 in W. fold x c in W. cbn [app] in W.
        destruct W as [(-> & Bs & Ws & Ls)|(Hx & _ & _ & Bs & [(-> & Ws & Ks)|(Hr & Ws & Ks)])].
        -- left. split; [eauto|]. unfold openb at 1. rewrite Bs, Hn0, Ls, K0, Ws. cbn [Nat.add]. rewrite GC by lia. lia.
        -- left. split; [eauto|]. unfold openb at 1. rewrite Bs, Ks, K0, Ws.
           rewrite GC by lia. rewrite Hx. lia.
        -- right. split; [exact Hr|]. unfold openb at 1. rewrite Bs, Ks, K0, Ws.
           pose proof (GD c (written s) rest). rewrite Hx, Nat.eqb_refl. lia.
      * inversion W; subst r s'. right. split; [discriminate|]. rewrite K0, W0. unfold openb. rewrite B0. lia.
    + apply Nat.ltb_ge in E2.
      apply tail_any in W; [|exact I|exact Hp|fold x c; lia]. fold x c in W.
      destruct W as [(-> & Bs & Ws & Ls)|(Hx & Bz & _)].
      * left. split; [eauto|]. unfold openb at 1. rewrite Bs, Hne, Ls, Ws.
        rewrite GB by lia. lia.
      * exfalso. rewrite Bz in Wl. cbn in Wl. lia.
Qed.

(* an emit that does not take part in the packing (oversized, or a zero-length line), any script,
   acknowledged or not: the potential does not move *)
Lemma emit_other_phi s m n r s' rest :
  Inv s -> keep (cap s) (ending s) m = false -> mlw_write s m n = (r, s') ->
  Inv s' /\ cap s' = cap s /\ ending s' = ending s /\ Phi s' rest = Phi s rest.
Proof.
  intros I K W.
  destruct (mlw_write_spec s m n r s' I W) as (I' & [C' E'] & atts & [X _] & Fr & _).
  split; [exact I'|]. split; [exact C'|]. split; [exact E'|].
  unfold keep, fitsb in K. unfold Phi. rewrite C'.
  destruct (cap s <? length m + length (ending s)) eqn:E1.
  - (* oversized: one write of the metric alone *)
    rewrite mlw_write_unfold in W. pose proof I as [Ile _ _].
    assert (E0 : cap s <? written s = false) by (apply Nat.ltb_ge; lia). rewrite E0, E1 in W.
    apply direct_spec in W. destruct W as (Dw & _ & Db & _ & o & [Dl _] & _).
    rewrite Dl, okl_one, Dw. unfold openb. rewrite Db. cbn [andb]. lia.
  - cbn [negb andb] in K. apply Nat.ltb_ge in K. apply Nat.ltb_ge in E1.
    assert (Zm : m = []) by (apply length_nil_inv; lia).
    assert (Ze : ending s = []) by (apply length_nil_inv; lia). subst m.
    destruct (cap s) as [|c'] eqn:Ec.
    + pose proof (inv_len _ I) as L0. pose proof (inv_len _ I') as L1. rewrite C' in L1. rewrite Ec in L0.
      destruct I as [A0 _ _]. destruct I' as [A1 _ _]. rewrite C' in A1.
      assert (B0 : bbuf s = []) by (apply length_nil_inv; lia).
      assert (B1 : bbuf s' = []) by (apply length_nil_inv; lia).
      unfold openb. rewrite B0, B1, X, okl_app, (okl_cap0 (ending s) atts Fr).
      replace (written s') with 0 by lia. replace (written s) with 0 by lia. lia.
    + assert (Hc : 0 < cap s) by lia.
      assert (S : step s n (Emit []) = (ores_of_nat r, s')) by (cbn [step]; rewrite W; reflexivity).
      destruct (zero_line_emit s n _ _ I Ze Hc S) as (_ & Lg & _ & Bb & Wr & _).
      unfold openb. rewrite Lg, Bb, Wr. reflexivity.
Qed.

(* ---------------------------------------------------------------- the bound, for whole histories
   [cur_sizes]: the sizes of the lines that take part in the packing and were ACKNOWLEDGED, up to
   the first explicit flush that answered Ok.  [later]: what is allowed after that point: the
   next-fit count of every later segment (segments end at the flushes that answered Ok), plus
   ONE for every refused emit of a line exactly as large as the buffer. *)
Fixpoint cur_sizes (c : nat) (e : str) (ops : list op) (rs : list ores) : list nat :=
  match ops, rs with
  | Emit m :: ops', OOk _ :: rs' => (if keep c e m then [length m + length e] else []) ++ cur_sizes c e ops' rs'
  | Flush :: ops', OOk _ :: rs' => []
  | _ :: ops', _ :: rs' => cur_sizes c e ops' rs'
  | _, _ => []
  end.
Definition pen (c : nat) (e : str) (m : str) : nat :=
  if keep c e m && (length m + length e =? c) then 1 else 0.
Fixpoint later (c : nat) (e : str) (ops : list op) (rs : list ores) : nat :=
  match ops, rs with
  | Emit m :: ops', OOk _ :: rs' => later c e ops' rs'
  | Emit m :: ops', _ :: rs' => pen c e m + later c e ops' rs'
  | Flush :: ops', OOk _ :: rs' => greedy_count c (cur_sizes c e ops' rs') + later c e ops' rs'
  | Flush :: ops', _ :: rs' => later c e ops' rs'
  | _, _ => 0
  end.
Definition fault_bound_of (c : nat) (e : str) (ops : list op) (rs : list ores) : nat :=
  greedy_count c (cur_sizes c e ops rs) + later c e ops rs.

Lemma run_phi ops : forall s n rs s',
  Inv s -> run_from s n ops = (rs, s') ->
  Inv s' /\ cap s' = cap s /\ ending s' = ending s /\
  oklcount (lg s') + openb s' <= Phi s (cur_sizes (cap s) (ending s) ops rs) + later (cap s) (ending s) ops rs.
Proof.
  induction ops as [|o ops IH]; intros s n rs s' I R; cbn [run_from] in R.
  - inversion R; subst. split; [exact I|]. split; [reflexivity|]. split; [reflexivity|].
    cbn [cur_sizes later]. unfold Phi. rewrite G_nil. lia.
  - destruct (step s n o) as [x s1] eqn:St. destruct (run_from s1 (S n) ops) as [xs s2] eqn:R2.
    inversion R; subst rs s'. clear R.
    destruct o as [m|]; cbn [step] in St.
    + destruct (mlw_write s m n) as [r sw] eqn:W. inversion St; subst x sw. clear St.
      destruct (keep (cap s) (ending s) m) eqn:K.
      * pose proof K as K'. unfold keep in K'. apply andb_true_iff in K'. destruct K' as [Kf Kp].
        apply fitsb_true in Kf. apply Nat.ltb_lt in Kp.
        destruct (emit_phi s m n r s1 (cur_sizes (cap s) (ending s) ops xs) I Kf Kp W) as (I1 & C1 & E1 & P).
        destruct (IH s1 (S n) xs s2 I1 R2) as (I2 & C2 & E2 & L2). rewrite C1, E1 in L2.
        split; [exact I2|]. split; [congruence|]. split; [congruence|].
        destruct P as [([k ->] & P)|(Hr & P)].
        -- cbn [ores_of_nat cur_sizes later]. rewrite K. cbn [app]. lia.
        -- assert (Hp : pen (cap s) (ending s) m = if length m + length (ending s) =? cap s then 1 else 0)
             by (unfold pen; rewrite K; reflexivity).
           destruct r as [k| | |]; [exfalso; now apply (Hr k)| | |];
             cbn [ores_of_nat cur_sizes later]; rewrite Hp; lia.
      * destruct (emit_other_phi s m n r s1 (cur_sizes (cap s) (ending s) ops xs) I K W) as (I1 & C1 & E1 & P).
        destruct (IH s1 (S n) xs s2 I1 R2) as (I2 & C2 & E2 & L2). rewrite C1, E1 in L2.
        split; [exact I2|]. split; [congruence|]. split; [congruence|].
        assert (Hp : pen (cap s) (ending s) m = 0) by (unfold pen; rewrite K; reflexivity).
        destruct r as [k| | |]; cbn [ores_of_nat cur_sizes later]; rewrite ?K, ?Hp; cbn [app]; lia.
    + destruct (mlw_flush s n) as [r sw] eqn:F. inversion St; subst x sw. clear St.
      destruct (mlw_flush_any _ _ _ _ I F) as (I1 & C1 & E1 & [(-> & B1 & W1 & K1)|((er & ->) & B1 & W1 & K1)]).
      * destruct (IH s1 (S n) xs s2 I1 R2) as (I2 & C2 & E2 & L2). rewrite C1, E1 in L2.
        split; [exact I2|]. split; [congruence|]. split; [congruence|].
        assert (O1 : openb s1 = 0) by (unfold openb; rewrite B1; reflexivity).
        cbn [ores_of_unit cur_sizes later]. unfold Phi in *. rewrite G_nil. rewrite W1, K1, C1, O1 in L2.
        unfold G in L2. lia.
      * destruct (IH s1 (S n) xs s2 I1 R2) as (I2 & C2 & E2 & L2). rewrite C1, E1 in L2.
        split; [exact I2|]. split; [congruence|]. split; [congruence|].
        assert (O1 : openb s1 = openb s) by (unfold openb; rewrite B1; reflexivity).
        cbn [ores_of_unit cur_sizes later]. unfold Phi in *. rewrite W1, K1, C1, O1 in L2. lia.
Qed.

(* (3) THE BOUND UNDER ANY FAULT SCRIPT: the number of SUCCESSFUL whole-line datagrams that carry
   bytes is at most the sum, over the segments between the explicit flushes that answered Ok, of
   the next-fit count of the lines acknowledged in the segment - plus one for every REFUSED emit
   of a line exactly as large as the buffer.  Failed flushes, failed emits of other lines,
   interrupted writes and oversized metrics (failed or not) cost nothing. *)
Theorem fault_bound c e script ops rs s :
  run c e script ops = (rs, s) -> oklcount (lg s) <= fault_bound_of c e ops rs.
Proof.
  unfold run. destruct (run_from (init c e script) 0 ops) as [rs0 s1] eqn:R.
  intros H; inversion H; subst rs0 s; clear H.
  destruct (run_phi ops _ _ _ _ (inv_init c e script) R) as (_ & _ & _ & L).
  cbn [cap ending init] in L. unfold Phi in L. cbn [lg init written bbuf] in L.
  unfold oklcount at 2, openb at 2 in L. cbn in L. unfold fault_bound_of.
  assert (D : oklcount (lg (mlw_drop s1 (length ops))) <= oklcount (lg s1) + openb s1); [|unfold G in L; lia].
  unfold mlw_drop. destruct (flush_buf s1 (length ops)) as [rb sb] eqn:FB. cbn [snd].
  apply flush_buf_shape in FB. destruct FB as [(_ & _ & ->)|(_ & k & o & Sh)]; [cbn [set_buf lg]; lia|].
  destruct Sh as (Lg & _). rewrite Lg, okl_app, okl_flush_atts. destruct (isok o); lia.
Qed.

(* ====================================================================== examples (non-vacuity) *)
(* capacity 8, newline.  The oversized metric (operation 1) is written at once, alone, and does
   NOT force the buffered line of operation 0 out: that line is packed with the line of
   operation 2 and leaves at the explicit flush.  Two whole-line datagrams, one alone. *)
Example count_general_witness :
  let nine := [9;9;9;9;9;9;9;9;9]%N in
  let segs := [[[1;2]; nine; [3;4]]]%N in let last := [[5%N]] in
  let s := snd (run 8 [10%N] [] (seg_ops segs last)) in
  (map (fun a => (a_op a, is_lines a, length (a_bytes a))) (lg s),
   lcount (lg s), sum_packed 8 [10%N] segs + greedy_count 8 (seg_sizes 8 [10%N] last),
   map fst (alones (lg s))) =
  ([(1, false, 9); (3, true, 6); (5, true, 2)], 2, 2, [1]).
Proof. vm_compute. reflexivity. Qed.

(* (2) zero-length lines (empty metric, empty terminator; capacity 4): they carry no byte, open no
   block and are invisible in the count; the equation of c19_count is false for them (next-fit
   counts a block for the lone zero-size item, the writer sends nothing) ... *)
Example zero_line_breaks_c19_count :
  let s := snd (run 4 [] [] (map Emit [[]])) in
  (dcount (lg s), greedy_count 4 (line_sizes [] [[]])) = (0, 1).
Proof. vm_compute. reflexivity. Qed.

(* ... while count_general, which filters them out, covers them: sizes 0 2 0 2 0 1 | 0 | 0 *)
Example zero_line_count_witness :
  let segs := [[[]; [1;2]; []; [3;4]; []; [5]]; [[]]]%N in let last := [[]] : list str in
  let s := snd (run 4 [] [] (seg_ops segs last)) in
  (map (fun a => a_bytes a) (lg s), lcount (lg s),
   sum_packed 4 [] segs + greedy_count 4 (seg_sizes 4 [] last)) =
  ([[1;2;3;4]; [5]]%N, 2, 2).
Proof. vm_compute. reflexivity. Qed.

(* optimality: a packing of the fitting lines of the first example, one per segment *)
Example optimal_general_witness :
  let nine := [9;9;9;9;9;9;9;9;9]%N in
  let segs := [[[1;2]; nine; [3;4]]]%N in let last := [[5%N]] in
  Forall2 (fun seg q => valid_partition 8 (line_sizes [10%N] (filter (fitsb 8 [10%N]) seg)) q) segs [[[3; 3]]] /\
  valid_partition 8 (line_sizes [10%N] (filter (fitsb 8 [10%N]) last)) [[2]].
Proof.
  cbn. split; [constructor; [|constructor]|]; (split; [reflexivity|]); repeat constructor; try discriminate; cbn; lia.
Qed.

(* (3) capacity 8, empty terminator.  The 8-byte line of operation 1 makes the writer flush the
   3-byte line (Ok) and is then refused (its direct write fails); the 3-byte line of operation 2
   is buffered and leaves at the drop.  Two successful whole-line datagrams for lines that
   next-fit packs into one: the bound is attained with its "+1". *)
Example fault_bound_witness :
  let ops := [Emit [1;2;3]; Emit [4;4;4;4;4;4;4;4]; Emit [5;6;7]]%N in
  let '(rs, s) := run 8 [] [WOk; WErr 5%N; WOk] ops in
  (rs, map (fun a => (a_op a, a_out a, length (a_bytes a))) (lg s), oklcount (lg s),
   cur_sizes 8 [] ops rs, later 8 [] ops rs, fault_bound_of 8 [] ops rs) =
  ([OOk 3; OErr 5%N; OOk 3], [(1, WOk, 3); (1, WErr 5%N, 8); (3, WOk, 3)], 2, [3; 3], 1, 2).
Proof. vm_compute. reflexivity. Qed.

(* a failed flush costs nothing and lets later small lines join the block: capacity 8, newline;
   the flush for the 6-byte line of operation 1 fails, the line of operation 2 still fits *)
Example fault_bound_witness2 :
  let ops := [Emit [1;2]; Emit [4;4;4;4;4]; Emit [5;6]; Flush; Emit [7]]%N in
  let '(rs, s) := run 8 [10%N] [WErr 5%N; WIntr; WOk; WErr 6%N] ops in
  (rs, map (fun a => (a_op a, a_out a, length (a_bytes a))) (lg s), oklcount (lg s),
   fault_bound_of 8 [10%N] ops rs) =
  ([OOk 2; OErr 5%N; OOk 2; OOk 0; OOk 1],
   [(1, WErr 5%N, 3); (3, WIntr, 6); (3, WOk, 6); (5, WErr 6%N, 2)], 1, 2).
Proof. vm_compute. reflexivity. Qed.

(* ====================================================================== assumptions *)
Print Assumptions fit_emit_lines.
Print Assumptions step_ff.
Print Assumptions emits_gen.
Print Assumptions count_general.
Print Assumptions ops_as_segments.
Print Assumptions alone_general.
Print Assumptions alone_general_spelled.
Print Assumptions greedy_filter_le.
Print Assumptions optimal_general.
Print Assumptions mlw_flush_any.
Print Assumptions tail_any.
Print Assumptions emit_phi.
Print Assumptions emit_other_phi.
Print Assumptions run_phi.
Print Assumptions fault_bound.
Print Assumptions count_general_witness.
Print Assumptions zero_line_breaks_c19_count.
Print Assumptions zero_line_count_witness.
Print Assumptions optimal_general_witness.
Print Assumptions fault_bound_witness.
Print Assumptions fault_bound_witness2.
