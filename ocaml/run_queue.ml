(* model: queue *)
(* model side of harness bin `queue` (formats: harness/src/queue.rs) *)

let parse_action a =
  let arg = String.sub a 1 (String.length a - 1) in
  match a.[0] with
  | 'E' -> AEmit | 'C' -> AClone | 'D' -> ADrop | 'S' -> ASample
  | 'R' -> ARelease (if arg = "k" then SOk else if arg = "p" then SPanic
                     else SErr (nat_of_int (int_of_string (String.sub arg 1 (String.length arg - 1)))))
  | _ -> failwith ("bad action " ^ a)

let show_out = function SOk -> "k" | SPanic -> "p" | SErr e -> "e" ^ string_of_int (int_of_nat e)

let run_fixed fixed line =
  match tokens line with
  | ["Q"; cap; handler; actions] ->
    let cap = if cap = "u" then None else Some (nat_of_int (int_of_string cap)) in
    let s0 = init_q cap (handler = "1") in
    (* the harness settles once after construction *)
    let s0 = settle fixed (fuel_of s0) s0 in
    let acts_l = List.map parse_action (split_on ',' actions) in
    let (s, outs) = List.fold_left (fun (s, acc) a ->
      let gate_busy = (match s.q_wk with WCounted _ -> true | _ -> false) in
      let (s', o) = act fixed s a in
      let txt = match a with
        | AEmit -> (match o.ob_result with ROk -> "k" | RFull -> "f" | RNone -> "x")
        | AClone -> "c" | ADrop -> "d"
        | ARelease _ -> if gate_busy then "r" else "r-"
        | ASample -> (match o.ob_sample with
            | Some (((a, b), c), d) -> Printf.sprintf "s%d.%d.%d.%d" (int_of_nat a) (int_of_nat b) (int_of_nat c) (int_of_nat d)
            | None -> "s?") in
      (s', txt :: acc)) (s0, []) acts_l in
    let dl = List.map (fun (id, o) -> Printf.sprintf "%d:%s" (int_of_nat id) (show_out o)) s.q_delivered in
    let positions = List.filter_map (fun x -> x)
      (List.mapi (fun i (_, o) -> match o with SErr _ -> Some (i + 1) | _ -> None) s.q_delivered) in
    let hd =
      if List.length positions = List.length s.q_handled then
        List.map2 (fun (id, e) p -> Printf.sprintf "%d:%d@%d" (int_of_nat id) (int_of_nat e) p) s.q_handled positions
      else List.map (fun (id, e) -> Printf.sprintf "%d:%d@?" (int_of_nat id) (int_of_nat e)) s.q_handled in
    Printf.sprintf "A:%s|DL:%s|H:%s|X:rel%d" (String.concat "," (List.rev outs)) (String.concat ";" dl)
      (String.concat ";" hd) (if sink_released s then 1 else 0)
  | _ -> failwith ("bad queue case: " ^ line)

let run_case line = run_fixed true line
