(* Theorems about whole lives of the writer (construction, any history, drop), in the
   form the pinned property files quote. *)
Require Import Cadence.Base.Prelude.
Require Import Cadence.Model.Writer.
Require Import Cadence.Proofs.WriterBase.
Require Import Cadence.Proofs.WriterInv.
Require Import Cadence.Proofs.WriterRun.
Require Import Cadence.Proofs.WriterIds.
Require Import Cadence.Proofs.WriterIO.

Lemma run_from_app a : forall b s n,
  run_from s n (a ++ b) =
  let '(r1, s1) := run_from s n a in
  let '(r2, s2) := run_from s1 (n + length a) b in (r1 ++ r2, s2).
Proof.
  induction a as [|o a IH]; intros b s n; cbn [run_from app length].
  - rewrite Nat.add_0_r. destruct (run_from s n b). reflexivity.
  - destruct (step s n o) as [x s1]. rewrite IH.
    destruct (run_from s1 (S n) a) as [r1 s2].
    replace (S n + length a) with (n + S (length a)) by lia.
    destruct (run_from s2 (n + S (length a)) b). reflexivity.
Qed.

(* ------------------------------------------------------------------ reachable states *)
Lemma reach_inv c e script ops rs s :
  run_from (init c e script) 0 ops = (rs, s) ->
  Inv s /\ cap s = c /\ ending s = e /\
  exists atts, run_post (init c e script) 0 ops rs s atts.
Proof.
  intros H. destruct (run_from_spec _ _ _ _ _ (inv_init c e script) H) as [atts P].
  pose proof P as [I [C E] _ _ _ _ _ _ _]. cbn in C, E.
  split; [exact I|]. split; [exact C|]. split; [exact E|]. exists atts. exact P.
Qed.

(* ------------------------------------------------------------------ C05 *)
Theorem frame_all c e script ops rs s :
  run c e script ops = (rs, s) -> Forall (frame_ok c e) (lg s).
Proof.
  unfold run. destruct (run_from (init c e script) 0 ops) as [rs0 s1] eqn:R.
  intros H; inversion H; subst; clear H.
  destruct (reach_inv _ _ _ _ _ _ R) as (I & C & E & atts & P).
  destruct P as [_ _ Lg _ Fr _ _ _ _]. cbn in Lg, Fr.
  unfold mlw_drop. destruct (flush_buf s1 (length ops)) as [r s2] eqn:F. cbn [snd].
  apply flushbuf_spec in F; [|exact I].
  destruct F as (_ & _ & datts & [X _] & Ffr & _).
  rewrite X, Lg. rewrite C, E in Ffr. apply Forall_app; split; assumption.
Qed.

Theorem ids_real c e script ops rs s :
  run c e script ops = (rs, s) ->
  Forall (fun a => Forall (fun g => nth_error ops (fst g) = Some (Emit (snd g))) (lab_ids (a_lab a))) (lg s).
Proof.
  unfold run. destruct (run_from (init c e script) 0 ops) as [rs0 s1] eqn:R.
  intros H; inversion H; subst; clear H.
  set (P := fun g : gm => nth_error ops (fst g) = Some (Emit (snd g))).
  assert (I0 : IdsP P (init c e script)) by (split; constructor).
  assert (I1 : IdsP P s1).
  { pose proof (run_from_ids ops P (init c e script) 0) as H. rewrite R in H. apply H; [|exact I0].
    intros g (i & E1 & E2). unfold P. now rewrite E1. }
  exact (proj2 (mlw_drop_ids P s1 (length ops) I1)).
Qed.

(* ------------------------------------------------------------------ fault-free runs *)
Lemma ok_run c e ops rs s :
  run_from (init c e []) 0 ops = (rs, s) -> all_ok (sc s) (lg s).
Proof.
  intros H. pose proof (run_from_io all_ok all_ok_under ops (init c e []) 0) as R.
  rewrite H in R. apply R. split; [reflexivity|constructor].
Qed.

Lemma err_last_not_ok atts o : Forall (fun a => a_out a = WOk) atts -> o <> WOk -> ~ err_last atts o.
Proof.
  intros F N (pre & a & E & O). subst atts. apply Forall_app in F. destruct F as [_ F].
  inversion F; subst. congruence.
Qed.
