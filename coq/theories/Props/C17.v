(* C17 — Macros are exactly the tagged quiet send on the global client.

   Pinned statements.  Model: Cadence.Model.Macro — the expansion of _generate_impl!
   (cadence-macros/src/macros.rs) as an instruction list run by an interpreter that logs
   which argument expression is evaluated when and what reaches the global client's sink
   and error handler; the instructions' semantics is the client model of C01/C03
   (Cadence.Model.Client.send_call).  [global : option config] is the state of the
   process-wide holder (None = no client set); an invocation carries the macro, the values
   of $key and $val (with its Rust type) and the list of tag pairs as written; [script] is
   the sink's future answers.  All statements are for every macro, every argument, every
   number of tags, every client configuration and every sink script.  That macro_rules!
   expands the way the instruction list says is the compiler's business: it is validated by
   the correspondence check (statically expanded invocations whose argument expressions log
   their evaluation), not proved. *)
Require Import Cadence.Base.Prelude.
Require Import Cadence.Model.Convert.
Require Import Cadence.Model.Wire.
Require Import Cadence.Model.Client.
Require Import Cadence.Model.Macro.
Require Import Cadence.Proofs.ClientProofs.
Require Import Cadence.Proofs.MacroProofs.

(* with a global client set, a macro does what the corresponding <kind>_with_tags call on
   that client followed by with_tag for each pair in the written order and a quiet send
   does: the same strings reach the sink, the same errors reach the handler, the same sink
   answers are consumed; it does not panic *)
Theorem c17_equiv : forall cfg inv script o rest,
  send_call cfg Quiet
    {| k_kind := method_of (i_macro inv); k_key := i_key inv; k_arg := i_arg inv;
       k_ops := map (fun kv => WithTag (fst kv) (snd kv)) (i_tags inv) |} script = Some (o, rest) ->
  let s := run_macro (Some cfg) inv script in
  m_panicked s = false /\ m_stuck s = false /\
  m_emitted s = o_emitted o /\ m_handled s = o_handled o /\ m_script s = rest.
Proof.
  intros cfg inv script o rest H. cbv zeta.
  destruct (macro_equiv cfg inv script) as (P & _ & M). unfold reference_call in M. rewrite H in M.
  destruct M as (A & B & C & D). repeat split; assumption.
Qed.

(* the same line in a single emit: at most one string is handed to the sink, exactly one iff
   the value is accepted, and it is the line the client model (C01) gives for the tagged call *)
Theorem c17_single_emit : forall cfg inv script,
  let s := run_macro (Some cfg) inv script in
  let c := {| k_kind := method_of (i_macro inv); k_key := i_key inv; k_arg := i_arg inv;
              k_ops := map (fun kv => WithTag (fst kv) (snd kv)) (i_tags inv) |} in
  m_emitted s = match client_line cfg c with Some (inr l) => [l] | _ => [] end.
Proof.
  intros cfg inv script. cbv zeta.
  destruct (macro_equiv cfg inv script) as (_ & _ & M). unfold reference_call in M.
  destruct (send_call cfg Quiet _ script) as [[o rest]|] eqn:SC.
  - destruct M as (_ & E & _). rewrite E. apply (emitted_exact _ _ _ _ _ _ SC).
  - destruct M as (_ & E & _). rewrite E.
    unfold send_call in SC. destruct (client_line cfg _) as [[e|l]|]; try reflexivity.
    + destruct script; discriminate.
Qed.

(* failures are reported only to the global client's error handler: exactly the error that
   try_send of the same call would return, once; nothing on success *)
Theorem c17_errors_to_handler : forall cfg inv script o rest,
  send_call cfg TrySend
    {| k_kind := method_of (i_macro inv); k_key := i_key inv; k_arg := i_arg inv;
       k_ops := map (fun kv => WithTag (fst kv) (snd kv)) (i_tags inv) |} script = Some (o, rest) ->
  m_handled (run_macro (Some cfg) inv script) = match o_ret o with RError e => [e] | _ => [] end.
Proof.
  intros cfg inv script o rest H.
  destruct (macro_equiv cfg inv script) as (_ & _ & M). unfold reference_call in M.
  destruct (send_call cfg Quiet _ script) as [[oq restq]|] eqn:SC.
  - destruct M as (_ & _ & Hh & _). rewrite Hh.
    destruct (quiet_form _ _ _ _ _ SC) as (o' & T & _ & _ & Q & _).
    rewrite H in T. inversion T; subst. exact Q.
  - exfalso. unfold send_call in SC, H. destruct (client_line cfg _) as [[e|l]|]; try discriminate.
    destruct script; discriminate.
Qed.

(* each argument expression is evaluated exactly once, in the order written: key, value,
   then for each pair its key and its value *)
Theorem c17_eval_once : forall cfg inv script,
  m_evals (run_macro (Some cfg) inv script) = eval_order (length (i_tags inv)) /\
  NoDup (eval_order (length (i_tags inv))) /\
  forall x, In x (eval_order (length (i_tags inv))) <->
            x = XKey \/ x = XVal \/ exists j, j < length (i_tags inv) /\ (x = XTagKey j \/ x = XTagVal j).
Proof.
  intros cfg inv script. destruct (macro_equiv cfg inv script) as (_ & E & _).
  split; [exact E|]. split; [apply eval_order_nodup|apply eval_order_complete].
Qed.

(* it panics if and only if no global client has been set ... *)
Theorem c17_panic_iff : forall global inv script,
  m_panicked (run_macro global inv script) = true <-> global = None.
Proof. exact macro_panic_iff. Qed.

(* ... and then nothing has been evaluated, emitted or handled, and no sink answer consumed *)
Theorem c17_unset : forall inv script,
  let s := run_macro None inv script in
  m_panicked s = true /\ m_evals s = [] /\ m_emitted s = [] /\ m_handled s = [] /\ m_script s = script.
Proof. intros inv script. cbv zeta. rewrite macro_unset. repeat split. Qed.

(* the seven front ends forward the method of their own kind (finite table) *)
Theorem c17_methods :
  map method_of all_macros = [Counter; Timer; Gauge; Meter; Histogram; Distribution; SetK] /\
  forall m, In m all_macros.
Proof. split; [reflexivity|]. intros m; destruct m; cbn; tauto. Qed.

(* ---- a whole process (Macro.run_process): the holder is set at most once, by whoever offers
   first ([PSet]: the observed client, [PSetOther]: another one); [PGet] / [PIsSet] are
   get_global_default().is_ok() / is_global_default_set(); what is observed of an invocation is
   what the OBSERVED client's sink and handler saw, whether it panicked, and its evaluation log;
   of a read, what it reported ([po_flag]) ---- *)

(* before any client is set every invocation panics, having evaluated, emitted and reported nothing,
   and every read of the holder says "not set" *)
Theorem c17_process_unset : forall cfg other steps script,
  Forall (fun st => is_offer st = false) steps ->
  Forall (fun o => match po_flag o with
                   | Some b => b = false
                   | None => po_panicked o = true /\ po_emitted o = [] /\ po_handled o = [] /\ po_evals o = []
                   end)
         (run_process cfg other None script steps).
Proof. exact process_unset. Qed.

(* once a client is set, later offers change nothing for anything that follows *)
Theorem c17_process_set_once : forall cfg other b c steps script,
  run_process cfg other (Some (b, c)) script steps =
  run_process cfg other (Some (b, c)) script (filter (fun st => negb (is_offer st)) steps).
Proof. exact process_set_once. Qed.

(* ... and every read of the holder says "set" *)
Theorem c17_process_reads : forall cfg other b c steps script,
  Forall (fun o => match po_flag o with Some f => f = true | None => True end)
         (run_process cfg other (Some (b, c)) script steps).
Proof. exact process_reads_set. Qed.

(* with the observed client in the holder, the invocations of the process are, one after the
   other, the tagged quiet sends on that client (same strings to its sink, same errors to its
   handler, the sink's answers consumed in order) - whatever is offered or read in between; none
   panics *)
Theorem c17_process_mine : forall cfg other steps script,
  Forall2 (fun o r => po_panicked o = false /\
                      match r with
                      | Some x => po_stuck o = false /\ po_emitted o = o_emitted x /\ po_handled o = o_handled x
                      | None => po_stuck o = true
                      end)
          (filter (fun o => match po_flag o with None => true | Some _ => false end)
                  (run_process cfg other (Some (true, cfg)) script steps))
          (reference_sends cfg (invocations steps) script).
Proof. exact process_mine. Qed.

(* with another client in the holder, the observed client's sink and handler see nothing at all *)
Theorem c17_process_other : forall cfg other c steps script,
  Forall (fun o => po_panicked o = false /\ po_emitted o = [] /\ po_handled o = [])
         (run_process cfg other (Some (false, c)) script steps).
Proof. exact process_other. Qed.

(* non-vacuity: statsd_time!("k", 7u64, "a" => "b", "c" => "d") on a client with prefix "p",
   a default tag and a refusing sink: one line, the handler sees the sink's error once *)
Example c17_witness :
  let cfg := {| c_prefix := [112]; c_tags := [(None, [120])]; c_container := None |}%N in
  let inv := {| i_macro := StatsdTime; i_key := [107]; i_arg := AU64 7;
                i_tags := [([97], [98]); ([99], [100])] |}%N in
  let s := run_macro (Some cfg) inv [Refuse 5 9]%N in
  (m_emitted s, m_handled s, m_evals s, m_panicked s, m_stuck s) =
  ([[112;46;107;58;55;124;109;115;124;35;120;44;97;58;98;44;99;58;100]%N], [EIo 5 9],
   [XKey; XVal; XTagKey 0; XTagVal 0; XTagKey 1; XTagVal 1], false, false).
Proof. vm_compute. reflexivity. Qed.
