//! C18, compile-time part: this program must NOT compile.  It moves a `SingletonHolder<Rc<u8>>` to another thread;
//! `Rc` is not `Send`, so `SingletonHolder<T>: Send` must require `T: Send`.
use cadence_macros::SingletonHolder;
use std::rc::Rc;

fn main() {
    let holder: SingletonHolder<Rc<u8>> = SingletonHolder::new();
    holder.set(Rc::new(1));
    let keep = holder.get().expect("set");
    let t = std::thread::spawn(move || {
        let inner = holder.get().expect("set");
        Rc::strong_count(&inner)
    });
    println!("unsound: an Rc was cloned on another thread: {} / {}", t.join().unwrap(), Rc::strong_count(&keep));
}
