(* The expansion of the statsd_* macros, run by the interpreter of Model/Macro.v, is the
   tagged quiet send on the global client. *)
Require Import Cadence.Base.Prelude.
Require Import Cadence.Model.Convert.
Require Import Cadence.Model.Wire.
Require Import Cadence.Model.Client.
Require Import Cadence.Model.Macro.
Require Import Cadence.Proofs.ClientProofs.

Definition running (s : machine) : Prop := m_panicked s = false /\ m_stuck s = false.

Lemma exec_app g inv p q s : exec g inv (p ++ q) s = exec g inv q (exec g inv p s).
Proof. unfold exec. apply fold_left_app. Qed.

Lemma exec1_halted g inv s i : m_panicked s || m_stuck s = true -> exec1 g inv s i = s.
Proof. intros H. unfold exec1. now rewrite H. Qed.

Lemma exec_halted g inv p : forall s, m_panicked s || m_stuck s = true -> exec g inv p s = s.
Proof.
  induction p as [|i p IH]; intros s H; [reflexivity|].
  unfold exec in *. cbn [fold_left]. rewrite exec1_halted by exact H. now apply IH.
Qed.

Definition with_tags (l : list (str * str)) : list bop := map (fun kv => WithTag (fst kv) (snd kv)) l.

Lemma with_tags_app a b : with_tags (a ++ b) = with_tags a ++ with_tags b.
Proof. apply map_app. Qed.

(* the tag loop: each pair is evaluated (key, then value) and added with with_tag, in the
   written order *)
Lemma tag_loop g inv : forall (rest done : list (str * str)) s c,
  i_tags inv = done ++ rest ->
  running s -> m_call s = Some c ->
  let s' := exec g inv (tag_instrs (length done) (length rest)) s in
  running s' /\
  m_call s' = Some {| k_kind := k_kind c; k_key := k_key c; k_arg := k_arg c;
                      k_ops := k_ops c ++ with_tags rest |} /\
  m_evals s' = m_evals s ++ tag_exprs (length done) (length rest) /\
  m_client s' = m_client s /\ m_emitted s' = m_emitted s /\ m_handled s' = m_handled s /\
  m_script s' = m_script s.
Proof.
  induction rest as [|[tk tv] rest IH]; intros done s c E R C; cbn [length tag_instrs tag_exprs].
  - cbn. rewrite !app_nil_r. destruct c. repeat split; try apply R; assumption.
  - destruct R as [Rp Rs].
    unfold exec. cbn [fold_left].
    (* three instructions *)
    set (s1 := exec1 g inv s (IEval (XTagKey (length done)))).
    assert (S1 : s1 = upd_evals s (XTagKey (length done))) by (unfold s1, exec1; now rewrite Rp, Rs).
    set (s2 := exec1 g inv s1 (IEval (XTagVal (length done)))).
    assert (S2 : s2 = upd_evals s1 (XTagVal (length done))) by (unfold s2, exec1; rewrite S1; cbn; now rewrite Rp, Rs).
    set (s3 := exec1 g inv s2 (IWithTag (length done))).
    assert (N : nth_error (i_tags inv) (length done) = Some (tk, tv)).
    { rewrite E, nth_error_app2, Nat.sub_diag by lia. reflexivity. }
    assert (S3 : s3 = upd_call s2 (Some {| k_kind := k_kind c; k_key := k_key c; k_arg := k_arg c;
                                            k_ops := k_ops c ++ [WithTag tk tv] |})).
    { unfold s3, exec1. rewrite S2, S1. cbn. rewrite Rp, Rs. cbn. rewrite C, N. reflexivity. }
    assert (E' : i_tags inv = (done ++ [(tk, tv)]) ++ rest) by (now rewrite <- app_assoc).
    assert (L : length (done ++ [(tk, tv)]) = S (length done)) by (rewrite app_length; cbn; lia).
    specialize (IH (done ++ [(tk, tv)]) s3 {| k_kind := k_kind c; k_key := k_key c; k_arg := k_arg c;
                                            k_ops := k_ops c ++ [WithTag tk tv] |} E').
    rewrite L in IH. fold (exec g inv (tag_instrs (S (length done)) (length rest)) s3).
    destruct IH as (R' & C' & Ev & Cl & Em & Ha & Sc).
    + rewrite S3, S2, S1. split; cbn; assumption.
    + rewrite S3. reflexivity.
    + repeat split; try apply R'.
      * rewrite C'. cbn [k_kind k_key k_arg k_ops with_tags map fst snd]. now rewrite <- app_assoc.
      * rewrite Ev, S3, S2, S1. cbn. now rewrite <- !app_assoc.
      * rewrite Cl, S3, S2, S1. reflexivity.
      * rewrite Em, S3, S2, S1. reflexivity.
      * rewrite Ha, S3, S2, S1. reflexivity.
      * rewrite Sc, S3, S2, S1. reflexivity.
Qed.

(* with a global client set: the machine ends where the reference call ends *)
Theorem macro_equiv cfg inv script :
  let s := run_macro (Some cfg) inv script in
  m_panicked s = false /\
  m_evals s = eval_order (length (i_tags inv)) /\
  match send_call cfg Quiet (reference_call inv) script with
  | Some (o, rest) =>
    m_stuck s = false /\ m_emitted s = o_emitted o /\ m_handled s = o_handled o /\ m_script s = rest
  | None => m_stuck s = true /\ m_emitted s = [] /\ m_handled s = [] /\ m_script s = script
  end.
Proof.
  unfold run_macro, expansion. rewrite exec_app.
  set (s0 := exec (Some cfg) inv [IGetGlobal; IEval XKey; IEval XVal; ICall (method_of (i_macro inv))] (start script)).
  assert (S0 : s0 = {| m_client := Some cfg;
                       m_call := Some {| k_kind := method_of (i_macro inv); k_key := i_key inv;
                                         k_arg := i_arg inv; k_ops := [] |};
                       m_evals := [XKey; XVal]; m_emitted := []; m_handled := [];
                       m_script := script; m_panicked := false; m_stuck := false |}) by reflexivity.
  rewrite exec_app.
  pose proof (tag_loop (Some cfg) inv (i_tags inv) [] s0
                {| k_kind := method_of (i_macro inv); k_key := i_key inv; k_arg := i_arg inv; k_ops := [] |}
                eq_refl) as T.
  cbn [length] in T.
  assert (R0 : running s0) by (rewrite S0; split; reflexivity).
  assert (C0 : m_call s0 = Some {| k_kind := method_of (i_macro inv); k_key := i_key inv;
                                   k_arg := i_arg inv; k_ops := [] |}) by (rewrite S0; reflexivity).
  specialize (T R0 C0). cbv zeta in T. destruct T as ((Rp & Rs) & C & Ev & Cl & Em & Ha & Sc).
  set (s1 := exec (Some cfg) inv (tag_instrs 0 (length (i_tags inv))) s0) in *.
  rewrite S0 in Ev, Cl, Em, Ha, Sc. cbn in Ev, Cl, Em, Ha, Sc, C.
  unfold exec. cbn [fold_left]. unfold exec1. rewrite Rp, Rs. cbn [orb].
  rewrite Cl, C. unfold reference_call. fold (with_tags (i_tags inv)).
  rewrite Sc.
  destruct (send_call cfg Quiet _ script) as [[o rest]|] eqn:SC; cbn.
  - rewrite Em, Ha, Ev. repeat split; reflexivity.
  - rewrite Rp, Em, Ha, Ev, Sc. repeat split; reflexivity.
Qed.

(* without a global client: the unwrap panics before anything else happens *)
Theorem macro_unset inv script :
  run_macro None inv script =
  {| m_client := None; m_call := None; m_evals := []; m_emitted := []; m_handled := [];
     m_script := script; m_panicked := true; m_stuck := false |}.
Proof.
  unfold run_macro, expansion. cbn [app]. unfold exec. cbn [fold_left]. apply exec_halted. reflexivity.
Qed.

Theorem macro_panic_iff g inv script : m_panicked (run_macro g inv script) = true <-> g = None.
Proof.
  destruct g as [cfg|].
  - destruct (macro_equiv cfg inv script) as (P & _). rewrite P. split; discriminate.
  - rewrite macro_unset. split; reflexivity.
Qed.

Lemma tag_exprs_in i n x : In x (tag_exprs i n) ->
  exists j, i <= j < i + n /\ (x = XTagKey j \/ x = XTagVal j).
Proof.
  revert i; induction n as [|n IH]; intros i H; [contradiction|]. cbn [tag_exprs] in H.
  destruct H as [H|[H|H]].
  - exists i. split; [lia|left; now symmetry].
  - exists i. split; [lia|right; now symmetry].
  - destruct (IH _ H) as (j & Hj & E). exists j. split; [lia|exact E].
Qed.

Lemma tag_exprs_nodup i n : NoDup (tag_exprs i n).
Proof.
  revert i; induction n as [|n IH]; intros i; cbn [tag_exprs]; constructor.
  - intros [H|H]; [discriminate|]. apply tag_exprs_in in H. destruct H as (j & Hj & [E|E]); inversion E; lia.
  - constructor; [|apply IH]. intros H. apply tag_exprs_in in H.
    destruct H as (j & Hj & [E|E]); inversion E; lia.
Qed.

(* every argument expression is evaluated exactly once *)
Theorem eval_order_nodup n : NoDup (eval_order n).
Proof.
  unfold eval_order. constructor.
  - intros [H|H]; [discriminate|]. apply tag_exprs_in in H. destruct H as (j & _ & [E|E]); discriminate.
  - constructor; [|apply tag_exprs_nodup]. intros H. apply tag_exprs_in in H.
    destruct H as (j & _ & [E|E]); discriminate.
Qed.

Lemma tag_exprs_length i n : length (tag_exprs i n) = 2 * n.
Proof. revert i; induction n as [|n IH]; intros i; cbn [tag_exprs length]; [reflexivity|]. rewrite IH. lia. Qed.

Theorem eval_order_complete n x :
  In x (eval_order n) <-> x = XKey \/ x = XVal \/ exists j, j < n /\ (x = XTagKey j \/ x = XTagVal j).
Proof.
  unfold eval_order. split.
  - intros [H|[H|H]]; [left; now symmetry|right; left; now symmetry|].
    apply tag_exprs_in in H. destruct H as (j & Hj & E). right; right. exists j. split; [lia|exact E].
  - intros [->|[->|(j & Hj & E)]]; [now left|right; now left|].
    right; right. clear -Hj E. assert (G : forall i k, i <= j < i + k -> In x (tag_exprs i k)).
    { intros i k; revert i; induction k as [|k IH]; intros i H; [lia|]. cbn [tag_exprs].
      destruct (Nat.eq_dec i j) as [->|Ne].
      - destruct E as [->| ->]; [now left|right; now left].
      - right; right. apply IH. lia. }
    apply G. lia.
Qed.

(* sequences of invocations in one process *)
Lemma run_macros_length g invs : forall script, length (run_macros g invs script) = length invs.
Proof. induction invs as [|i r IH]; intros script; cbn [run_macros length]; [reflexivity|]. now rewrite IH. Qed.

(* ------------------------------------------------------------------ a whole process *)
(* once a client is set, further offers change nothing *)
Theorem process_set_once cfg other b c : forall steps script,
  run_process cfg other (Some (b, c)) script steps =
  run_process cfg other (Some (b, c)) script (filter (fun st => negb (is_offer st)) steps).
Proof.
  induction steps as [|st steps IH]; intros script; [reflexivity|].
  destruct st as [| |inv| |]; cbn [run_process filter is_offer negb offer]; auto; f_equal; apply IH.
Qed.

(* before any client is set: every invocation panics, having evaluated, emitted and reported nothing,
   and every read of the holder says "not set" *)
Theorem process_unset cfg other : forall steps script,
  Forall (fun st => is_offer st = false) steps ->
  Forall (fun o => match po_flag o with
                   | Some b => b = false
                   | None => po_panicked o = true /\ po_emitted o = [] /\ po_handled o = [] /\ po_evals o = []
                   end)
         (run_process cfg other None script steps).
Proof.
  induction steps as [|st steps IH]; intros script F; [constructor|].
  inversion F as [|? ? Hst F']; subst. destruct st as [| |inv| |]; try discriminate; cbn [run_process option_map].
  - rewrite (macro_unset inv script). cbn [m_panicked m_stuck m_emitted m_handled m_evals m_script].
    constructor; [cbn; repeat split; reflexivity|apply IH, F'].
  - constructor; [reflexivity|apply IH, F'].
  - constructor; [reflexivity|apply IH, F'].
Qed.

(* after a client has been set every read of the holder says "set", whatever is offered later *)
Theorem process_reads_set cfg other b c : forall steps script,
  Forall (fun o => match po_flag o with Some f => f = true | None => True end)
         (run_process cfg other (Some (b, c)) script steps).
Proof.
  induction steps as [|st steps IH]; intros script; [constructor|].
  destruct st as [| |inv| |]; cbn [run_process offer]; try apply IH; constructor; try apply IH; exact I || reflexivity.
Qed.

(* with the observed client in the holder, the invocations of the process are, one after the other,
   the tagged quiet sends on that client - whatever else is offered or read in between *)
Theorem process_mine cfg other : forall steps script,
  Forall2 (fun o r => po_panicked o = false /\
                      match r with
                      | Some x => po_stuck o = false /\ po_emitted o = o_emitted x /\ po_handled o = o_handled x
                      | None => po_stuck o = true
                      end)
          (filter (fun o => match po_flag o with None => true | Some _ => false end)
                  (run_process cfg other (Some (true, cfg)) script steps))
          (reference_sends cfg (invocations steps) script).
Proof.
  induction steps as [|st steps IH]; intros script; [constructor|].
  destruct st as [| |inv| |]; cbn [run_process offer invocations flat_map app filter read_obs po_flag]; try apply IH.
  cbn [option_map snd reference_sends].
  pose proof (macro_equiv cfg inv script) as M. cbv zeta in M. destruct M as (P & Ev & M).
  destruct (send_call cfg Quiet (reference_call inv) script) as [[o rest]|] eqn:SC.
  - destruct M as (St & E & H & S). constructor.
    + cbn. repeat split; assumption.
    + rewrite S. apply IH.
  - destruct M as (St & E & H & S). constructor.
    + cbn. split; assumption.
    + rewrite S. apply IH.
Qed.

(* ... and when another client won, the observed client's sink and handler see nothing at all,
   and nothing panics *)
Theorem process_other cfg other c : forall steps script,
  Forall (fun o => po_panicked o = false /\ po_emitted o = [] /\ po_handled o = [])
         (run_process cfg other (Some (false, c)) script steps).
Proof.
  induction steps as [|st steps IH]; intros script; [constructor|].
  destruct st as [| |inv| |]; cbn [run_process offer]; try apply IH.
  - constructor; [|apply IH]. cbn [po_panicked po_emitted po_handled option_map snd]. repeat split.
    pose proof (macro_equiv c inv []) as M. cbv zeta in M. exact (proj1 M).
  - constructor; [cbn; repeat split|apply IH].
  - constructor; [cbn; repeat split|apply IH].
Qed.
