(* model: sock *)
(* model side of harness bin `sock` (formats: harness/src/sock.rs): the unbuffered sinks are Stats.sock_emit,
   the buffered ones Writer.sink_init with newline terminator; the listener state of the script decides the
   outcome of every underlying send made during an operation (all of this is Sock.sc_unbuffered / sc_buffered) *)

let show_stats s =
  Printf.sprintf "%d.%d.%d.%d" (int_of_n s.bytes_sent) (int_of_n s.packets_sent)
    (int_of_n s.bytes_dropped) (int_of_n s.packets_dropped)

(* the scenario is run by the Coq model itself (Sock.sc_unbuffered / Sock.sc_buffered): the glue only parses the
   ops and prints the triple *)
let parse_sop op =
  match op.[0] with
  | 'E' -> SEmit (unhex (String.sub op 1 (String.length op - 1)))
  | 'F' -> SFlush
  | 'l' -> SDown
  | 'L' -> SUp
  | _ -> failwith ("bad op " ^ op)

let show_sres = function SK n -> "k" ^ string_of_int (int_of_n n) | SE -> "e" | SNone -> "-"

let show_scenario ((rs, dg), st) =
  Printf.sprintf "R:%s|D:%s|S:%s" (String.concat "," (List.map show_sres rs)) (String.concat ";" (List.map hex dg)) (show_stats st)

let parse_cap cap = if cap = "d" then None else Some (nat_of_int (int_of_string cap))

let run_unbuffered queued ops = show_scenario (sc_unbuffered queued (List.map parse_sop ops))
let run_buffered cap queued ops = show_scenario (sc_buffered (parse_cap cap) queued (List.map parse_sop ops))

let coq_header = "Require Import Cadence.Base.Prelude Cadence.Model.Writer Cadence.Model.Stats Cadence.Model.Sock.\n"

let g_bool b = if b then "true" else "false"
let g_sop = function SEmit m -> "SEmit " ^ g_str m | SFlush -> "SFlush" | SDown -> "SDown" | SUp -> "SUp"
let g_n n = "(" ^ string_of_int (int_of_n n) ^ "%N)"
let g_sres = function SK n -> "SK " ^ g_n n | SE -> "SE" | SNone -> "SNone"
let g_stats st = Printf.sprintf "{| bytes_sent := %s; packets_sent := %s; bytes_dropped := %s; packets_dropped := %s |}"
    (g_n st.bytes_sent) (g_n st.packets_sent) (g_n st.bytes_dropped) (g_n st.packets_dropped)
let g_lst ty f l = if l = [] then "(@nil " ^ ty ^ ")" else g_list f l
let g_scenario ((rs, dg), st) = "(" ^ g_lst "sres" g_sres rs ^ ", " ^ g_lst "(list N)" g_str dg ^ ", " ^ g_stats st ^ ")"

let coq_case line =
  if String.length line > 900 then None else
  match tokens line with
  | [("U" | "US" | "UT" | "X"); _; q; ops] ->
    let o = List.map parse_sop (split_on ',' ops) in
    Some (Printf.sprintf "sc_unbuffered %s %s = %s" (g_bool (q = "q1")) (g_lst "sop" g_sop o) (g_scenario (sc_unbuffered (q = "q1") o)))
  | [("BU" | "BUS" | "BUT" | "BX"); cap; q; ops] when cap = "d" || int_of_string cap <= 2000 ->
    let o = List.map parse_sop (split_on ',' ops) in
    Some (Printf.sprintf "sc_buffered %s %s %s = %s" (g_option (fun n -> g_nat n) (parse_cap cap)) (g_bool (q = "q1"))
            (g_lst "sop" g_sop o) (g_scenario (sc_buffered (parse_cap cap) (q = "q1") o)))
  | _ -> None

let run_case line =
  match tokens line with
  | [("U" | "US" | "UT"); _; q; ops] | ["X"; _; q; ops] -> run_unbuffered (q = "q1") (split_on ',' ops)
  | [("BU" | "BUS" | "BUT"); cap; q; ops] | ["BX"; cap; q; ops] -> run_buffered cap (q = "q1") (split_on ',' ops)
  | ["UA"; n; ops] ->
    (match get_addr (List.init (int_of_string n) (fun i -> n_of_int i)) with
     | None -> "ctor:inv"
     | Some _ -> run_unbuffered false (split_on ',' ops) ^ "|D2:0")
  | ["SU"; ups] ->
    let res = ref [] in
    let st = List.fold_left (fun st u ->
      if u.[0] = 'i' then begin
        let arg () = n_of_int (int_of_string (String.sub u 3 (String.length u - 3))) in
        res := "-" :: !res;
        apply_incr st (match String.sub u 1 2 with
                       | "bs" -> IBytesSent (arg ()) | "ps" -> IPacketsSent
                       | "bd" -> IBytesDropped (arg ()) | "pd" -> IPacketsDropped
                       | _ -> failwith ("bad increment " ^ u)) end else
      match String.split_on_char '/' u with
      | [r; len] ->
        let len = n_of_int (int_of_string len) in
        let body = String.sub r 1 (String.length r - 1) in
        if r.[0] = 'k' then begin
          res := ("k" ^ body) :: !res;
          update st { at_len = len; at_res = Some (n_of_int (int_of_string body)) } end
        else begin
          res := ("e" ^ body) :: !res;
          update st { at_len = len; at_res = None } end
      | _ -> failwith ("bad update " ^ u)) stats0 (split_on ',' ups) in
    Printf.sprintf "R:%s|S:%s" (String.concat "," (List.rev !res)) (show_stats st)
  | _ -> "nomodel"
