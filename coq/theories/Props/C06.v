(* C06 — Buffered sinks conserve metrics: accepted means written exactly once.

   Pinned statements about Cadence.Model.Writer for an underlying writer that never
   fails (empty fault script = every attempt answers Ok), all capacities, terminators
   and histories.  Ghost identity of a metric: (index of the emitting operation, bytes).
   [sentL l]: identities carried by the successful whole-line writes of log [l], in order;
   [sentA l]: identities of the successful "alone" (oversized) writes, in order.
   [nzb e g]: the line of [g] (metric ++ terminator) is not empty — a zero-length line
   carries no bytes and is excluded from identity statements (see DESIGN.md 8.C05). *)
Require Import Cadence.Base.Prelude.
Require Import Cadence.Model.Writer.
Require Import Cadence.Proofs.WriterBase.
Require Import Cadence.Proofs.WriterInv.
Require Import Cadence.Proofs.WriterRun.
Require Import Cadence.Proofs.WriterThms.

(* every emit returns Ok(the metric's byte length), every flush Ok *)
Theorem c06_ack : forall c e ops rs s,
  run_from (init c e []) 0 ops = (rs, s) ->
  Forall2 (fun o x => x = OOk (match o with Emit m => length m | Flush => 0 end)) ops rs.
Proof. exact fault_free_all_ok. Qed.

(* after the final drop: the metrics that fit were written exactly once, in emit order
   (the successful line writes carry exactly the emitted fitting metrics, in order, and
   identities are pairwise distinct); the oversized ones exactly once, alone; no write failed *)
Theorem c06_once_in_order : forall c e ops rs s,
  run c e [] ops = (rs, s) ->
  filter (nzb e) (sentL (lg s)) = filter (nzb e) (filter (fitg c e) (emitted 0 ops)) /\
  sentA (lg s) = filter (fun g => negb (fitg c e g)) (emitted 0 ops) /\
  Forall (fun a => a_out a = WOk) (lg s) /\
  NoDup (map fst (emitted 0 ops)).
Proof.
  intros c e ops rs s H. destruct (fault_free_conserve c e ops rs s H) as (A & B & C).
  repeat split; auto. apply emitted_nodup.
Qed.

(* a metric too large for the buffer is written during its own emit *)
Theorem c06_own_emit : forall c e script ops rs s,
  run c e script ops = (rs, s) ->
  Forall (fun a => forall g, a_out a = WOk -> a_lab a = Alone g -> a_op a = fst g) (lg s).
Proof.
  intros c e script ops rs s H. pose proof (own_emit c e script ops rs s H) as F.
  eapply Forall_impl; [|exact F]. intros a Ha g Ho Hl. apply Ha.
  unfold ok_alone. rewrite Ho, Hl. left. reflexivity.
Qed.

(* by the time a flush returns Ok everything acknowledged before it has been written,
   nothing remains buffered ... *)
Theorem c06_flush_point : forall c e script ops rs k s,
  run_from (init c e script) 0 (ops ++ [Flush]) = (rs ++ [OOk k], s) -> length rs = length ops ->
  bbuf s = [] /\ bids s = [] /\ written s = 0 /\
  filter (nzb e) (sentL (lg s)) = filter (nzb e) (filter (fitg c e) (acked 0 ops rs)) /\
  sentA (lg s) = filter (fun g => negb (fitg c e g)) (acked 0 ops rs).
Proof. exact flush_point. Qed.

(* ... so that flushing again writes nothing *)
Theorem c06_flush_idem : forall c e script ops rs s n k s1 n' x s2,
  run_from (init c e script) 0 ops = (rs, s) ->
  step s n Flush = (OOk k, s1) -> step s1 n' Flush = (x, s2) ->
  x = OOk 0 /\ lg s2 = lg s1.
Proof. exact flush_idem. Qed.

(* non-vacuity: a life in which metrics are buffered, auto-flushed, bypassed and dropped *)
Example c06_witness :
  let '(rs, s) := run 8 [10%N] [] [Emit [1;2;3]; Emit [4;5;6]; Emit [7]; Emit [1;1;1;1;1;1;1;1;1]; Flush; Emit [5]]%N in
  (rs, map fst (sentL (lg s)), map fst (sentA (lg s))) =
  ([OOk 3; OOk 3; OOk 1; OOk 9; OOk 0; OOk 1], [0; 1; 2; 5], [3]).
Proof. vm_compute. reflexivity. Qed.

(* ==== added after the audit of 2026-10-02 (selftest/audit/REPORT-2026-10-02.md) ==== *)
Require Import Cadence.Proofs.AuditW.

(* [A.19] what holds for zero-length lines (empty metric, empty terminator), which the identity
   ledgers filter out: with a capacity > 0 the emit answers Ok(0), attempts no write, consumes
   no outcome and leaves the buffer and [written] alone - only the ghost list grows *)
Theorem c06_zero_line_emit : forall c script ops rs s n x s',
  0 < c -> run_from (init c [] script) 0 ops = (rs, s) -> step s n (Emit []) = (x, s') ->
  x = OOk 0 /\ lg s' = lg s /\ sc s' = sc s /\ bbuf s' = bbuf s /\ written s' = written s /\
  bids s' = bids s ++ [(n, [])].
Proof.
  intros c script ops rs s n x s' C R. destruct (reach_inv _ _ _ _ _ _ R) as (I & Cs & E & _).
  apply zero_line_emit; [exact I|exact E|now rewrite Cs].
Qed.

(* ... and why the identity statements cannot include them: an acknowledged zero-length metric
   (operation 0) is forgotten by the flush of an empty buffer; behind a non-empty buffer
   (operation 3) it travels in the label of the next write; with capacity 0 it is written,
   as an empty datagram, twice *)
Example c06_zero_line_forgotten :
  let '(rs, s) := run_from (init 4 [] []) 0 [Emit []; Flush; Emit [7%N]; Emit []; Flush] in
  (rs, map (fun a => (a_bytes a, match a_lab a with Lines ms => map fst ms | Alone g => [fst g] end)) (lg s),
   map fst (sentL (lg s) ++ bids s), map fst (acked 0 [Emit []; Flush; Emit [7%N]; Emit []; Flush] rs)) =
  ([OOk 0; OOk 0; OOk 1; OOk 0; OOk 0], [([7%N], [2; 3])], [2; 3], [0; 2; 3]).
Proof. vm_compute. reflexivity. Qed.

Example c06_zero_line_twice :
  let '(rs, s) := run_from (init 0 [] []) 0 [Emit []] in
  (rs, map (fun a => (a_bytes a, a_out a)) (lg s), map fst (sentL (lg s)), map fst (bids s)) =
  ([OOk 0], [([], WOk); ([], WOk)], [0; 0], []).
Proof. vm_compute. reflexivity. Qed.

(* ==== added after the audit of 2026-10-02 (selftest/audit/REPORT-2026-10-02.md) ==== *)
(* ------------------------------------------------------------------ audit A.6 additions
   "(on the sink, or through the client, including through a queuing wrapper)".  AuditS defines
   client_flush (StatsdClient::flush = self.sink.flush()) and queuing_flush (QueuingMetricSink::flush
   = self.wrapped.flush(), on the caller's thread), the four routes [via] a flush can take, and the
   histories [hop] / hstep / hrun_from / hrun in which every flush names its route; [plain] forgets
   the route. *)
Require Import Cadence.Proofs.AuditS.

(* whatever the route, a flush is the writer's own flush step *)
Theorem c06_flush_routes : forall v s n, flush_via v s n = step s n Flush.
Proof. exact flush_via_is_flush. Qed.

(* so a history with routed flushes IS the writer history with plain flushes at the same places:
   same answers, same final state, same log of underlying writes - for every starting state,
   capacity, terminator and fault script.  Every theorem about run_from / run applies verbatim *)
Theorem c06_wrapped_history : forall ops s n, hrun_from s n ops = run_from s n (map plain ops).
Proof. exact hrun_from_plain. Qed.
Theorem c06_wrapped_life : forall c e script ops, hrun c e script ops = run c e script (map plain ops).
Proof. exact hrun_plain. Qed.

(* c06_ack, c06_once_in_order, c06_flush_point, c06_flush_idem read through the wrappers *)
Theorem c06_wrapped_ack : forall c e ops rs s,
  hrun_from (init c e []) 0 ops = (rs, s) ->
  Forall2 (fun o x => x = OOk (match o with HEmit m => length m | HFlush _ => 0 end)) ops rs.
Proof. exact wrapped_ack. Qed.

Theorem c06_wrapped_once_in_order : forall c e ops rs s,
  hrun c e [] ops = (rs, s) ->
  filter (nzb e) (sentL (lg s)) = filter (nzb e) (filter (fitg c e) (emitted 0 (map plain ops))) /\
  sentA (lg s) = filter (fun g => negb (fitg c e g)) (emitted 0 (map plain ops)) /\
  Forall (fun a => a_out a = WOk) (lg s) /\
  NoDup (map fst (emitted 0 (map plain ops))).
Proof. exact wrapped_once_in_order. Qed.

Theorem c06_wrapped_flush_point : forall c e script ops v rs k s,
  hrun_from (init c e script) 0 (ops ++ [HFlush v]) = (rs ++ [OOk k], s) -> length rs = length ops ->
  bbuf s = [] /\ bids s = [] /\ written s = 0 /\
  filter (nzb e) (sentL (lg s)) = filter (nzb e) (filter (fitg c e) (acked 0 (map plain ops) rs)) /\
  sentA (lg s) = filter (fun g => negb (fitg c e g)) (acked 0 (map plain ops) rs).
Proof. exact wrapped_flush_point. Qed.

Theorem c06_wrapped_flush_idem : forall c e script ops rs s n v k s1 n' v' x s2,
  hrun_from (init c e script) 0 ops = (rs, s) ->
  flush_via v s n = (OOk k, s1) -> flush_via v' s1 n' = (x, s2) ->
  x = OOk 0 /\ lg s2 = lg s1.
Proof. exact wrapped_flush_idem. Qed.

(* non-vacuity: the four routes in one life over a writer whose first write fails; the flush
   through the client reports the error and keeps the line, the one through the queuing wrapper
   sends it with the next, the last finds nothing to do *)
Example c06_wrapped_witness :
  let ops := [HEmit [1;2;3]; HFlush ViaClient; HEmit [4]; HFlush ViaQueuing; HEmit [5;6];
              HFlush ViaClientQueuing; HFlush Direct; HEmit [7]]%N in
  let '(rs, s) := hrun 8 [10%N] [WErr 3%N] ops in
  (rs, map a_bytes (lg s), map a_out (lg s), map fst (sentL (lg s))) =
  ([OOk 3; OErr 3%N; OOk 1; OOk 0; OOk 2; OOk 0; OOk 0; OOk 1],
   [[1;2;3;10]; [1;2;3;10;4;10]; [5;6;10]; [7;10]]%N, [WErr 3%N; WOk; WOk; WOk], [0; 2; 4; 7]).
Proof. vm_compute. reflexivity. Qed.

(* Note after the second read-only review of these pins (selftest/audit/REVIEW-2-2026-10-02.md): the c06_wrapped_* pins and c06_flush_routes hold by construction of AuditS.client_flush / queuing_flush, which model the two wrappers as plain delegation to the wrapped sink's flush (what client.rs / queuing.rs do): they record that modelling decision - a model in which a wrapper did anything else would break them - and add no content beyond c06_ack / c06_once_in_order / c06_flush_point / c06_flush_idem.  That the real wrappers delegate is what harness families CW and QF check.  c06_zero_line_emit speaks about the empty terminator only, which no sink of the crate uses (ext::MultiLineWriter::with_ending can). *)
