(* C06 — Buffered sinks conserve metrics: accepted means written exactly once.

   Pinned statements about Cadence.Model.Writer for an underlying writer that never
   fails (empty fault script = every attempt answers Ok), all capacities, terminators
   and histories.  Ghost identity of a metric: (index of the emitting operation, bytes).
   [sentL l]: identities carried by the successful whole-line writes of log [l], in order;
   [sentA l]: identities of the successful "alone" (oversized) writes, in order.
   [nzb e g]: the line of [g] (metric ++ terminator) is not empty — a zero-length line
   carries no bytes and is excluded from identity statements (see DESIGN.md 8.C05). *)
Require Import Cadence.Base.Prelude.
Require Import Cadence.Model.Writer.
Require Import Cadence.Proofs.WriterBase.
Require Import Cadence.Proofs.WriterInv.
Require Import Cadence.Proofs.WriterRun.
Require Import Cadence.Proofs.WriterThms.

(* every emit returns Ok(the metric's byte length), every flush Ok *)
Theorem c06_ack : forall c e ops rs s,
  run_from (init c e []) 0 ops = (rs, s) ->
  Forall2 (fun o x => x = OOk (match o with Emit m => length m | Flush => 0 end)) ops rs.
Proof. exact fault_free_all_ok. Qed.

(* after the final drop: the metrics that fit were written exactly once, in emit order
   (the successful line writes carry exactly the emitted fitting metrics, in order, and
   identities are pairwise distinct); the oversized ones exactly once, alone; no write failed *)
Theorem c06_once_in_order : forall c e ops rs s,
  run c e [] ops = (rs, s) ->
  filter (nzb e) (sentL (lg s)) = filter (nzb e) (filter (fitg c e) (emitted 0 ops)) /\
  sentA (lg s) = filter (fun g => negb (fitg c e g)) (emitted 0 ops) /\
  Forall (fun a => a_out a = WOk) (lg s) /\
  NoDup (map fst (emitted 0 ops)).
Proof.
  intros c e ops rs s H. destruct (fault_free_conserve c e ops rs s H) as (A & B & C).
  repeat split; auto. apply emitted_nodup.
Qed.

(* a metric too large for the buffer is written during its own emit *)
Theorem c06_own_emit : forall c e script ops rs s,
  run c e script ops = (rs, s) ->
  Forall (fun a => forall g, a_out a = WOk -> a_lab a = Alone g -> a_op a = fst g) (lg s).
Proof.
  intros c e script ops rs s H. pose proof (own_emit c e script ops rs s H) as F.
  eapply Forall_impl; [|exact F]. intros a Ha g Ho Hl. apply Ha.
  unfold ok_alone. rewrite Ho, Hl. left. reflexivity.
Qed.

(* by the time a flush returns Ok everything acknowledged before it has been written,
   nothing remains buffered ... *)
Theorem c06_flush_point : forall c e script ops rs k s,
  run_from (init c e script) 0 (ops ++ [Flush]) = (rs ++ [OOk k], s) -> length rs = length ops ->
  bbuf s = [] /\ bids s = [] /\ written s = 0 /\
  filter (nzb e) (sentL (lg s)) = filter (nzb e) (filter (fitg c e) (acked 0 ops rs)) /\
  sentA (lg s) = filter (fun g => negb (fitg c e g)) (acked 0 ops rs).
Proof. exact flush_point. Qed.

(* ... so that flushing again writes nothing *)
Theorem c06_flush_idem : forall c e script ops rs s n k s1 n' x s2,
  run_from (init c e script) 0 ops = (rs, s) ->
  step s n Flush = (OOk k, s1) -> step s1 n' Flush = (x, s2) ->
  x = OOk 0 /\ lg s2 = lg s1.
Proof. exact flush_idem. Qed.

(* non-vacuity: a life in which metrics are buffered, auto-flushed, bypassed and dropped *)
Example c06_witness :
  let '(rs, s) := run 8 [10%N] [] [Emit [1;2;3]; Emit [4;5;6]; Emit [7]; Emit [1;1;1;1;1;1;1;1;1]; Flush; Emit [5]]%N in
  (rs, map fst (sentL (lg s)), map fst (sentA (lg s))) =
  ([OOk 3; OOk 3; OOk 1; OOk 9; OOk 0; OOk 1], [0; 1; 2; 5], [3]).
Proof. vm_compute. reflexivity. Qed.
