"""C12: several threads through one shared StatsdClient into one buffered sink.

The harness (bin conc, hook H2) reports, per case, the critical-section events of the sink in
global order, what every thread handed to the sink with the sink's answers, and the datagrams
that left.  The driver (i) checks mutual exclusion and that every underlying write lies inside
the critical section of a call of the writing thread, (ii) replays the extracted model
(Merge.conc_sink: the sequential writer executed in the observed lock order) and compares
results and datagrams, (iii) evaluates the clauses of the property (framing, exactly-once,
per-thread order, acknowledgements) directly on the datagrams."""
import random

from . import common
from .common import Report, case_hash
from .writer import segment


def hx(b):
    return b.hex() if b else "-"


def unhx(s):
    return b"" if s == "-" else bytes.fromhex(s)


# ----------------------------------------------------------------------------- generation

def pad_to(base, n):
    """a key starting with [base] such that the client's line `key:<idx>|c` has n bytes, if possible"""
    return base


def gen_prog(rng, tid, nops, cap, sink):
    ops = []
    for j in range(nops):
        r = rng.random()
        if r < 0.12:
            ops.append(rng.choice(["F", "f"]))
            continue
        # line length (without the newline) aimed at: a fraction of the capacity, the exact fit, one more
        target = rng.choice([cap // 4, cap // 3, cap // 2, cap - 2, cap - 1, cap, cap + 1, 3, 5, 9, 14])
        if sink != "S":
            target = min(target, 1400)
        target = max(target, 0)
        if rng.random() < 0.7:
            base = "t%d.%d" % (tid, j)
            suffix = ":%d|c" % j
            k = max(0, target - len(base) - len(suffix))
            key = base + "k" * k
            ops.append(("G" if rng.random() < 0.08 else "C") + hx(key.encode()))     # G / g: from a destructor while unwinding
        else:
            base = "t%d.%d" % (tid, j)
            suffix = ":1|g"
            k = max(0, target - len(base) - len(suffix))
            m = base + "e" * k + suffix
            ops.append(("g" if rng.random() < 0.08 else "E") + hx(m.encode()))
    return ops


def gen_plan(rng, progs):
    """a schedule that lets every thread finish; about a third of the steps are contended"""
    left = [len(p) for p in progs]
    plan = []
    n = len(progs)
    while any(left):
        alive = [t for t in range(n) if left[t]]
        t = rng.choice(alive)
        others = [u for u in alive if u != t]
        if others and rng.random() < 0.4:
            k = rng.choice([1, 1, 2, 3])
            us = rng.sample(others, min(k, len(others)))
            plan.append("+".join(str(x) for x in [t] + us))
            for x in [t] + us:
                left[x] -= 1
        else:
            plan.append(str(t))
            left[t] -= 1
    return ",".join(plan)


def gen_directed():
    """every ordered pair of operation kinds (small / exact-fit / oversized emit, flush) with the first one holding the
    lock while the second arrives, after a small metric has been buffered; each buffered sink, two capacities"""
    cases = []
    for sink in ("S", "U", "X"):
        for cap in (16, 40):
            def emit(tid, j, n, direct):
                base = "t%d.%d" % (tid, j)
                if direct:
                    suffix = ":1|g"
                    return "E" + hx((base + "e" * max(0, n - len(base) - len(suffix)) + suffix).encode())
                suffix = ":%d|c" % j
                return "C" + hx((base + "k" * max(0, n - len(base) - len(suffix))).encode())
            kinds = {"small": lambda t, j: emit(t, j, 7, False), "fit": lambda t, j: emit(t, j, cap - 1 - 8, True),
                     "big": lambda t, j: emit(t, j, cap + 5, j % 2 == 0), "flush": lambda t, j: "F" if t == 0 else "f"}
            for a in kinds:
                for b in kinds:
                    p0 = [emit(0, 0, 7, True), kinds[a](0, 1), emit(0, 2, 6, False)]
                    p1 = [kinds[b](1, 0), emit(1, 1, 7, True)]
                    # t0 buffers a small metric; then t0's [a] holds the lock while t1's [b] arrives; the rest in turn
                    cases.append("C %s %d u seq 1 %s/%s 0,0+1,1,0" % (sink, cap, ",".join(p0), ",".join(p1)))
                    # the other way round: t1's [b] holds while t0's [a] arrives
                    cases.append("C %s %d u seq 1 %s/%s 0,1+0,1,0" % (sink, cap, ",".join(p0), ",".join(p1)))
                    # an uncontended flush right after the overlap (by either thread), nothing emitted in between: it must
                    # deliver whatever the overlapping calls left buffered
                    for fl in ("F", "f"):
                        q0 = [emit(0, 0, 7, True), kinds[a](0, 1), fl, emit(0, 3, 6, False)]
                        q1 = [kinds[b](1, 0), fl, emit(1, 2, 7, True)]
                        cases.append("C %s %d u seq 1 %s/%s 0,0+1,0,1,0,1" % (sink, cap, ",".join(q0), ",".join(q1)))
                        cases.append("C %s %d u seq 1 %s/%s 0,1+0,1,0,0,1" % (sink, cap, ",".join(q0), ",".join(q1)))
    return cases


def merges(a, b):
    """all interleavings of a steps of thread 0 and b steps of thread 1"""
    if a == 0 or b == 0:
        return [[0] * a + [1] * b]
    return [[0] + m for m in merges(a - 1, b)] + [[1] + m for m in merges(a, b - 1)]


def gen_exhaustive_merges(n0, n1, sinks=("S",), caps=(16,), stride=1):
    """EVERY program pair of two threads with n0 / n1 operations over {small emit, emit that fills the buffer exactly,
    oversized emit, flush} in EVERY order in which their critical sections can follow each other (the sink's lock makes
    each call atomic, so these orders are all the interleavings there are at that granularity)"""
    import itertools
    cases = []
    k = 0
    for sink in sinks:
        for cap in caps:
            def op(kind, t, j):
                base = "t%d.%d" % (t, j)
                if kind == "f":
                    return "F" if (t + j) % 2 == 0 else "f"
                n = {"s": 6, "x": cap - 1, "b": cap + 3}[kind]
                suffix = ":1|g"
                return "E" + hx((base + "e" * max(0, n - len(base) - len(suffix)) + suffix).encode())
            for k0 in itertools.product("sxbf", repeat=n0):
                for k1 in itertools.product("sxbf", repeat=n1):
                    for m in merges(n0, n1):
                        k += 1
                        if k % stride:
                            continue
                        p0 = [op(x, 0, j) for j, x in enumerate(k0)]
                        p1 = [op(x, 1, j) for j, x in enumerate(k1)]
                        cases.append("C %s %d u seq 1 %s/%s %s" % (sink, cap, ",".join(p0), ",".join(p1), ",".join(map(str, m))))
    return cases


def gen_cases(rng, n_seq, n_free):
    cases = gen_directed()
    # every order of the critical sections of every small program pair
    big = n_seq + n_free > 5000
    cases += gen_exhaustive_merges(2, 2, ("S",), (16, 9) if big else (16,))
    cases += gen_exhaustive_merges(2, 2, ("U", "X"), (16,), stride=1 if big else 8)
    if big:
        cases += gen_exhaustive_merges(3, 2, ("S",), (16,)) + gen_exhaustive_merges(3, 3, ("S",), (12,), stride=4)
    # fixed ones first: every sink, contended hand-over at the exact fit
    cases.append("C S 16 u seq 1 C74302e61,C74302e62,F/C74312e61,E74312e783a317c63/C7432 0,1,2,0+1,1,0")
    cases.append("C U d u seq 1 C74302e61,C74302e62,F/C74312e61,E74312e783a317c63/C7432 0+1+2,0+1,0")
    cases.append("C X 8 u seq 3 C74302e61,C74302e62,F/C74312e61,E74312e783a317c63/C7432 0+1,1+0,2+0")
    cases.append("C S 16 1 seq 1 C74302e61,C74302e62,F/C74312e61,E74312e783a317c63/C7432 0,1,2,0+1,1,0")
    # back-pressure: a non-blocking Unix socket whose listener is not read while the threads run (WouldBlock once its
    # queue is full); nothing may hang, framing and exactly-once hold for what arrives
    for k in range(max(6, (n_seq + n_free) // 25)):
        nth = rng.choice([2, 3])
        cap = rng.choice([8, 16, 24])
        progs = [gen_prog(rng, t, rng.choice([12, 20]), cap, "X") for t in range(nth)]
        free = k % 2 == 0
        cases.append("C N %d u %s %d %s %s" % (cap, "free" if free else "seq", rng.randrange(1 << 30),
                                               "/".join(",".join(p) for p in progs), "-" if free else gen_plan(rng, progs)))
    for i in range(n_seq + n_free):
        free = i >= n_seq
        sink = rng.choice(["S", "S", "S", "U", "X"])
        capt = rng.choice(["d", "0", "1", "8", "16", "24", "32", "64", "128"])
        cap = 512 if capt == "d" else int(capt)
        queue = "u"
        if sink == "S" and rng.random() < 0.2:
            queue = str(rng.choice([0, 1, 2, 5]))
        nth = rng.choice([2, 2, 3, 3, 4, 6, 8]) if free else rng.choice([2, 2, 3, 3, 4])
        progs = [gen_prog(rng, t, rng.choice([1, 2, 4, 12, 25] if free else [1, 2, 3, 5, 7]), cap, sink) for t in range(nth)]
        plan = "-" if free else gen_plan(rng, progs)
        cases.append("C %s %s %s %s %d %s %s" % (
            sink, capt, queue, "free" if free else "seq", rng.randrange(1 << 30),
            "/".join(",".join(p) or "-" for p in progs), plan))
    return cases


# ----------------------------------------------------------------------------- analysis

def parse_obs(obs):
    parts = {}
    for x in obs.split("|"):
        k, _, v = x.partition(":")
        parts[k] = v
    ev = []
    if parts.get("V"):
        for e in parts["V"].split("."):
            ev.append((e[:-1], e[-1]))
    tlog = []
    tstamps = []
    for th in parts.get("T", "").split(";"):
        calls = []
        stamps = []
        if th:
            for c in th.split(","):
                m, _, r = c.partition("=")
                r, _, st = r.partition("@")
                calls.append((m, r))
                stamps.append(tuple(int(x) for x in st.split(".")) if st else None)
        tstamps.append(stamps)
        tlog.append(calls)
    res = parts.get("R", "").split(";")
    dg = [unhx(d) for d in parts["D"].split(";")] if parts.get("D") else []
    return {"events": ev, "tlog": tlog, "stamps": tstamps, "res": res, "dg": dg, "notes": parts.get("H", "")}


def check_events(o, nthreads):
    """(i) mutual exclusion; every underlying write inside a critical section of the writing thread (the final
    drop, on another thread and after every call, excepted); one critical section per sink call.
    Returns (problem or None, lock order)."""
    holder = None
    order = []
    ncs = [0] * nthreads
    for i, (role, code) in enumerate(o["events"]):
        if code == "e":
            if holder is not None:
                return "event %d: thread %s entered the sink's critical section while thread %s was inside" % (i, role, holder), order
            holder = role
            if role != "m":
                order.append(int(role))
                ncs[int(role)] += 1
        elif code == "x":
            if holder != role:
                return "event %d: thread %s left a critical section it was not in (holder %s)" % (i, role, holder), order
            holder = None
        elif code == "w":
            if role == "m":
                if holder is not None:
                    return "event %d: a write from outside (drop) while thread %s was inside the critical section" % (i, holder), order
            elif holder != role:
                return "event %d: thread %s wrote to the socket outside its critical section (holder %s)" % (i, role, holder), order
    if holder is not None:
        return "a critical section was never left (thread %s)" % holder, order
    for t in range(nthreads):
        if t < len(o["tlog"]) and ncs[t] != len(o["tlog"][t]):
            return "thread %d made %d sink calls but entered the critical section %d times" % (t, len(o["tlog"][t]), ncs[t]), order
    return None, order


def clauses(case, o):
    """(iii) the property's clauses on the datagrams"""
    t = case.split()
    cap = 512 if t[2] == "d" else int(t[2])
    faults = t[3] != "u" or t[1] == "N"
    bad = []
    for th, calls in enumerate(o["tlog"]):
        for m, r in calls:
            if m != "F" and not faults and r != "k%d" % len(unhx(m)):
                bad.append("thread %d: emit of %d bytes returned %s, expected Ok(%d)" % (th, len(unhx(m)), r, len(unhx(m))))
            if m == "F" and not faults and r != "k0":
                bad.append("thread %d: flush returned %s" % (th, r))
    for th, r in enumerate(o["res"]):
        if "P" in r:
            bad.append("thread %d: a call panicked (%s)" % (th, r))
        if not faults and "R" in r:
            bad.append("thread %d: a call returned an error although the socket accepted everything (%s)" % (th, r))
    # identities: (thread, index in the thread's sink calls)
    ident = {}
    for th, calls in enumerate(o["tlog"]):
        for j, (m, r) in enumerate(calls):
            if m != "F":
                ident[(th, j)] = (unhx(m), r)
    lines = {k: v[0] + b"\n" for k, v in ident.items() if len(v[0]) + 1 <= cap}
    big = {}
    for k, v in ident.items():
        if len(v[0]) + 1 > cap:
            big.setdefault(v[0], []).append(k)
    seen = []          # identities in stream order
    used = set()
    for i, d in enumerate(o["dg"]):
        if d in big and big[d]:
            cand = [k for k in big[d] if k not in used] or big[d]
            seen.append(cand[0])
            used.add(cand[0])
            continue
        ids = segment(d, lines, used)
        if ids is None or len(d) > cap:
            bad.append("datagram %d (%d bytes: %r) is neither whole lines within %d bytes nor one oversized metric alone" % (
                i, len(d), d[:60], cap))
            continue
        for k in ids:
            seen.append(k)
            used.add(k)
    if len(seen) != len(set(seen)):
        dup = sorted(k for k in set(seen) if seen.count(k) > 1)
        bad.append("metric %s (thread, call) left more than once" % (dup[0],))
    if not faults:
        for k, (m, r) in sorted(ident.items()):
            if r.startswith("k") and k not in used and m + b"\n" != b"":
                bad.append("metric %r of thread %d (call %d) was acknowledged but never left" % (m[:40], k[0], k[1]))
                break
    for k in seen:
        if k in ident and not ident[k][1].startswith("k") and len(ident[k][0]) + 1 > cap:
            bad.append("metric of thread %d (call %d) left although its emit reported an error" % k)
    # a flush that returned Ok: every metric whose emit had returned Ok before the flush was called has been written by
    # the time the flush returns (stamps: global clock at start/end of each call, underlying writes made so far)
    if not faults:
        where = {}                # identity -> index of the datagram it left in
        usedp = set()
        for i, d in enumerate(o["dg"]):
            if d in big and big[d]:
                cand = [k for k in big[d] if k not in usedp] or big[d]
                where.setdefault(cand[0], i)
                usedp.add(cand[0])
                continue
            for k in segment(d, lines, usedp) or []:
                where.setdefault(k, i)
                usedp.add(k)
        flushes = []
        for th, calls in enumerate(o["tlog"]):
            for j, (m, r) in enumerate(calls):
                st = o["stamps"][th][j]
                if m == "F" and r == "k0" and st:
                    flushes.append((st, th))
        for (f0, f1, fw), fth in flushes:
            done = False
            for th, calls in enumerate(o["tlog"]):
                for j, (m, r) in enumerate(calls):
                    st = o["stamps"][th][j]
                    if m != "F" and r.startswith("k") and st and st[1] < f0 and where.get((th, j), 10 ** 9) >= fw:
                        bad.append("flush by thread %d returned Ok while the metric of thread %d (call %d), acknowledged "
                                   "before the flush was called, had not been written" % (fth, th, j))
                        done = True
                        break
                if done:
                    break
            if done:
                break
    # per-thread order of the buffered (fitting) metrics
    for th in range(len(o["tlog"])):
        mine = [k[1] for k in seen if k[0] == th and k in lines]
        if mine != sorted(mine):
            bad.append("thread %d's buffered metrics left out of program order: calls %s" % (th, mine))
    return bad


def model_case(case, o, order):
    t = case.split()
    progs = []
    for calls in o["tlog"]:
        progs.append(",".join("F" if m == "F" else "E" + m for m, r in calls) or "-")
    return "CM %s %s %s %s" % (t[2], t[3], ",".join(str(x) for x in order) or "-", "/".join(progs))


def model_view(o, faults):
    tl = []
    for calls in o["tlog"]:
        tl.append(",".join(("e" if r.startswith("e") else r) for m, r in calls))
    return "T:%s|D:%s" % (";".join(tl), ";".join(hx(d) for d in o["dg"]))


TRUSTED = [
    "Coq 8.16.1 kernel; Print Assumptions of every pinned theorem closed under the global context",
    "extraction: Require Extraction + ExtrOcamlBasic only",
    "hand-written glue: ocaml/run_conc.ml, harness/src/conc.rs (thread driver, hook callback, Tee sink), driver/conc.py",
    "hook H2 (cadence/src/verif.rs; sink.cs.enter / sink.write / sink.cs.exit points, cfg cadence_verif only)",
    "modelled, not verified: std::sync::Mutex (mutual exclusion; validated on every observed event trace), "
    "std::io::BufWriter, crossbeam try_send of the spy sink, UdpSocket/UnixDatagram::send_to (one datagram, all-or-nothing)",
]
ASSUMPTIONS = [
    "each call of emit/flush on a buffered sink is one atomic step (the Mutex guard covers the whole call): assumed by the "
    "theorems, checked on every observed trace (no two threads inside, every underlying write inside the writer's own section)",
    "schedules are sampled (forced hand-overs while another thread waits for the lock, free runs with injected yields), not "
    "enumerated; the theorems cover all interleavings of atomic calls",
    "loopback UDP / Unix datagram sockets deliver every datagram in order (a collector thread keeps the receive queue short)",
]


def check_C12(tier, seed):
    prop = "C12"
    rep = Report(prop, tier, seed, level="proof")
    rep.cov["trusted_base"] = TRUSTED
    rep.assumptions = ASSUMPTIONS
    rep.add_audit(common.audit_proofs(prop))
    if not common.ensure_built(rep):
        return rep.finish()
    rng = random.Random(seed)
    thorough = tier == "thorough"
    cases = gen_cases(rng, 40000 if thorough else 260, 20000 if thorough else 90)
    try:
        impl = common.run_harness("conc", cases, shards=min(8, common.NCPU))
    except common.CheckFailure as e:
        rep.violation_noinput("correspondence run failed", {"error": str(e)})
        return rep.finish()
    obs = []
    failures = []
    broken = []      # the trace cannot be aligned with the calls: atomicity of the calls cannot be validated
    mcases = []
    for c, raw in zip(cases, impl):
        if raw.startswith("HARNESS-PANIC"):
            failures.append((len(c), c, raw, "the harness case panicked: " + raw[:200]))
            obs.append(None)
            mcases.append(None)
            continue
        o = parse_obs(raw)
        obs.append(o)
        nth = len(c.split()[6].split("/"))
        prob, order = check_events(o, nth)
        for b in clauses(c, o):
            failures.append((len(c), c, raw, b))
        if prob and "sink calls but entered" in prob:
            broken.append((len(c), c, raw, prob))
        elif prob:
            failures.append((len(c) + 10 ** 6, c, raw, "critical section: " + prob))
        if "timeout" in o["notes"] or "droppanic" in o["notes"]:
            failures.append((len(c), c, raw, "a call did not return / the final drop panicked (%s)" % o["notes"]))
        mcases.append(model_case(c, o, order))
    idx = [i for i, m in enumerate(mcases) if m is not None]
    try:
        mout = common.run_model("conc", [mcases[i] for i in idx])
    except common.CheckFailure as e:
        rep.violation_noinput("model run failed", {"error": str(e)})
        return rep.finish()
    # extraction + glue against the kernel: sampled replays (model cases in the observed lock order) proved by vm_compute
    common.kernel_crosscheck(rep, "conc", [mcases[i] for i in idx], 150 if thorough else 60)
    dis = []
    for i, mo in zip(idx, mout):
        if cases[i].split()[1] == "N":
            continue        # which sends the OS refuses is not the model's to predict: judged on the observation only
        faults = cases[i].split()[3] != "u"
        mv, _, left = mo.rpartition("|L:")
        if mv != model_view(obs[i], faults) or left != "0":
            dis.append((len(cases[i]), cases[i], impl[i], mcases[i], mo))
    # the shared buffer under real back-pressure: a non-blocking Unix socket whose listener falls behind (WouldBlock) and
    # reads again - every line acknowledged with Ok, whoever emitted it, leaves exactly once (sock family XW, buffered)
    from . import sock as sock_driver
    xw = sock_driver.xw_buffered_cases()
    try:
        xwo = common.run_harness("sock", xw, shards=1)
    except common.CheckFailure as e:
        xwo = ["HARNESS-PANIC " + str(e)[:200]] * len(xw)
    for c, o in zip(xw, xwo):
        for pid, msg in sock_driver.judge(c, o):
            if pid == "C12":
                failures.append((len(c), c, o, msg))
    rep.cov["backpressure_cases"] = len(xw)
    if failures:
        failures.sort()
        _, c, raw, msg = failures[0]
        rep.violation_input("%s (%d failing cases; smallest shown)" % (msg[:300], len(failures)),
                            {"bin": "sock" if c.startswith("XW") else "conc", "case": c, "implementation": raw[:4000], "clause": msg,
                             "how": "build/target/release/harness conc <file with the case line> (schedules are forced where the "
                                    "plan says t+u; free runs may need repeating)"})
    if broken and not failures:
        broken.sort()
        _, c, raw, prob = broken[0]
        rep.violation_noinput(
            "correspondence broken on %d cases: the critical sections observed through hook H2 do not match the calls made "
            "(%s); that every emit/flush is one atomic step under the sink's mutex - what the theorems of Props/C12.v assume - "
            "can no longer be validated" % (len(broken), prob),
            {"correspondence": "one critical section (sink.cs.enter .. sink.cs.exit) per emit/flush on the shared buffered sink",
             "theorems": rep.cov.get("theorems", []), "first_disagreeing_case": c, "implementation": raw[:4000]})
    if dis and not failures and not broken:
        dis.sort()
        _, c, raw, mc, mo = dis[0]
        rep.violation_noinput(
            "correspondence Model/{Merge,Writer}.v <-> buffered sinks under concurrency broken on %d cases: replaying the "
            "model in the observed lock order does not reproduce the results / datagrams; the theorems of Props/C12.v no "
            "longer speak about this code" % len(dis),
            {"correspondence": "Merge.conc_sink (sequential writer in the observed lock order) vs the shared buffered sink",
             "theorems": rep.cov.get("theorems", []), "first_disagreeing_case": c, "implementation": raw[:4000],
             "model_case": mc[:4000], "model": mo[:4000]})
    # coverage figures
    nt = set()
    dist = {"sinks": {}, "modes": {}, "threads": {}, "contended_steps": 0, "forced_handovers_observed": 0,
            "interleaved_lock_orders": 0, "distinct_lock_orders": 0, "sink_calls": 0, "datagrams": 0, "bounded_queue": 0,
            "holder_did_not_park": 0}
    orders = set()
    for c, o in zip(cases, obs):
        if o is None:
            continue
        t = c.split()
        dist["sinks"][t[1]] = dist["sinks"].get(t[1], 0) + 1
        dist["modes"][t[4]] = dist["modes"].get(t[4], 0) + 1
        nth = len(t[6].split("/"))
        dist["threads"][str(nth)] = dist["threads"].get(str(nth), 0) + 1
        dist["contended_steps"] += t[7].count("+")
        dist["sink_calls"] += sum(len(x) for x in o["tlog"])
        dist["datagrams"] += len(o["dg"])
        dist["bounded_queue"] += 1 if t[3] != "u" else 0
        dist["holder_did_not_park"] += o["notes"].count("nopark")
        order = [r for r, code in o["events"] if code == "e"]
        orders.add((t[6], tuple(order)))
        switches = sum(1 for a, b in zip(order, order[1:]) if a != b)
        if switches >= nth:      # more thread switches than a run of whole programs one after the other has
            dist["interleaved_lock_orders"] += 1
            nt.add(case_hash(c))
        elif "+" in t[7]:
            nt.add(case_hash(c))
    dist["distinct_lock_orders"] = len(orders)
    rep.cov["evaluations"] = len(cases)
    rep.cov["distinct_nontrivial"] = len(nt)
    rep.cov["exhaustive"] = False
    rep.cov["exhaustive_part"] = ("every pair of 2-operation programs over {small / exact-fill / oversized emit, flush} in every "
                                  "order of their critical sections on the buffered spy sink (1536 cases; thorough: 3x2 and a "
                                  "quarter of 3x3 as well); the remaining schedules are sampled")
    rep.cov["rule"] = (
        "seeded random programs (2-8 threads; emits through the shared StatsdClient and directly on the shared sink, flushes; "
        "line lengths around a fraction of the capacity, the exact fit and one more; capacities 0..128 and the default 512) "
        "on BufferedSpyMetricSink (unbounded and bounded never-drained queue), BufferedUdpMetricSink and "
        "BufferedUnixMetricSink over real local sockets; schedules: forced (a thread is parked inside the critical section "
        "through hook H2 while 1-3 others arrive at the lock) and free-running with injected yields.  Per case: event trace "
        "checked for mutual exclusion and write containment, extracted model replayed in the observed lock order and "
        "compared (per-call results, datagrams), clauses of the property evaluated on the datagrams.  distinct_nontrivial = "
        "distinct cases with a contended hand-over or an observed lock order that switches threads more often than "
        "running the programs one after the other would")
    small = [(c, r) for c, r in zip(cases, impl) if len(c) + len(r) < 500]
    rep.cov["samples"] = [{"case": c, "implementation": r} for c, r in small[:2] + small[4::max(1, len(small) // 3)][:3]]
    rep.cov["disagreements"] = len(dis)
    rep.cov["input_distribution"] = dist
    rep.cov["design_ref"] = "DESIGN.md 8.C12"
    return rep.finish()


def replay(prop, data):
    r = data.get("replay", {})
    c = r.get("case") or r.get("first_disagreeing_case")
    if not c:
        print("nothing to replay")
        return 2
    if r.get("bin") == "sock":
        from . import sock as sock_driver
        return common.replay_case(prop, data, "sock", lambda p, case, obs: [m for q, m in sock_driver.judge(case, obs) if q == p])
    out = common.run_harness("conc", [c], shards=1)[0]
    print(out)
    o = parse_obs(out)
    prob, order = check_events(o, len(c.split()[6].split("/")))
    bad = clauses(c, o) + (["critical section: " + prob] if prob else [])
    for b in bad:
        print("  clause fails:", b)
    return 1 if bad else 0
