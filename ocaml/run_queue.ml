(* model: queue *)
(* model side of harness bin `queue` (formats: harness/src/queue.rs) *)

let parse_action a =
  let arg = String.sub a 1 (String.length a - 1) in
  match a.[0] with
  | 'E' -> AEmit | 'C' -> AClone | 'D' -> ADrop | 'S' -> ASample
  | 'R' -> ARelease (if arg = "k" then SOk else if arg = "p" then SPanic
                     else SErr (nat_of_int (int_of_string (String.sub arg 1 (String.length arg - 1)))))
  | _ -> failwith ("bad action " ^ a)

let show_out = function SOk -> "k" | SPanic -> "p" | SErr e -> "e" ^ string_of_int (int_of_nat e)

let run_fixed fixed line =
  match tokens line with
  | ["Q"; cap; handler; actions] ->
    let cap = if cap = "u" then None else Some (nat_of_int (int_of_string cap)) in
    let s0 = init_q cap (handler = "1") in
    (* the harness settles once after construction *)
    let s0 = settle fixed (fuel_of s0) s0 in
    (* F<h> (flush on a handle) does not touch the queue: no model event, observation "l" *)
    let toks = split_on ',' actions in
    let (s, outs) = List.fold_left (fun (s, acc) tok ->
      if tok.[0] = 'F' then (s, "l" :: acc) else
      let a = parse_action tok in
      let gate_busy = (match s.q_wk with WCounted _ -> true | _ -> false) in
      let (s', o) = act fixed s a in
      let txt = match a with
        | AEmit -> (match o.ob_result with ROk -> "k" | RFull -> "f" | RNone -> "x")
        | AClone -> "c" | ADrop -> "d"
        | ARelease _ -> if gate_busy then "r" else "r-"
        | ASample -> (match o.ob_sample with
            | Some (((a, b), c), d) -> Printf.sprintf "s%d.%d.%d.%d" (int_of_nat a) (int_of_nat b) (int_of_nat c) (int_of_nat d)
            | None -> "s?") in
      (s', txt :: acc)) (s0, []) toks in
    let dl = List.map (fun (id, o) -> Printf.sprintf "%d:%s" (int_of_nat id) (show_out o)) s.q_delivered in
    let positions = List.filter_map (fun x -> x)
      (List.mapi (fun i (_, o) -> match o with SErr _ -> Some (i + 1) | _ -> None) s.q_delivered) in
    let hd =
      if List.length positions = List.length s.q_handled then
        List.map2 (fun (id, e) p -> Printf.sprintf "%d:%d@%d" (int_of_nat id) (int_of_nat e) p) s.q_handled positions
      else List.map (fun (id, e) -> Printf.sprintf "%d:%d@?" (int_of_nat id) (int_of_nat e)) s.q_handled in
    Printf.sprintf "A:%s|DL:%s|H:%s|X:rel%d" (String.concat "," (List.rev outs)) (String.concat ";" dl)
      (String.concat ";" hd) (if sink_released s then 1 else 0)
  | _ -> failwith ("bad queue case: " ^ line)

(* sub-step schedules (harness mode QH): one model event per token *)
let parse_event e =
  match e.[0] with
  | 'T' -> ETrySend | 'I' -> EIncSubmitted | 'W' -> EWDequeue | 'X' -> EWStep
  | 'A' -> ESampleA | 'B' -> ESampleB | 'C' -> EClone | 'D' -> EDropH | 'P' -> EPillSend
  | 'F' -> let arg = String.sub e 1 (String.length e - 1) in
    EWFinish (if arg = "k" then SOk else if arg = "p" then SPanic
              else SErr (nat_of_int (int_of_string (String.sub arg 1 (String.length arg - 1)))))
  | _ -> failwith ("bad event " ^ e)

let run_sched fixed line =
  match tokens line with
  | ["QH"; cap; handler; events] ->
    let cap = if cap = "u" then None else Some (nat_of_int (int_of_string cap)) in
    let evs = List.map parse_event (split_on ',' events) in
    let rec go s evs acc nsamp =
      match evs with
      | [] -> Some (s, List.rev acc)
      | ev :: rest ->
        (match step fixed s ev with
         | None -> None
         | Some (s', r) ->
           let txt = match ev, r with
             | ETrySend, ROk -> "k" | ETrySend, RFull -> "f"
             | ESampleB, _ ->
               (match List.nth_opt s'.q_samples nsamp with
                | Some (q, sub) -> Printf.sprintf "s%d.%d" (int_of_nat q) (int_of_nat sub)
                | None -> "s?")
             | _, _ -> "-" in
           go s' rest (txt :: acc) (match ev with ESampleB -> nsamp + 1 | _ -> nsamp)) in
    (match go (init_q cap (handler = "1")) evs [] 0 with
     | None -> "invalid"
     | Some (s, outs) ->
       let dl = List.map (fun (id, o) -> Printf.sprintf "%d:%s" (int_of_nat id) (show_out o)) s.q_delivered in
       Printf.sprintf "R:%s|F:%d.%d.%d|DL:%s" (String.concat "," outs)
         (int_of_nat s.q_submitted) (int_of_nat s.q_drained) (int_of_nat s.q_panics) (String.concat ";" dl))
  | _ -> failwith ("bad QH case: " ^ line)

let run_case line =
  if String.length line > 2 && String.sub line 0 2 = "QH" then run_sched true line
  else run_fixed true line

(* the same Q case as a Gallina equation (kernel cross-check of the extracted machine) *)
let g_sout = function SOk -> "SOk" | SPanic -> "SPanic" | SErr e -> "(SErr " ^ g_nat e ^ ")"
let g_action = function
  | AEmit -> "AEmit" | AClone -> "AClone" | ADrop -> "ADrop" | ASample -> "ASample"
  | ARelease o -> "(ARelease " ^ g_sout o ^ ")"
let g_result = function ROk -> "ROk" | RFull -> "RFull" | RNone -> "RNone"
let g_bool b = if b then "true" else "false"

let coq_header =
  "Require Import Cadence.Base.Prelude Cadence.Model.Queue.\n" ^
  "Definition kq (r : qstate * list obs) := (map (fun o => (ob_result o, ob_sample o)) (snd r), q_delivered (fst r), " ^
  "q_handled (fst r), (q_submitted (fst r), q_drained (fst r), q_panics (fst r)), sink_released (fst r)).\n"

let coq_case line =
  match tokens line with
  | ["Q"; cap; handler; actions] when String.length actions < 400 ->
    let capv = if cap = "u" then None else Some (nat_of_int (int_of_string cap)) in
    let h = (handler = "1") in
    let acts_l = List.map parse_action (List.filter (fun t -> t.[0] <> 'F') (split_on ',' actions)) in
    let s0 = init_q capv h in
    let (s, os) = acts true (settle true (fuel_of s0) s0) acts_l in
    let init = Printf.sprintf "(init_q %s %s)" (g_option g_nat capv) (g_bool h) in
    let lhs = Printf.sprintf "kq (acts true (settle true (fuel_of %s) %s) %s)" init init
        (if acts_l = [] then "(@nil action)" else g_list g_action acts_l) in
    let g_obs o = "(" ^ g_result o.ob_result ^ ", " ^
      (match o.ob_sample with
       | None -> "(@None (nat * nat * nat * nat))"
       | Some (((a, b), c), d) -> Printf.sprintf "(Some (%s, %s, %s, %s))" (g_nat a) (g_nat b) (g_nat c) (g_nat d)) ^ ")" in
    let rhs = Printf.sprintf "(%s, %s, %s, (%s, %s, %s), %s)"
        (if os = [] then "(@nil (result * option (nat * nat * nat * nat)))" else g_list g_obs os)
        (if s.q_delivered = [] then "(@nil (nat * soutcome))"
         else g_list (fun (i, o) -> "(" ^ g_nat i ^ ", " ^ g_sout o ^ ")") s.q_delivered)
        (if s.q_handled = [] then "(@nil (nat * nat))"
         else g_list (fun (i, e) -> "(" ^ g_nat i ^ ", " ^ g_nat e ^ ")") s.q_handled)
        (g_nat s.q_submitted) (g_nat s.q_drained) (g_nat s.q_panics) (g_bool (sink_released s)) in
    Some (lhs ^ " = " ^ rhs)
  | _ -> None
