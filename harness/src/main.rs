//! Correspondence harness: runs the real cadence crates (path dependency on
//! /repo, built from its current working tree) on the cases of a case file and
//! prints one canonical observation line per case.
mod mlw;
mod util;

use std::io::{BufRead, Write};

fn main() {
    let args: Vec<String> = std::env::args().collect();
    if args.len() < 3 {
        eprintln!("usage: harness <bin> <casefile> [args...]");
        std::process::exit(2);
    }
    util::quiet_panics();
    let f = std::fs::File::open(&args[2]).expect("case file");
    let out = std::io::stdout();
    let mut out = std::io::BufWriter::new(out.lock());
    for line in std::io::BufReader::new(f).lines() {
        let line = line.unwrap();
        let line = line.trim();
        if line.is_empty() || line.starts_with('#') {
            continue;
        }
        let obs = match args[1].as_str() {
            "mlw" => mlw::run_case(line),
            other => {
                eprintln!("unknown bin {}", other);
                std::process::exit(2);
            }
        };
        writeln!(out, "{}", obs).unwrap();
    }
}
