(* Model of the 22 [impl To*Value for ...] blocks of cadence/src/client.rs: which
   (kind, value type) pairs exist and what MetricValue each produces, including the
   u128 guard + narrowing cast of the Duration conversions.  Definitions only. *)
Require Import Cadence.Base.Prelude.

Inductive kind := Counter | Timer | Gauge | Meter | Histogram | Distribution | SetK.

(* builder.rs MetricValue; a float is carried as the text std's [impl Display for f64]
   gives for it (std, not cadence: see DESIGN.md section 3) *)
Inductive mvalue :=
| Signed (z : Z) | PackedSigned (l : list Z)
| Unsigned (n : N) | PackedUnsigned (l : list N)
| Float (t : str) | PackedFloat (l : list str).

(* std::time::Duration: whole seconds (u64) and sub-second nanoseconds (< 10^9) *)
Record duration := { secs : N; nanos : N }.
Definition dur_ok (d : duration) : Prop := (secs d < 2 ^ 64)%N /\ (nanos d < 10 ^ 9)%N.

(* types.rs ErrorKind (the two kinds a metric call can report) *)
Inductive errkind := InvalidInput | IoError.

(* types.rs MetricError, as far as a caller can observe it: its kind and, for IoError, the wrapped
   io::Error identified by (its io::ErrorKind, a payload identity).  The error a metric call reports;
   it is the library's own (EInvalid from the Duration guards and the empty packed list, EIo from a
   refusing sink) or whatever a user-defined To*Value impl returned. *)
Inductive merror := EInvalid | EIo (k : N) (id : N).      (* kind InvalidInput / IoError+source *)
Definition ekind (e : merror) : errkind :=
  match e with EInvalid => InvalidInput | EIo _ _ => IoError end.

(* the argument of a metric call, by Rust type *)
Inductive arg :=
| AI64 (z : Z) | AI32 (z : Z) | AU64 (n : N) | AU32 (n : N) | AF64 (t : str)
| ADur (d : duration) | AVecU64 (l : list N) | AVecF64 (l : list str) | AVecDur (l : list duration)
| AUser (v : mvalue)      (* a user-defined type whose To*Value impl returns Ok(v) *)
| AUserErr (e : merror).  (* a user-defined type whose To*Value impl returns Err(e) *)

Definition u64_max : N := (2 ^ 64 - 1)%N.
Definition as_millis (d : duration) : N := (secs d * 1000 + nanos d / 1000000)%N.   (* u128 *)
Definition as_nanos (d : duration) : N := (secs d * 1000000000 + nanos d)%N.        (* u128 *)
Definition cast_u64 (n : N) : N := (n mod 2 ^ 64)%N.                                 (* `as u64` *)

Definition conv_dur (f : duration -> N) (d : duration) : merror + mvalue :=
  if (u64_max <? f d)%N then inl EInvalid else inr (Unsigned (cast_u64 (f d))).
Definition conv_durs (f : duration -> N) (l : list duration) : merror + mvalue :=
  if existsb (fun d => (u64_max <? f d)%N) l then inl EInvalid
  else inr (PackedUnsigned (map (fun d => cast_u64 (f d)) l)).

(* None = no such impl (the call does not type-check) *)
Definition to_value (k : kind) (a : arg) : option (merror + mvalue) :=
  match a with
  | AUser v => Some (inr v)
  | AUserErr e => Some (inl e)         (* for every kind: the impl is the user's *)
  | _ =>
  match k, a with
  | Counter, AI64 z | Counter, AI32 z => Some (inr (Signed z))
  | Counter, AU64 n | Counter, AU32 n => Some (inr (Unsigned n))
  | Timer, AU64 n => Some (inr (Unsigned n))
  | Timer, AVecU64 l => Some (inr (PackedUnsigned l))
  | Timer, ADur d => Some (conv_dur as_millis d)
  | Timer, AVecDur l => Some (conv_durs as_millis l)
  | Gauge, AU64 n => Some (inr (Unsigned n))
  | Gauge, AF64 t => Some (inr (Float t))
  | Meter, AU64 n => Some (inr (Unsigned n))
  | Histogram, AU64 n => Some (inr (Unsigned n))
  | Histogram, AF64 t => Some (inr (Float t))
  | Histogram, ADur d => Some (conv_dur as_nanos d)
  | Histogram, AVecU64 l => Some (inr (PackedUnsigned l))
  | Histogram, AVecF64 l => Some (inr (PackedFloat l))
  | Histogram, AVecDur l => Some (conv_durs as_nanos l)
  | Distribution, AU64 n => Some (inr (Unsigned n))
  | Distribution, AF64 t => Some (inr (Float t))
  | Distribution, AVecU64 l => Some (inr (PackedUnsigned l))
  | Distribution, AVecF64 l => Some (inr (PackedFloat l))
  | SetK, AI64 z => Some (inr (Signed z))
  | _, _ => None
  end
  end.

(* MetricValue::count *)
Definition mv_count (v : mvalue) : nat :=
  match v with
  | PackedSigned l => length l | PackedUnsigned l => length l | PackedFloat l => length l
  | _ => 1
  end.
