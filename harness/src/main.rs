//! Correspondence harness: runs the real cadence crates (path dependency on
//! /repo, built from its current working tree) on the cases of a case file and
//! prints one canonical observation line per case.
#![allow(dead_code)]
mod util;

macro_rules! bins {
    ($($name:ident),*) => {
        $(mod $name;)*
        fn dispatch(bin: &str, line: &str) -> Option<String> {
            match bin {
                $(stringify!($name) => Some($name::run_case(line)),)*
                _ => None,
            }
        }
    };
}

bins!(mlw, wire, send, queue, conc, sock, mac, singleton, hostile);

use std::io::{BufRead, Write};

fn main() {
    let args: Vec<String> = std::env::args().collect();
    if args.len() < 3 {
        eprintln!("usage: harness <bin> <casefile>");
        std::process::exit(2);
    }
    util::quiet_panics();
    if args[1] == "macchild" {
        // one macro case in this fresh process (the global default client can be set only once)
        println!("{}", mac::child(&args[2]));
        return;
    }
    if args[1] == "sgchild" {
        // one schedule on the process-wide holder in this fresh process
        println!("{}", singleton::child(&args[2]));
        return;
    }
    let f = std::fs::File::open(&args[2]).expect("case file");
    let lines: Vec<String> = std::io::BufReader::new(f)
        .lines()
        .map(|l| l.unwrap().trim().to_string())
        .filter(|l| !l.is_empty() && !l.starts_with('#'))
        .collect();
    // watchdog: a case that does not return (a deadlock in the library, say) must not take the whole run with it.  The
    // hanging case is reported as such, the cases after it as skipped (the driver re-runs those in a fresh process).
    let limit: u64 = std::env::var("VERIF_CASE_TIMEOUT").ok().and_then(|v| v.parse().ok()).unwrap_or(30);
    let progress = std::sync::Arc::new((std::sync::atomic::AtomicUsize::new(0), std::sync::atomic::AtomicU64::new(0)));
    let t0 = std::time::Instant::now();
    {
        let progress = progress.clone();
        let total = lines.len();
        std::thread::spawn(move || loop {
            std::thread::sleep(std::time::Duration::from_millis(500));
            let idx = progress.0.load(std::sync::atomic::Ordering::SeqCst);
            let started = progress.1.load(std::sync::atomic::Ordering::SeqCst);
            if idx < total && t0.elapsed().as_millis() as u64 > started + limit * 1000 {
                // stdout is only written by the main thread between cases, which is stuck: safe to write here
                let out = std::io::stdout();
                let mut out = out.lock();
                let _ = writeln!(out, "HARNESS-PANIC hang: the case did not return within {} s", limit);
                for _ in idx + 1..total {
                    let _ = writeln!(out, "HARNESS-SKIPPED");
                }
                let _ = out.flush();
                std::process::exit(0);
            }
        });
    }
    let out = std::io::stdout();
    for (i, line) in lines.iter().enumerate() {
        progress.1.store(t0.elapsed().as_millis() as u64, std::sync::atomic::Ordering::SeqCst);
        progress.0.store(i, std::sync::atomic::Ordering::SeqCst);
        let r = util::catch(|| dispatch(&args[1], line));
        let mut out = out.lock();
        match r {
            Err(msg) => writeln!(out, "HARNESS-PANIC {}", msg.replace('\n', " ")).unwrap(),
            Ok(Some(obs)) => writeln!(out, "{}", obs).unwrap(),
            Ok(None) => {
                eprintln!("unknown bin {}", args[1]);
                std::process::exit(2);
            }
        }
        out.flush().unwrap();
    }
    progress.0.store(lines.len(), std::sync::atomic::Ordering::SeqCst);
}
