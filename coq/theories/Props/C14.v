(* C14 — Sink I/O telemetry adds up.

   Pinned statements about Cadence.Model.Stats (SocketStats: four AtomicU64 counters updated
   by fetch_add, which wraps modulo 2^64; SocketStats::update performs two increments per send
   attempt) for ALL attempt sequences, all success/failure patterns and all interleavings of
   the increments of concurrent emitters. *)
Require Import Cadence.Base.Prelude.
Require Import Cadence.Model.Writer.
Require Import Cadence.Model.Stats.
Require Import Cadence.Model.Sock.
Require Import Cadence.Proofs.StatsProofs.
Require Import Cadence.Proofs.SockProofs.
From Coq Require Import Permutation.

(* after any sequence of send attempts: bytes_sent = total size the socket accepted, packets_sent =
   number of accepted attempts, bytes_dropped = total size offered in refused attempts,
   packets_dropped = number of refused attempts — each modulo 2^64 *)
Theorem c14_seq : forall l : list attempt1,
  let s := updates stats0 l in
  bytes_sent s = (sent_bytes l mod 2 ^ 64)%N /\
  packets_sent s = (sent_count l mod 2 ^ 64)%N /\
  bytes_dropped s = (dropped_bytes l mod 2 ^ 64)%N /\
  packets_dropped s = (dropped_count l mod 2 ^ 64)%N.
Proof. exact updates_totals. Qed.

(* packets_sent + packets_dropped = number of attempts (exactly, as long as it fits in 64 bits) *)
Theorem c14_attempts : forall l : list attempt1,
  (sent_count l + dropped_count l = N.of_nat (length l))%N /\
  ((N.of_nat (length l) < 2 ^ 64)%N ->
   let s := updates stats0 l in (packets_sent s + packets_dropped s = N.of_nat (length l))%N).
Proof.
  intros l. pose proof (counts_add l) as C. split; [exact C|]. intros Lt s.
  destruct (updates_totals l) as (_ & B & _ & D). subst s. rewrite B, D. unfold W64.
  rewrite !N.mod_small; lia.
Qed.

(* the figures are exact whenever the true totals fit in 64 bits *)
Theorem c14_exact : forall l : list attempt1,
  (sent_bytes l < 2 ^ 64)%N -> (dropped_bytes l < 2 ^ 64)%N -> (N.of_nat (length l) < 2 ^ 64)%N ->
  let s := updates stats0 l in
  bytes_sent s = sent_bytes l /\ packets_sent s = sent_count l /\
  bytes_dropped s = dropped_bytes l /\ packets_dropped s = dropped_count l.
Proof.
  intros l L1 L2 L3 s. destruct (updates_totals l) as (A & B & C & D). pose proof (counts_add l) as Cn.
  subst s. rewrite A, B, C, D. unfold W64. rewrite !N.mod_small; auto; lia.
Qed.

(* exact under concurrent emitters: ANY interleaving (permutation) of the atomic increments of the
   updates performed by any number of threads yields the same figures *)
Theorem c14_concurrent : forall (l : list attempt1) (incs : list incr),
  Permutation incs (flat_map update_incrs l) ->
  fold_left apply_incr incs stats0 = updates stats0 l.
Proof. exact concurrent_totals. Qed.

(* unbuffered sinks: one attempt per emit, so the figures are the counts and byte lengths of the
   emits that returned Ok and Err respectively *)
Theorem c14_unbuffered : forall dest (ms : list str) st os,
  let os' := outcomes_for ms os in
  sock_emits dest st ms os =
  (map (fun mo => ({| sd_dest := dest; sd_payload := fst mo |},
                   match snd mo with OsOk => inl (N.of_nat (length (fst mo))) | OsErr k => inr k end))
       (combine ms os'),
   updates st (map (fun mo => attempt_of (fst mo) (snd mo)) (combine ms os'))).
Proof. exact sock_emits_spec. Qed.

(* buffered sinks: one attempt per underlying write of the line-buffering writer, so the figures count
   the datagrams of the Writer log (those of C05) and their sizes *)
Theorem c14_buffered : forall lg : list attempt,
  let s := buffered_stats lg in
  packets_sent s = (sent_count (map attempt_of_log lg) mod 2 ^ 64)%N /\
  bytes_sent s = (sent_bytes (map attempt_of_log lg) mod 2 ^ 64)%N /\
  packets_dropped s = (dropped_count (map attempt_of_log lg) mod 2 ^ 64)%N /\
  bytes_dropped s = (dropped_bytes (map attempt_of_log lg) mod 2 ^ 64)%N /\
  (sent_count (map attempt_of_log lg) + dropped_count (map attempt_of_log lg) = N.of_nat (length lg))%N.
Proof.
  intros lg0 s. destruct (updates_totals (map attempt_of_log lg0)) as (A & B & C & D).
  pose proof (counts_add (map attempt_of_log lg0)) as E. rewrite map_length in E. auto.
Qed.

(* read through a wrapping queuing sink the figures are identical (stats() delegates) *)
Theorem c14_queuing : forall s : stats, queuing_stats s = s.
Proof. reflexivity. Qed.

(* a whole scenario on an unbuffered socket sink - any script of emits and flushes while the listener
   goes away and comes back ([sc_emits]: the emits with the listener's state at the time), behind
   a queuing sink or not: the counters read at the end are the totals of the datagrams that reached
   the wire and of the metrics that were refused, and every emit is in exactly one of the two *)
Theorem c14_scenario_unbuffered : forall queued ops rs dg st,
  sc_unbuffered queued ops = (rs, dg, st) ->
  let lost := map fst (filter (fun x => negb (snd x)) (sc_emits true ops)) in
  bytes_sent st = (fold_right N.add 0 (map (fun d => N.of_nat (length d)) dg) mod 2 ^ 64)%N /\
  packets_sent st = (N.of_nat (length dg) mod 2 ^ 64)%N /\
  bytes_dropped st = (fold_right N.add 0 (map (fun d => N.of_nat (length d)) lost) mod 2 ^ 64)%N /\
  packets_dropped st = (N.of_nat (length lost) mod 2 ^ 64)%N /\
  length dg + length lost = length (sc_emits true ops).
Proof. exact sc_unbuffered_totals. Qed.

(* ... on a buffered socket sink: the statistics the scenario reports are those of the underlying
   sends made so far, each counted exactly once as sent or as dropped with its full size *)
Theorem c14_scenario_buffered : forall co queued ops rs s n up,
  sc_buf queued true (sink_init co []) 0 ops = (rs, s, n, up) ->
  let st := buffered_stats (lg s) in
  let l := map attempt_of_log (lg s) in
  snd (sc_buffered co queued ops) = st /\
  packets_sent st = (sent_count l mod 2 ^ 64)%N /\ bytes_sent st = (sent_bytes l mod 2 ^ 64)%N /\
  packets_dropped st = (dropped_count l mod 2 ^ 64)%N /\ bytes_dropped st = (dropped_bytes l mod 2 ^ 64)%N /\
  (sent_count l + dropped_count l = N.of_nat (length (lg s)))%N.
Proof. exact sc_buffered_stats. Qed.


(* non-vacuity *)
Example c14_witness :
  let s := updates stats0 [ {| at_len := 10; at_res := Some 10 |}; {| at_len := 7; at_res := None |};
                            {| at_len := 512; at_res := Some 512 |} ]%N in
  (bytes_sent s, packets_sent s, bytes_dropped s, packets_dropped s) = (522, 2, 7, 1)%N.
Proof. vm_compute. reflexivity. Qed.

(* the counters wrap like fetch_add *)
Example c14_wrap :
  bytes_sent (updates {| bytes_sent := 2 ^ 64 - 1; packets_sent := 0; bytes_dropped := 0; packets_dropped := 0 |}
                      [ {| at_len := 2; at_res := Some 2 |} ])%N = 1%N.
Proof. vm_compute. reflexivity. Qed.

(* ==== added after the audit of 2026-10-02 (selftest/audit/REPORT-2026-10-02.md) ==== *)
(* ------------------------------------------------------------------ audit A.1 / A.10 additions *)
Require Import Cadence.Proofs.AuditS.

(* the totals from ANY 64-bit starting point (c14_seq is the case stats0): every counter is its old
   value plus the true total of the attempts, modulo 2^64 *)
Theorem c14_totals_from : forall (l : list attempt1) st,
  (bytes_sent st < 2 ^ 64 /\ packets_sent st < 2 ^ 64 /\
   bytes_dropped st < 2 ^ 64 /\ packets_dropped st < 2 ^ 64)%N ->
  let st' := updates st l in
  (bytes_sent st' = (bytes_sent st + sent_bytes l) mod 2 ^ 64 /\
   packets_sent st' = (packets_sent st + sent_count l) mod 2 ^ 64 /\
   bytes_dropped st' = (bytes_dropped st + dropped_bytes l) mod 2 ^ 64 /\
   packets_dropped st' = (packets_dropped st + dropped_count l) mod 2 ^ 64)%N.
Proof. exact updates_totals_from. Qed.

(* the statistics a socket sink reports are 64-bit values: unbuffered, after any emits and OS
   answers; buffered, after any log of underlying writes *)
Theorem c14_unbuffered_wf : forall dest (ms : list str) os st,
  (bytes_sent st < 2 ^ 64 /\ packets_sent st < 2 ^ 64 /\
   bytes_dropped st < 2 ^ 64 /\ packets_dropped st < 2 ^ 64)%N ->
  let st' := snd (sock_emits dest st ms os) in
  (bytes_sent st' < 2 ^ 64 /\ packets_sent st' < 2 ^ 64 /\
   bytes_dropped st' < 2 ^ 64 /\ packets_dropped st' < 2 ^ 64)%N.
Proof. exact sock_emits_wf. Qed.
Theorem c14_buffered_wf : forall lg : list attempt,
  let st := buffered_stats lg in
  (bytes_sent st < 2 ^ 64 /\ packets_sent st < 2 ^ 64 /\
   bytes_dropped st < 2 ^ 64 /\ packets_dropped st < 2 ^ 64)%N.
Proof. exact buffered_stats_wf. Qed.

(* "through a queuing wrapper" with content (c14_queuing is the identity by definition): a whole
   scenario on a buffered socket sink puts the same datagrams on the wire and ends with the same
   statistics with and without the queuing wrapper - the wrapper changes answers only *)
Theorem c14_queuing_scenario : forall co q1 q2 ops,
  snd (fst (sc_buffered co q1 ops)) = snd (fst (sc_buffered co q2 ops)) /\
  snd (sc_buffered co q1 ops) = snd (sc_buffered co q2 ops).
Proof. exact sc_buffered_queued_same_wire. Qed.

(* Note after the second read-only review of these pins (selftest/audit/REVIEW-2-2026-10-02.md): c14_queuing_scenario: see the note in C13.v.  c14_buffered_wf is an instance of c20_stats_wf_from_zero. *)
