"""C08, C09, C10, C11, C15, C16: the queuing sink (cadence/src/sinks/queuing.rs).  Scripted
histories against a gated wrapped sink (deterministic macro-steps), a concurrent soak, the
property clauses evaluated on what the implementation did, correspondence with the model."""
import itertools
import random

from . import common
from .common import Report, case_hash

CAPS = ["0", "1", "2", "u"]


# ----------------------------------------------------------------------------- generation

def gen_exhaustive(maxlen, caps, handlers):
    """every history of <= maxlen scripted actions, up to symmetry: emit / drop on the oldest or the newest live
    handle, clone of the oldest (at most 3 handles ever), release with Ok / Err / panic only while some accepted
    metric may still be undelivered, sample (not twice in a row, needs a live handle); after the last handle is
    dropped only releases"""
    out = []

    def rec(seq, live, total, emits, rels, last_s):
        if seq:
            out.append(",".join(seq))
        if len(seq) == maxlen:
            return
        if live:
            hs = sorted(set([live[0], live[-1]]))
            for h in hs:
                rec(seq + ["E%d" % h], live, total, emits + 1, rels, False)
            if total < 3:
                rec(seq + ["C%d" % live[0]], live + [total], total + 1, emits, rels, False)
            for h in hs:
                rec(seq + ["D%d" % h], [x for x in live if x != h], total, emits, rels, False)
            if not last_s:
                rec(seq + ["S"], live, total, emits, rels, True)
        if rels < emits:
            for r in ("Rk", "Re%d" % (8 if rels % 2 == 0 else rels + 1), "Rp"):
                rec(seq + [r], live, total, emits, rels + 1, False)

    rec([], [0], 1, 0, 0, False)
    cases = []
    for c in caps:
        for h in handlers:
            for s in out:
                cases.append("Q %s %s %s" % (c, h, s))
    return cases


def gen_last_drop(rng):
    """C09: the last handle is dropped at every occupancy 0..capacity(+1), for every capacity, with every outcome
    pattern of length <= 3 for the metrics still to be processed"""
    cases = []
    for cap in ["0", "1", "2", "3", "u"]:
        c = 4 if cap == "u" else int(cap)
        for n in range(0, c + 3):
            for nclones in (0, 1):
                pre = ["C0"] * nclones + ["E0"] * n
                pre += ["D%d" % i for i in range(nclones, -1, -1)]
                for pat in itertools.product(["Rk", "Re8", "Rp"], repeat=min(3, n)):
                    tail = list(pat) + ["Rk"] * (n + 1)
                    cases.append("Q %s 1 %s" % (cap, ",".join(pre + tail)))
                    if all(p == "Rk" for p in pat) or n == 1:
                        # the same, the last handle going away while its thread unwinds from a panic
                        cases.append("Q %s 1 %s" % (cap, ",".join(pre[:-1] + ["U0"] + tail)))
                        # ... or on a fresh thread without a name that simply ends (the harness's own thread is "main")
                        cases.append("Q %s 4 %s" % (cap, ",".join(pre[:-1] + ["T0"] + tail)))
    return cases


def gen_flushes():
    """flush() on a handle in every queue state: idle, worker busy with metrics queued behind, full queue, after a
    clone, between releases - it flushes the wrapped sink and must leave the queue alone"""
    cases = []
    for cap in ["0", "1", "2", "3", "u"]:
        for ctor in ("1", "3"):
            cases.append("Q %s %s F0,E0,F0,E0,E0,F0,S,Rk,F0,S,Rk,Rk,F0,S,D0" % (cap, ctor))
            cases.append("Q %s %s E0,E0,C0,E1,F1,S,Re8,F0,Rp,F1,S,Rk,Rk,D0,F1,D1" % (cap, ctor))
    return cases


def gen_long_runs():
    """long unbroken runs of one kind of failure (17, 20, 33, 70 panics or errors in a row, nothing delivered in
    between), then ordinary traffic: the sink must go on exactly as before however many failures preceded"""
    cases = []
    for n in (17, 20, 33, 70):
        for r in ("Rp", "Re8"):
            for cap in ("u", str(n + 2)):
                for handler in ("0", "1"):
                    cases.append("Q %s %s %s" % (cap, handler, ",".join(["E0"] * n + [r] * n + ["S", "E0", "E0", "Rk", "Rk", "S", "D0"])))
            # one at a time: emit, fail, emit, fail ...
            cases.append("Q 1 1 %s" % ",".join(["E0", r] * n + ["S", "E0", "Rk", "S", "C0", "D0", "E1", "Rk", "D1"]))
    return cases


def gen_zero_answers():
    """the wrapped sink accepts but answers Ok(0) (NopMetricSink does; the trait's documentation allows it): that is
    not a failure - the handler must stay silent, the counters and the delivery order are as for Ok(len)"""
    cases = []
    for cap in ("1", "3", "u"):
        for handler in ("0", "1", "2", "3", "4"):
            cases.append("Q %s %s E0,Rz,S,E0,E0,Rz,Re5,S,E0,Rz,Rp,E0,Rz,S,D0" % (cap, handler))
            cases.append("Q %s %s E0,Rz,E0,Rz,E0,Rz,S,C0,D0,E1,Rz,D1" % (cap, handler))
            # ... or Ok(n) for some other n: a count of datagrams, the bytes of a truncated send, more than the length
            cases.append("Q %s %s E0,Rn1,S,E0u,E0,Rn2,Rn3,S,E0l,Rn1000,C0,E1,Rn4,E0,Rn999999,S,D0,D1" % (cap, handler))
            cases.append("Q %s %s E0,E0,Rn1,Re5,E0u,Rn5,Rp,E0,Rn2,S,D0" % ("u" if cap == "1" else cap, handler))
    return cases


def gen_os_errors():
    """the wrapped sink fails with raw OS errors (what real sockets return), the same one several times in a row, two
    alternating, with accepted metrics in between: every failure reaches the handler"""
    cases = []
    for cap in ("2", "u"):
        for handler in ("0", "1", "2", "3", "4"):
            cases.append("Q %s %s E0,Ro111,E0,Ro111,E0,Ro111,S,E0,Rk,E0,Ro111,E0,Ro105,E0,Ro111,S,D0" % (cap, handler))
            cases.append("Q %s %s E0,E0,Ro11,Ro11,E0,Re5,E0,Ro11,E0,Rp,E0,Ro11,E0,Ro11,S,D0" % (cap, handler))
    return cases


def gen_payloads():
    """every payload shape (empty string, 100 kB, non-ASCII with newlines, bare number) through every capacity, on the
    original handle and on a clone, sampled before and after delivery"""
    cases = []
    for cap in ["0", "1", "2", "u"]:
        for shape in "elus":
            cases.append("Q %s 1 E0%s,S,Rk,S,C0,E1%s,S,Rk,S,D0,D1" % (cap, shape, "" if shape == "e" else shape))
            cases.append("Q %s 0 E0,E0%s,S,Rk,Re8,S,D0" % (cap, shape))
    # the SAME text emitted again and again (a counter incremented repeatedly): every outcome next to an identical
    # neighbour - a panic or a failure on one must not cost the next one
    for cap in ["4", "u"]:
        for handler in ("0", "1", "3"):
            for outs in (["Rk", "Rp", "Rk", "Rk"], ["Rp", "Rp", "Rk", "Rk"], ["Re8", "Rk", "Rp", "Rk"], ["Rk", "Rk", "Rp", "Re5"]):
                cases.append("Q %s %s %s" % (cap, handler, ",".join(["E0d"] * 4 + outs + ["S", "E0d", "Rk", "S", "D0"])))
            cases.append("Q %s %s %s" % (cap, handler, ",".join(["E0d", "Rp", "E0d", "Rk", "E0d", "Rp", "E0d", "E0d", "Rk", "Rk", "S", "D0"])))
    return cases


def gen_patterns(rng):
    """C10/C11/C16: acceptance pattern while the gate stays closed; every outcome pattern of length <= 5 over
    {ok, err, panic}, with and without handler, also with the stop pending"""
    cases = []
    for cap in ["1", "2", "3", "4", "u"]:
        n = 7
        cases.append("Q %s 0 %s" % (cap, ",".join(["E0"] * n + ["S"])))
        cases.append("Q %s 0 %s" % (cap, ",".join(["E0"] * n + ["Rk", "E0", "E0", "S", "Rp", "E0", "E0", "S"])))
    for n in range(1, 6):
        for pat in itertools.product(["Rk", "Re%d", "Rp"], repeat=n):
            pat = [p % (8 if i % 2 == 0 else i + 1) if "%" in p else p for i, p in enumerate(pat)]
            for handler in ("0", "1", "2", "3", "4"):
                if handler in "03" and n > 3:
                    continue
                if handler == "2" and n > 4:
                    continue
                cases.append("Q u %s %s" % (handler, ",".join(["E0"] * n + pat + ["S", "E0", "Rk", "S"])))
                if n <= 3:
                    cases.append("Q 2 %s %s" % (handler, ",".join(["E0"] * min(n, 3) + ["D0"] + pat + ["Rk"])))
    return cases


def gen_random(rng, n, maxlen):
    cases = []
    for _ in range(n):
        cap = rng.choice(CAPS + ["3", "5"])
        handler = rng.choice("01234")
        live, total, emits, rels = [0], 1, 0, 0
        used_empty = False
        seq = []
        for _ in range(rng.randint(3, maxlen)):
            opts = []
            if live:
                opts += ["E"] * 5 + ["S"] + ["D"] + ["F"] + (["C"] if total < 5 else [])
            if rels < emits:
                opts += ["R"] * 4
            if not opts:
                break
            o = rng.choice(opts)
            if o == "E":
                shape = ""
                r = rng.random()
                if r < 0.08 and not used_empty:
                    shape, used_empty = "e", True       # at most one empty payload per history (identity is by text)
                elif r < 0.2:
                    shape = rng.choice("lus")
                seq.append("E%d%s" % (rng.choice(live), shape))
                emits += 1
            elif o == "C":
                seq.append("C%d" % rng.choice(live))
                live.append(total)
                total += 1
            elif o == "D":
                h = rng.choice(live)
                live.remove(h)
                seq.append(("U%d" if rng.random() < 0.3 else "D%d") % h)
            elif o == "S":
                seq.append("S")
            elif o == "F":
                seq.append("F%d" % rng.choice(live))
            else:
                rels += 1
                seq.append(rng.choice(["Rk", "Rk", "Re%d" % rng.choice([rels, 8, 20, 5]), "Rp"]))
        seq += ["Rk"] * rng.choice([0, emits])
        cases.append("Q %s %s %s" % (cap, handler, ",".join(seq)))
    return cases


def gen_soak(rng, n, big):
    # a few heavily contended ones first (8-12 producers released together on an unbounded queue: a lost update of a
    # counter needs two increments to overlap)
    cases = ["QS u %d %d %d" % (np, ne, rng.randint(1, 10 ** 6)) for np, ne in ((8, 4000), (12, 2500), (4, 8000), (8, 4000))]
    if big:
        cases += ["QS u %d %d %d" % (rng.choice([4, 8, 16]), 20000, rng.randint(1, 10 ** 6)) for _ in range(20)]
    for _ in range(n):
        cap = rng.choice(["u", "u", "0", "1", "2", "8", "64"])
        cases.append("QS %s %d %d %d" % (cap, rng.choice([2, 3, 4, 8]), rng.choice([200, 1000] if big else [50, 200]),
                                          rng.randint(1, 10 ** 6)))
    return cases


def gen_schedules(maxlen, caps, rng, nrandom, randlen):
    """sub-step schedules (hook H2): every sequence of <= maxlen model events over {try_send, incr_submitted,
    worker dequeue / count / finish(ok|err|panic), sampler load 1 / load 2} that the model accepts, <= 3 producers
    between try_send and incr_submitted, capacities in [caps]; plus random walks of randlen events"""
    def enabled(st):
        cap, chan, pend, wk, samp = st
        ev = ["T"]
        if pend:
            ev.append("I")
        if wk == "R" and chan:
            ev.append("W")
        if wk == "H":
            ev.append("X")
        if wk == "C":
            ev += ["Fk", "Fe8", "Fp"]
        ev.append("B" if samp else "A")
        return ev

    def nxt(st, e):
        cap, chan, pend, wk, samp = st
        if e == "T":
            if cap is None or chan < cap:
                if pend >= 3:
                    return None
                return (cap, chan + 1, pend + 1, wk, samp)
            return st
        if e == "I":
            return (cap, chan, pend - 1, wk, samp)
        if e == "W":
            return (cap, chan - 1, pend, "H", samp)
        if e == "X":
            return (cap, chan, pend, "C", samp)
        if e[0] == "F":
            return (cap, chan, pend, "R", samp)
        if e == "A":
            return (cap, chan, pend, wk, True)
        return (cap, chan, pend, wk, False)

    out = []

    def rec(seq, st):
        if seq:
            out.append("QH %s 1 %s" % ("u" if st[0] is None else st[0], ",".join(seq)))
        if len(seq) == maxlen:
            return
        for e in enabled(st):
            n = nxt(st, e)
            if n is not None:
                rec(seq + [e], n)

    for c in caps:
        rec([], (c, 0, 0, "R", False))
    for _ in range(nrandom):
        c = rng.choice(caps)
        st = (c, 0, 0, "R", False)
        seq = []
        for _ in range(randlen):
            e = rng.choice(enabled(st))
            n = nxt(st, e)
            if n is None:
                continue
            seq.append(e)
            st = n
        out.append("QH %s %s %s" % ("u" if c is None else c, rng.choice("01"), ",".join(seq)))
    return out


def annotate(case, model_obs):
    """tell the harness which try_sends the model expects to be refused (those producers are not parked)"""
    t = case.split()
    res = model_obs.split("|")[0][2:].split(",")
    evs = t[3].split(",")
    return " ".join(t[:3] + [",".join((e + r) if e == "T" else e for e, r in zip(evs, res))])


def judge_schedule(case, obs):
    bad = []
    if obs.startswith("HARNESS-PANIC") or obs == "nohooks":
        return [(p, "sub-step schedule could not run: " + obs[:200]) for p in ("C08", "C10", "C15")]
    parts = dict(x.split(":", 1) for x in obs.split("|"))
    for i, r in enumerate(parts["R"].split(",")):
        if r.startswith("s"):
            q, sub = (int(x) for x in r[1:].split("."))
            if q > sub:
                bad.append(("C15", "event %d: queued() returned %d while submitted() read afterwards is %d" % (i, q, sub)))
        if r.startswith("!"):
            bad.append(("C08", "event %d: %s" % (i, r[1:])))
    ids = [x.split(":")[0] for x in parts["DL"].split(";")] if parts["DL"] else []
    if ids != [str(k) for k in range(len(ids))]:
        bad.append(("C08", "the wrapped sink received %s" % ids))
    return bad


# ----------------------------------------------------------------------------- property clauses (reference)

def as_plain_drop(case):
    """U<h> (the handle is dropped by a thread that is unwinding) is an ordinary drop for the model and the clauses"""
    import re
    t = case.split(" ")
    if t[0] == "QD":                # another queuing sink lives in the process: nothing to the model or the clauses
        t = ["Q"] + t[2:]
    if t[0] == "Q":
        t[2] = {"2": "1", "3": "0", "4": "1"}.get(t[2], t[2])        # how the sink was constructed: with or without a handler
        t[3] = re.sub(r"[UT](\d+)", r"D\1", t[3])
        t[3] = re.sub(r"E(\d+)[elusd]", r"E\1", t[3])      # the payload's shape is nothing to the model or the clauses
        t[3] = re.sub(r"\bRz\b", "Rk", t[3])             # accepted is accepted, whatever count the wrapped sink answers
        t[3] = re.sub(r"\bRn\d+\b", "Rk", t[3])
        t[3] = re.sub(r"\bRo(\d+)\b", lambda m: "Re%d" % (2000 + int(m.group(1))), t[3])   # an OS error is an error
    return " ".join(t)


def decoy_verdicts(y):
    """QD cases: what became of the other queuing sink of the process"""
    out = []
    if y != "ok":
        for part in y.split(" / "):
            pid = "C09" if "did not stop" in part else ("C10" if "refused" in part else "C08")
            out.append((pid, "with two queuing sinks in one process: " + part[:300]))
    return out


def judge(case, obs):
    if "|Y:" in obs:
        obs, y = obs.split("|Y:", 1)
        return judge(case, obs) + decoy_verdicts(y)
    case = as_plain_drop(case)
    """evaluate the clauses of C08..C11, C15, C16 on the implementation's observation of a scripted history;
    returns a list of (property id, message)"""
    t = case.split()
    cap = None if t[1] == "u" else int(t[1])
    handler = t[2] == "1"
    acts = t[3].split(",")
    bad = []
    if obs.startswith("HARNESS-PANIC"):
        return [(p, "the harness crashed: " + obs[:200]) for p in ("C08", "C09", "C10", "C11", "C15", "C16")]
    parts = dict(x.split(":", 1) for x in obs.split("|"))
    res = parts["A"].split(",")
    dl = [x.split(":") for x in parts["DL"].split(";")] if parts["DL"] else []
    hd = parts["H"].split(";") if parts["H"] else []
    final = parts["X"]
    accepted = 0      # metrics accepted so far
    done = 0          # completed calls of the wrapped sink so far
    live, total = [0], 1
    for i, (a, r) in enumerate(zip(acts, res)):
        if r == "-":
            break       # the harness gave up after a stuck action
        flags = r.split("!")[1:]
        r0 = r.split("!")[0]
        busy = accepted > done                      # the worker holds a metric in the gate
        inchan = max(0, accepted - done - 1)
        if a[0] == "E" and any(f.isdigit() for f in flags):
            n = [f for f in flags if f.isdigit()][0]
            for pid in ("C10", "C08"):
                bad.append((pid, "action %d: emit returned Ok(%s), which is not the byte length of the metric it accepted" % (i, n)))
        if "stats" in flags:
            bad.append(("C14", "action %d: MetricSink::stats() read through the queuing sink differs from the wrapped sink's own figures" % i))
        if "slow" in flags:
            if a[0] == "E":
                bad.append(("C10", "action %d: emit took > 300 ms while the wrapped sink was blocked" % i))
            if a[0] == "D":
                bad.append(("C09", "action %d: dropping a handle took > 300 ms" % i))
        if "stuck" in flags:
            msg = "action %d (%s): the background side did not make the expected progress" % (i, a)
            if (a[0] == "D" and len(live) == 1) or (a[0] != "D" and not live):
                bad.append(("C09", msg + " after the last drop (worker not stopped / wrapped sink not released)"))
            bad.append(("C08", msg))
            if a[0] == "R" and a[1] == "p":
                bad.append(("C11", msg + " after a panic"))
        if a[0] == "E":
            want = "k" if cap is None else ("k" if inchan < cap else "f") if cap > 0 else ("f" if busy else "k")
            if r0 != want:
                bad.append(("C10", "action %d: emit returned %s with %d of %s queued (worker %s), expected %s" % (
                    i, r0, inchan, t[1], "busy" if busy else "waiting", want)))
            if r0.startswith("k"):
                accepted += 1
        elif a[0] == "F":
            if r0 != "l":
                bad.append(("C10", "action %d: flush() on a handle returned an error although the wrapped sink's flush succeeds" % i))
        elif a[0] == "C":
            live.append(total)
            total += 1
        elif a[0] == "D":
            live.remove(int(a[1:]))
        elif a[0] == "R":
            if r0 == "r":
                done += 1
            elif busy:
                bad.append(("C08", "action %d: a metric should be in the wrapped sink but none is" % i))
        elif a[0] == "S":
            sub, dr, q, pan = (int(x) for x in r0[1:].split("."))
            want_dr = done + (1 if accepted > done else 0)
            if sub != accepted or dr != want_dr or q != sub - dr:
                bad.append(("C15", "action %d: submitted/drained/queued = %d/%d/%d, expected %d/%d/%d" % (
                    i, sub, dr, q, accepted, want_dr, accepted - want_dr)))
            pn = sum(1 for x in dl[:done] if x[1] == "p")
            if pan != pn:
                bad.append(("C11", "action %d: panics() = %d after %d panics" % (i, pan, pn)))
    # delivered: a duplicate-free prefix of the acceptance order, with the scripted outcomes
    ids = [x[0] for x in dl]
    if ids != [str(k) for k in range(len(ids))]:
        msg = "the wrapped sink received metrics %s; accepted in order 0..%d" % (ids, accepted - 1)
        bad.append(("C08", msg))
        if any(x[1] == "p" for x in dl):
            bad.append(("C11", msg))
    if len(dl) != done and "stuck" not in parts["A"]:
        bad.append(("C08", "%d completed deliveries logged, %d releases acknowledged" % (len(dl), done)))
    # eventually: when the script releases often enough after the last emit, everything accepted is delivered
    last_e = max([i for i, a in enumerate(acts) if a[0] == "E"], default=-1)
    tail_r = sum(1 for a in acts[last_e + 1:] if a[0] == "R")
    if tail_r >= accepted and len(dl) < accepted and "stuck" not in parts["A"]:
        bad.append(("C08", "%d metrics accepted, only %d delivered although the wrapped sink was released %d times afterwards" % (
            accepted, len(dl), tail_r)))
        if not live:
            bad.append(("C09", "metrics accepted before the last drop were not delivered"))
    if not live and len(dl) >= accepted and "rel1" not in final and "stuck" not in parts["A"]:
        bad.append(("C09", "every handle dropped and every metric processed, but the wrapped sink was not dropped"))
    if live and "rel1" in final:
        bad.append(("C08", "the wrapped sink was dropped while a handle is alive"))
    if "caller" in final:
        bad.append(("C10", "the wrapped sink (or the handler) ran on a caller's thread / not on the worker's thread"))
        bad.append(("C16", "the error handler did not run on the background thread"))
    # handler: once per failure, in order, right after the failing call
    want_h = ["%s:%s@%d" % (x[0], x[1][1:], k + 1) for k, x in enumerate(dl) if x[1].startswith("e")] if handler else []
    if hd != want_h:
        bad.append(("C16", "handler invocations %s, expected %s" % (hd, want_h)))
    return bad


TRUSTED = [
    "Coq 8.16.1 kernel; Print Assumptions of every pinned theorem closed under the global context",
    "extraction: Require Extraction + ExtrOcamlBasic only; nat stays the inductive type",
    "hand-written glue: ocaml/run_queue.ml, harness/src/queue.rs (gated wrapped sink, settle logic with timeouts, "
    "concurrent soak), driver/queue.py (generation, reference clauses, diff)",
    "modelled, not verified: crossbeam-channel 0.5 (linearizable FIFO try_send/recv, bounded capacity, rendezvous at "
    "capacity 0), Arc, std::thread, unwinding through Sentinel::drop; AtomicU64 counters treated as sequentially "
    "consistent single locations",
]
ASSUMPTIONS = [
    "the OS schedules runnable threads (liveness is checked with a 1.5 s settle timeout per scripted action)",
    "each scripted action is followed by running the background side until it blocks (macro-step view of the model); "
    "the sub-step interleavings are covered by the proof, and sampled by the concurrent soak",
]


def run_queue_check(prop, tier, seed):
    rep = Report(prop, tier, seed, level="proof")
    rep.cov["trusted_base"] = TRUSTED
    rep.assumptions = ASSUMPTIONS
    rep.add_audit(common.audit_proofs(prop))
    if not common.ensure_built(rep):
        return rep.finish()
    rng = random.Random(seed)
    thorough = tier == "thorough"
    ex = gen_exhaustive(6 if thorough else 4, CAPS, ["1"] if not thorough else ["0", "1", "2"])
    cases = list(ex)
    cases += gen_last_drop(rng)
    cases += gen_patterns(rng)
    cases += gen_payloads()
    cases += gen_flushes()
    cases += gen_long_runs()
    cases += gen_zero_answers()
    cases += gen_os_errors()
    cases += gen_random(rng, 60000 if thorough else 400, 40)
    # every 9th scripted history once more with ANOTHER queuing sink alive in the process (full with its stop pending /
    # respawned after a panic): sinks share nothing
    scripted = [c for c in cases if c.startswith("Q ")]
    for k, c in enumerate(scripted[::9] + [c for c in scripted if ",D" in c and ",f" not in c][:200:3]):
        cases.append("QD %d %s" % (1 + k % 2, c[2:]))
    soak = gen_soak(rng, 300 if thorough else 12, thorough)
    sched = gen_schedules(8 if thorough else 6, [1, 2, None], rng, 30000 if thorough else 300, 30)
    try:
        impl = common.run_harness("queue", cases, shards=common.NCPU)
        decoy = {}
        for i, o in enumerate(impl):
            if cases[i].startswith("QD ") and "|Y:" in o:
                impl[i], decoy[i] = o.split("|Y:", 1)
        model = common.run_model("queue", [as_plain_drop(c) for c in cases])
        simpl = common.run_harness("queue", soak, shards=min(4, len(soak)))
        hmodel = common.run_model("queue", sched)
        keep = [i for i, m in enumerate(hmodel) if m != "invalid"]
        sched = [annotate(sched[i], hmodel[i]) for i in keep]
        hmodel = [hmodel[i] for i in keep]
        himpl = [o.replace("k?", "k") for o in common.run_harness("queue", sched, shards=common.NCPU)]
    except common.CheckFailure as e:
        rep.violation_noinput("correspondence run failed", {"error": str(e)})
        return rep.finish()
    # timing-sensitive harness: a disagreement must reproduce
    dis_idx = [i for i, (a, b) in enumerate(zip(impl, model)) if a != b]
    if dis_idx:
        again = common.run_harness("queue", [cases[i] for i in dis_idx], shards=min(common.NCPU, len(dis_idx)))
        for i, o in zip(dis_idx, again):
            if o.split("|Y:")[0] == model[i]:
                impl[i] = o.split("|Y:")[0]
        rep.cov["rerun_after_disagreement"] = len(dis_idx)
    hdis_idx = [i for i, (a, b) in enumerate(zip(himpl, hmodel)) if a != b]
    if hdis_idx:
        again = common.run_harness("queue", [sched[i] for i in hdis_idx], shards=min(common.NCPU, len(hdis_idx)))
        for i, o in zip(hdis_idx, again):
            if o.replace("k?", "k") == hmodel[i]:
                himpl[i] = hmodel[i]
    # extraction + glue against the kernel: sampled scripted histories proved by vm_compute
    common.kernel_crosscheck(rep, "queue", [as_plain_drop(c) for c in cases if c.startswith("Q ")], 200 if thorough else 60)
    failures = []
    for c, o in zip(cases, impl):
        for pid, msg in judge(c, o):
            if pid == prop:
                failures.append((len(c), c, o, msg))
    for i, y in decoy.items():
        for pid, msg in decoy_verdicts(y):
            if pid == prop:
                failures.append((len(cases[i]), cases[i], impl[i] + "|Y:" + y, msg))
    rep.cov["two_sink_cases"] = len(decoy)
    for c, o in zip(sched, himpl):
        for pid, msg in judge_schedule(c, o):
            if pid == prop:
                failures.append((len(c), c, o, msg))
    if prop == "C10":
        # the bound holds for large capacities too (the model's capacity is any number; the scripted histories use small
        # ones): the worker is parked with one metric, then capacity + 16 more are offered
        for c in ["QB 70000 16", "QB 1048576 16", "QB 1048579 5", "QB u 1048700", "QB u 2100001"] + (["QB 4194304 7", "QB u 9000000"] if thorough else []):
            capn, extra = (0 if c.split()[1] == "u" else int(c.split()[1])), int(c.split()[2])
            try:
                o = common.run_harness("queue", [c], shards=1, env={"VERIF_CASE_TIMEOUT": "120"})[0]
            except common.CheckFailure as e:
                o = "bad the process running the case died: " + str(e)[-300:].replace("\n", " ")
            if c.split()[1] == "u":
                if o != "acc %d ref 0 q %d" % (extra, extra):
                    failures.append((len(c), c, o, "an unbounded queue with its worker busy was offered %d metrics: %s (an unbounded queue "
                                     "accepts every metric)" % (extra, o)))
            elif o != "acc %d ref %d q %d" % (capn, extra, capn):
                failures.append((len(c), c, o, "a queue of capacity %d with its worker busy: %s (expected exactly %d accepted, %d refused)" % (
                    capn, o, capn, extra)))
    if prop in ("C08", "C16"):
        # producers that are themselves worker threads of a queuing sink: chained sinks, and an error handler that counts
        # failures through a clone of the same sink
        qw = ["QW n u", "QW n 1", "QW n 4", "QW h u"]
        try:
            qwo = common.run_harness("queue", qw, shards=2)
        except common.CheckFailure as e:
            qwo = ["bad the process running the case died: " + str(e)[-300:].replace("\n", " ")] * len(qw)
        for c, o in zip(qw, qwo):
            if o != "ok":
                for part in o[4:].split(" / "):
                    pid = "C16" if "the handler ran" in part else "C08"
                    if pid == prop:
                        failures.append((len(c), c, o, "emits made on a worker thread: " + part[:400]))
        rep.cov["worker_thread_producers"] = qw
    if prop in ("C11", "C15"):
        # tens of thousands of panics over the life of one sink (a worker that is restarted on its own stack, or a restart
        # budget, only shows after that many); each soak in its own process, which a stack overflow would kill.  C15: the
        # counters at the quiescent end of the soak
        qp = ["QP u 32000 8", "QP 4 9000 3"] + (["QP u 120000 8", "QP 64 60000 2"] if thorough else [])
        if prop == "C15":
            qp = qp[1:2] + qp[3:]
        for c in qp:
            try:
                o = common.run_harness("queue", [c], shards=1, env={"VERIF_CASE_TIMEOUT": "150"})[0]
            except common.CheckFailure as e:
                o = "bad the process running the case died: " + str(e)[-300:].replace("\n", " ")
            if not o.startswith("ok"):
                parts = [x for x in o[4:].split(" / ") if ("at quiescence" in x) == (prop == "C15")]
                if parts:
                    failures.append((len(c), c, o, "panic soak: " + " / ".join(parts)[:300]))
        rep.cov["panic_soaks"] = qp
    for c, o in zip(soak, simpl):
        if not o.startswith("ok"):
            for part in o[4:].split(" / "):
                if "> submitted()" in part or "submitted() =" in part or "at quiescence" in part:
                    pid = "C15"
                elif "not dropped" in part:
                    pid = "C09"
                elif "300 ms" in part:
                    pid = "C10"
                else:
                    pid = "C08"
                if pid == prop:
                    failures.append((len(c), c, o, "concurrent soak: " + part[:300]))
    if failures:
        failures.sort()
        _, c, o, msg = failures[0]
        rep.violation_input("%s (%d failing cases; smallest shown)" % (msg[:300], len(failures)),
                            {"bin": "queue", "case": c, "implementation": o, "clause": msg,
                             "how": "build/target/release/harness queue <file with the case line>"})
    dis = [(len(c), c, i, m) for c, i, m in zip(cases, impl, model) if i != m]
    dis += [(len(c), c, i, m) for c, i, m in zip(sched, himpl, hmodel) if i != m]
    if dis and not failures:
        dis.sort()
        _, c, i, m = dis[0]
        rep.violation_noinput(
            "correspondence Model/Queue.v <-> cadence/src/sinks/queuing.rs broken on %d histories; the theorems of "
            "Props/%s.v no longer speak about this code" % (len(dis), prop),
            {"correspondence": "Queue.acts true (macro-step view) vs QueuingMetricSink + gated wrapped sink",
             "theorems": rep.cov.get("theorems", []), "first_disagreeing_case": c, "implementation": i, "model": m})
    nt = set()
    dist = {"actions": 0, "full": 0, "panics": 0, "errors": 0, "last_drop": 0, "caps": {}}
    for c, o in zip(cases, impl):
        t = as_plain_drop(c).split()
        dist["caps"][t[1]] = dist["caps"].get(t[1], 0) + 1
        dist["actions"] += t[3].count(",") + 1
        dist["full"] += o.count(",f") + o.count(":f")
        dist["panics"] += o.count(":p")
        dist["errors"] += o.count(":e")
        if "rel1" in o:
            dist["last_drop"] += 1
        if ",f" in o or ":p" in o or ":e" in o or "rel1" in o or "C" in t[3]:
            nt.add(case_hash(c))
    rep.cov["evaluations"] = len(cases) + len(soak) + len(sched)
    rep.cov["substep_schedules"] = len(sched)
    for c, o in zip(sched, himpl):
        if ",f" in o or ":p" in o or ":e" in o or "s" in o.split("|")[0]:
            nt.add(case_hash(c))
    rep.cov["distinct_nontrivial"] = len(nt)
    rep.cov["exhaustive"] = True
    rep.cov["exhaustive_scope"] = ("%d histories: every scripted history of <= %d actions (emit / clone / drop on oldest or newest live "
                                   "handle, <= 3 handles, release with ok/err/panic, sample) x capacities {0,1,2,unbounded}"
                                   % (len(ex), 5 if thorough else 4))
    rep.cov["rule"] = ("exhaustive short histories + last drop at every occupancy x outcome patterns + acceptance patterns with the gate "
                       "closed + outcome patterns <= 5 with/without handler + seeded random histories of <= 40 actions; each history runs "
                       "on the real QueuingMetricSink in front of a gated wrapped sink (every call blocks until the script releases it "
                       "with Ok / Err / panic; the harness waits for the background side to settle after every action) and on the "
                       "extracted Coq model (Queue.acts); results of every emit, counter samples, the wrapped sink's call log, the "
                       "handler log and the release of the wrapped sink are compared, and the property clauses are evaluated on the "
                       "implementation's observation; plus a concurrent soak (2-8 producer threads on clones, sampler thread) whose "
                       "exactly-once / per-producer order / counter clauses are evaluated directly; plus sub-step schedules driven through the "
                       "cfg(cadence_verif) hook points (every model-accepted sequence of <= 6 atomic events over try_send / incr_submitted / "
                       "recv / incr_drained / wrapped-sink answer / the two loads of queued(), capacities {1,2,unbounded}, and random walks of "
                       "30 events): producers are parked between try_send and incr_submitted, the worker after recv / after incr_drained / "
                       "after the task / in Sentinel::drop, the sampler between its two loads.  distinct_nontrivial = distinct "
                       "histories with a refused emit, a failure, a panic, a clone or the release of the wrapped sink")
    short = [(c, o) for c, o in zip(cases, impl) if len(c) + len(o) < 200]
    rep.cov["samples"] = [{"case": c, "implementation": o} for c, o in short[11::max(1, len(short) // 5)][:5]]
    rep.cov["samples"].append({"case": soak[0], "implementation": simpl[0]})
    rep.cov["samples"].append({"case": sched[len(sched) // 2], "implementation": himpl[len(sched) // 2]})
    rep.cov["disagreements"] = len(dis)
    rep.cov["input_distribution"] = dist
    return rep.finish()


def check_C08(tier, seed):
    return run_queue_check("C08", tier, seed)


def check_C09(tier, seed):
    return run_queue_check("C09", tier, seed)


def check_C10(tier, seed):
    return run_queue_check("C10", tier, seed)


def check_C11(tier, seed):
    return run_queue_check("C11", tier, seed)


def check_C15(tier, seed):
    return run_queue_check("C15", tier, seed)


def check_C16(tier, seed):
    return run_queue_check("C16", tier, seed)


def _replay_judge(prop, case, obs):
    if case.startswith("QH"):
        return [m for p, m in judge_schedule(case, obs) if p == prop]
    if case.startswith("QS") or case.startswith("QW") or case.startswith("QP") or case.startswith("QB"):
        return [] if obs.startswith("ok") or obs.startswith("acc ") else [obs[:300]]
    return [m for p, m in judge(case, obs) if p == prop]


def replay(prop, data):
    return common.replay_case(prop, data, "queue", _replay_judge)
