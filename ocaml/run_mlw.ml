(* model: writer *)
(* include: writerprint *)
(* model side of harness bin `mlw` (see harness/src/mlw.rs for the formats) *)

let parse_ops s =
  List.map (fun t ->
    if t = "F" then Flush
    else if String.length t >= 1 && t.[0] = 'E' then Emit (unhex (String.sub t 1 (String.length t - 1)))
    else failwith ("bad op " ^ t)) (split_on ',' s)

let parse_outcome t =
  match t with
  | "o" -> WOk
  | "i" -> WIntr
  | _ -> WErr (n_of_int (int_of_string (String.sub t 1 (String.length t - 1))))

let parse_script s = List.map parse_outcome (split_on ',' s)

let show_res = function
  | OOk n -> "k" ^ string_of_int (int_of_nat n)
  | OErr e -> "e" ^ string_of_int (int_of_n e)
  | OIntr -> "i"
  | OPanic -> "p"

let show_outcome = function
  | WOk -> "o" | WIntr -> "i" | WErr e -> "e" ^ string_of_int (int_of_n e)

(* results up to and including the first panic, as the harness reports them *)
let rec cut = function
  | [] -> [] | OPanic :: _ -> [OPanic] | r :: rest -> r :: cut rest

let run_case line =
  match tokens line with
  | ["W"; cap; ending; ops; script] ->
    let ops = parse_ops ops in
    let (rs, s) = run (nat_of_int (int_of_string cap)) (unhex ending) (parse_script script) ops in
    let log = List.map (fun a ->
      Printf.sprintf "%d:%s:%s" (int_of_nat a.a_op) (hex a.a_bytes) (show_outcome a.a_out)) s.lg in
    Printf.sprintf "R:%s|L:%s" (String.concat "," (List.map show_res (cut rs))) (String.concat ";" log)
  | ["S"; cap; queue; ops] ->
    let ops = parse_ops ops in
    let script = if queue = "u" then [] else
      List.init (int_of_string queue) (fun _ -> WOk) @ List.init (3 * List.length ops + 3) (fun _ -> WErr N0) in
    let c = if cap = "d" then None else Some (nat_of_int (int_of_string cap)) in
    let (rs, s) = run_from (sink_init c script) O ops in
    let s = mlw_drop s (nat_of_int (List.length ops)) in
    let msgs = List.filter_map (fun a -> if a.a_out = WOk then Some (hex a.a_bytes) else None) s.lg in
    Printf.sprintf "R:%s|M:%s" (String.concat "," (List.map show_res (cut rs))) (String.concat ";" msgs)
  | _ -> failwith ("bad mlw case: " ^ line)


(* the same W case as a Gallina equation, both sides printed from the parsed case and the extracted run *)
let coq_header =
  "Require Import Cadence.Base.Prelude Cadence.Model.Writer.\n" ^
  "Definition kobs (r : list ores * st) := (fst r, map (fun a => (a_op a, a_bytes a, a_out a)) (lg (snd r))).\n"

let coq_case line =
  match tokens line with
  | ["W"; cap; ending; ops; script] when int_of_string cap <= 600 ->
    let ops = parse_ops ops and script = parse_script script and e = unhex ending in
    if List.exists (function Emit m -> List.length m > 600 | Flush -> false) ops then None else begin
      let c = nat_of_int (int_of_string cap) in
      let (rs, s) = run c e script ops in
      let lhs = Printf.sprintf "kobs (run %s %s %s %s)" cap (g_str e)
          (if script = [] then "(@nil outcome)" else g_list g_outcome script)
          (if ops = [] then "(@nil op)" else g_list g_op ops) in
      let rhs = g_pair (if rs = [] then "(@nil ores)" else g_list g_ores rs)
          (if s.lg = [] then "(@nil (nat * list N * outcome))"
           else g_list (fun a -> "(" ^ g_nat a.a_op ^ ", " ^ g_str a.a_bytes ^ ", " ^ g_outcome a.a_out ^ ")") s.lg) in
      Some (lhs ^ " = " ^ rhs)
    end
  | _ -> None
