"""C20: hostile inputs through the public API under catch_unwind, on a harness built with overflow checks and debug
assertions (optimised profile and plain debug profile): arbitrary strings (empty, long, non-ASCII, delimiter-laden),
extreme / zero / negative / NaN / infinite numbers, maximal Durations, empty and very large packed lists, buffer capacities
0/1/2, queue capacities 0/1, through every sink and the queuing wrapper.  Any unwinding panic is a violation with the call
as replay; which calls are rejected as InvalidInput and which hand a line to the sink is compared with the model."""
import itertools
import random

from . import common, wire
from .common import Report, case_hash
from .wire import hx

SINKS = ["nop", "spy", "bspy:0", "bspy:1", "bspy:2", "bspy:3", "bspy:512", "udp", "budp:0", "budp:1", "budp:2", "budp:512",
         "unix", "bunix:0", "bunix:1", "bunix:2", "bunix:64", "q0:nop", "q1:nop", "q2:spy", "qu:spy", "q0:bspy:1", "q1:budp:2",
         "q1:bunix:0", "qu:bspy:0", "q1:q0:nop"]
NEVER_FAIL = {"nop", "spy", "bspy:0", "bspy:1", "bspy:2", "bspy:3", "bspy:512", "qu:spy", "qu:bspy:0"}
U64 = 2 ** 64 - 1


def h_line(sink, case, ft=None):
    t = case.line(ft).split(" ")
    # X prefix dtags dcid script n calls...  ->  H sink prefix dtags dcid n calls...
    return " ".join(["H", sink] + t[1:4] + t[5:])


def big_cases(rng):
    """a few very large inputs"""
    out = []
    for n in (10 ** 4, 10 ** 5):
        out.append(wire.Case("", [], None, [], [("T", "ms", "vu64", [rng.randint(0, U64) for _ in range(n)], "k", [])]))
        out.append(wire.Case("p", [], None, [], [("Q", "h", "vdur", [(rng.randint(0, 10 ** 9), 5)] * n, "k", [("t", "a", "b")])]))
    for n in (10 ** 5, 10 ** 6):
        out.append(wire.Case("x" * n, [("k" * 1000, "v" * n)], "c" * 5000, [], [
            ("T", "c", "i64", -1, "y" * n, [("t", "é" * 2000, ":|#@,\n" * 1000), ("v", "z" * n)]),
            ("P", "g", "u64", U64, "", [])]))
    out.append(wire.Case("", [(None, "")] * 300, "", [], [("T", "s", "i64", -2 ** 63, "", [("t", "", "")] * 2000)]))
    return out


def gen_cases(rng, n_random, thorough):
    cases = []
    # every sink x a fixed hostile mini-suite (empty everything, delimiters, extremes, overflowing durations, empty lists)
    mini = [
        wire.Case("", [], None, [], [
            ("T", "c", "i64", -2 ** 63, "", []), ("P", "c", "u64", U64, "", []), ("Q", "ms", "vu64", [], "k", [("t", "", "")]),
            ("T", "ms", "dur", (U64, 999999999), "k", []), ("T", "h", "vdur", [(0, 0), (18446744073, 709551616)], "k", []),
            ("T", "g", "f64", "7ff8000000000000", "nan", []), ("T", "g", "f64", "fff0000000000000", "-inf", [("r", "7ff0000000000000")]),
            ("Q", "d", "vf64", [], "", []), ("T", "ms", "dur", (18446744073709551, 615999999), "edge", []),
            ("T", "ms", "dur", (18446744073709551, 616000000), "edge", []), ("T", "c", "incr", None, "", [("T", U64)]),
            ("T", "h", "vf64", ["0000000000000001", "7fefffffffffffff", "8000000000000000"], "f", [("c", "")])]),
        wire.Case("...", [(None, ""), ("", "")], "", [], [
            ("T", "c", "i32", -2 ** 31, ":|#@,\n", [("t", "|#", ",:"), ("v", "\n"), ("c", "|c:"), ("T", 0)]),
            ("Q", "s", "i64", 0, "漢\U0001F642", []), ("P", "m", "u64", 0, "T1", []), ("T", "d", "vu64", [0, U64], "c:", [])]),
    ]
    for sink in SINKS:
        for m in mini:
            cases.append((sink, m))
    for i, c in enumerate(wire.gen_random(rng, n_random, "hostile")):
        cases.append((SINKS[i % len(SINKS)], c))
    for i, c in enumerate(big_cases(rng)):
        cases.append((["nop", "bspy:0", "bspy:512", "q1:nop", "budp:2", "spy"][i % 6], c))
    return cases


def other_cases(rng, thorough):
    out = []
    m = 2 ** 64 - 1
    out.append("HS k%d/%d,k%d/%d,e/%d,e/%d,k1/0,e/0" % (m, m, m, m, m, m))
    out.append("HS " + ",".join(["k%d/%d" % (m, 1)] * 5 + ["e/%d" % m] * 5))
    for qc in ("0", "1", "2", "u"):
        for n in (0, 1, 3, 50):
            out.append("HQ %s %d" % (qc, n))
    # the writer: every history of <= 3 operations over {emit "", "a", "ab", "abc", flush}, capacities 0..3,
    # terminators "", LF, CRLF
    ops = ["E-", "E61", "E6162", "E616263", "F"]
    for cap in range(4):
        for ending in ("-", "0a", "0d0a"):
            for n in range(0, 4 if thorough else 3):
                for seq in itertools.product(ops, repeat=n):
                    out.append("HW %d %s %s" % (cap, ending, ",".join(seq) or "-"))
    return out


TRUSTED = [
    "Coq 8.16.1 kernel; Print Assumptions of every pinned theorem closed under the global context",
    "extraction: Require Extraction + ExtrOcamlBasic only",
    "hand-written glue: ocaml/run_hostile.ml, harness/src/hostile.rs (catch_unwind around every call; overflow-checks and "
    "debug-assertions on in both cargo profiles), driver/hostile.py",
    "modelled, not verified: std (BufWriter, String, Vec, channels, sockets, Mutex) and its own panics",
]
ASSUMPTIONS = [
    "excluded: allocation failure and capacity requests beyond addressable memory (resource exhaustion), a failing "
    "thread::spawn, panics raised by user-supplied sinks or handlers",
    "c20_hint assumes the caller's strings + 10 bytes per value + 1 per tag stay below 2^63 (true of anything a 64-bit process holds); "
    "the size hint is reported by hook H3 (fmt.size_hint, cfg cadence_verif) and compared with Hint.size_hint on every call of the "
    "hostile stream",
    "lock().unwrap() can only fail after a panic under the lock; the theorems exclude such panics in library code, the hostile "
    "stream validates it",
]


def check_C20(tier, seed):
    prop = "C20"
    rep = Report(prop, tier, seed, level="proof")
    rep.cov["trusted_base"] = TRUSTED
    rep.assumptions = ASSUMPTIONS
    rep.add_audit(common.audit_proofs(prop))
    if not common.ensure_built(rep, debug=True):
        return rep.finish()
    rng = random.Random(seed)
    thorough = tier == "thorough"
    cases = gen_cases(rng, 80000 if thorough else 700, thorough)
    others = other_cases(rng, thorough)
    fb = sorted(set(wire.all_float_bits([c for _, c in cases])))
    try:
        ftext = {}
        for i in range(0, len(fb), 200):
            chunk = fb[i:i + 200]
            o = common.run_harness("wire", ["F " + ";".join(chunk)], shards=1)[0]
            for b, t in zip(chunk, o.split(";")):
                ftext[b] = t.split(":")
        lines = [h_line(s, c) for s, c in cases]
        impl = common.run_harness("hostile", lines, shards=common.NCPU)
        model = common.run_model("hostile", [h_line(s, c, ftext) for s, c in cases])
        common.kernel_crosscheck(rep, "hostile", [h_line(s, c, ftext) for s, c in cases], 150 if thorough else 50)
        sub = list(range(0, len(lines), 1 if thorough else 3))
        impl_dbg = common.run_harness("hostile", [lines[i] for i in sub], debug=True, shards=common.NCPU)
        # queued() under every sub-step placement of its two loads (hook H2 schedules of the queue check, <= 6 events):
        # the subtraction behind the guard must not be reachable with drained > submitted
        from . import queue as queue_driver
        sched = queue_driver.gen_schedules(6, [1, None], rng, 0, 0)
        simpl = common.run_harness("queue", sched, shards=common.NCPU)
        simpl_dbg = common.run_harness("queue", sched, debug=True, shards=common.NCPU)
        # the writer under every placement of faults (all error kinds, Interrupted included): no emit, flush or drop may
        # panic whatever fails when (the `capacity - written` invariant must survive failed flushes too)
        from . import writer as writer_driver
        wcases = writer_driver.gen_exhaustive(3, 3, 1, 3, True) + writer_driver.gen_boundary(rng, 20000 if thorough else 2500, True)
        wimpl = common.run_harness("mlw", wcases)
        wimpl_dbg = common.run_harness("mlw", wcases[::1 if thorough else 4], debug=True)
        oimpl = common.run_harness("hostile", others, shards=min(8, common.NCPU))
        oimpl_dbg = common.run_harness("hostile", others, debug=True, shards=min(8, common.NCPU))
        omodel = common.run_model("hostile", others)
    except common.CheckFailure as e:
        rep.violation_noinput("correspondence run failed", {"error": str(e)})
        return rep.finish()
    failures = []
    dis = []
    hint_dis = []     # size hints reported by hook H3 that differ from Hint.size_hint
    dist = {"calls": 0, "rejected": 0, "sent": 0, "io_errors": 0, "sinks": {}, "largest_line_bytes": 0,
            "writer_histories": sum(1 for o in others if o.startswith("HW")), "profiles": ["release+overflow-checks", "debug"]}

    def examine(line, sink, o, m, profile):
        if "panic" in o or o.startswith("HARNESS-PANIC") or o.startswith("ctor-panic"):
            calls = line.split(" ")
            failures.append((len(line), line, o, "a call panicked (%s profile): %s" % (profile, o[:200])))
            return
        kinds = o.split("|")[0].split(",")
        want = m.split("|")[0].split(",")
        zi = o.split("|Z:")[1] if "|Z:" in o else None
        zm = m.split("|Z:")[1] if "|Z:" in m else None
        if zi is not None and zi != zm and profile == "release":
            hint_dis.append((len(line), line, zi, zm))
        for j, (k, w) in enumerate(zip(kinds, want)):
            if w == "einv" and k != "einv":
                failures.append((len(line), line, o, "call %d: an invalid value was not reported as InvalidInput (%s)" % (j, k)))
            elif w == "sent" and k == "einv":
                failures.append((len(line), line, o, "call %d: a valid value was rejected as InvalidInput" % j))
            elif w == "sent" and k != "ok" and sink in NEVER_FAIL:
                failures.append((len(line), line, o, "call %d: a valid value was not sent (%s) although the sink accepts everything" % (j, k)))
            elif w == "notype" or k == "notype":
                if w != k:
                    dis.append((len(line), line, o, m))
        if len(kinds) != len(want):
            dis.append((len(line), line, o, m))

    for (sink, c), line, o, m in zip(cases, lines, impl, model):
        examine(line, sink, o, m, "release")
        dist["calls"] += len(c.calls)
        dist["rejected"] += m.split("|")[0].count("einv")
        dist["sent"] += m.split("|")[0].count("sent")
        dist["io_errors"] += o.count("eio")
        dist["sinks"][sink] = dist["sinks"].get(sink, 0) + 1
        dist["largest_line_bytes"] = max(dist["largest_line_bytes"], len(line) // 2)
    for i, o in zip(sub, impl_dbg):
        examine(lines[i], cases[i][0], o, model[i], "debug")
    for c, o, od, m in zip(others, oimpl, oimpl_dbg, omodel):
        for prof, x in (("release", o), ("debug", od)):
            if "panic" in x or x.startswith("HARNESS-PANIC"):
                failures.append((len(c), c, x, "a call panicked (%s profile): %s" % (prof, x[:200])))
            elif x != m:
                dis.append((len(c), c, x, m))
    for c, o, od in zip(sched, simpl, simpl_dbg):
        for prof, x in (("release", o), ("debug", od)):
            if x.startswith("HARNESS-PANIC"):
                failures.append((len(c), c, x, "a library call panicked under the sub-step schedule (%s profile): %s" % (prof, x[:200])))
    for prof, cs, os_ in (("release", wcases, wimpl), ("debug", wcases[::1 if thorough else 4], wimpl_dbg)):
        for c, o in zip(cs, os_):
            r = o.split("|")[0]
            if o.startswith("HARNESS-PANIC") or r.endswith(":p") or r.endswith(",p") or ",p," in r:
                failures.append((len(c), c, o, "the writer panicked under a fault script (%s profile): %s" % (prof, o[:200])))
    failures += wire.value_display_failures(prop)         # Display of a MetricValue, empty packed lists included
    # constructors given an address argument that yields no address
    from . import sock as sock_driver
    try:
        ue = common.run_harness("sock", ["UE"], shards=1)[0]
    except common.CheckFailure as e:
        ue = "HARNESS-PANIC " + str(e)[:200]
    for pid, msg in sock_driver.judge("UE", ue):
        if pid == prop:
            failures.append((2, "UE", ue, msg))
    dist["writer_fault_histories"] = len(wcases)
    dist["queued_schedules"] = len(sched)
    if failures:
        failures.sort()
        _, line, o, msg = failures[0]
        rep.violation_input("%s (%d failing cases; smallest shown)" % (msg[:300], len(failures)),
                            {"bin": "queue" if line.startswith("QH") else "mlw" if line.startswith("W ") else "hostile", "case": line[:20000], "implementation": o[:3000], "clause": msg,
                             "how": "build/target/{release,debug}/harness hostile <file with the case line>"})
    if dis and not failures:
        dis.sort()
        _, line, o, m = dis[0]
        rep.violation_noinput(
            "correspondence broken on %d cases: results of the hostile stream differ from the models (Wire.client_line / "
            "Stats.update / Writer.run); the theorems of Props/C20.v no longer speak about this code" % len(dis),
            {"correspondence": "which calls are rejected / sent; wrapped statistics; writer results at capacities 0..3",
             "theorems": rep.cov.get("theorems", []), "first_disagreeing_case": line[:20000], "implementation": o[:3000],
             "model": m[:3000]})
    if hint_dis and not failures and not dis:
        hint_dis.sort()
        _, line, zi, zm = hint_dis[0]
        rep.violation_noinput(
            "correspondence Model/Hint.v <-> MetricFormatter::size_hint broken on %d cases: the size hints reported through "
            "hook H3 differ from the modelled arithmetic; c20_hint no longer speaks about this code" % len(hint_dis),
            {"correspondence": "Hint.call_hint vs the value computed in MetricFormatter::format (hook fmt.size_hint)",
             "theorems": ["c20_hint"], "first_disagreeing_case": line[:20000], "implementation": zi[:2000], "model": zm[:2000]})
    dist["size_hints_compared"] = sum(o.split("|Z:")[1].count(",") + 1 for o in impl if "|Z:" in o)
    nt = set(case_hash(l) for l, m in zip(lines, model) if "einv" in m or any(s in l.split(" ")[1] for s in (":0", ":1", ":2", "q0", "q1")))
    rep.cov["evaluations"] = dist["calls"] * 2 // 1 + len(others) * 2
    rep.cov["distinct_nontrivial"] = len(nt)
    rep.cov["exhaustive"] = True
    rep.cov["exhaustive_scope"] = ("MultiLineWriter: every history of <= %d operations over {emit '', 'a', 'ab', 'abc', flush} x capacities "
                                   "0..3 x terminators '', LF, CRLF (%d histories), both profiles; every sink specification (%d) x a fixed "
                                   "hostile mini-suite" % (3 if thorough else 2, dist["writer_histories"], len(SINKS)))
    rep.cov["rule"] = ("hostile stream of C01-C04's generator (delimiters inside names/tags, empty everything, non-ASCII, extreme numbers, "
                       "NaN/inf, overflowing Durations, empty packed lists) through StatsdClient over every sink (unbuffered, buffered "
                       "with capacities 0/1/2/3/64/512, queuing with capacities 0/1/2/unbounded, nested), very large inputs (1 MB "
                       "strings, 10^5-element lists), SocketStats::update at u64::MAX, queuing sink life cycles, writer histories; "
                       "every call under catch_unwind in the optimised profile with overflow checks and in the debug profile; "
                       "result kinds compared with the model.  distinct_nontrivial = distinct cases with a rejected value or a "
                       "tiny capacity")
    short = [(l, o) for l, o in zip(lines, impl) if len(l) + len(o) < 400]
    rep.cov["samples"] = [{"case": l, "implementation": o} for l, o in short[:2] + short[5::max(1, len(short) // 3)][:3]]
    rep.cov["disagreements"] = len(dis)
    rep.cov["input_distribution"] = dist
    rep.cov["design_ref"] = "DESIGN.md 8.C20"
    return rep.finish()


def replay(prop, data):
    r = data.get("replay", {})
    c = r.get("case") or r.get("first_disagreeing_case")
    if not c:
        print("nothing to replay")
        return 2
    o = common.run_harness("hostile", [c], shards=1)[0]
    print(o)
    return 1 if "panic" in o else 0
