(* Audit items A.7 (incr/decr), A.17 (client_line_v0), A.22 (definedness of send_calls),
   A.2 (floats under an explicit hypothesis), A.23 (count of the entry points), A.24 (AUser).
   New definitions of this file: [count_call], [incr_call], [decr_call] (the reading of
   CountedExt::incr / decr as count_with_tags(key, 1 / -1)), [empty_packed], [faithful]. *)
Require Import Cadence.Base.Prelude.
Require Import Cadence.Base.Decimal.
Require Import Cadence.Model.Convert.
Require Import Cadence.Model.Wire.
Require Import Cadence.Model.Client.
Require Import Cadence.Proofs.SplitProofs.
Require Import Cadence.Proofs.DecimalProofs.
Require Import Cadence.Proofs.WireDefs.
Require Import Cadence.Proofs.WireProofs.
Require Import Cadence.Proofs.ConvertProofs.
Require Import Cadence.Proofs.ClientProofs.

(* ================================================================== A.7  incr / decr *)
(* count_with_tags(key, z) for an i64 followed by the builder calls [ops] *)
Definition count_call (key : str) (z : Z) (ops : list bop) : call :=
  {| k_kind := Counter; k_key := key; k_arg := AI64 z; k_ops := ops |}.
(* incr(key) / incr_with_tags(key)...: count_with_tags(key, 1); decr: count_with_tags(key, -1) *)
Definition incr_call (key : str) (ops : list bop) : call :=
  {| k_kind := Counter; k_key := key; k_arg := AI64 1; k_ops := ops |}.
Definition decr_call (key : str) (ops : list bop) : call :=
  {| k_kind := Counter; k_key := key; k_arg := AI64 (-1); k_ops := ops |}.

Lemma incr_is_count : forall key ops, incr_call key ops = count_call key 1 ops.
Proof. reflexivity. Qed.
Lemma decr_is_count : forall key ops, decr_call key ops = count_call key (-1) ops.
Proof. reflexivity. Qed.

(* for ALL strings: an i64 counter call always yields a line (never an error, never
   undefined) and the line is the grammar instance with the single value text render_Z z *)
Theorem count_call_line : forall cfg key z ops,
  client_line cfg (count_call key z ops) =
  Some (inr (match c_prefix cfg with
             | [] => key
             | _ :: _ => trim_end_dots (c_prefix cfg) ++ b_dot :: key
             end ++ b_colon :: render_Z z ++ b_pipe :: code Counter
        ++ match op_rate ops with Some r => b_pipe :: b_at :: r | None => [] end
        ++ match c_tags cfg ++ op_tags ops with
           | [] => []
           | _ :: _ => b_pipe :: b_hash :: join b_comma (map render_tag (c_tags cfg ++ op_tags ops))
           end
        ++ match (match op_container ops with Some x => Some x | None => c_container cfg end) with
           | Some x => b_pipe :: b_c :: b_colon :: x | None => [] end
        ++ match op_timestamp ops with Some t => b_pipe :: b_T :: render_N t | None => [] end)).
Proof.
  intros cfg key z ops. rewrite client_line_cases.
  cbn [count_call k_kind k_arg k_key k_ops to_value mv_count Nat.eqb value_texts].
  unfold wire_line, full_name, or_else. cbn [join]. reflexivity.
Qed.
Print Assumptions count_call_line.

(* what a server reads (clean strings) *)
Theorem count_call_parsed : forall cfg key z ops,
  config_ok cfg = true -> call_ok (count_call key z ops) = true ->
  exists l p, client_line cfg (count_call key z ops) = Some (inr l) /\ parse_line l = Some p /\
    p_name p = match c_prefix cfg with
               | [] => key
               | _ :: _ => trim_end_dots (c_prefix cfg) ++ b_dot :: key
               end /\
    p_values p = [render_Z z] /\ map parse_Z (p_values p) = [Some z] /\
    p_type p = code Counter /\
    p_rate p = op_rate ops /\
    p_tags p = c_tags cfg ++ op_tags ops /\
    p_container p = match op_container ops with Some x => Some x | None => c_container cfg end /\
    p_timestamp p = op_timestamp ops.
Proof.
  intros cfg key z ops Hcfg Hc.
  destruct (client_line cfg (count_call key z ops)) as [[e|l]|] eqn:El;
    [rewrite count_call_line in El; discriminate| |rewrite count_call_line in El; discriminate].
  destruct (roundtrip _ _ _ Hcfg Hc El) as [v [Hv Hp]].
  cbn [count_call k_kind k_arg k_key k_ops to_value] in Hv, Hp. inversion Hv; subst v.
  exists l. eexists. split; [reflexivity|]. split; [exact Hp|].
  cbn [p_name p_values p_type p_rate p_tags p_container p_timestamp value_texts map].
  rewrite render_parse_Z. repeat split.
Qed.
Print Assumptions count_call_parsed.

Lemma call_ok_count : forall key z ops,
  call_ok (count_call key z ops) = clean key && forallb bop_ok ops.
Proof. intros. unfold call_ok. cbn [count_call k_key k_arg k_ops arg_ok]. rewrite andb_true_r. reflexivity. Qed.

(* the statement asked for by the audit, with the container id and the numeral read back *)
Theorem incr_parsed : forall cfg key ops,
  config_ok cfg = true -> call_ok (incr_call key ops) = true ->
  exists l p, client_line cfg (incr_call key ops) = Some (inr l) /\ parse_line l = Some p /\
    p_name p = match c_prefix cfg with
               | [] => key
               | _ :: _ => trim_end_dots (c_prefix cfg) ++ b_dot :: key
               end /\
    p_values p = [render_Z 1] /\ p_values p = [[49%N]] /\ map parse_Z (p_values p) = [Some 1%Z] /\
    p_type p = code Counter /\
    p_rate p = op_rate ops /\
    p_tags p = c_tags cfg ++ op_tags ops /\
    p_container p = match op_container ops with Some x => Some x | None => c_container cfg end /\
    p_timestamp p = op_timestamp ops.
Proof.
  intros cfg key ops Hcfg Hc.
  destruct (count_call_parsed cfg key 1 ops Hcfg Hc) as [l [p [A [B [C [D [E [F [G [H [I J]]]]]]]]]]].
  exists l, p. repeat (split; [assumption|]). assumption.
Qed.
Print Assumptions incr_parsed.

Theorem decr_parsed : forall cfg key ops,
  config_ok cfg = true -> call_ok (decr_call key ops) = true ->
  exists l p, client_line cfg (decr_call key ops) = Some (inr l) /\ parse_line l = Some p /\
    p_name p = match c_prefix cfg with
               | [] => key
               | _ :: _ => trim_end_dots (c_prefix cfg) ++ b_dot :: key
               end /\
    p_values p = [render_Z (-1)] /\ p_values p = [[45%N; 49%N]] /\ map parse_Z (p_values p) = [Some (-1)%Z] /\
    p_type p = code Counter /\
    p_rate p = op_rate ops /\
    p_tags p = c_tags cfg ++ op_tags ops /\
    p_container p = match op_container ops with Some x => Some x | None => c_container cfg end /\
    p_timestamp p = op_timestamp ops.
Proof.
  intros cfg key ops Hcfg Hc.
  destruct (count_call_parsed cfg key (-1) ops Hcfg Hc) as [l [p [A [B [C [D [E [F [G [H [I J]]]]]]]]]]].
  exists l, p. repeat (split; [assumption|]). assumption.
Qed.
Print Assumptions decr_parsed.

(* every call form of incr / decr hands the sink exactly that one line, whatever the sink
   answers (incr/decr can never be rejected as invalid input) *)
Theorem count_call_sent : forall cfg fm key z ops script,
  exists o l, send_call cfg fm (count_call key z ops) script = Some (o, tl script) /\
    client_line cfg (count_call key z ops) = Some (inr l) /\ o_emitted o = [l] /\
    o_ret o <> RError EInvalid /\ ~ In EInvalid (o_handled o).
Proof.
  intros cfg fm key z ops script.
  pose proof (count_call_line cfg key z ops) as El.
  rewrite (send_call_accepted _ fm _ script _ El).
  eexists. eexists. split; [reflexivity|]. split; [exact El|].
  destruct (next_outcome script), fm; cbn [o_emitted o_ret o_handled In];
    (split; [reflexivity|]); split; try discriminate; intros H; try destruct H as [H|H]; try discriminate; try exact H.
Qed.
Print Assumptions count_call_sent.

(* non-vacuity: incr / decr with defaults, a call tag and a per-call container id *)
(* "a.k:1|c|#x:y,t:u|c:pp"  and  "a.k:-1|c|#x:y|c:dd" *)
Example incr_decr_witness :
  let cfg := {| c_prefix := [97]%N; c_tags := [(Some [120]%N, [121]%N)]; c_container := Some [100; 100]%N |} in
  let ops := [WithTag [116]%N [117]%N; WithContainerId [112; 112]%N] in
  config_ok cfg = true /\ call_ok (incr_call [107]%N ops) = true /\ call_ok (decr_call [107]%N []) = true /\
  client_line cfg (incr_call [107]%N ops) =
    Some (inr [97; 46; 107; 58; 49; 124; 99; 124; 35; 120; 58; 121; 44; 116; 58; 117; 124; 99; 58; 112; 112]%N) /\
  client_line cfg (decr_call [107]%N []) =
    Some (inr [97; 46; 107; 58; 45; 49; 124; 99; 124; 35; 120; 58; 121; 124; 99; 58; 100; 100]%N).
Proof. vm_compute. repeat split. Qed.
Print Assumptions incr_decr_witness.

(* ================================================================== A.17  client_line_v0 *)
(* complete description of the pre-fix model: as client_line_cases without the count check *)
Theorem client_line_v0_cases : forall cfg c,
  client_line_v0 cfg c =
  match to_value (k_kind c) (k_arg c) with
  | None => None
  | Some (inl e) => Some (inl e)
  | Some (inr v) =>
    Some (inr (wire_line (full_name (c_prefix cfg) (k_key c)) (value_texts v) (code (k_kind c))
                (op_rate (k_ops c)) (c_tags cfg ++ op_tags (k_ops c))
                (or_else (op_container (k_ops c)) (c_container cfg)) (op_timestamp (k_ops c))))
  end.
Proof.
  intros cfg c. unfold client_line_v0.
  destruct (to_value (k_kind c) (k_arg c)) as [[e|v]|]; try reflexivity.
  rewrite format_wire_line, fold_bops.
  cbn [f_prefix f_key f_val f_kind f_tags f_timestamp f_rate f_container].
  rewrite name_of_prefix, !or_else_None_r. reflexivity.
Qed.
Print Assumptions client_line_v0_cases.

(* the values without any element *)
Definition empty_packed (v : mvalue) : Prop :=
  v = PackedSigned [] \/ v = PackedUnsigned [] \/ v = PackedFloat [].

Lemma mv_count_zero_iff : forall v, mv_count v = 0 <-> empty_packed v.
Proof.
  intros v. unfold empty_packed. destruct v as [z|l|n|l|t|l]; cbn [mv_count]; split; intros H;
    try discriminate; try (destruct H as [H|[H|H]]; discriminate);
    try (destruct l; [tauto|discriminate]);
    destruct H as [H|[H|H]]; inversion H; reflexivity.
Qed.

Theorem v0_agrees : forall cfg c v,
  to_value (k_kind c) (k_arg c) = Some (inr v) -> mv_count v <> 0 ->
  client_line_v0 cfg c = client_line cfg c.
Proof.
  intros cfg c v Hv Hc. rewrite client_line_v0_cases, client_line_cases, Hv.
  apply Nat.eqb_neq in Hc. rewrite Hc. reflexivity.
Qed.
Print Assumptions v0_agrees.

(* the two models agree on every call except those whose value has no element ... *)
Theorem v0_agrees_iff : forall cfg c,
  client_line_v0 cfg c = client_line cfg c <->
  (forall v, to_value (k_kind c) (k_arg c) = Some (inr v) -> mv_count v <> 0).
Proof.
  intros cfg c. rewrite client_line_v0_cases, client_line_cases.
  destruct (to_value (k_kind c) (k_arg c)) as [[e|v]|].
  - split; [intros _ v H; discriminate|reflexivity].
  - destruct (Nat.eqb (mv_count v) 0) eqn:Ec.
    + apply Nat.eqb_eq in Ec. split; [discriminate|]. intros H. exfalso. apply (H v eq_refl Ec).
    + apply Nat.eqb_neq in Ec. split; [|reflexivity]. intros _ v' H. inversion H; subst. exact Ec.
  - split; [intros _ v H; discriminate|reflexivity].
Qed.
Print Assumptions v0_agrees_iff.

(* ... and there they differ in exactly this way: v0 hands "<name>:|<type>..." (no value
   text at all) to the sink, the repaired model reports InvalidInput *)
Theorem v0_differs : forall cfg c,
  client_line_v0 cfg c <> client_line cfg c <->
  exists v, to_value (k_kind c) (k_arg c) = Some (inr v) /\ empty_packed v.
Proof.
  intros cfg c. split.
  - intros H. destruct (to_value (k_kind c) (k_arg c)) as [[e|v]|] eqn:Ev.
    + exfalso. apply H. apply v0_agrees_iff. intros v Hv. congruence.
    + exists v. split; [reflexivity|]. apply mv_count_zero_iff.
      destruct (mv_count v) eqn:Ec; [reflexivity|]. exfalso. apply H.
      apply (v0_agrees cfg c v Ev). rewrite Ec. discriminate.
    + exfalso. apply H. apply v0_agrees_iff. intros v Hv. congruence.
  - intros [v [Hv He]] Heq. apply mv_count_zero_iff in He.
    destruct (v0_agrees_iff cfg c) as [A _]. exact (A Heq v Hv He).
Qed.
Print Assumptions v0_differs.

Theorem v0_on_empty : forall cfg c v,
  to_value (k_kind c) (k_arg c) = Some (inr v) -> mv_count v = 0 ->
  client_line cfg c = Some (inl EInvalid) /\
  value_texts v = [] /\
  client_line_v0 cfg c =
  Some (inr (match c_prefix cfg with
             | [] => k_key c
             | _ :: _ => trim_end_dots (c_prefix cfg) ++ b_dot :: k_key c
             end ++ b_colon :: b_pipe :: code (k_kind c)
        ++ match op_rate (k_ops c) with Some r => b_pipe :: b_at :: r | None => [] end
        ++ match c_tags cfg ++ op_tags (k_ops c) with
           | [] => []
           | _ :: _ => b_pipe :: b_hash :: join b_comma (map render_tag (c_tags cfg ++ op_tags (k_ops c)))
           end
        ++ match (match op_container (k_ops c) with Some x => Some x | None => c_container cfg end) with
           | Some x => b_pipe :: b_c :: b_colon :: x | None => [] end
        ++ match op_timestamp (k_ops c) with Some t => b_pipe :: b_T :: render_N t | None => [] end)).
Proof.
  intros cfg c v Hv Hc.
  assert (Ht : value_texts v = []).
  { pose proof (value_texts_length v) as L. rewrite Hc in L. destruct (value_texts v); [reflexivity|discriminate]. }
  split; [rewrite client_line_cases, Hv, Hc; reflexivity|]. split; [exact Ht|].
  rewrite client_line_v0_cases, Hv, Ht. unfold wire_line, full_name, or_else. cbn [join app]. reflexivity.
Qed.
Print Assumptions v0_on_empty.

(* which calls these are, among the built-in argument types: exactly the three empty vectors
   (a packed Duration list is empty after conversion iff it was empty) *)
Theorem empty_value_args : forall k a v,
  to_value k a = Some (inr v) -> mv_count v = 0 ->
  a = AVecU64 [] \/ a = AVecF64 [] \/ a = AVecDur [] \/ (exists v', a = AUser v' /\ empty_packed v').
Proof.
  intros k a v Hv Hc.
  destruct a as [z|z|n|n|t|d|l|l|l|u|ue].
  11: (destruct k; cbn [to_value] in Hv; discriminate).
  1-5: destruct k; cbn [to_value] in Hv; try discriminate; inversion Hv; subst v; cbn [mv_count] in Hc; discriminate.
  - destruct k; cbn [to_value] in Hv; try discriminate; unfold conv_dur in Hv;
      match type of Hv with context [if ?b then _ else _] => destruct b end; try discriminate;
      inversion Hv; subst v; cbn [mv_count] in Hc; discriminate.
  - left. destruct k; cbn [to_value] in Hv; try discriminate; inversion Hv; subst v; cbn [mv_count] in Hc;
      destruct l; [reflexivity|discriminate|reflexivity|discriminate|reflexivity|discriminate].
  - right; left. destruct k; cbn [to_value] in Hv; try discriminate; inversion Hv; subst v; cbn [mv_count] in Hc;
      destruct l; [reflexivity|discriminate|reflexivity|discriminate].
  - right; right; left. destruct k; cbn [to_value] in Hv; try discriminate; unfold conv_durs in Hv;
      match type of Hv with context [if ?b then _ else _] => destruct b end; try discriminate;
      inversion Hv; subst v; cbn [mv_count] in Hc; rewrite map_length in Hc;
      (destruct l; [reflexivity|discriminate]).
  - right; right; right. exists u. split; [reflexivity|]. cbn [to_value] in Hv. inversion Hv; subst v.
    apply mv_count_zero_iff. exact Hc.
Qed.
Print Assumptions empty_value_args.

(* non-vacuity of both sides: an accepted packed call (agreement, a line) and the empty one *)
Example v0_witness :
  let cfg := {| c_prefix := []; c_tags := []; c_container := None |} in
  let c1 := {| k_kind := Timer; k_key := [107]%N; k_arg := AVecU64 [1; 20]%N; k_ops := [] |} in
  let c0 := {| k_kind := Histogram; k_key := [107]%N; k_arg := AVecF64 []; k_ops := [WithTagValue [116]%N] |} in
  client_line_v0 cfg c1 = client_line cfg c1 /\
  client_line cfg c1 = Some (inr [107; 58; 49; 58; 50; 48; 124; 109; 115]%N) /\
  client_line_v0 cfg c0 = Some (inr [107; 58; 124; 104; 124; 35; 116]%N) /\
  client_line cfg c0 = Some (inl EInvalid).
Proof. vm_compute. repeat split. Qed.
Print Assumptions v0_witness.

(* ================================================================== A.22  definedness of send_calls *)
Theorem send_calls_defined_Forall : forall cfg cs script,
  send_calls cfg cs script <> None <->
  Forall (fun fc => to_value (k_kind (snd fc)) (k_arg (snd fc)) <> None) cs.
Proof.
  intros cfg cs script. rewrite send_calls_defined. rewrite Forall_forall. split.
  - intros H [fm c] Hin. cbn [snd]. exact (H fm c Hin).
  - intros H fm c Hin. exact (H (fm, c) Hin).
Qed.
Print Assumptions send_calls_defined_Forall.

(* the complete form: a sequence has outcomes — one per call — iff every call type-checks;
   it is stuck iff some call does not; neither depends on the client configuration, on the
   call forms or on what the sink answers *)
Theorem send_calls_defined_full : forall cfg cs script,
  (Forall (fun fc => to_value (k_kind (snd fc)) (k_arg (snd fc)) <> None) cs ->
     exists os, send_calls cfg cs script = Some os /\ length os = length cs) /\
  (send_calls cfg cs script = None <->
     exists i fm c, nth_error cs i = Some (fm, c) /\ to_value (k_kind c) (k_arg c) = None) /\
  (forall cfg' script' cs', map (fun fc => (k_kind (snd fc), k_arg (snd fc))) cs' =
                            map (fun fc => (k_kind (snd fc), k_arg (snd fc))) cs ->
     (send_calls cfg' cs' script' = None <-> send_calls cfg cs script = None)).
Proof.
  intros cfg cs script. split; [|split].
  - intros H. apply send_calls_defined_Forall with (cfg := cfg) (script := script) in H.
    destruct (send_calls cfg cs script) as [os|] eqn:E; [|congruence].
    exists os. split; [reflexivity|]. exact (send_calls_length _ _ _ _ E).
  - split.
    + intros H.
      assert (N : ~ Forall (fun fc => to_value (k_kind (snd fc)) (k_arg (snd fc)) <> None) cs).
      { intros F. apply (send_calls_defined_Forall cfg cs script) in F. congruence. }
      clear H. induction cs as [|[fm c] r IH]; [exfalso; apply N; constructor|].
      destruct (to_value (k_kind c) (k_arg c)) as [x|] eqn:Ev.
      * assert (N' : ~ Forall (fun fc => to_value (k_kind (snd fc)) (k_arg (snd fc)) <> None) r).
        { intros F. apply N. constructor; [cbn [snd]; congruence|exact F]. }
        destruct (IH N') as [i [fm' [c' [Hi Hc']]]]. exists (S i), fm', c'. split; assumption.
      * exists 0, fm, c. split; [reflexivity|exact Ev].
    + intros [i [fm [c [Hi Hc]]]].
      destruct (send_calls cfg cs script) as [os|] eqn:E; [|reflexivity]. exfalso.
      assert (D : send_calls cfg cs script <> None) by congruence.
      rewrite send_calls_defined in D. apply (D fm c (nth_error_In _ _ Hi)). exact Hc.
  - intros cfg' script' cs' Hm.
    assert (Q : Forall (fun fc => to_value (k_kind (snd fc)) (k_arg (snd fc)) <> None) cs' <->
                Forall (fun fc => to_value (k_kind (snd fc)) (k_arg (snd fc)) <> None) cs).
    { revert cs' Hm. induction cs as [|a r IH]; intros cs' Hm; destruct cs' as [|a' r']; try discriminate.
      - tauto.
      - cbn [map] in Hm. inversion Hm as [[H1 H2 H3]]. specialize (IH r' H3).
        split; intros F; inversion F; subst; constructor; try (apply IH; assumption); congruence. }
    rewrite <- (send_calls_defined_Forall cfg' cs' script'), <- (send_calls_defined_Forall cfg cs script) in Q.
    destruct (send_calls cfg' cs' script'), (send_calls cfg cs script); split; intros H; try reflexivity;
      try discriminate; exfalso; destruct Q as [Q1 Q2];
      [apply Q1; [discriminate|exact H] | apply Q2; [discriminate|exact H]].
Qed.
Print Assumptions send_calls_defined_full.

(* non-vacuity: a defined three-call sequence; the same with an ill-typed call in the middle *)
Example send_calls_defined_witness :
  let cfg := {| c_prefix := []; c_tags := []; c_container := None |} in
  let ok := {| k_kind := Counter; k_key := [107]%N; k_arg := AI64 1; k_ops := [] |} in
  let rej := {| k_kind := Timer; k_key := [107]%N; k_arg := AVecU64 []; k_ops := [] |} in
  let ill := {| k_kind := SetK; k_key := [107]%N; k_arg := AU64 1; k_ops := [] |} in
  option_map (@length _) (send_calls cfg [(Quiet, ok); (Plain, rej); (TrySend, ok)] [Refuse 1 2]) = Some 3 /\
  send_calls cfg [(Quiet, ok); (Plain, ill); (TrySend, ok)] [Refuse 1 2] = None /\
  to_value (k_kind ill) (k_arg ill) = None.
Proof. vm_compute. repeat split. Qed.
Print Assumptions send_calls_defined_witness.

(* ================================================================== A.2  floats *)
Section Floats.
  (* an arbitrary type of numbers with an arbitrary printer and reader (for cadence: f64,
     std's [impl Display for f64] and the server's numeral parser) *)
  Variable F : Type.
  Variable show : F -> str.
  Variable read : str -> option F.

  (* the assumption, per value: the text reads back to the same number and contains none of
     the delimiter bytes ':' '|' '#' ',' '@' '\n' *)
  Definition faithful (x : F) : Prop := read (show x) = Some x /\ clean (show x) = true.

  Definition float_kind (k : kind) : Prop := k = Gauge \/ k = Histogram \/ k = Distribution.
  Definition packed_float_kind (k : kind) : Prop := k = Histogram \/ k = Distribution.

  Lemma forallb_clean_show : forall xs, Forall faithful xs -> forallb clean (map show xs) = true.
  Proof.
    intros xs H. induction H as [|x r [_ Hx] _ IH]; [reflexivity|]. cbn [map forallb]. rewrite Hx, IH. reflexivity.
  Qed.

  Lemma map_read_show : forall xs, Forall faithful xs -> map read (map show xs) = map Some xs.
  Proof.
    intros xs H. induction H as [|x r [Hx _] _ IH]; [reflexivity|]. cbn [map]. rewrite Hx, IH. reflexivity.
  Qed.

  (* a single float value *)
  Theorem float_on_the_wire : forall cfg c x,
    faithful x ->
    config_ok cfg = true -> clean (k_key c) = true -> forallb bop_ok (k_ops c) = true ->
    float_kind (k_kind c) -> k_arg c = AF64 (show x) ->
    exists l p, client_line cfg c = Some (inr l) /\ parse_line l = Some p /\
      p_values p = [show x] /\ map read (p_values p) = [Some x] /\ p_type p = code (k_kind c).
  Proof.
    intros cfg c x [Hr Hcl] Hcfg Hkey Hops Hk Ha.
    assert (Hv : to_value (k_kind c) (k_arg c) = Some (inr (Float (show x)))).
    { rewrite Ha. destruct Hk as [E|[E|E]]; rewrite E; reflexivity. }
    assert (Hc : call_ok c = true).
    { unfold call_ok. rewrite Hkey, Hops, Ha. cbn [arg_ok]. rewrite Hcl. reflexivity. }
    assert (El : exists l, client_line cfg c = Some (inr l)).
    { rewrite client_line_cases, Hv. cbn [mv_count Nat.eqb]. eexists. reflexivity. }
    destruct El as [l El]. destruct (roundtrip _ _ _ Hcfg Hc El) as [v [Hv' Hp]].
    rewrite Hv in Hv'. inversion Hv'; subst v.
    exists l. eexists. split; [exact El|]. split; [exact Hp|].
    cbn [p_values p_type value_texts map]. rewrite Hr. repeat split.
  Qed.

  (* a sampling rate: the LAST with_sampling_rate of the chain is what a server reads; the
     value may be anything accepted (of any kind and type) *)
  Theorem rate_on_the_wire : forall cfg c r ops1 ops2 v,
    faithful r ->
    config_ok cfg = true -> clean (k_key c) = true -> arg_ok (k_arg c) = true ->
    to_value (k_kind c) (k_arg c) = Some (inr v) -> mv_count v <> 0 ->
    k_ops c = ops1 ++ WithSamplingRate (show r) :: ops2 -> op_rate ops2 = None ->
    forallb bop_ok ops1 = true -> forallb bop_ok ops2 = true ->
    exists l p, client_line cfg c = Some (inr l) /\ parse_line l = Some p /\
      p_rate p = Some (show r) /\ option_map read (p_rate p) = Some (Some r) /\
      p_values p = value_texts v.
  Proof.
    intros cfg c r ops1 ops2 v [Hr Hcl] Hcfg Hkey Harg Hv Hcnt Hops Hno H1 H2.
    assert (Hc : call_ok c = true).
    { unfold call_ok. rewrite Hkey, Harg, Hops, forallb_app. cbn [forallb bop_ok]. rewrite H1, H2, Hcl. reflexivity. }
    assert (El : exists l, client_line cfg c = Some (inr l)).
    { rewrite client_line_cases, Hv. apply Nat.eqb_neq in Hcnt. rewrite Hcnt. eexists. reflexivity. }
    destruct El as [l El]. destruct (roundtrip _ _ _ Hcfg Hc El) as [v' [Hv' Hp]].
    rewrite Hv in Hv'. inversion Hv'; subst v'.
    exists l. eexists. split; [exact El|]. split; [exact Hp|]. cbn [p_rate p_values].
    rewrite Hops, op_rate_app. cbn [op_rate]. rewrite Hno.
    cbn [or_else option_map]. rewrite Hr. repeat split.
  Qed.

  (* both at once: a float value sent with a float sampling rate *)
  Theorem float_and_rate_on_the_wire : forall cfg c x r ops1 ops2,
    faithful x -> faithful r ->
    config_ok cfg = true -> clean (k_key c) = true ->
    float_kind (k_kind c) -> k_arg c = AF64 (show x) ->
    k_ops c = ops1 ++ WithSamplingRate (show r) :: ops2 -> op_rate ops2 = None ->
    forallb bop_ok ops1 = true -> forallb bop_ok ops2 = true ->
    exists l p, client_line cfg c = Some (inr l) /\ parse_line l = Some p /\
      map read (p_values p) = [Some x] /\ option_map read (p_rate p) = Some (Some r).
  Proof.
    intros cfg c x r ops1 ops2 Hx Hr Hcfg Hkey Hk Ha Hops Hno H1 H2.
    assert (Hv : to_value (k_kind c) (k_arg c) = Some (inr (Float (show x)))).
    { rewrite Ha. destruct Hk as [E|[E|E]]; rewrite E; reflexivity. }
    assert (Harg : arg_ok (k_arg c) = true) by (rewrite Ha; exact (proj2 Hx)).
    destruct (rate_on_the_wire cfg c r ops1 ops2 _ Hr Hcfg Hkey Harg Hv ltac:(discriminate) Hops Hno H1 H2)
      as [l [p [A [B [_ [D E]]]]]].
    exists l, p. split; [exact A|]. split; [exact B|]. split; [|exact D].
    rewrite E. cbn [value_texts map]. rewrite (proj1 Hx). reflexivity.
  Qed.

  (* packed floats: a non-empty list reaches the server with the same length, in the same
     order, each element reading back to itself; the empty list is invalid input *)
  Theorem packed_floats_on_the_wire : forall cfg c xs,
    Forall faithful xs -> xs <> [] ->
    config_ok cfg = true -> clean (k_key c) = true -> forallb bop_ok (k_ops c) = true ->
    packed_float_kind (k_kind c) -> k_arg c = AVecF64 (map show xs) ->
    exists l p, client_line cfg c = Some (inr l) /\ parse_line l = Some p /\
      p_values p = map show xs /\ map read (p_values p) = map Some xs /\
      length (p_values p) = length xs /\
      (forall i, nth_error (p_values p) i = option_map show (nth_error xs i)) /\
      (forall i, option_map read (nth_error (p_values p) i) = option_map Some (nth_error xs i)).
  Proof.
    intros cfg c xs Hf Hne Hcfg Hkey Hops Hk Ha.
    assert (Hv : to_value (k_kind c) (k_arg c) = Some (inr (PackedFloat (map show xs)))).
    { rewrite Ha. destruct Hk as [E|E]; rewrite E; reflexivity. }
    assert (Hc : call_ok c = true).
    { unfold call_ok. rewrite Hkey, Hops, Ha. cbn [arg_ok]. rewrite (forallb_clean_show _ Hf). reflexivity. }
    assert (El : exists l, client_line cfg c = Some (inr l)).
    { rewrite client_line_cases, Hv. cbn [mv_count]. rewrite map_length.
      destruct xs; [congruence|]. cbn [length Nat.eqb]. eexists. reflexivity. }
    destruct El as [l El]. destruct (roundtrip _ _ _ Hcfg Hc El) as [v [Hv' Hp]].
    rewrite Hv in Hv'. inversion Hv'; subst v.
    exists l. eexists. split; [exact El|]. split; [exact Hp|].
    cbn [p_values value_texts]. split; [reflexivity|]. split; [exact (map_read_show _ Hf)|].
    split; [apply map_length|]. split.
    - intros i. apply nth_error_map.
    - intros i. rewrite nth_error_map.
      destruct (nth_error xs i) as [x|] eqn:Ei; [|reflexivity]. cbn [option_map].
      rewrite Forall_forall in Hf. destruct (Hf x (nth_error_In _ _ Ei)) as [Hx _]. rewrite Hx. reflexivity.
  Qed.

  Theorem packed_floats_empty : forall cfg c,
    packed_float_kind (k_kind c) -> k_arg c = AVecF64 (map show []) ->
    client_line cfg c = Some (inl EInvalid).
  Proof.
    intros cfg c Hk Ha. rewrite client_line_cases, Ha. destruct Hk as [E|E]; rewrite E; reflexivity.
  Qed.

  (* the version with the assumption stated for ALL values, as two hypotheses *)
  Section Total.
    Hypothesis read_show : forall x, read (show x) = Some x.
    Hypothesis show_clean : forall x, clean (show x) = true.

    Lemma all_faithful : forall x, faithful x.
    Proof. intros x. split; [apply read_show|apply show_clean]. Qed.

    Theorem float_on_the_wire_total : forall cfg c l x,
      config_ok cfg = true -> call_ok c = true -> k_arg c = AF64 (show x) ->
      client_line cfg c = Some (inr l) ->
      exists p, parse_line l = Some p /\ p_values p = [show x] /\ map read (p_values p) = [Some x].
    Proof.
      intros cfg c l x Hcfg Hc Ha El. destruct (roundtrip _ _ _ Hcfg Hc El) as [v [Hv Hp]].
      assert (v = Float (show x)).
      { rewrite Ha in Hv. destruct (k_kind c); cbn [to_value] in Hv; try discriminate; inversion Hv; reflexivity. }
      subst v. eexists. split; [exact Hp|]. cbn [p_values value_texts map]. rewrite read_show. split; reflexivity.
    Qed.

    Theorem packed_floats_on_the_wire_total : forall cfg c l xs,
      config_ok cfg = true -> call_ok c = true -> k_arg c = AVecF64 (map show xs) ->
      client_line cfg c = Some (inr l) ->
      exists p, parse_line l = Some p /\ p_values p = map show xs /\ map read (p_values p) = map Some xs /\
        length (p_values p) = length xs /\ xs <> [].
    Proof.
      intros cfg c l xs Hcfg Hc Ha El. destruct (roundtrip _ _ _ Hcfg Hc El) as [v [Hv Hp]].
      assert (v = PackedFloat (map show xs)).
      { rewrite Ha in Hv. destruct (k_kind c); cbn [to_value] in Hv; try discriminate; inversion Hv; reflexivity. }
      subst v. eexists. split; [exact Hp|]. cbn [p_values value_texts]. split; [reflexivity|].
      split. { apply map_read_show. apply Forall_forall. intros x _. apply all_faithful. }
      split; [apply map_length|]. intros ->.
      rewrite client_line_cases, Hv in El. cbn [map mv_count length Nat.eqb] in El. discriminate.
    Qed.

    Theorem rate_on_the_wire_total : forall cfg c l r,
      config_ok cfg = true -> call_ok c = true -> op_rate (k_ops c) = Some (show r) ->
      client_line cfg c = Some (inr l) ->
      exists p, parse_line l = Some p /\ p_rate p = Some (show r) /\ option_map read (p_rate p) = Some (Some r).
    Proof.
      intros cfg c l r Hcfg Hc Hr El. destruct (roundtrip _ _ _ Hcfg Hc El) as [v [_ Hp]].
      eexists. split; [exact Hp|]. cbn [p_rate]. rewrite Hr. cbn [option_map]. rewrite read_show. split; reflexivity.
    Qed.
  End Total.
End Floats.
Print Assumptions float_on_the_wire.
Print Assumptions rate_on_the_wire.
Print Assumptions float_and_rate_on_the_wire.
Print Assumptions packed_floats_on_the_wire.
Print Assumptions packed_floats_empty.
Print Assumptions float_on_the_wire_total.
Print Assumptions packed_floats_on_the_wire_total.
Print Assumptions rate_on_the_wire_total.

(* non-vacuity 1: the hypotheses are satisfiable for ALL values of an infinite type, e.g. the
   integers with their numerals *)
Example float_hyps_satisfiable : forall z, faithful Z render_Z parse_Z z.
Proof. intros z. split; [apply render_parse_Z|apply render_Z_clean]. Qed.
Print Assumptions float_hyps_satisfiable.

(* non-vacuity 2: a two-element table of float texts, "0.5" and "-1.25e-7" (digits, '.', '-',
   'e': the alphabet of std's Display for finite f64), read back by table lookup; a gauge
   with a rate, and a packed histogram of three elements *)
Definition toy_show (b : bool) : str :=
  if b then [48; 46; 53]%N else [45; 49; 46; 50; 53; 101; 45; 55]%N.
Definition toy_read (s : str) : option bool :=
  if str_eqb s (toy_show true) then Some true else if str_eqb s (toy_show false) then Some false else None.

Example toy_faithful : forall b, faithful bool toy_show toy_read b.
Proof. intros [|]; split; vm_compute; reflexivity. Qed.
Print Assumptions toy_faithful.

(* "k:-1.25e-7|g|@0.5"  and  "k:0.5:-1.25e-7:0.5|h" *)
Example float_witness :
  let cfg := {| c_prefix := []; c_tags := []; c_container := None |} in
  let g := {| k_kind := Gauge; k_key := [107]%N; k_arg := AF64 (toy_show false);
              k_ops := [WithSamplingRate (toy_show false); WithSamplingRate (toy_show true)] |} in
  let h := {| k_kind := Histogram; k_key := [107]%N; k_arg := AVecF64 (map toy_show [true; false; true]);
              k_ops := [] |} in
  let view c := match client_line cfg c with
                | Some (inr l) => option_map (fun p => (map toy_read (p_values p), option_map toy_read (p_rate p)))
                                             (parse_line l)
                | _ => None
                end in
  config_ok cfg = true /\ call_ok g = true /\ call_ok h = true /\
  client_line cfg g =
    Some (inr [107; 58; 45; 49; 46; 50; 53; 101; 45; 55; 124; 103; 124; 64; 48; 46; 53]%N) /\
  client_line cfg h =
    Some (inr [107; 58; 48; 46; 53; 58; 45; 49; 46; 50; 53; 101; 45; 55; 58; 48; 46; 53; 124; 104]%N) /\
  view g = Some ([Some false], Some (Some true)) /\
  view h = Some ([Some true; Some false; Some true], None).
Proof. vm_compute. repeat split. Qed.
Print Assumptions float_witness.

(* ================================================================== A.23  how many entry points *)
(* one sample per built-in argument type, in the order of the constructors of [arg] *)
Definition builtin_args : list arg :=
  [AI64 0; AI32 0; AU64 0; AU32 0; AF64 []; ADur {| secs := 0; nanos := 0 |}; AVecU64 []; AVecF64 []; AVecDur []].
Definition arg_samples : list arg := builtin_args ++ [AUser (Signed 0)].
Definition arg_index (a : arg) : nat :=
  match a with
  | AI64 _ => 0 | AI32 _ => 1 | AU64 _ => 2 | AU32 _ => 3 | AF64 _ => 4 | ADur _ => 5
  | AVecU64 _ => 6 | AVecF64 _ => 7 | AVecDur _ => 8
  | AUser _ | AUserErr _ => 9     (* a user-defined type, whatever its conversion returns *)
  end.
Definition defined_pair (ka : kind * arg) : bool :=
  match to_value (fst ka) (snd ka) with Some _ => true | None => false end.

(* whether a call type-checks depends on the kind and on the TYPE of the argument only, so
   counting over one sample per type counts the entry points *)
Theorem defined_by_type : forall k a,
  to_value k a <> None <-> defined_pair (k, nth (arg_index a) arg_samples (AI64 0)) = true.
Proof.
  intros k a. destruct a, k; cbn [arg_index arg_samples builtin_args app nth defined_pair fst snd to_value];
    split; intros H; try reflexivity; try discriminate; try congruence.
Qed.
Print Assumptions defined_by_type.

Theorem entry_point_counts :
  (* (kind, built-in argument type) pairs that exist: the impls *)
  length (filter defined_pair (list_prod all_kinds builtin_args)) = 22 /\
  (* per kind: counter, timer, gauge, meter, histogram, distribution, set *)
  map (fun k => length (filter (fun a => defined_pair (k, a)) builtin_args)) all_kinds = [4; 4; 2; 1; 6; 4; 1] /\
  (* per type: i64 i32 u64 u32 f64 Duration Vec<u64> Vec<f64> Vec<Duration> *)
  map (fun a => length (filter (fun k => defined_pair (k, a)) all_kinds)) builtin_args = [2; 1; 6; 1; 3; 2; 3; 2; 2] /\
  (* with a user-defined type counted once per kind / once altogether *)
  length (filter defined_pair (list_prod all_kinds arg_samples)) = 29 /\
  length (filter defined_pair (list_prod all_kinds builtin_args)) + 1 = 23 /\
  (* kinds, argument constructors of the model, call forms, (kind, form) pairs *)
  length all_kinds = 7 /\ length arg_samples = 10 /\
  length (list_prod all_kinds [TrySend; Plain; Quiet]) = 21 /\
  (* (kind, form) pairs plus incr and decr / impls plus incr and decr *)
  length (list_prod all_kinds [TrySend; Plain; Quiet]) + 2 = 23 /\
  length (filter defined_pair (list_prod all_kinds builtin_args)) + 2 = 24.
Proof. vm_compute. repeat split. Qed.
Print Assumptions entry_point_counts.

(* ================================================================== A.24  user-defined values *)
(* a user-defined To*Value impl returning Ok(v) is [AUser v] (one returning Err(e) is
   [AUserErr e], see Proofs/AuditU1.v): the only rejection of an [AUser] call is the empty
   packed value (count check of MetricBuilder) *)
Theorem user_value_never_conversion_error : forall k v e,
  to_value k (AUser v) = Some (inr v) /\ to_value k (AUser v) <> Some (inl e).
Proof. intros k v e. cbn [to_value]. split; [reflexivity|discriminate]. Qed.
Print Assumptions user_value_never_conversion_error.

Theorem user_value_rejected_iff : forall cfg c v,
  k_arg c = AUser v ->
  (client_line cfg c = Some (inl EInvalid) <-> empty_packed v) /\
  (~ empty_packed v -> exists l, client_line cfg c = Some (inr l)) /\
  client_line cfg c <> None.
Proof.
  intros cfg c v Ha. rewrite client_line_cases, Ha. cbn [to_value]. rewrite <- mv_count_zero_iff.
  destruct (Nat.eqb (mv_count v) 0) eqn:Ec.
  - apply Nat.eqb_eq in Ec. split; [tauto|]. split; [intros H; exfalso; exact (H Ec)|discriminate].
  - apply Nat.eqb_neq in Ec. split; [split; [discriminate|intros H; exfalso; exact (Ec H)]|].
    split; [intros _; eexists; reflexivity|discriminate].
Qed.
Print Assumptions user_value_rejected_iff.

(* ================================================================== the statements in the form pinned in Props *)
(* (hypotheses curried, helper definitions of this file and of WireProofs spelled out) *)
Theorem float_on_the_wire_pin : forall (F : Type) (show : F -> str) (read : str -> option F) cfg c x,
  read (show x) = Some x -> clean (show x) = true ->
  config_ok cfg = true -> clean (k_key c) = true -> forallb bop_ok (k_ops c) = true ->
  (k_kind c = Gauge \/ k_kind c = Histogram \/ k_kind c = Distribution) -> k_arg c = AF64 (show x) ->
  exists l p, client_line cfg c = Some (inr l) /\ parse_line l = Some p /\
    p_values p = [show x] /\ map read (p_values p) = [Some x] /\ p_type p = code (k_kind c).
Proof. intros F show read cfg c x H1 H2. apply float_on_the_wire. split; assumption. Qed.
Print Assumptions float_on_the_wire_pin.

Theorem rate_on_the_wire_pin : forall (F : Type) (show : F -> str) (read : str -> option F) cfg c r ops1 ops2 v,
  read (show r) = Some r -> clean (show r) = true ->
  config_ok cfg = true -> clean (k_key c) = true -> arg_ok (k_arg c) = true ->
  to_value (k_kind c) (k_arg c) = Some (inr v) -> mv_count v <> 0 ->
  k_ops c = ops1 ++ WithSamplingRate (show r) :: ops2 -> op_rate ops2 = None ->
  forallb bop_ok ops1 = true -> forallb bop_ok ops2 = true ->
  exists l p, client_line cfg c = Some (inr l) /\ parse_line l = Some p /\
    p_rate p = Some (show r) /\ option_map read (p_rate p) = Some (Some r) /\
    p_values p = value_texts v.
Proof. intros F show read cfg c r ops1 ops2 v H1 H2. apply rate_on_the_wire. split; assumption. Qed.
Print Assumptions rate_on_the_wire_pin.

Theorem float_and_rate_on_the_wire_pin : forall (F : Type) (show : F -> str) (read : str -> option F) cfg c x r ops1 ops2,
  read (show x) = Some x -> clean (show x) = true ->
  read (show r) = Some r -> clean (show r) = true ->
  config_ok cfg = true -> clean (k_key c) = true ->
  (k_kind c = Gauge \/ k_kind c = Histogram \/ k_kind c = Distribution) -> k_arg c = AF64 (show x) ->
  k_ops c = ops1 ++ WithSamplingRate (show r) :: ops2 -> op_rate ops2 = None ->
  forallb bop_ok ops1 = true -> forallb bop_ok ops2 = true ->
  exists l p, client_line cfg c = Some (inr l) /\ parse_line l = Some p /\
    map read (p_values p) = [Some x] /\ option_map read (p_rate p) = Some (Some r).
Proof.
  intros F show read cfg c x r ops1 ops2 H1 H2 H3 H4. apply float_and_rate_on_the_wire; split; assumption.
Qed.
Print Assumptions float_and_rate_on_the_wire_pin.

Theorem v0_differs_pin : forall cfg c,
  client_line_v0 cfg c <> client_line cfg c <->
  exists v, to_value (k_kind c) (k_arg c) = Some (inr v) /\
    (v = PackedSigned [] \/ v = PackedUnsigned [] \/ v = PackedFloat []).
Proof. exact v0_differs. Qed.
Print Assumptions v0_differs_pin.

Theorem empty_value_args_pin : forall k a v,
  to_value k a = Some (inr v) -> mv_count v = 0 ->
  a = AVecU64 [] \/ a = AVecF64 [] \/ a = AVecDur [] \/
  (exists v', a = AUser v' /\ (v' = PackedSigned [] \/ v' = PackedUnsigned [] \/ v' = PackedFloat [])).
Proof. exact empty_value_args. Qed.
Print Assumptions empty_value_args_pin.

Theorem user_value_rejected_iff_pin : forall cfg c v,
  k_arg c = AUser v ->
  (client_line cfg c = Some (inl EInvalid) <->
     (v = PackedSigned [] \/ v = PackedUnsigned [] \/ v = PackedFloat [])) /\
  (~ (v = PackedSigned [] \/ v = PackedUnsigned [] \/ v = PackedFloat []) ->
     exists l, client_line cfg c = Some (inr l)) /\
  client_line cfg c <> None.
Proof. exact user_value_rejected_iff. Qed.
Print Assumptions user_value_rejected_iff_pin.
