#!/usr/bin/env python3
"""Regenerates MANIFEST.json from the table below (kept in one place so that it stays valid)."""
import json
import os

HERE = os.path.dirname(os.path.dirname(os.path.abspath(__file__)))
ALL = ["C%02d" % i for i in range(1, 21)]

TRUST = ("trusted: Coq 8.16.1 kernel (+ coqchk in the thorough tier), extraction (ExtrOcamlBasic only), "
         "OCaml/Rust/Python glue of the correspondence check; ")

CHECKS = {
    "C05": ("proof",
            "Coq theorems (Props/C05.v: c05_frame, c05_real, c05_sinks) about the executable model Model/Writer.v of "
            "MultiLineWriter+BufWriter, for all capacities, terminators, histories and fault scripts; the model is tied "
            "to io.rs on every run by a correspondence check (exhaustive small scope + boundary + random histories on "
            "the real MultiLineWriter / BufferedSpyMetricSink vs the extracted model) and the framing clause is also "
            "evaluated on the implementation's own log",
            TRUST + "modelled not verified: std BufWriter; assumes an all-or-nothing underlying writer whose flush succeeds",
            "machine-checked proof (Coq 8.16) on a hand-written model + differential correspondence check",
            "DESIGN.md 8.C05"),
    "C06": ("proof",
            "Coq theorems (Props/C06.v: c06_ack, c06_once_in_order, c06_own_emit, c06_flush_point, c06_flush_idem) about "
            "Model/Writer.v for a never-failing underlying writer, all capacities/terminators/histories: every emit is "
            "acknowledged with its length, the successful line writes carry exactly the emitted fitting metrics once and "
            "in order, oversized ones go out alone during their own emit, a successful flush leaves nothing buffered; "
            "tied to io.rs by the correspondence check, conservation clauses also evaluated on the implementation's log",
            TRUST + "modelled not verified: std BufWriter; zero-length lines excluded from identity statements; "
            "client.flush / queuing flush delegation validated by the harness only",
            "machine-checked proof (Coq 8.16) on a hand-written model + differential correspondence check",
            "DESIGN.md 8.C06"),
    "C07": ("proof",
            "Coq theorems (Props/C07.v: c07_results, c07_ledger, c07_ledger_final, c07_no_dup, c07_no_resurrection, "
            "c07_next_success, c07_frame_after) about Model/Writer.v for EVERY fault script (ok/error/interrupted per "
            "attempted write): results are Ok or the error of a write made during that call, never a panic; written ++ "
            "pending = acknowledged fitting metrics in order at every moment; no duplicates; an emit that failed is never "
            "written; framing unaffected.  Tied to io.rs by the correspondence check with exhaustive fault placement at "
            "small scope, clauses also evaluated on the implementation's log",
            TRUST + "modelled not verified: std BufWriter (incl. retry on Interrupted, data kept on failure); "
            "all-or-nothing underlying writer",
            "machine-checked proof (Coq 8.16) on a hand-written model + differential correspondence check with fault enumeration",
            "DESIGN.md 8.C07"),
    "C19": ("proof",
            "Coq theorems (Props/C19.v: c19_must_and_maximal, c19_buffer, c19_reset, c19_greedy_optimal) about "
            "Model/Writer.v at every reachable state: an emit writes only if buffered+metric+terminator >= capacity, "
            "every datagram it flushes could not have taken the new metric, a strictly fitting emit writes nothing; "
            "next-fit packing is optimal among in-order partitions (pure lemma).  The step from the two local clauses to "
            "the datagram count of a whole segment is checked on the implementation's log (greedy count), not proved",
            TRUST + "modelled not verified: std BufWriter; c19_optimal is partial (local maximality proved, global count "
            "validated by the check)",
            "machine-checked proof (Coq 8.16) on a hand-written model + differential correspondence check",
            "DESIGN.md 8.C19"),
}

PENDING = "check not built yet in this session (under construction; not a claim that the technique cannot apply)"


def main():
    checks = []
    for pid in ALL:
        if pid not in CHECKS:
            continue
        cat, text, note, tech, ref = CHECKS[pid]
        checks.append({
            "property_id": pid,
            "quick_cmd": "./check %s --tier quick" % pid,
            "thorough_cmd": "./check %s --tier thorough" % pid,
            "evidence_file": "/verif/evidence/%s.json" % pid,
            "replay_cmd_template": "./check %s --replay {path}" % pid,
            "engine": "coq-model+correspondence",
            "level_claimed": {"category": cat, "text": text, "design_ref": ref},
            "level_note": note,
            "technique": tech,
        })
    m = {
        "version": 1,
        "setup_cmd": "./setup.sh",
        "hooks": {
            "guard": "cadence_verif",
            "enable": "RUSTFLAGS=\"--cfg cadence_verif\" (set by driver/common.py when it builds /verif/harness against /repo)",
            "baseline_off_cmd": "cd /repo && cargo test --workspace --no-fail-fast --offline",
            "source_commits": json.load(open(os.path.join(HERE, "tools", "hook_commits.json"))) if os.path.exists(os.path.join(HERE, "tools", "hook_commits.json")) else [],
            "add_only": True,
        },
        "engines": [{
            "name": "coq-model+correspondence", "path": "/verif/check", "serves_properties": sorted(CHECKS),
            "kind_free_text": "Coq 8.16 development (coq/theories: Model, Proofs, Props) + extracted OCaml model runner + "
                              "Rust harness built on /repo's working tree + python driver",
        }],
        "checks": checks,
        "notes": "see DESIGN.md; KNOWN_FINDINGS.txt lists the three defects repaired by fix: commits in /repo",
        "not_applicable": [{"property_id": p, "reason": PENDING} for p in ALL if p not in CHECKS],
    }
    with open(os.path.join(HERE, "MANIFEST.json"), "w") as f:
        json.dump(m, f, indent=1)
        f.write("\n")


if __name__ == "__main__":
    main()
