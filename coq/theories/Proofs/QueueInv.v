(* Invariant of the queuing-sink machine Cadence.Model.Queue with the repaired Drop semantics
   ([step true]), its preservation by every enabled event, and the lift to all histories
   ([run true (init_q cap handler) evs]).  Also the facts that hold for both semantics
   (frame lemmas: which event touches which field). *)
Require Import Cadence.Base.Prelude.
Require Import Cadence.Model.Queue.

(* ------------------------------------------------------------------ vocabulary *)
(* the metric the worker currently holds (dequeued, not yet completed) *)
Definition inflight (w : wstate) : list nat :=
  match w with WHas (Some m) => [m] | WCounted m => [m] | _ => [] end.

(* the metrics in the channel, oldest first / the number of stop markers in the channel *)
Fixpoint somes (l : list (option nat)) : list nat :=
  match l with [] => [] | Some m :: r => m :: somes r | None :: r => somes r end.
Fixpoint nones (l : list (option nat)) : nat :=
  match l with [] => 0 | Some _ :: r => nones r | None :: r => S (nones r) end.

(* the worker holds the stop marker, or has already acted on it *)
Definition wk_marker (w : wstate) : nat :=
  match w with WHas None => 1 | WExited => 1 | _ => 0 end.

(* stop markers anywhere in the system: channel, helper thread, worker *)
Definition markers (s : qstate) : nat :=
  nones (q_chan s) + (if q_pill_pending s then 1 else 0) + wk_marker (q_wk s).

(* a stop marker occurs only as the last element *)
Fixpoint last_only (l : list (option nat)) : Prop :=
  match l with [] => True | Some _ :: r => last_only r | None :: r => r = [] end.

(* 1 while the wrapped sink is processing a metric *)
Definition counted (w : wstate) : nat := match w with WCounted _ => 1 | _ => 0 end.

Fixpoint npanics (d : list (nat * soutcome)) : nat :=
  match d with [] => 0 | (_, SPanic) :: r => S (npanics r) | _ :: r => npanics r end.

(* the failures among the completed calls of the wrapped sink, in order *)
Fixpoint errs (d : list (nat * soutcome)) : list (nat * nat) :=
  match d with [] => [] | (m, SErr e) :: r => (m, e) :: errs r | _ :: r => errs r end.

(* everything accepted and not yet completed, in the order it will be processed *)
Definition pending_ids (s : qstate) : list nat := inflight (q_wk s) ++ somes (q_chan s).

(* the value queued() would return right now *)
Definition queued_now (s : qstate) : nat :=
  if q_drained s <? q_submitted s then q_submitted s - q_drained s else 0.

Definition is_recv (w : wstate) : bool := match w with WRecv => true | _ => false end.

(* events of the background side: the worker thread, the helper thread, a producer's bookkeeping *)
Definition worker_side (ev : event) : Prop :=
  match ev with
  | EIncSubmitted | EWStep | EWDequeue | EPillSend | EWFinish _ => True
  | _ => False
  end.

Definition is_finish (ev : event) : Prop := match ev with EWFinish _ => True | _ => False end.

Definition count_ok (rs : list result) : nat :=
  length (filter (fun r => match r with ROk => true | _ => false end) rs).

Record Inv (s : qstate) : Prop := {
  I_commit : map fst (q_delivered s) ++ inflight (q_wk s) ++ somes (q_chan s) = seq 0 (q_accepted s);
  I_markers : markers s = match q_handles s with O => 1 | S _ => 0 end;
  I_shape : last_only (q_chan s);
  I_stopped : wk_marker (q_wk s) = 1 -> q_chan s = [];
  I_bound : forall c, q_cap s = Some c -> length (q_chan s) <= c;
  I_sub : q_submitted s + q_pending_inc s = q_accepted s;
  I_drained : q_drained s = length (q_delivered s) + counted (q_wk s);
  I_panics : q_panics s = npanics (q_delivered s);
  I_handled : q_handled s = if q_handler s then errs (q_delivered s) else [];
  I_samp : forall x, q_samp s = Some x -> x <= q_submitted s;
  I_samples : forall q sub, In (q, sub) (q_samples s) -> q <= sub /\ sub <= q_submitted s
}.

(* ------------------------------------------------------------------ list lemmas *)
Lemma somes_app a b : somes (a ++ b) = somes a ++ somes b.
Proof. induction a as [|[x|] a IH]; cbn [app somes]; [reflexivity | rewrite IH; reflexivity | exact IH]. Qed.

Lemma nones_app a b : nones (a ++ b) = nones a + nones b.
Proof. induction a as [|[x|] a IH]; cbn [app nones]; [reflexivity | exact IH | rewrite IH; reflexivity]. Qed.

Lemma last_only_app l y : nones l = 0 -> last_only (l ++ [y]).
Proof.
  induction l as [|[x|] l IH]; cbn [app nones last_only]; intro H.
  - destruct y; cbn; auto.
  - auto.
  - discriminate.
Qed.

Lemma last_only_tl x l : last_only (x :: l) -> last_only l.
Proof. destruct x; cbn [last_only]; [auto | intros ->; exact I]. Qed.

Lemma npanics_app a b : npanics (a ++ b) = npanics a + npanics b.
Proof.
  induction a as [|[m o] a IH]; cbn [app npanics]; [reflexivity|].
  destruct o; rewrite IH; reflexivity.
Qed.

Lemma errs_app a b : errs (a ++ b) = errs a ++ errs b.
Proof.
  induction a as [|[m o] a IH]; cbn [app errs]; [reflexivity|].
  destruct o; rewrite IH; reflexivity.
Qed.

Lemma seq0_S n : seq 0 (S n) = seq 0 n ++ [n].
Proof. rewrite seq_S. reflexivity. Qed.

(* ------------------------------------------------------------------ the initial state *)
Lemma inv_init cap handler : Inv (init_q cap handler).
Proof.
  constructor; cbn; try reflexivity; try lia; auto; try discriminate.
  destruct handler; reflexivity.
Qed.

(* ------------------------------------------------------------------ preservation *)
Ltac prj := cbn [q_cap q_handler q_chan q_handles q_pending_inc q_pill_pending q_wk q_accepted
                 q_submitted q_drained q_panics q_delivered q_handled q_samp q_samples].
Ltac prj_in H := cbn [q_cap q_handler q_chan q_handles q_pending_inc q_pill_pending q_wk q_accepted
                 q_submitted q_drained q_panics q_delivered q_handled q_samp q_samples] in H.

Ltac getstate H := injection H as <- <-.

Lemma room_true_cases s : room s = true ->
  match q_cap s with
  | None => True
  | Some 0 => q_wk s = WRecv /\ q_chan s = []
  | Some (S c) => length (q_chan s) < S c
  end.
Proof.
  unfold room. destruct (q_cap s) as [[|c]|]; auto.
  - destruct (q_wk s); try discriminate. destruct (q_chan s); try discriminate. auto.
  - intro H. apply Nat.ltb_lt in H. exact H.
Qed.

(* split [Inv] of a record literal into its 11 fields; the last six (counters, handler, sampler)
   are closed by [easy6] when the event does not touch them *)
Ltac easy6 :=
  solve [ assumption | lia | cbn [counted] in *; lia
        | match goal with Hsa : forall x, q_samp _ = Some x -> _ |- _ =>
            let x := fresh in let E := fresh in intros x E; specialize (Hsa x E); lia end
        | match goal with Hss : forall q sub, In _ _ -> _ |- _ =>
            let q := fresh in let sub := fresh in let E := fresh in
            intros q sub E; specialize (Hss q sub E); lia end ].
Ltac inv_split := constructor; unfold markers; prj; [ | | | | | easy6 .. ].

Lemma inv_trysend s s' r : Inv s -> step true s ETrySend = Some (s', r) -> Inv s'.
Proof.
  intros [Hc Hm Hs Hst Hb Hsub Hd Hp Hh Hsa Hss] H. cbn [step] in H.
  destruct (q_handles s) as [|h] eqn:Eh; [discriminate|].
  destruct (room s) eqn:Er.
  2:{ getstate H. constructor; auto. rewrite Eh. exact Hm. }
  apply room_true_cases in Er. unfold markers in Hm.
  assert (Hn : nones (q_chan s) = 0) by lia.
  assert (Hw : wk_marker (q_wk s) = 0) by lia.
  unfold put in H. destruct (q_cap s) as [[|c]|] eqn:Ec; getstate H.
  - destruct Er as [Ew Ech]. rewrite Ew, Ech in *. cbn [inflight somes wk_marker nones] in *.
    inv_split.
    + rewrite seq0_S, <- Hc. cbn [inflight somes]. rewrite !app_nil_r. reflexivity.
    + rewrite Eh. cbn [nones wk_marker]. lia.
    + exact I.
    + reflexivity.
    + intros; cbn [length]; lia.
  - inv_split.
    + rewrite somes_app, seq0_S, <- Hc. cbn [somes]. rewrite !app_assoc. reflexivity.
    + rewrite nones_app, Eh. cbn [nones]. lia.
    + apply last_only_app; exact Hn.
    + intro; lia.
    + intros c0 E. injection E as <-. rewrite app_length. cbn [length]. lia.
  - inv_split.
    + rewrite somes_app, seq0_S, <- Hc. cbn [somes]. rewrite !app_assoc. reflexivity.
    + rewrite nones_app, Eh. cbn [nones]. lia.
    + apply last_only_app; exact Hn.
    + intro; lia.
    + discriminate.
Qed.

Lemma inv_incsubmitted s s' r : Inv s -> step true s EIncSubmitted = Some (s', r) -> Inv s'.
Proof.
  intros [Hc Hm Hs Hst Hb Hsub Hd Hp Hh Hsa Hss] H. cbn [step] in H.
  destruct (q_pending_inc s) as [|p] eqn:Ep; [discriminate|]. getstate H.
  unfold markers in Hm. inv_split; assumption.
Qed.

Lemma inv_clone s s' r : Inv s -> step true s EClone = Some (s', r) -> Inv s'.
Proof.
  intros [Hc Hm Hs Hst Hb Hsub Hd Hp Hh Hsa Hss] H. cbn [step] in H.
  destruct (q_handles s) as [|h] eqn:Eh; [discriminate|]. getstate H.
  unfold markers in Hm. inv_split; assumption.
Qed.

(* Worker::stop, repaired: the marker goes into the channel / the waiting worker, or to the helper *)
Lemma inv_put_none s :
  Inv s -> nones (q_chan s) = 0 -> wk_marker (q_wk s) = 0 -> room s = true ->
  forall s1,
  q_cap s1 = q_cap s -> q_handler s1 = q_handler s -> q_chan s1 = q_chan (put s None) ->
  q_handles s1 = 0 -> q_pending_inc s1 = q_pending_inc s -> q_pill_pending s1 = false ->
  q_wk s1 = q_wk (put s None) -> q_accepted s1 = q_accepted s -> q_submitted s1 = q_submitted s ->
  q_drained s1 = q_drained s -> q_panics s1 = q_panics s -> q_delivered s1 = q_delivered s ->
  q_handled s1 = q_handled s -> q_samp s1 = q_samp s -> q_samples s1 = q_samples s ->
  Inv s1.
Proof.
  intros [Hc Hm Hs Hst Hb Hsub Hd Hp Hh Hsa Hss] Hn Hw Er s1 E1 E2 E3 E4 E5 E6 E7 E8 E9 E10 E11 E12 E13 E14 E15.
  apply room_true_cases in Er.
  unfold put in E3, E7. destruct (q_cap s) as [[|c]|] eqn:Ec; prj_in E3; prj_in E7.
  - destruct Er as [Ew Ech]. rewrite Ew, Ech in *. cbn [inflight somes wk_marker nones counted] in *.
    constructor; unfold markers; rewrite ?E1, ?E2, ?E3, ?E4, ?E5, ?E6, ?E7, ?E8, ?E9, ?E10, ?E11, ?E12, ?E13, ?E14, ?E15;
      cbn [inflight somes wk_marker nones counted length]; auto; intros; lia.
  - constructor; unfold markers; rewrite ?E1, ?E2, ?E3, ?E4, ?E5, ?E6, ?E7, ?E8, ?E9, ?E10, ?E11, ?E12, ?E13, ?E14, ?E15;
      rewrite ?somes_app, ?nones_app; cbn [somes nones]; rewrite ?app_nil_r; auto.
    + lia.
    + apply last_only_app; exact Hn.
    + intro; lia.
    + intros c0 E. injection E as <-. rewrite app_length. cbn [length]. lia.
  - constructor; unfold markers; rewrite ?E1, ?E2, ?E3, ?E4, ?E5, ?E6, ?E7, ?E8, ?E9, ?E10, ?E11, ?E12, ?E13, ?E14, ?E15;
      rewrite ?somes_app, ?nones_app; cbn [somes nones]; rewrite ?app_nil_r; auto.
    + lia.
    + apply last_only_app; exact Hn.
    + intro; lia.
    + discriminate.
Qed.

Lemma inv_droph s s' r : Inv s -> step true s EDropH = Some (s', r) -> Inv s'.
Proof.
  intros HI H. cbn [step] in H.
  destruct (q_handles s) as [|h] eqn:Eh; [discriminate|].
  pose proof (I_markers s HI) as Hm. rewrite Eh in Hm. unfold markers in Hm.
  destruct h as [|h].
  - (* the last handle *)
    unfold stop in H.
    match type of H with context [room ?x] => change (room x) with (room s) in H end.
    destruct (room s) eqn:Er.
    + unfold put in H; prj_in H.
      destruct (q_pill_pending s) eqn:Ep; [lia|].
      destruct (q_cap s) as [[|c]|] eqn:Ec; getstate H;
        (apply (inv_put_none s HI); [lia | lia | exact Er | ..]; unfold put; prj; rewrite ?Ec, ?Ep; reflexivity).
    + getstate H. destruct HI as [Hc _ Hs Hst Hb Hsub Hd Hp Hh Hsa Hss].
      inv_split; try assumption; lia.
  - getstate H. destruct HI as [Hc _ Hs Hst Hb Hsub Hd Hp Hh Hsa Hss].
    inv_split; try assumption; lia.
Qed.

Lemma inv_pillsend s s' r : Inv s -> step true s EPillSend = Some (s', r) -> Inv s'.
Proof.
  intros HI H. cbn [step] in H.
  destruct (q_pill_pending s) eqn:Ep; [|discriminate].
  destruct (room s) eqn:Er; [|discriminate]. cbn [andb] in H.
  pose proof (I_markers s HI) as Hm. unfold markers in Hm. rewrite Ep in Hm.
  destruct (q_handles s) as [|h] eqn:Eh; [|lia].
  unfold put in H; prj_in H.
  destruct (q_cap s) as [[|c]|] eqn:Ec; getstate H;
    (apply (inv_put_none s HI); [lia | lia | exact Er | ..]; unfold put; prj; rewrite ?Ec, ?Eh; reflexivity).
Qed.

Lemma inv_dequeue s s' r : Inv s -> step true s EWDequeue = Some (s', r) -> Inv s'.
Proof.
  intros [Hc Hm Hs Hst Hb Hsub Hd Hp Hh Hsa Hss] H. cbn [step] in H.
  destruct (q_wk s) eqn:Ew; try discriminate.
  destruct (q_chan s) as [|x rest] eqn:Ech; try discriminate. getstate H.
  unfold markers in Hm. rewrite Ew, Ech in Hm.
  destruct x as [m|]; cbn [inflight somes nones wk_marker last_only app length] in *.
  - inv_split; cbn [inflight wk_marker]; try assumption; try lia.
    intros c E. specialize (Hb c E). lia.
  - subst rest. inv_split; cbn [inflight wk_marker nones length] in *; try assumption; try lia;
      try exact I; try reflexivity; intros; lia.
Qed.

Lemma inv_wstep s s' r : Inv s -> step true s EWStep = Some (s', r) -> Inv s'.
Proof.
  intros [Hc Hm Hs Hst Hb Hsub Hd Hp Hh Hsa Hss] H. cbn [step] in H.
  unfold markers in Hm.
  destruct (q_wk s) as [|[m|]|m|] eqn:Ew; try discriminate.
  - getstate H. cbn [inflight wk_marker counted] in *.
    inv_split; cbn [inflight wk_marker]; try assumption; lia.
  - unfold upd_wk in H. getstate H. cbn [inflight wk_marker counted] in *.
    inv_split; cbn [inflight wk_marker]; try assumption; lia.
Qed.

Lemma inv_finish s s' r o : Inv s -> step true s (EWFinish o) = Some (s', r) -> Inv s'.
Proof.
  intros [Hc Hm Hs Hst Hb Hsub Hd Hp Hh Hsa Hss] H. cbn [step] in H.
  unfold markers in Hm.
  destruct (q_wk s) as [| |m|] eqn:Ew; try discriminate. getstate H.
  cbn [inflight wk_marker counted] in *.
  constructor; unfold markers; prj; cbn [inflight wk_marker counted]; try assumption.
  - rewrite map_app. cbn [map fst app]. rewrite <- Hc, <- !app_assoc. reflexivity.
  - rewrite app_length. cbn [length]. lia.
  - rewrite npanics_app. cbn [npanics]. destruct o; lia.
  - rewrite Hh. destruct (q_handler s), o; rewrite ?errs_app; cbn [errs]; rewrite ?app_nil_r; reflexivity.
Qed.

Lemma inv_samplea s s' r : Inv s -> step true s ESampleA = Some (s', r) -> Inv s'.
Proof.
  intros [Hc Hm Hs Hst Hb Hsub Hd Hp Hh Hsa Hss] H. cbn [step] in H. getstate H.
  unfold markers in Hm.
  constructor; unfold markers; prj; try assumption.
  intros x E. injection E as <-. lia.
Qed.

Lemma inv_sampleb s s' r : Inv s -> step true s ESampleB = Some (s', r) -> Inv s'.
Proof.
  intros [Hc Hm Hs Hst Hb Hsub Hd Hp Hh Hsa Hss] H. cbn [step] in H.
  destruct (q_samp s) as [sub|] eqn:Es; [|discriminate]. getstate H.
  unfold markers in Hm.
  constructor; unfold markers; prj; try assumption.
  - discriminate.
  - intros q sub0 Hin. apply in_app_or in Hin. destruct Hin as [Hin|[E|[]]].
    + apply Hss; exact Hin.
    + injection E as <- <-. specialize (Hsa sub eq_refl).
      destruct (q_drained s <? sub); lia.
Qed.

(* every enabled event of the repaired machine preserves the invariant *)
Lemma inv_step s ev s' r : Inv s -> step true s ev = Some (s', r) -> Inv s'.
Proof.
  destruct ev.
  - apply inv_trysend.
  - apply inv_incsubmitted.
  - apply inv_clone.
  - apply inv_droph.
  - apply inv_pillsend.
  - apply inv_dequeue.
  - apply inv_wstep.
  - apply inv_finish.
  - apply inv_samplea.
  - apply inv_sampleb.
Qed.

Lemma inv_run evs : forall s s' rs, Inv s -> run true s evs = Some (s', rs) -> Inv s'.
Proof.
  induction evs as [|ev evs IH]; intros s s' rs HI H; cbn [run] in H.
  - injection H as <- _. exact HI.
  - destruct (step true s ev) as [[s1 x]|] eqn:E; [|discriminate].
    destruct (run true s1 evs) as [[s2 xs]|] eqn:E2; [|discriminate].
    injection H as <- _. eapply IH; [|exact E2]. eapply inv_step; eassumption.
Qed.

(* every reachable state satisfies the invariant *)
Theorem inv_reach cap handler evs s rs :
  run true (init_q cap handler) evs = Some (s, rs) -> Inv s.
Proof. apply inv_run. apply inv_init. Qed.

(* ------------------------------------------------------------------ frame lemmas (both semantics) *)
(* case analysis of one step: afterwards [s'] is an explicit record *)
Ltac step_inv H :=
  unfold step, stop, put, upd_wk in H;
  repeat match type of H with
         | context [match ?x with _ => _ end] => destruct x eqn:?
         end;
  try discriminate; injection H as <- <-.

Lemma step_cfg fixed s ev s' r : step fixed s ev = Some (s', r) ->
  q_cap s' = q_cap s /\ q_handler s' = q_handler s.
Proof. intro H. destruct ev; step_inv H; prj; auto. Qed.

Lemma run_cfg fixed evs : forall s s' rs, run fixed s evs = Some (s', rs) ->
  q_cap s' = q_cap s /\ q_handler s' = q_handler s.
Proof.
  induction evs as [|ev evs IH]; intros s s' rs H; cbn [run] in H.
  - injection H as <- _. auto.
  - destruct (step fixed s ev) as [[s1 x]|] eqn:E; [|discriminate].
    destruct (run fixed s1 evs) as [[s2 xs]|] eqn:E2; [|discriminate].
    injection H as <- _. apply step_cfg in E. apply IH in E2. destruct E, E2. split; congruence.
Qed.

(* only the completion of a call of the wrapped sink touches the delivery log, the handler log
   and the panic counter *)
Lemma step_actor fixed s ev s' r : step fixed s ev = Some (s', r) -> ~ is_finish ev ->
  q_delivered s' = q_delivered s /\ q_handled s' = q_handled s /\ q_panics s' = q_panics s.
Proof. intros H N. destruct ev; try (exfalso; apply N; exact I); step_inv H; prj; auto. Qed.

(* what the completion of a call does, exactly *)
Lemma step_finish_spec fixed s o s' r : step fixed s (EWFinish o) = Some (s', r) ->
  exists id, q_wk s = WCounted id /\ q_wk s' = WRecv /\ r = RNone /\
    q_delivered s' = q_delivered s ++ [(id, o)] /\
    q_handled s' = q_handled s ++ match o with
                                  | SErr e => if q_handler s then [(id, e)] else []
                                  | _ => []
                                  end /\
    q_panics s' = q_panics s + match o with SPanic => 1 | _ => 0 end /\
    q_chan s' = q_chan s /\ q_handles s' = q_handles s /\ q_pill_pending s' = q_pill_pending s /\
    q_accepted s' = q_accepted s /\ q_submitted s' = q_submitted s /\ q_drained s' = q_drained s /\
    q_pending_inc s' = q_pending_inc s.
Proof.
  intro H. cbn [step] in H. destruct (q_wk s) as [| |id|] eqn:Ew; try discriminate.
  injection H as <- <-. exists id. prj.
  repeat split; try reflexivity.
  - destruct o; [rewrite app_nil_r; reflexivity | | rewrite app_nil_r; reflexivity].
    destruct (q_handler s); [reflexivity | rewrite app_nil_r; reflexivity].
  - destruct o; lia.
Qed.

Lemma finish_enabled fixed s id o : q_wk s = WCounted id ->
  exists s', step fixed s (EWFinish o) = Some (s', RNone).
Proof. intro E. cbn [step]. rewrite E. eexists. reflexivity. Qed.

(* background events leave the handles and the acceptance count alone and return nothing *)
Lemma step_worker_side fixed s ev s' r : step fixed s ev = Some (s', r) -> worker_side ev ->
  q_handles s' = q_handles s /\ q_accepted s' = q_accepted s /\ r = RNone.
Proof. intros H W. destruct ev; try (exfalso; exact W); step_inv H; prj; auto. Qed.

(* the result of an event; the acceptance count *)
Lemma step_result fixed s ev s' r : step fixed s ev = Some (s', r) ->
  match r with
  | ROk => ev = ETrySend /\ room s = true /\ q_accepted s' = S (q_accepted s)
  | RFull => ev = ETrySend /\ room s = false /\ s' = s
  | RNone => ev <> ETrySend /\ q_accepted s' = q_accepted s
  end.
Proof.
  intro H. destruct ev.
  - cbn [step] in H. destruct (q_handles s); [discriminate|].
    destruct (room s) eqn:Er; injection H as <- <-; auto.
    split; [reflexivity|]. split; [reflexivity|]. unfold put. destruct (q_cap s) as [[|c]|]; reflexivity.
  - step_inv H; prj; split; [discriminate | reflexivity].
  - step_inv H; prj; split; [discriminate | reflexivity].
  - step_inv H; prj; split; try discriminate; reflexivity.
  - step_inv H; prj; split; try discriminate; reflexivity.
  - step_inv H; prj; split; try discriminate; reflexivity.
  - step_inv H; prj; split; try discriminate; reflexivity.
  - step_inv H; prj; split; try discriminate; reflexivity.
  - step_inv H; prj; split; try discriminate; reflexivity.
  - step_inv H; prj; split; try discriminate; reflexivity.
Qed.

Lemma step_accepted fixed s ev s' r : step fixed s ev = Some (s', r) ->
  q_accepted s' = q_accepted s + count_ok [r].
Proof.
  intro H. apply step_result in H. unfold count_ok. destruct r; cbn [filter length].
  - destruct H as (_ & _ & ->). lia.
  - destruct H as (_ & _ & ->). lia.
  - destruct H as (_ & ->). lia.
Qed.

Lemma count_ok_cons r rs : count_ok (r :: rs) = count_ok [r] + count_ok rs.
Proof. unfold count_ok. cbn [filter]. destruct r; reflexivity. Qed.

Lemma run_accepted fixed evs : forall s s' rs, run fixed s evs = Some (s', rs) ->
  q_accepted s' = q_accepted s + count_ok rs /\ length rs = length evs.
Proof.
  induction evs as [|ev evs IH]; intros s s' rs H; cbn [run] in H.
  - injection H as <- <-. cbn. split; lia.
  - destruct (step fixed s ev) as [[s1 x]|] eqn:E; [|discriminate].
    destruct (run fixed s1 evs) as [[s2 xs]|] eqn:E2; [|discriminate].
    injection H as <- <-. apply step_accepted in E. apply IH in E2. destruct E2 as [E2 E3].
    rewrite count_ok_cons. cbn [length]. split; lia.
Qed.

(* room is a function of the capacity, the channel length and whether the worker waits in recv *)
Lemma room_spec s :
  room s = match q_cap s with
           | None => true
           | Some 0 => is_recv (q_wk s) && (length (q_chan s) =? 0)
           | Some (S c) => length (q_chan s) <? S c
           end.
Proof.
  unfold room. destruct (q_cap s) as [[|c]|]; try reflexivity.
  destruct (q_wk s), (q_chan s); reflexivity.
Qed.

Lemma trysend_spec fixed s : q_handles s <> 0 ->
  exists s', step fixed s ETrySend = Some (s', if room s then ROk else RFull).
Proof.
  intro Hh. cbn [step]. destruct (q_handles s); [congruence|].
  destruct (room s); eexists; reflexivity.
Qed.

Lemma trysend_live fixed s s' r : step fixed s ETrySend = Some (s', r) -> q_handles s <> 0.
Proof. cbn [step]. destruct (q_handles s); [discriminate | discriminate]. Qed.

(* dropping a live handle is one enabled step that returns nothing *)
Lemma droph_spec fixed s : q_handles s <> 0 ->
  exists s', step fixed s EDropH = Some (s', RNone) /\ S (q_handles s') = q_handles s /\
             q_delivered s' = q_delivered s /\ q_accepted s' = q_accepted s.
Proof.
  intro Hh. cbn [step]. destruct (q_handles s) as [|h]; [congruence|].
  eexists. split; [reflexivity|].
  destruct fixed, h; unfold stop, put; prj;
    repeat match goal with |- context [match ?x with _ => _ end] => destruct x end; prj; auto.
Qed.

(* monotonicity: counters never decrease, logs are only extended *)
Definition extends {A} (l l' : list A) : Prop := exists t, l' = l ++ t.

Lemma extends_refl {A} (l : list A) : extends l l.
Proof. exists []. rewrite app_nil_r. reflexivity. Qed.

Lemma extends_trans {A} (a b c : list A) : extends a b -> extends b c -> extends a c.
Proof. intros [t ->] [u ->]. exists (t ++ u). rewrite app_assoc. reflexivity. Qed.

Record Mono (s s' : qstate) : Prop := {
  M_accepted : q_accepted s <= q_accepted s';
  M_submitted : q_submitted s <= q_submitted s';
  M_drained : q_drained s <= q_drained s';
  M_panics : q_panics s <= q_panics s';
  M_delivered : extends (q_delivered s) (q_delivered s');
  M_handled : extends (q_handled s) (q_handled s');
  M_samples : extends (q_samples s) (q_samples s')
}.

Lemma mono_refl s : Mono s s.
Proof. constructor; try lia; apply extends_refl. Qed.

Lemma mono_trans a b c : Mono a b -> Mono b c -> Mono a c.
Proof. intros [] []. constructor; try lia; eapply extends_trans; eassumption. Qed.

Lemma step_mono fixed s ev s' r : step fixed s ev = Some (s', r) -> Mono s s'.
Proof.
  intro H. destruct ev; step_inv H; constructor; prj; try lia; try apply extends_refl;
    eexists; reflexivity.
Qed.

Lemma run_mono fixed evs : forall s s' rs, run fixed s evs = Some (s', rs) -> Mono s s'.
Proof.
  induction evs as [|ev evs IH]; intros s s' rs H; cbn [run] in H.
  - injection H as <- _. apply mono_refl.
  - destruct (step fixed s ev) as [[s1 x]|] eqn:E; [|discriminate].
    destruct (run fixed s1 evs) as [[s2 xs]|] eqn:E2; [|discriminate].
    injection H as <- _. eapply mono_trans; [eapply step_mono; exact E | eapply IH; exact E2].
Qed.

Lemma run_app fixed evs1 : forall evs2 s s1 rs1 s2 rs2,
  run fixed s evs1 = Some (s1, rs1) -> run fixed s1 evs2 = Some (s2, rs2) ->
  run fixed s (evs1 ++ evs2) = Some (s2, rs1 ++ rs2).
Proof.
  induction evs1 as [|ev evs1 IH]; intros evs2 s s1 rs1 s2 rs2 H1 H2; cbn [run app] in *.
  - injection H1 as <- <-. exact H2.
  - destruct (step fixed s ev) as [[s0 x]|]; [|discriminate].
    destruct (run fixed s0 evs1) as [[s3 xs]|] eqn:E; [|discriminate].
    injection H1 as <- <-. rewrite (IH evs2 s0 s3 xs s2 rs2 E H2). reflexivity.
Qed.

Lemma run_split fixed evs1 : forall evs2 s s2 rs,
  run fixed s (evs1 ++ evs2) = Some (s2, rs) ->
  exists s1 rs1 rs2, run fixed s evs1 = Some (s1, rs1) /\ run fixed s1 evs2 = Some (s2, rs2) /\
                     rs = rs1 ++ rs2.
Proof.
  induction evs1 as [|ev evs1 IH]; intros evs2 s s2 rs H; cbn [run app] in *.
  - exists s, [], rs. auto.
  - destruct (step fixed s ev) as [[s0 x]|]; [|discriminate].
    destruct (run fixed s0 (evs1 ++ evs2)) as [[s3 xs]|] eqn:E; [|discriminate].
    injection H as <- <-. apply IH in E. destruct E as (s1 & rs1 & rs2 & E1 & E2 & ->).
    rewrite E1. exists s1, (x :: rs1), rs2. auto.
Qed.

(* ------------------------------------------------------------------ consequences for reachable states *)
Lemma seq_prefix a : forall b st n, seq st n = a ++ b -> a = seq st (length a).
Proof.
  induction a as [|x a IH]; intros b st n H; [reflexivity|].
  destruct n as [|n]; [discriminate|]. cbn [seq app length] in *.
  injection H as <- H. f_equal. eapply IH; exact H.
Qed.

(* delivered = a duplicate-free prefix of the acceptance order; one metric at a time *)
Theorem reach_prefix cap handler evs s rs :
  run true (init_q cap handler) evs = Some (s, rs) ->
  map fst (q_delivered s) = seq 0 (length (q_delivered s)) /\
  length (q_delivered s) <= q_accepted s /\
  NoDup (map fst (q_delivered s)) /\
  length (inflight (q_wk s)) <= 1 /\
  NoDup (map fst (q_delivered s) ++ inflight (q_wk s) ++ somes (q_chan s)).
Proof.
  intro R. pose proof (I_commit s (inv_reach _ _ _ _ _ R)) as Hc.
  pose proof (seq_prefix _ _ _ _ (eq_sym Hc)) as Hp. rewrite map_length in Hp.
  split; [exact Hp|]. split.
  - apply (f_equal (@length nat)) in Hc. rewrite !app_length, map_length, seq_length in Hc. lia.
  - split; [rewrite Hp; apply seq_NoDup|]. split.
    + destruct (q_wk s) as [|[m|]|m|]; cbn; lia.
    + rewrite Hc. apply seq_NoDup.
Qed.

(* an accepted identity is always somewhere: delivered, in the worker's hands, or queued *)
Theorem reach_not_lost cap handler evs s rs i :
  run true (init_q cap handler) evs = Some (s, rs) -> i < q_accepted s ->
  In i (map fst (q_delivered s) ++ inflight (q_wk s) ++ somes (q_chan s)).
Proof.
  intros R Hi. rewrite (I_commit s (inv_reach _ _ _ _ _ R)). apply in_seq. lia.
Qed.

(* while a handle is alive there is no stop marker anywhere and the worker has not exited *)
Theorem reach_alive cap handler evs s rs :
  run true (init_q cap handler) evs = Some (s, rs) -> q_handles s <> 0 ->
  q_wk s <> WExited /\ q_wk s <> WHas None /\ nones (q_chan s) = 0 /\ q_pill_pending s = false.
Proof.
  intros R Hh. pose proof (I_markers s (inv_reach _ _ _ _ _ R)) as Hm. unfold markers in Hm.
  destruct (q_handles s); [congruence|].
  destruct (q_pill_pending s); [lia|].
  destruct (q_wk s) as [|[m|]|m|]; cbn [wk_marker] in Hm; repeat split; try discriminate; lia.
Qed.

(* the worker exits only after the last drop and after everything accepted has been delivered *)
Theorem reach_exited cap handler evs s rs :
  run true (init_q cap handler) evs = Some (s, rs) -> q_wk s = WExited ->
  q_handles s = 0 /\ q_chan s = [] /\ q_pill_pending s = false /\
  map fst (q_delivered s) = seq 0 (q_accepted s).
Proof.
  intros R Ew. destruct (inv_reach _ _ _ _ _ R) as [Hc Hm _ Hst _ _ _ _ _ _ _].
  unfold markers in Hm. rewrite Ew in *. cbn [wk_marker inflight] in *.
  specialize (Hst eq_refl). rewrite Hst in *. cbn [somes nones app] in *. rewrite app_nil_r in Hc.
  destruct (q_handles s); [|lia]. destruct (q_pill_pending s); [lia|]. auto.
Qed.

Theorem reach_bound cap handler evs s rs c :
  run true (init_q cap handler) evs = Some (s, rs) -> cap = Some c ->
  q_cap s = Some c /\ length (q_chan s) <= c.
Proof.
  intros R ->. destruct (run_cfg _ _ _ _ _ R) as [Ec _]. cbn in Ec.
  split; [exact Ec|]. apply (I_bound s (inv_reach _ _ _ _ _ R)). exact Ec.
Qed.

(* the counters at every moment / at quiescent moments *)
Theorem reach_counters cap handler evs s rs :
  run true (init_q cap handler) evs = Some (s, rs) ->
  q_accepted s = count_ok rs /\
  q_submitted s + q_pending_inc s = count_ok rs /\
  q_drained s = length (q_delivered s) + counted (q_wk s) /\
  (q_pending_inc s = 0 -> q_submitted s = count_ok rs) /\
  (q_pending_inc s = 0 -> (forall m, q_wk s <> WHas (Some m)) ->
     q_drained s <= q_submitted s /\
     queued_now s = q_submitted s - q_drained s /\
     queued_now s = length (somes (q_chan s))).
Proof.
  intro R. destruct (run_accepted _ _ _ _ _ R) as [Ea _]. cbn in Ea.
  destruct (inv_reach _ _ _ _ _ R) as [Hc _ _ _ _ Hsub Hd _ _ _ _].
  split; [exact Ea|]. split; [lia|]. split; [exact Hd|]. split; [lia|].
  intros Hp Hw.
  apply (f_equal (@length nat)) in Hc. rewrite !app_length, map_length, seq_length in Hc.
  assert (E : length (inflight (q_wk s)) = counted (q_wk s)).
  { destruct (q_wk s) as [|[m|]|m|]; try reflexivity. exfalso. eapply Hw. reflexivity. }
  assert (Hle : q_drained s <= q_submitted s) by lia.
  split; [exact Hle|]. unfold queued_now.
  destruct (q_drained s <? q_submitted s) eqn:El.
  - split; [reflexivity | lia].
  - apply Nat.ltb_ge in El. split; lia.
Qed.

(* the sampler: every value ever returned is at most [submitted] at the second load, which is
   at most [submitted] now *)
Theorem reach_samples cap handler evs s rs q sub :
  run true (init_q cap handler) evs = Some (s, rs) -> In (q, sub) (q_samples s) ->
  q <= sub /\ sub <= q_submitted s.
Proof. intros R. apply (I_samples s (inv_reach _ _ _ _ _ R)). Qed.

(* the second load of queued(): exact integer arithmetic, the subtraction is guarded *)
Lemma sampleb_spec fixed s s' r : step fixed s ESampleB = Some (s', r) ->
  exists sub q, q_samp s = Some sub /\ q_samples s' = q_samples s ++ [(q, q_submitted s)] /\
    q_samp s' = None /\
    ((q_drained s < sub /\ q + q_drained s = sub) \/ (sub <= q_drained s /\ q = 0)).
Proof.
  cbn [step]. destruct (q_samp s) as [sub|]; [|discriminate]. intro H. injection H as <- _.
  exists sub. eexists. prj. split; [reflexivity|]. split; [reflexivity|]. split; [reflexivity|].
  destruct (q_drained s <? sub) eqn:E.
  - apply Nat.ltb_lt in E. left. lia.
  - apply Nat.ltb_ge in E. right. lia.
Qed.

Lemma samplea_spec fixed s : exists s', step fixed s ESampleA = Some (s', RNone) /\
  q_samp s' = Some (q_submitted s) /\ q_samples s' = q_samples s.
Proof. eexists. cbn [step]. split; [reflexivity|]. prj. auto. Qed.

(* the handler log *)
Theorem reach_handled cap handler evs s rs :
  run true (init_q cap handler) evs = Some (s, rs) ->
  q_handled s = if handler then errs (q_delivered s) else [].
Proof.
  intro R. destruct (run_cfg _ _ _ _ _ R) as [_ Eh]. cbn in Eh.
  rewrite (I_handled s (inv_reach _ _ _ _ _ R)), Eh. reflexivity.
Qed.

Theorem reach_panics cap handler evs s rs :
  run true (init_q cap handler) evs = Some (s, rs) -> q_panics s = npanics (q_delivered s).
Proof. intro R. apply (I_panics s (inv_reach _ _ _ _ _ R)). Qed.

(* the result of try_send depends only on capacity, channel length and "worker waits in recv" *)
Theorem trysend_result fixed s1 s2 s1' s2' r1 r2 :
  q_cap s1 = q_cap s2 -> length (q_chan s1) = length (q_chan s2) ->
  is_recv (q_wk s1) = is_recv (q_wk s2) ->
  step fixed s1 ETrySend = Some (s1', r1) -> step fixed s2 ETrySend = Some (s2', r2) -> r1 = r2.
Proof.
  intros Ec El Ew H1 H2.
  assert (Er : room s1 = room s2) by (rewrite !room_spec, Ec, El, Ew; reflexivity).
  pose proof (trysend_live _ _ _ _ H1) as L1. pose proof (trysend_live _ _ _ _ H2) as L2.
  destruct (trysend_spec fixed s1 L1) as [x1 X1]. destruct (trysend_spec fixed s2 L2) as [x2 X2].
  rewrite H1 in X1. rewrite H2 in X2. injection X1 as _ ->. injection X2 as _ ->.
  rewrite Er. reflexivity.
Qed.

Theorem trysend_iff_room fixed s s' r : step fixed s ETrySend = Some (s', r) ->
  (r = ROk <-> room s = true) /\ (r = RFull <-> room s = false) /\ r <> RNone /\
  q_delivered s' = q_delivered s /\ q_handled s' = q_handled s /\ q_panics s' = q_panics s.
Proof.
  intro H. pose proof (trysend_live _ _ _ _ H) as L.
  destruct (trysend_spec fixed s L) as [x X]. rewrite H in X. injection X as _ ->.
  destruct (step_actor _ _ _ _ _ H (fun f => f)) as (A & B & C).
  destruct (room s); repeat split; try congruence; try discriminate.
Qed.

Lemma NoDup_app_disjoint {A} (a b : list A) x : NoDup (a ++ b) -> In x a -> ~ In x b.
Proof.
  induction a as [|y a IH]; cbn [app]; intros Hn Hi; [destruct Hi|].
  inversion Hn as [|? ? Hy Hn']; subst. destruct Hi as [->|Hi]; [|auto].
  intro Hb. apply Hy. apply in_or_app. right. exact Hb.
Qed.

(* a metric the wrapped sink has been called for (whatever the outcome: accepted, failed,
   panicked) occurs exactly once in the delivery log and is nowhere else any more *)
Theorem reach_once cap handler evs s rs id o :
  run true (init_q cap handler) evs = Some (s, rs) -> In (id, o) (q_delivered s) ->
  count_occ Nat.eq_dec (map fst (q_delivered s)) id = 1 /\
  ~ In id (inflight (q_wk s) ++ somes (q_chan s)) /\ id < q_accepted s.
Proof.
  intros R Hin. destruct (reach_prefix _ _ _ _ _ R) as (Hp & Hl & Hn & _ & Hn2).
  assert (Hi : In id (map fst (q_delivered s))) by (apply (in_map fst) in Hin; exact Hin).
  split; [apply NoDup_count_occ'; assumption|]. split.
  - apply (NoDup_app_disjoint _ _ _ Hn2 Hi).
  - rewrite Hp in Hi. apply in_seq in Hi. lia.
Qed.

Lemma errs_in d : forall m e, In (m, e) (errs d) <-> In (m, SErr e) d.
Proof.
  induction d as [|[m' o] d IH]; intros m e; cbn [errs]; [tauto|].
  destruct o; cbn [In]; rewrite IH; split; intros H; try tauto.
  - destruct H as [H|H]; [discriminate H | auto].
  - destruct H as [H|H]; [left; congruence | auto].
  - destruct H as [H|H]; [left; congruence | auto].
  - destruct H as [H|H]; [discriminate H | auto].
Qed.

Lemma errs_nodup d : NoDup (map fst d) -> NoDup (map fst (errs d)).
Proof.
  induction d as [|[m o] l IH]; cbn [map fst errs]; intro Hn; [constructor|].
  inversion Hn as [|? ? Hm Hn']; subst.
  destruct o; auto. cbn [map fst]. constructor; [|auto].
  intro Hi. apply Hm. apply in_map_iff in Hi. destruct Hi as ([m' e'] & <- & Hi).
  apply errs_in in Hi. apply (in_map fst) in Hi. exact Hi.
Qed.

(* with a handler: every handled (metric, error) is a failure of the wrapped sink for that
   metric, which was called exactly once for it; no metric is handled twice *)
Theorem reach_handled_once cap evs s rs m e :
  run true (init_q cap true) evs = Some (s, rs) -> In (m, e) (q_handled s) ->
  In (m, SErr e) (q_delivered s) /\
  count_occ Nat.eq_dec (map fst (q_delivered s)) m = 1 /\
  NoDup (map fst (q_handled s)).
Proof.
  intros R Hin.
  rewrite (reach_handled _ _ _ _ _ R) in *. apply errs_in in Hin.
  split; [exact Hin|]. split; [apply (reach_once _ _ _ _ _ _ _ R Hin)|].
  destruct (reach_prefix _ _ _ _ _ R) as (_ & _ & Hn & _). apply errs_nodup. exact Hn.
Qed.

(* the last drop on a full queue returns at once, leaving the marker with the helper thread *)
Lemma droph_full s : q_handles s = 1 -> room s = false ->
  exists s', step true s EDropH = Some (s', RNone) /\ q_handles s' = 0 /\
             q_pill_pending s' = true /\ q_chan s' = q_chan s /\ q_wk s' = q_wk s.
Proof.
  intros Hh Er. cbn [step]. rewrite Hh. eexists. split; [reflexivity|].
  unfold stop.
  match goal with |- context [room ?x] => change (room x) with (room s) end.
  rewrite Er. prj. auto.
Qed.
