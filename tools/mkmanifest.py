#!/usr/bin/env python3
"""Regenerates MANIFEST.json from the table below (kept in one place so that it stays valid)."""
import json
import re
import os

HERE = os.path.dirname(os.path.dirname(os.path.abspath(__file__)))
ALL = ["C%02d" % i for i in range(1, 21)]

TRUST = ("trusted: Coq 8.16.1 kernel (+ coqchk in the thorough tier), extraction (ExtrOcamlBasic only), "
         "OCaml/Rust/Python glue of the correspondence check; ")

CHECKS = {
    "C05": ("proof",
            "Coq theorems (Props/C05.v: c05_frame, c05_real, c05_sinks) about the executable model Model/Writer.v of "
            "MultiLineWriter+BufWriter, for all capacities, terminators, histories and fault scripts; the model is tied "
            "to io.rs on every run by a correspondence check (exhaustive small scope + boundary + random histories on "
            "the real MultiLineWriter / BufferedSpyMetricSink vs the extracted model, under every placement of ok / error "
            "(12 io::ErrorKinds) / interrupted outcomes, capacities 0..65536 incl. the 8192 boundary of std's default BufWriter, "
            "both constructors; a sample of the run's cases is re-proved by vm_compute in Coq) and the framing clause is also "
            "evaluated on the implementation's own log",
            TRUST + "modelled not verified: std BufWriter; assumes an all-or-nothing underlying writer whose flush succeeds",
            "machine-checked proof (Coq 8.16) on a hand-written model + differential correspondence check",
            "DESIGN.md 8.C05"),
    "C06": ("proof",
            "Coq theorems (Props/C06.v: c06_ack, c06_once_in_order, c06_own_emit, c06_flush_point, c06_flush_idem) about "
            "Model/Writer.v for a never-failing underlying writer, all capacities/terminators/histories: every emit is "
            "acknowledged with its length, the successful line writes carry exactly the emitted fitting metrics once and "
            "in order, oversized ones go out alone during their own emit, a successful flush leaves nothing buffered; "
            "tied to io.rs by the correspondence check, conservation clauses also evaluated on the implementation's log; "
            "flushes through StatsdClient::flush and through a QueuingMetricSink are exercised on the real stack (family QF: "
            "worker parked to create a backlog, calls that reach the buffered sink replayed in the model, clause 'flush Ok => "
            "everything the buffered sink had accepted has been written')",
            TRUST + "modelled not verified: std BufWriter; zero-length lines excluded from identity statements; "
            "client.flush / queuing flush delegation validated by the harness only",
            "machine-checked proof (Coq 8.16) on a hand-written model + differential correspondence check",
            "DESIGN.md 8.C06"),
    "C07": ("proof",
            "Coq theorems (Props/C07.v: c07_results, c07_ledger, c07_ledger_final, c07_no_dup, c07_no_resurrection, "
            "c07_next_success, c07_frame_after, c07_scenario) about Model/Writer.v (c07_scenario: the same ledger for the socket "
            "scenarios of Model/Sock.v, where the listener's state re-dictates the fault script before every call) for EVERY fault script (ok/error/interrupted per "
            "attempted write): results are Ok or the error of a write made during that call, never a panic; written ++ "
            "pending = acknowledged fitting metrics in order at every moment; no duplicates; an emit that failed is never "
            "written; framing unaffected.  Tied to io.rs by the correspondence check with exhaustive fault placement at "
            "small scope, clauses also evaluated on the implementation's log",
            TRUST + "modelled not verified: std BufWriter (incl. retry on Interrupted, data kept on failure); "
            "all-or-nothing underlying writer",
            "machine-checked proof (Coq 8.16) on a hand-written model + differential correspondence check with fault enumeration",
            "DESIGN.md 8.C07"),
    "C19": ("proof",
            "Coq theorems (Props/C19.v, 10: c19_must_and_maximal, c19_buffer, c19_reset, c19_greedy_optimal, c19_count, c19_optimal, "
            "c19_count_segments + witnesses) about Model/Writer.v: at every reachable state and under every fault script an emit "
            "writes only if buffered+metric+terminator >= capacity and every datagram it flushes could not have taken the new "
            "metric; for fault-free lives of fitting metrics the number of datagrams carrying bytes EQUALS the number of blocks "
            "next-fit packing opens (per segment between explicit flushes), which is the minimum over all in-order partitions "
            "into blocks that fit.  Tied to io.rs by the correspondence check (run under fault scripts too; the local clauses "
            "are judged under faults, the datagram count on fault-free segments)",
            TRUST + "modelled not verified: std BufWriter; the count theorems assume no zero-length line (empty metric and "
            "empty terminator) and metrics that fit (oversized ones bypass the buffer and are not part of the packing)",
            "machine-checked proof (Coq 8.16) on a hand-written model + differential correspondence check",
            "DESIGN.md 8.C19"),
}

WIRE_NOTE = (TRUST + "modelled not verified: integer Display (transcribed as the canonical numeral, validated), "
             "Duration::as_millis/as_nanos, str::trim_end_matches, String growth; float text is std's impl Display for f64 "
             "(an assumption checked on every float used: non-empty, delimiter-free, finite values parse back bit-identically)")
QUEUE_NOTE = (TRUST + "modelled not verified: crossbeam-channel 0.5 (linearizable FIFO try_send/recv, bounded capacity, "
              "rendezvous at 0), Arc, std::thread, unwinding through Sentinel::drop; liveness assumes the OS schedules the "
              "worker (checked with settle timeouts); 'promptly' / 'on another thread' are runtime facts validated by the "
              "harness, not proved")
CHECKS.update({
    "C01": ("proof",
            "Coq theorems (Props/C01.v, 17 incl. c01_shape, c01_total, c01_roundtrip, c01_ctor, c01_codes, c01_refuted_v0) about "
            "Model/{Convert,Wire,Client}.v: for all prefixes, keys, values, tag lists, builder-call lists and all 22 entry points "
            "the text handed to the sink has exactly the DogStatsD shape and, for delimiter-free strings, an independent "
            "server-side parser recovers exactly what was supplied; tied to builder.rs/client.rs/types.rs by a correspondence "
            "check (exhaustive entry x form x 16 section combinations x defaults, boundary values, random clean and hostile "
            "strings; real StatsdClient + recording sink vs extracted model), entry-point census, and a reference evaluation "
            "of the clauses on the implementation's own output; macro form: see C17",
            WIRE_NOTE, "machine-checked proof (Coq 8.16) on a hand-written model + differential correspondence check",
            "DESIGN.md 8.C01"),
    "C02": ("proof",
            "Coq theorems (Props/C02.v, 20) : decimal rendering is canonical, injective and parses back for all Z/N; every "
            "integer entry point carries exactly its argument; Duration -> whole ms / ns with the u128 guard and the lossless "
            "cast, exact guard boundaries; packed lists rejected iff some element overflows, else element-wise in order; "
            "rejected values emit nothing.  Floats: cadence's delegation to std's Display is proved, std's shortest-round-trip "
            "printing is assumed and validated on every float used (partial).  Same correspondence check as C01 with guard "
            "boundaries +-1 and type extremes through every entry point",
            WIRE_NOTE, "machine-checked proof (Coq 8.16) on a hand-written model + differential correspondence check",
            "DESIGN.md 8.C02"),
    "C03": ("proof",
            "Coq theorems (Props/C03.v, 15) about Model/Client.v for all calls, forms and sink-outcome scripts: at most one "
            "emit, exactly one iff the value is accepted; Ok(metric) only if the sink accepted exactly that text; a refusal is "
            "reported as the sink's own io error; rejected value -> invalid-input, nothing emitted; the quiet form returns unit "
            "and calls the handler exactly once with the error try_send would return, never on success; lifted to call "
            "sequences.  Correspondence: scripted recording sink + logging handler, every script of length <= 2 x forms x "
            "valid/rejected exhaustively, longer random sequences",
            WIRE_NOTE, "machine-checked proof (Coq 8.16) on a hand-written model + differential correspondence check",
            "DESIGN.md 8.C03"),
    "C04": ("proof",
            "Coq theorems (Props/C04.v, 10): default tags first in configured order then the call's tags in order, per-call "
            "container id replaces the default for that call only, a client without defaults adds nothing - generic in kind and "
            "argument, for all configurations and builder-call lists; same correspondence check as C01 (defaults x per-call x "
            "entry x form product)",
            WIRE_NOTE, "machine-checked proof (Coq 8.16) on a hand-written model + differential correspondence check",
            "DESIGN.md 8.C04"),
    "C08": ("proof",
            "Coq theorems (Props/C08.v, 16) about the small-step machine Model/Queue.v (one event = one channel operation / "
            "atomic increment / call of the wrapped sink; all event lists = all interleavings, all capacities incl. 0 and "
            "unbounded, all outcome choices): delivered ++ in-flight ++ queued = acceptance order in every reachable state "
            "(nothing lost, duplicated or reordered; one metric at a time), the worker lives while a handle lives, and from "
            "every reachable state worker-side steps alone deliver everything accepted (measure-based termination); "
            "refutation of the pinned tree's Drop (c08_refuted_v0, defect D2).  Correspondence: scripted histories against a "
            "gated wrapped sink (every call blocks until the script releases it with ok/err/panic), exhaustive <= 4 actions x "
            "capacities {0,1,2,unbounded}, targeted families, random histories, concurrent soak with 2-8 producers; payload shapes "
            "(empty string, 100 kB, non-ASCII with newlines), four construction variants (builder orders, ::from / "
            "::with_capacity), drops by unwinding threads, flush() on handles in every queue state, 12 error kinds of the wrapped "
            "sink; sampled histories re-proved by vm_compute in Coq",
            QUEUE_NOTE, "machine-checked proof (Coq 8.16) on a hand-written model + differential correspondence check",
            "DESIGN.md 8.C08"),
    "C09": ("proof",
            "Coq theorems (Props/C09.v, 11): in every reachable state without a live handle, for every capacity, occupancy and "
            "outcome script, worker-side steps reach 'worker exited, everything accepted delivered, wrapped sink released'; "
            "DropH is one non-blocking step in every state; c09_stack composes the queue machine with the line-buffering writer "
            "(after the worker's exit a buffered wrapped sink has been driven with exactly the accepted metrics in order and "
            "dropped: everything accepted left in whole lines exactly once); refutations of the pinned tree (defect D3) for capacities 0, 1, 2.  "
            "Correspondence: last drop at every occupancy 0..capacity+1 x capacities {0,1,2,3,unbounded} x outcome patterns, "
            "observing the wrapped sink's Drop and the latency of drop(); the last handle also goes away on a thread that is "
            "unwinding from a panic",
            QUEUE_NOTE, "machine-checked proof (Coq 8.16) on a hand-written model + differential correspondence check",
            "DESIGN.md 8.C09"),
    "C10": ("proof",
            "Coq theorems (Props/C10.v, 10): the result of an emit is a function of capacity, queue length and whether the "
            "worker waits in recv only (independent of every past outcome), a bounded queue never exceeds its capacity, an "
            "unbounded queue accepts everything, emit is enabled in every state with a live handle whatever the worker does, "
            "only the worker-side finish event touches the delivery/handler/panic logs.  Partial: 'promptly' and 'on another "
            "thread' are runtime facts validated by the harness (latency bound with the gate closed, thread identity)",
            QUEUE_NOTE, "machine-checked proof (Coq 8.16) on a hand-written model + differential correspondence check",
            "DESIGN.md 8.C10"),
    "C11": ("proof",
            "Coq theorems (Props/C11.v, 11) for all outcome scripts over {ok, err, panic}: a panicking metric is consumed exactly "
            "once, all others are delivered once in order (commit + eventual delivery restated with panics, also with the stop "
            "pending), the sink keeps accepting, panics() = number of panics.  Correspondence: every outcome pattern of length "
            "<= 5, with and without pending stop, and unbroken runs of 17/20/33/70 panics (or errors) followed by ordinary "
            "traffic; the panic is raised inside the wrapped sink's emit",
            QUEUE_NOTE, "machine-checked proof (Coq 8.16) on a hand-written model + differential correspondence check",
            "DESIGN.md 8.C11"),
    "C15": ("proof",
            "Coq theorems (Props/C15.v, 10): at quiescent moments submitted = #Ok emits, drained = #handed to the wrapped sink, "
            "queued = difference = channel occupancy; refused emits change nothing; for EVERY placement of the two loads of "
            "queued() among other events the value is <= submitted and the subtraction is guarded; the transient drained > "
            "submitted is reachable (the guard is necessary).  Correspondence: samples after every action of the scripted "
            "histories + a free-running sampler thread in the concurrent soak",
            QUEUE_NOTE, "machine-checked proof (Coq 8.16) on a hand-written model + differential correspondence check",
            "DESIGN.md 8.C15"),
    "C16": ("proof",
            "Coq theorems (Props/C16.v, 9): with a handler, the handler log is exactly the failures of the delivery log, once "
            "each and in order, appended by the very event that completes the failing call (before the next metric); nothing "
            "for accepted or panicking metrics; without a handler nothing, delivery unaffected; only the worker-side finish "
            "event touches it.  Correspondence: ok/err patterns <= 5 with and without handler, payload identity and position "
            "relative to the wrapped sink's calls, thread identity",
            QUEUE_NOTE, "machine-checked proof (Coq 8.16) on a hand-written model + differential correspondence check",
            "DESIGN.md 8.C16"),
})

CHECKS.update({
    "C13": ("proof",
            "Coq theorems (Props/C13.v, 12) about Model/{Stats,Sock,Writer}.v: an unbuffered sink hands send_to exactly one "
            "datagram per emit whose payload is the metric's bytes unchanged, to the first resolved address, and passes the "
            "OS's answer through; the buffered sinks' datagram stream is the C05 stream of the line-buffering writer with "
            "terminator '\\n' and capacity 512 unless configured, the rest leaves on flush; the scenarios the correspondence "
            "check drives (emits/flushes/listener outages; Sock.sc_unbuffered, sc_buffered are Gallina functions, the OCaml "
            "glue only parses and prints, a sample is re-evaluated by the kernel on every run) are characterised for every "
            "script: the wire carries exactly the metrics emitted while the listener was there, every buffered datagram is "
            "whole lines within the capacity or one oversized metric alone.  Partial by nature: what the OS "
            "does with a datagram is outside any model - the correspondence check observes real UDP (127.0.0.1) and Unix "
            "datagram sockets (blocking/non-blocking, ASCII / multi-byte UTF-8 / whitespace-edged / empty / up to 60 kB "
            "metrics, listener down/up as fault script, address lists of length 0/1/2, optional queuing wrapper) and compares "
            "datagrams, results and stats with the model; also destinations given as SocketAddr / host:port string / (host, port) "
            "pair, a Unix path that is a symlink re-pointed to another listener after construction, failed flushes followed by "
            "flushes after the listener is back (clause: flush Ok with the listener up => everything acknowledged has arrived)",
            TRUST + "modelled not verified: UdpSocket/UnixDatagram::send_to (one all-or-nothing datagram), loopback delivery",
            "machine-checked proof (Coq 8.16) on a hand-written model + differential correspondence check on real local sockets",
            "DESIGN.md 8.C13"),
    "C14": ("proof",
            "Coq theorems (Props/C14.v, 11) about Model/{Stats,Sock}.v for all attempt sequences and ALL interleavings (permutations) of "
            "the atomic increments of concurrent updates: packets_sent + packets_dropped = attempts, bytes_sent / bytes_dropped = "
            "sizes accepted / offered-and-refused, modulo 2^64 as fetch_add wraps and exactly when the totals fit; unbuffered: "
            "attempts = emits; buffered: attempts = the writer's underlying writes; identical through a queuing wrapper; for every "
            "scenario with listener outages the counters read at the end are the totals of the datagrams on the wire and of "
            "the refused metrics, each emit in exactly one of the two.  "
            "Correspondence: MetricSink::stats() after every generated socket history (incl. refused sends via a vanished Unix "
            "listener and through QueuingMetricSink), SocketStats::update hammered from 4-8 threads, a shared UdpMetricSink "
            "with 4-8 emitting threads; SocketStats::update with every io::ErrorKind and written != len (family SU); real WouldBlock "
            "refusals on a non-blocking Unix socket whose listener does not read (family XW); statistics read through a "
            "QueuingMetricSink compared with the wrapped sink's own in every queue state (full bounded queue, busy worker, after "
            "errors and panics)",
            TRUST + "modelled not verified: AtomicU64::fetch_add (atomic, wrapping); sockets as in C13",
            "machine-checked proof (Coq 8.16) on a hand-written model + differential correspondence check on real local sockets",
            "DESIGN.md 8.C14"),
    "C12": ("proof",
            "Coq theorems (Props/C12.v, 8) about Model/Merge.v over Model/Writer.v: for every number of threads, all programs of "
            "emits/flushes, EVERY interleaving (is_merge; shown equivalent to 'every order in which the lock can be taken'), all "
            "capacities, terminators and fault scripts the stream of underlying writes satisfies C05's framing; fault-free every "
            "call is acknowledged and every metric leaves exactly once; each thread's buffered metrics leave in that thread's "
            "program order (also under faults: written ++ still-buffered metrics of a thread = its acknowledged fitting metrics, a "
            "sub-sequence of its program).  That a call is one atomic step is what the sink's Mutex provides: assumed by the "
            "theorems and checked on every observed trace.  Correspondence: 2-8 real threads through one shared StatsdClient into "
            "BufferedSpy/BufferedUdp/BufferedUnix sinks, hook H2 reports critical-section enter/exit and every underlying write; "
            "forced hand-overs (a thread parked inside the section while others arrive at the lock) and free runs with injected "
            "yields; the extracted model is replayed in the observed lock order and must reproduce every result and datagram; the "
            "clauses (framing, exactly-once, per-thread order, acknowledgements) are evaluated on the datagrams",
            TRUST + "hook H2; partial: std::sync::Mutex (mutual exclusion) is trusted and validated per trace, schedules are "
            "sampled not enumerated (the theorems cover all interleavings of atomic calls); std BufWriter and the sockets as in C05/C13",
            "machine-checked proof (Coq 8.16) on a hand-written model + differential correspondence check on real threads (observed lock order replayed in the model)",
            "DESIGN.md 8.C12"),
    "C17": ("proof",
            "Coq theorems (Props/C17.v, 13) about Model/Macro.v - the expansion of _generate_impl! as an instruction list run by an "
            "interpreter over the client model of C01/C03 - for every macro, argument, number of tag pairs, client configuration "
            "and sink script: with a global client set the macro hands the sink exactly the strings, the handler exactly the "
            "errors and consumes exactly the sink answers of <kind>_with_tags + with_tag per pair in written order + quiet send "
            "(one emit, the line of C01); every argument expression is evaluated exactly once in the written order; it panics "
            "iff no client is set, and then nothing is evaluated, emitted or handled; the seven front ends use the method of "
            "their own kind; whole processes (Macro.run_process: who offers a client first wins, later offers change nothing; "
            "with the observed client in the holder the invocations are the tagged quiet sends one after the other, with another "
            "client in it the observed sink sees nothing) - the process is run by the Gallina function, the OCaml glue only parses "
            "and prints, a sample is re-evaluated by the kernel on every run.  Correspondence: one fresh child process per case; 132 statically expanded call sites (22 value "
            "types x 0..5 tag pairs) whose argument expressions log their evaluation; clients with prefix/default tags/"
            "container/refusing sink/handler; invocations before the set, after a second (ignored) set, on fresh threads; "
            "compared with the extracted model and judged against the property with the reference evaluation of C01-C04; "
            "census of macros.rs and client.rs",
            WIRE_NOTE + "; partial by nature: macro_rules! expansion and Rust's evaluation order are the compiler's - the model "
            "abstracts them and the check validates them on every call site",
            "machine-checked proof (Coq 8.16) on a hand-written model + differential correspondence check (one process per global-client configuration)",
            "DESIGN.md 8.C17"),
    "C18": ("proof",
            "Coq theorems (Props/C18.v, 11) about a release/acquire view machine (Model/Singleton.v) for one atomic state and "
            "one non-atomic cell, for EVERY number of threads, programs over set/get/is_set and schedules incl. every stale-read "
            "choice, parameterised by the four Ordering arguments of state.rs: if the COMPLETE store is at least Release and "
            "is_set's load at least Acquire (ord_ok) then no data race, one cell write, first set wins, every get returns None or "
            "the winner's value after the initialising write (happens-before), COMPLETE is stable; ord_ok is also necessary "
            "(racy execution for each of the 625-|ok| records).  Tie: hook H1 traces every atomic operation with its DECLARED "
            "Ordering; per run ord_ok(observed) is re-proved by vm_compute (Obs_C18.v), all SC interleavings of all programs "
            "with <= 9 traced operations are executed on the real SingletonHolder by a blocking tracer and compared with the "
            "model, and a vector-clock checker over the declared orderings looks for unordered conflicting cell accesses",
            TRUST + "the pass-through shim cadence-macros/src/verif.rs (reports real arguments); memory model = RA fragment of C11 "
            "(SeqCst as AcqRel, release sequences through RMWs, no fences/consume/mo-insertion); stale reads covered by proof "
            "and model explorer only (x86 executions are SC)",
            "machine-checked proof (Coq 8.16) on a hand-written RA view machine + trace conformance on all SC interleavings",
            "DESIGN.md 8.C18"),
    "C20": ("proof",
            "Coq theorems (Props/C20.v, 9): written <= capacity is invariant, so capacity - written never underflows and no "
            "emit/flush/drop of the writer panics, for all capacities (0, 1 included), terminators, histories and fault scripts; "
            "every well-typed call is answered with a line or InvalidInput for arbitrary strings, numbers, Durations and lists, "
            "and is rejected exactly when a Duration count exceeds 64 bits or a packed list is empty; the narrowing cast is "
            "lossless behind its 128-bit guard; the size-hint arithmetic of builder.rs (modelled with checked +,*,-) neither "
            "overflows nor underflows for anything a 64-bit process can hold; queued() subtracts only behind its guard; the "
            "statistics counters wrap.  Correspondence: the hostile stream (delimiters, empty/1 MB strings, non-ASCII, extremes, "
            "NaN/inf, overflowing Durations, empty and 10^5-element lists) through StatsdClient over every sink and queuing "
            "wrapper with capacities 0/1/2, every writer history of <= 2 (thorough: 3) operations at capacities 0..3, "
            "SocketStats at u64::MAX, queuing life cycles - every call under catch_unwind on a harness built with overflow "
            "checks and debug assertions, optimised and debug profile; result kinds and the size hint computed by format() (hook "
            "H3) compared with the model",
            TRUST + "partial: proved = no arithmetic panic / unwrap on None in the modelled cores; validated only = "
            "lock().unwrap(), std internals; the size hint is observed through hook H3 (fmt.size_hint) and compared with the model on "
            "every call; excluded = "
            "allocation failure, capacities beyond addressable memory, failing thread::spawn, panics of user-supplied sinks/handlers",
            "machine-checked proof (Coq 8.16) on hand-written models + hostile-input correspondence check under catch_unwind (overflow checks on, two profiles)",
            "DESIGN.md 8.C20"),
})

PENDING = "check not built yet in this session (under construction; not a claim that the technique cannot apply)"


# correspondence families added after the seeded-change rounds 4-5 (DESIGN.md 13.3); appended to the texts above
LATER = {
    "C01": "Also: From<String> of every metric type keeps its text; the same tag repeated on one call; the scripted sink logs "
           "flush() (a metric call must not flush).",
    "C03": "Also: sinks that answer Ok(n) for arbitrary n; an error handler that itself makes a failing quiet send on the same "
           "client (family XN); two threads failing at once while the first handler invocation is still running (XT); sink "
           "errors whose payload is one of the crate's own MetricErrors.  The position of with_error_handler in the client builder chain varies with the case.",
    "C06": "Also: the writer histories - fault histories included - driven through a StatsdClient over a user-written buffered "
           "sink (family CW: send_metric(&Counter::from(text)), StatsdClient::flush).  The clauses proved for every fault script (exactly once, order, own emit, a flush that returns Ok has written everything acknowledged before it, flushing again writes nothing) are evaluated on the fault histories of family CW too; metrics ending in LF or in the terminator's own bytes.  The queuing wrapper of family QF is built by from / the builder with a handler / with capacity and handler in both orders; a non-blocking Unix socket whose listener falls behind and reads again (XW).",
    "C07": "Also: family CW (histories through StatsdClient) and family UR (the real UDP sinks over a socket connected to a "
           "closed port: ECONNREFUSED on every other send, then a listener appears) - every call must return.  Outages in which the listener's socket file stays (ECONNREFUSED), family c.",
    "C10": "Also: the usize an accepted emit returns is the metric's byte length (non-ASCII payloads); the bound of large "
           "queues (capacities 70 000, 2^20, 2^20+3: worker parked, capacity + k emits, exactly capacity accepted).  An unbounded queue with its worker parked accepts more than 2^21 metrics (QB u).  Builder options set twice (constructor 4: the option set last is in force).",
    "C11": "Also: unbroken runs of 17-70 panics; a panic soak of 28 000 panics over the life of one sink (own process).  The same metric text emitted repeatedly (payload shape d) around panics and failures.",
    "C13": "Also: statistics read in the middle of a history (op s: reading puts nothing on the wire), UDP sockets connected "
           "to a closed port (family UR); capacities above one IPv4 datagram (an emit that fits the configured capacity puts "
           "nothing on the wire); Unix paths that cannot be socket addresses (family XL).  Unix paths that are not valid UTF-8 with a second listener at the lossy name (families XN / BXN).  Outages with the socket file left behind (op c); emits made by a destructor of an unwinding thread (op P); an IPv4 sender whose first resolved address is IPv6 (UA4); address arguments that yield no address (UE).  65 508 / 65 527-byte metrics to an IPv6 listener (UO6); recovery after WouldBlock (XW).  A sink handed a socket already connected to another peer (UK); flush idempotence on the real sockets.",
    "C14": "Also: statistics read in the middle of a history equal the figures of the datagrams received so far; families UR "
           "and XL (sends refused before they reach the OS are dropped packets too).  Family UA4 (every send to an unreachable first address is one dropped packet; the second address is no fallback).",
    "C02": "Also: the value section of every standalone constructor's text against the canonical numeral; Display of every "
           "MetricValue variant against join ':' (value_texts v) (wire family V).",
    "C04": "Also: the position of with_error_handler in the client builder chain (first / between / after the default tags / "
           "last) varies with the case.",
    "C05": "Also: metrics ending in white space, LF or the writer's own (possibly multi-byte) terminator.  The real buffered UDP sink with more buffered than a datagram can carry and a 70 000-byte metric (families UO, BU 70000).",
    "C08": "Also: wrapped sinks answering Ok(k) for arbitrary k (Rn<k>); family QD: scripted histories with ANOTHER queuing "
           "sink alive in the process (full with its stop pending / respawned after a panic), which must deliver and be "
           "released too.  Producers that are worker threads of a queuing sink (family QW: chained sinks, a handler emitting through a clone).",
    "C09": "Also: family QD (two queuing sinks in one process: the other one full with its stop marker pending for the whole "
           "history).  Handles dropped by a fresh unnamed thread (op T).",
    "C12": "Also: calls made by a destructor while the calling thread unwinds from a caught panic (ops G / g).  The shared buffer under real back-pressure (sock family XW, buffered: WouldBlock, then recovery).",
    "C15": "Also: soaks of 8-12 producers released together by a barrier (lost updates of a counter need overlapping increments).  The counters at the quiescent end of the panic soaks.",
    "C16": "Also: a wrapped sink that answers Ok(0) (accepted: the handler stays silent); an unscripted flush of the wrapped "
           "sink answers with an error of its own (a worker that flushes shows up in the handler's record); failures that carry a "
           "raw OS errno, the same one several times in a row.  Wrapped sinks answering Ok(k) for arbitrary k (release outcome Rn<k>).  Constructor 4: a first handler that must never run.",
    "C17": "Also: the holder's read functions get_global_default / is_global_default_set before, between and after the sets, on "
           "the calling and on fresh threads; a macro must not flush the sink.  Invocations made by a destructor while its thread unwinds from a panic (step U).  An invocation whose value expression invokes another macro (step N).",
    "C18": "Also: programs that format the holder with {:?} under the scheduler (a trait impl is a fourth access path); the "
           "global holder through set_global_default / get_global_default / is_global_default_set in fresh processes; two "
           "compile-fail witnesses for the bounds of the unsafe Send/Sync impls.  Every schedule the model enumerates for small programs also runs, each in a fresh child process, on the process-wide holder through the three free functions under the blocking tracer (family G).",
    "C19": "Also: the real buffered socket sinks with their statistics read while lines are buffered (reading is not an "
           "occasion to write).",
    "C20": "Also: Debug formatting (plain and pretty) of every sink and of the client; the writer's fault histories in both "
           "build profiles.  Display of every MetricValue variant, empty packed lists included (wire family V).  The three UDP constructors with an address argument that yields no address (UE).",
}


def main():
    checks = []
    for pid in ALL:
        if pid not in CHECKS:
            continue
        cat, text, note, tech, ref = CHECKS[pid]
        if pid in LATER:
            text = text + "  " + LATER[pid]
        # theorem counts and the statements added after the audit are read off the Props file itself
        pv = open(os.path.join(HERE, "coq", "theories", "Props", pid + ".v")).read()
        nthm = len(re.findall(r"^Theorem\s", pv, re.M))
        text = re.sub(r"\(Props/%s\.v, \d+" % pid, "(Props/%s.v, %d" % (pid, nthm), text)
        if "==== added after the audit" in pv:
            added = re.findall(r"^Theorem\s+(\S+)", pv.split("==== added after the audit", 1)[1], re.M)
            text += ("  Added after a read-only audit of the pinned statements against the property text "
                     "(selftest/audit/REPORT-2026-10-02.md; DESIGN.md 13.6): " + ", ".join(added) + ".")
        checks.append({
            "property_id": pid,
            "quick_cmd": "./check %s --tier quick" % pid,
            "thorough_cmd": "./check %s --tier thorough" % pid,
            "evidence_file": "/verif/evidence/%s.json" % pid,
            "replay_cmd_template": "./check %s --replay {path}" % pid,
            "engine": "coq-model+correspondence",
            "level_claimed": {"category": cat, "text": text, "design_ref": ref},
            "level_note": note,
            "technique": tech,
        })
    m = {
        "version": 1,
        "setup_cmd": "./setup.sh",
        "hooks": {
            "guard": "cadence_verif",
            "enable": "RUSTFLAGS=\"--cfg cadence_verif\" (set by driver/common.py when it builds /verif/harness against /repo)",
            "baseline_off_cmd": "cd /repo && cargo test --workspace --no-fail-fast --offline",
            "source_commits": json.load(open(os.path.join(HERE, "tools", "hook_commits.json"))) if os.path.exists(os.path.join(HERE, "tools", "hook_commits.json")) else [],
            "add_only": True,
        },
        "engines": [{
            "name": "coq-model+correspondence", "path": "/verif/check", "serves_properties": sorted(CHECKS),
            "kind_free_text": "Coq 8.16 development (coq/theories: Model, Proofs, Props) + extracted OCaml model runner + "
                              "Rust harness built on /repo's working tree + python driver",
        }],
        "checks": checks,
        "notes": "see DESIGN.md; KNOWN_FINDINGS.txt lists the three defects repaired by fix: commits in /repo",
        "not_applicable": [{"property_id": p, "reason": PENDING} for p in ALL if p not in CHECKS],
    }
    with open(os.path.join(HERE, "MANIFEST.json"), "w") as f:
        json.dump(m, f, indent=1)
        f.write("\n")


if __name__ == "__main__":
    main()
