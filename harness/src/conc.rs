//! `conc`: several threads emitting and flushing through ONE shared StatsdClient into one
//! buffered sink (BufferedSpyMetricSink, BufferedUdpMetricSink, BufferedUnixMetricSink).
//!
//! case:  C <S|U|X|N> <cap|d> <queue|u> <seq|free> <seed> <progs> <plan>      (N = X on a non-blocking socket whose listener
//!                                                                           is not read while the threads run)
//!   progs = per-thread programs separated by '/', each a comma list of
//!             C<hexkey>   client.count(key, <index of the op>)        (through the shared client)
//!             E<hex>      emit of the given string on the shared sink (MetricSink::emit)
//!             G<hexkey> / g<hex>   the same two calls made by a destructor while the thread unwinds from a panic
//!             F           client.flush()
//!             f           MetricSink::flush on the shared sink
//!   plan  = seq : comma list of steps  t  |  t+u[+v..]   (thread t performs its next op; with +u.. thread t is
//!                 parked inside the sink's critical section (hook "sink.cs.enter") while u.. start their next
//!                 op, which must wait for the lock; then t is released)
//!           free: '-' (all threads run their programs freely; the hook injects yields inside and around the
//!                 critical sections, derived from <seed>)
//! observation:
//!   V:<events>|T:<per thread ';': per call ',': metric handed to the sink (hex | F) '=' result k<n>|e '@' start.end.writes >
//!   |R:<per thread ';': per op K (Ok) | R (Err) | P (panic)>|D:<datagrams hex ';'>|H:<notes>
//!   events = the hook events in global order: <role><e|w|x>  (enter / underlying write / exit of a critical
//!            section; role = thread number, m = any other thread)
use crate::util::{catch, hex, unhex};
use cadence::prelude::*;
use cadence::{BufferedSpyMetricSink, BufferedUdpMetricSink, BufferedUnixMetricSink, MetricSink, StatsdClient};
use std::cell::{Cell, RefCell};
use std::io;
use std::net::UdpSocket;
use std::os::unix::net::UnixDatagram;
use std::panic::RefUnwindSafe;
use std::path::PathBuf;
use std::sync::atomic::{AtomicBool, AtomicU64, Ordering};
use std::sync::mpsc;
use std::sync::{Arc, Barrier, Condvar, Mutex};
use std::thread;
use std::time::{Duration, Instant};

thread_local! {
    static ROLE: Cell<usize> = Cell::new(usize::MAX);
    static TLOG: RefCell<Vec<String>> = RefCell::new(Vec::new());
}

static COUNTER: AtomicU64 = AtomicU64::new(0);

struct Hold {
    role: Option<usize>,
    parked: bool,
    release: bool,
}

struct Ctl {
    events: Mutex<Vec<(usize, u8)>>,
    hold: Mutex<Hold>,
    cv: Condvar,
    free: bool,
    seed: u64,
    n: AtomicU64,
    clock: AtomicU64,
    writes: AtomicU64,
}

fn mix(mut x: u64) -> u64 {
    x ^= x >> 33;
    x = x.wrapping_mul(0xff51afd7ed558ccd);
    x ^= x >> 33;
    x = x.wrapping_mul(0xc4ceb9fe1a85ec53);
    x ^ (x >> 33)
}

impl Ctl {
    fn hook(&self, site: &'static str) {
        let code = match site {
            "sink.cs.enter" => b'e',
            "sink.write" => b'w',
            "sink.cs.exit" => b'x',
            _ => return,
        };
        let role = ROLE.with(|r| r.get());
        {
            let mut ev = self.events.lock().unwrap();
            ev.push((role, code));
            if code == b'w' {
                self.writes.fetch_add(1, Ordering::SeqCst);
            }
        }
        if self.free {
            let k = self.n.fetch_add(1, Ordering::Relaxed);
            let r = mix(self.seed ^ k.wrapping_mul(0x9e3779b97f4a7c15));
            match r % 8 {
                0 | 1 => thread::yield_now(),
                2 => {
                    for _ in 0..3 {
                        thread::yield_now();
                    }
                }
                3 => {
                    let t0 = Instant::now();
                    while t0.elapsed() < Duration::from_micros(30 + (r >> 8) % 100) {
                        std::hint::spin_loop();
                    }
                }
                _ => {}
            }
        } else if code == b'e' {
            let mut h = self.hold.lock().unwrap();
            if h.role == Some(role) {
                h.parked = true;
                self.cv.notify_all();
                let t0 = Instant::now();
                while !h.release && t0.elapsed() < Duration::from_secs(5) {
                    let (g, _) = self.cv.wait_timeout(h, Duration::from_millis(50)).unwrap();
                    h = g;
                }
                h.role = None;
                h.parked = false;
                h.release = false;
            }
        }
    }
}

/// records, on the calling thread, what is handed to the shared sink and what it answers
/// (each entry also carries three stamps: a global clock at the start and at the end of the call, and the number of
/// underlying writes made by anyone when the call returned)
struct Tee(Arc<dyn MetricSink + Send + Sync + RefUnwindSafe>, Arc<Ctl>);

impl MetricSink for Tee {
    fn emit(&self, metric: &str) -> io::Result<usize> {
        let t0 = self.1.clock.fetch_add(1, Ordering::SeqCst);
        let r = self.0.emit(metric);
        let w = self.1.writes.load(Ordering::SeqCst);
        let t1 = self.1.clock.fetch_add(1, Ordering::SeqCst);
        let s = match &r {
            Ok(n) => format!("{}=k{}@{}.{}.{}", hex(metric.as_bytes()), n, t0, t1, w),
            Err(_) => format!("{}=e@{}.{}.{}", hex(metric.as_bytes()), t0, t1, w),
        };
        TLOG.with(|l| l.borrow_mut().push(s));
        r
    }
    fn flush(&self) -> io::Result<()> {
        let t0 = self.1.clock.fetch_add(1, Ordering::SeqCst);
        let r = self.0.flush();
        let w = self.1.writes.load(Ordering::SeqCst);
        let t1 = self.1.clock.fetch_add(1, Ordering::SeqCst);
        let s = match &r {
            Ok(()) => format!("F=k0@{}.{}.{}", t0, t1, w),
            Err(_) => format!("F=e@{}.{}.{}", t0, t1, w),
        };
        TLOG.with(|l| l.borrow_mut().push(s));
        r
    }
}

enum Recv {
    Spy(crossbeam_channel::Receiver<Vec<u8>>),
    Udp(UdpSocket),
    Unix(UnixDatagram, PathBuf),
}

fn do_op(op: &str, idx: usize, client: &StatsdClient, tee: &Arc<Tee>) -> char {
    let r = catch(|| match &op[..1] {
        "C" => {
            let key = String::from_utf8(unhex(&op[1..])).expect("utf8 key");
            client.count(key.as_str(), idx as i64).is_ok()
        }
        "E" => {
            let m = String::from_utf8(unhex(&op[1..])).expect("utf8 metric");
            tee.emit(&m).is_ok()
        }
        "G" | "g" => {
            // the same call made by a destructor that runs while this thread unwinds from a panic (caught right after):
            // a scope guard reporting "request finished" - a call like any other
            let text = String::from_utf8(unhex(&op[1..])).expect("utf8");
            let out = Cell::new(false);
            let f = || {
                if &op[..1] == "G" {
                    client.count(text.as_str(), idx as i64).is_ok()
                } else {
                    tee.emit(&text).is_ok()
                }
            };
            struct Guard<'a>(&'a dyn Fn() -> bool, &'a Cell<bool>);
            impl<'a> Drop for Guard<'a> {
                fn drop(&mut self) {
                    self.1.set((self.0)());
                }
            }
            let _ = std::panic::catch_unwind(std::panic::AssertUnwindSafe(|| {
                let _g = Guard(&f, &out);
                panic!("unwinding with a metrics guard alive");
            }));
            out.get()
        }
        "F" => client.flush().is_ok(),
        "f" => tee.flush().is_ok(),
        _ => panic!("bad op {}", op),
    });
    match r {
        Ok(true) => 'K',
        Ok(false) => 'R',
        Err(_) => 'P',
    }
}

pub fn run_case(line: &str) -> String {
    let t: Vec<&str> = line.split_whitespace().collect();
    assert!(t[0] == "C", "bad conc case {:?}", line);
    let cap: Option<usize> = if t[2] == "d" { None } else { Some(t[2].parse().unwrap()) };
    let queue: Option<usize> = if t[3] == "u" { None } else { Some(t[3].parse().unwrap()) };
    let free = t[4] == "free";
    let seed: u64 = t[5].parse().unwrap();
    let progs: Vec<Vec<String>> = t[6]
        .split('/')
        .map(|p| if p == "-" { vec![] } else { p.split(',').map(|s| s.to_string()).collect() })
        .collect();
    let nthreads = progs.len();

    // the shared sink and its receiving end
    let (inner, recv): (Arc<dyn MetricSink + Send + Sync + RefUnwindSafe>, Recv) = match t[1] {
        "S" => {
            let (rx, sink) = BufferedSpyMetricSink::with_capacity(queue, cap);
            (Arc::new(sink), Recv::Spy(rx))
        }
        "U" => {
            let r = UdpSocket::bind("127.0.0.1:0").expect("bind");
            r.set_nonblocking(true).unwrap();
            let addr = r.local_addr().unwrap();
            let s = UdpSocket::bind("127.0.0.1:0").expect("bind");
            let sink = match cap {
                None => BufferedUdpMetricSink::from(addr, s).expect("sink"),
                Some(c) => BufferedUdpMetricSink::with_capacity(addr, s, c).expect("sink"),
            };
            (Arc::new(sink), Recv::Udp(r))
        }
        "X" | "N" => {
            let n = COUNTER.fetch_add(1, Ordering::Relaxed);
            let base = std::env::var("VERIF_TMP").unwrap_or_else(|_| "/tmp".to_string());
            let p = PathBuf::from(format!("{}/cadence-verif-conc-{}-{}.sock", base, std::process::id(), n));
            let _ = std::fs::remove_file(&p);
            let r = UnixDatagram::bind(&p).expect("bind unix");
            r.set_nonblocking(true).unwrap();
            let s = UnixDatagram::unbound().expect("unbound");
            if t[1] == "N" {
                // non-blocking socket; the listener is not read until the threads are done: sends fail with WouldBlock
                // once its queue is full
                s.set_nonblocking(true).unwrap();
            }
            let sink = match cap {
                None => BufferedUnixMetricSink::from(&p, s),
                Some(c) => BufferedUnixMetricSink::with_capacity(&p, s, c),
            };
            (Arc::new(sink), Recv::Unix(r, p))
        }
        _ => panic!("bad sink {}", t[1]),
    };
    let ctl = Arc::new(Ctl {
        events: Mutex::new(vec![]),
        hold: Mutex::new(Hold { role: None, parked: false, release: false }),
        cv: Condvar::new(),
        free,
        seed,
        n: AtomicU64::new(0),
        clock: AtomicU64::new(0),
        writes: AtomicU64::new(0),
    });
    let tee = Arc::new(Tee(inner, ctl.clone()));
    struct Fwd(Arc<Tee>);
    impl MetricSink for Fwd {
        fn emit(&self, m: &str) -> io::Result<usize> {
            self.0.emit(m)
        }
        fn flush(&self) -> io::Result<()> {
            self.0.flush()
        }
    }
    let client = Arc::new(StatsdClient::from_sink("", Fwd(tee.clone())));

    // datagram collector for the socket sinks (keeps the receive queue short)
    let stop_rx = Arc::new(AtomicBool::new(false));
    let hold_rx = Arc::new(AtomicBool::new(t[1] == "N"));
    let collected: Arc<Mutex<Vec<Vec<u8>>>> = Arc::new(Mutex::new(vec![]));
    let idle_polls = Arc::new(std::sync::atomic::AtomicU64::new(0));      // times the collector found the socket empty
    let collector = match &recv {
        Recv::Spy(_) => None,
        Recv::Udp(_) | Recv::Unix(_, _) => {
            let stop = stop_rx.clone();
            let hold = hold_rx.clone();
            let col = collected.clone();
            let idle = idle_polls.clone();
            let sock: Box<dyn Fn(&mut [u8]) -> Option<usize> + Send> = match &recv {
                Recv::Udp(s) => {
                    let s = s.try_clone().unwrap();
                    Box::new(move |b| s.recv(b).ok())
                }
                Recv::Unix(s, _) => {
                    let s = s.try_clone().unwrap();
                    Box::new(move |b| s.recv(b).ok())
                }
                _ => unreachable!(),
            };
            Some(thread::spawn(move || {
                let mut buf = vec![0u8; 70_000];
                let mut quiet = Instant::now();
                loop {
                    if hold.load(Ordering::SeqCst) {
                        thread::sleep(Duration::from_micros(300));
                        continue;
                    }
                    match sock(&mut buf) {
                        Some(n) => {
                            col.lock().unwrap().push(buf[..n].to_vec());
                            quiet = Instant::now();
                        }
                        None => {
                            idle.fetch_add(1, Ordering::SeqCst);
                            if stop.load(Ordering::SeqCst) && quiet.elapsed() > Duration::from_millis(25) {
                                break;
                            }
                            thread::sleep(Duration::from_micros(200));
                        }
                    }
                }
            }))
        }
    };

    let c2 = ctl.clone();
    cadence::verif::install(Arc::new(move |site| c2.hook(site)));

    let mut notes: Vec<String> = vec![];
    let mut go_tx: Vec<mpsc::Sender<()>> = vec![];
    let (done_tx, done_rx) = mpsc::channel::<usize>();
    let barrier = Arc::new(Barrier::new(nthreads + 1));
    let mut handles = vec![];
    for (tid, prog) in progs.iter().cloned().enumerate() {
        let (tx, rx) = mpsc::channel::<()>();
        go_tx.push(tx);
        let client = client.clone();
        let tee = tee.clone();
        let done = done_tx.clone();
        let barrier = barrier.clone();
        handles.push(thread::spawn(move || {
            ROLE.with(|r| r.set(tid));
            let mut res = String::new();
            barrier.wait();
            for (j, op) in prog.iter().enumerate() {
                if !free {
                    if rx.recv().is_err() {
                        break;
                    }
                }
                res.push(do_op(op, j, &client, &tee));
                if !free {
                    let _ = done.send(tid);
                }
            }
            let log = TLOG.with(|l| l.borrow().join(","));
            (res, log)
        }));
    }
    barrier.wait();
    if !free && t[7] != "-" {
        let mut issued = vec![0usize; nthreads];
        for step in t[7].split(',') {
            let ths: Vec<usize> = step.split('+').map(|x| x.parse().unwrap()).collect();
            let ths: Vec<usize> = ths.into_iter().filter(|&x| x < nthreads).collect();
            // only threads that still have an operation left take part, each once
            let mut part: Vec<usize> = vec![];
            for &x in &ths {
                if issued[x] < progs[x].len() && !part.contains(&x) {
                    part.push(x);
                }
            }
            if part.is_empty() {
                continue;
            }
            if part.len() > 1 {
                ctl.hold.lock().unwrap().role = Some(part[0]);
            }
            let _ = go_tx[part[0]].send(());
            issued[part[0]] += 1;
            if part.len() > 1 {
                // wait until the holder is parked inside its critical section
                let mut h = ctl.hold.lock().unwrap();
                let t0 = Instant::now();
                while !h.parked && t0.elapsed() < Duration::from_millis(300) {
                    let (g, _) = ctl.cv.wait_timeout(h, Duration::from_millis(20)).unwrap();
                    h = g;
                }
                let parked = h.parked;
                drop(h);
                if !parked {
                    notes.push(format!("nopark{}", part[0]));
                }
                for &u in &part[1..] {
                    let _ = go_tx[u].send(());
                    issued[u] += 1;
                }
                // give the others time to arrive at the lock
                let t0 = Instant::now();
                while t0.elapsed() < Duration::from_micros(400) {
                    thread::yield_now();
                }
                let mut h = ctl.hold.lock().unwrap();
                h.release = true;
                if !h.parked {
                    h.role = None;
                    h.release = false;
                }
                ctl.cv.notify_all();
            }
            for _ in 0..part.len() {
                if done_rx.recv_timeout(Duration::from_secs(10)).is_err() {
                    notes.push("timeout".to_string());
                    break;
                }
            }
        }
        // whatever the plan left over runs sequentially, thread by thread
        for x in 0..nthreads {
            while issued[x] < progs[x].len() {
                let _ = go_tx[x].send(());
                issued[x] += 1;
                if done_rx.recv_timeout(Duration::from_secs(10)).is_err() {
                    notes.push("timeout".to_string());
                    break;
                }
            }
        }
    }
    drop(go_tx);
    let mut per_thread_res = vec![];
    let mut per_thread_log = vec![];
    for h in handles {
        match h.join() {
            Ok((r, l)) => {
                per_thread_res.push(r);
                per_thread_log.push(l);
            }
            Err(_) => {
                per_thread_res.push("P".to_string());
                per_thread_log.push(String::new());
            }
        }
    }
    hold_rx.store(false, Ordering::SeqCst);
    if t[1] == "N" {
        // let the listener drain its queue before the final flush: until it has found the socket empty twice more
        let base = idle_polls.load(Ordering::SeqCst);
        let t0 = Instant::now();
        while idle_polls.load(Ordering::SeqCst) < base + 2 && t0.elapsed() < Duration::from_secs(5) {
            thread::sleep(Duration::from_micros(300));
        }
    }
    // the final drop: client -> Fwd -> Tee -> sink (BufWriter::drop flushes what is left)
    let dropped = catch(move || {
        drop(client);
        drop(tee);
    });
    if dropped.is_err() {
        notes.push("droppanic".to_string());
    }
    cadence::verif::uninstall();
    let dg: Vec<Vec<u8>> = match recv {
        Recv::Spy(rx) => rx.try_iter().collect(),
        Recv::Udp(_) => {
            stop_rx.store(true, Ordering::SeqCst);
            collector.unwrap().join().unwrap();
            collected.lock().unwrap().clone()
        }
        Recv::Unix(_, p) => {
            stop_rx.store(true, Ordering::SeqCst);
            collector.unwrap().join().unwrap();
            let _ = std::fs::remove_file(&p);
            collected.lock().unwrap().clone()
        }
    };
    let ev = ctl.events.lock().unwrap();
    let mut evs = String::with_capacity(ev.len() * 3);
    for (i, (role, code)) in ev.iter().enumerate() {
        if i > 0 {
            evs.push('.');
        }
        if *role == usize::MAX {
            evs.push('m');
        } else {
            evs.push_str(&role.to_string());
        }
        evs.push(*code as char);
    }
    format!(
        "V:{}|T:{}|R:{}|D:{}|H:{}",
        evs,
        per_thread_log.join(";"),
        per_thread_res.join(";"),
        dg.iter().map(|d| hex(d)).collect::<Vec<_>>().join(";"),
        notes.join(",")
    )
}
