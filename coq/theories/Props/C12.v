(* C12 — Concurrent emitters through a shared buffered sink stay line-atomic.

   Pinned statements.  Model: Cadence.Model.Merge over Cadence.Model.Writer.  Threads
   [0 .. length ps - 1] run the programs [ps] (any lists of emit / flush) against one
   shared buffered writer; the sink's mutex makes every call one atomic step, so a
   concurrent run is the sequential writer executed on an interleaving [l] of the programs
   ([is_merge ps l]: a list of (thread, operation) pairs in which every thread's operations
   occur in program order, all of them).  The theorems hold for EVERY interleaving, every
   number of threads, every capacity, terminator and fault script.  Ghost identity of a
   metric: (position of its emit in the interleaving, bytes); [owner l t g]: identity [g]
   was emitted by thread [t].  That calls are atomic is what std::sync::Mutex provides; it
   is validated on the running code by the correspondence check (critical-section events of
   hook H2), not proved. *)
Require Import Cadence.Base.Prelude.
Require Import Cadence.Model.Writer.
Require Import Cadence.Model.Merge.
Require Import Cadence.Proofs.WriterBase.
Require Import Cadence.Proofs.WriterInv.
Require Import Cadence.Proofs.WriterRun.
Require Import Cadence.Proofs.WriterThms.
Require Import Cadence.Proofs.MergeProofs.

(* framing (C05) for every interleaving: each write on the underlying socket is whole
   lines within the capacity or one oversized metric alone *)
Theorem c12_frame : forall (ps : list (list op)) l c e script rs s,
  is_merge ps l ->
  run c e script (map snd l) = (rs, s) ->
  Forall (fun a =>
    match a_lab a with
    | Lines ms => ms <> [] /\
                  a_bytes a = concat (map (fun g => snd g ++ e) ms) /\
                  length (a_bytes a) <= c
    | Alone m => a_bytes a = snd m /\ c < length (snd m) + length e
    end) (lg s).
Proof. intros ps l c e script rs s _ R. exact (frame_all _ _ _ _ _ _ R). Qed.

(* conservation (C06) for every interleaving of a fault-free run: every call is
   acknowledged, every fitting metric is written exactly once in whole lines, every
   oversized one exactly once alone, identities are pairwise distinct *)
Theorem c12_once : forall (ps : list (list op)) l c e rs s,
  is_merge ps l ->
  run c e [] (map snd l) = (rs, s) ->
  Forall2 (fun o x => x = OOk (match o with Emit m => length m | Flush => 0 end)) (map snd l) rs /\
  filter (nzb e) (sentL (lg s)) = filter (nzb e) (filter (fitg c e) (emitted 0 (map snd l))) /\
  sentA (lg s) = filter (fun g => negb (fitg c e g)) (emitted 0 (map snd l)) /\
  NoDup (map fst (emitted 0 (map snd l))).
Proof.
  intros ps l c e rs s _ R. destruct (fault_free_conserve _ _ _ _ _ R) as (A & B & _).
  split; [|repeat split; auto using emitted_nodup].
  unfold run in R. destruct (run_from (init c e []) 0 (map snd l)) as [rs0 s0] eqn:R0.
  inversion R; subst. exact (fault_free_all_ok _ _ _ _ _ R0).
Qed.

(* each thread's buffered metrics leave in that thread's program order: in a fault-free
   run the fitting (non-empty) metrics of thread [t] found in the successful line writes,
   read off in stream order, are exactly the fitting metrics of [t]'s program, in program
   order *)
Theorem c12_thread_order : forall (ps : list (list op)) l c e rs s t,
  is_merge ps l ->
  run c e [] (map snd l) = (rs, s) ->
  map snd (filter (nzb e) (filter (owner l t) (sentL (lg s)))) =
    filter (fun m => nzb e (0, m) && fitsb c e m) (emits_of (nth t ps [])).
Proof. intros ps l c e rs s t. apply thread_order_ok. Qed.

(* ... and under any fault script: what thread [t] got written in whole lines, followed by
   what it still has in the buffer, is the list of its acknowledged fitting metrics, which
   is a sub-sequence of its program's emits (order never changes, nothing is invented) *)
Theorem c12_thread_order_faults : forall (ps : list (list op)) l c e script rs s t,
  is_merge ps l ->
  run c e script (map snd l) = (rs, s) ->
  filter (nzb e) (filter (owner l t) (sentL (lg s) ++ bids s)) =
    filter (nzb e) (filter (fitg c e) (filter (owner l t) (acked 0 (map snd l) rs))) /\
  sublist (map snd (filter (owner l t) (acked 0 (map snd l) rs))) (emits_of (nth t ps [])).
Proof. intros ps l c e script rs s t. apply thread_order. Qed.

(* in an interleaving every thread's calls occur in its program order, all of them *)
Theorem c12_projection : forall (ps : list (list op)) l t,
  is_merge ps l -> proj t l = nth t ps [].
Proof. intros ps l t M. now apply proj_merge. Qed.

(* "every interleaving" is the same as "every order in which the lock may be taken": each
   interleaving is the one chosen by a schedule (its own sequence of thread numbers), and a
   schedule that lets every thread finish chooses an interleaving *)
Theorem c12_schedules : forall (ps : list (list op)),
  (forall l, is_merge ps l -> merge_by (map fst l) ps = l) /\
  (forall sched, Forall (fun p => p = []) (rest_by sched ps) -> is_merge ps (merge_by sched ps)).
Proof. intros ps. split; [apply is_merge_sched|intros sched; apply merge_by_complete]. Qed.

(* a schedule that stops early: what each thread has done so far is a prefix of its program *)
Theorem c12_prefix : forall (ps : list (list op)) sched t,
  proj t (merge_by sched ps) ++ nth t (rest_by sched ps) [] = nth t ps [].
Proof. intros ps sched t. apply merge_by_proj. Qed.

(* non-vacuity: three threads, capacity 8; thread 1's oversized metric goes out alone in its
   own call while the others' lines are packed together; per-thread order is kept *)
Example c12_witness :
  let ps := [[Emit [1;1]; Emit [1;2]; Flush]; [Emit [2;1;1;1;1;1;1;1;1]; Emit [2;2]]; [Emit [3;1]]]%N in
  let sched := [0; 1; 2; 1; 0; 0; 5; 1] in
  let '(l, rs, s) := conc_sink (Some 8) [] ps sched in
  (map fst l, rs, map (fun a => (a_op a, a_bytes a)) (lg s), rest_by sched ps) =
  ([0; 1; 2; 1; 0; 0], [OOk 2; OOk 9; OOk 2; OOk 2; OOk 2; OOk 0],
   [(1, [2;1;1;1;1;1;1;1;1]%N); (3, [1;1;10;3;1;10]%N); (5, [2;2;10;1;2;10]%N)], [[]; []; []]).
Proof. vm_compute. reflexivity. Qed.
